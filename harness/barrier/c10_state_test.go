//go:build verif

package barrier

// C10a - seal state and key rotation at the barrier level.
//
// One case = one transactional in-memory physical store with two AESGCMBarrier instances on it (the
// ACTIVE one writes, rotates and rekeys; the STANDBY one follows through the upgrade path), driven by
// a rapid state machine that can also make one storage write of an operation fail.
//
// The reference model is written from the documentation of the SecurityBarrier interface:
//   - entries: key -> value, the term and the key bytes each acknowledged Put was encrypted with;
//   - per instance: sealed, the root key it holds, the term keys it holds (term -> key bytes);
//   - the DURABLE state, which is derived from what actually reached the store (never from return
//     values): the harness opens core/keyring itself (crypto/aes + cipher, independent of the barrier)
//     with the root keys it knows, and core/root-key with the term keys it knows.
// An instance can read an entry iff it holds the key the entry was written with. An instance that has
// just loaded the durable keyring (Unseal with the current root key, ReloadKeyring) must be able to read
// EVERY acknowledged entry: that is the statement's claim.

import (
	"bytes"
	"context"
	"crypto/aes"
	"crypto/cipher"
	"encoding/binary"
	"errors"
	"fmt"
	"sort"
	"strings"
	"testing"

	hclog "github.com/hashicorp/go-hclog"
	"github.com/openbao/openbao/sdk/v2/helper/verifx"
	"github.com/openbao/openbao/sdk/v2/logical"
	"github.com/openbao/openbao/sdk/v2/physical"
	"github.com/openbao/openbao/sdk/v2/physical/inmem"
	"pgregory.net/rapid"
)

var c10NullLogger = hclog.NewNullLogger()

var (
	c10Keys     = []string{"d/a", "d/b", "d/c", "d/x/a", "d/x/b", "d/x/y/a", "d/z/a", "e/a"}
	c10Prefixes = []string{"d/", "d/x/", "d/x/y/", "e/", "d/none/"}

	c10PersistFaults = []string{"keyring", "root-key", "legacy-delete", "any"}
	c10UpgradeFaults = []string{"upgrade", "any"}
	c10DataFaults    = []string{"data", "any"}
)

var errC10Injected = errors.New("verif: injected storage fault")

// ------------------------------------------------------------------ fault-injecting pass-through backend

type c10Fault struct {
	class    string // keyring | root-key | legacy-delete | upgrade | data | any
	fired    bool
	firedOp  string
	firedKey string
}

// c10Faulty passes everything through to the in-memory backend, except that the first Put/Delete (outside
// transactions) matching an armed fault fails without reaching the store.
type c10Faulty struct {
	physical.TransactionalBackend
	fault *c10Fault
}

func (f *c10Faulty) hit(op, key string) bool {
	ft := f.fault
	if ft == nil || ft.fired {
		return false
	}
	m := false
	switch ft.class {
	case "keyring":
		m = op == "put" && key == KeyringPath
	case "root-key":
		m = op == "put" && key == RootKeyPath
	case "legacy-delete":
		m = op == "delete" && key == LegacyRootKeyPath
	case "upgrade":
		m = strings.HasPrefix(key, KeyringUpgradePrefix)
	case "data":
		m = strings.HasPrefix(key, "d/") || strings.HasPrefix(key, "e/")
	case "any":
		m = true
	}
	if m {
		ft.fired, ft.firedOp, ft.firedKey = true, op, key
	}
	return m
}

func (f *c10Faulty) Put(ctx context.Context, e *physical.Entry) error {
	if f.hit("put", e.Key) {
		return errC10Injected
	}
	return f.TransactionalBackend.Put(ctx, e)
}

func (f *c10Faulty) Delete(ctx context.Context, key string) error {
	if f.hit("delete", key) {
		return errC10Injected
	}
	return f.TransactionalBackend.Delete(ctx, key)
}

// ------------------------------------------------------------------ model

type c10Node struct {
	name string
	b    *TransactionalAESGCMBarrier
	// model of the instance
	sealed  bool
	rootKey []byte            // root key the instance holds
	keys    map[uint32][]byte // term keys the instance holds
	maxTerm uint32            // its active term
	// bookkeeping for the non-trivial rule: a seal/unseal, reload or upgrade happened after a rotation
	event bool
}

type c10Upgrade struct {
	key    []byte // key of term t+1 stored in core/upgrade/<t>
	encKey []byte // key of term t the record is encrypted with
}

type c10H struct {
	rt     *rapid.T
	rec    *verifx.Recorder
	ctx    context.Context
	inm    physical.Backend // the store itself (harness reads; never faulted)
	faulty *c10Faulty       // what the barriers see
	act    *c10Node
	sby    *c10Node

	entries   map[string][]byte
	entryTerm map[string]uint32
	entryKey  map[string][]byte
	upgrades  map[uint32]*c10Upgrade

	// durable state, derived from the store by syncDurable
	rootKey   []byte   // the root key that opens the persisted keyring
	prevRoots [][]byte // every other root key seen so far
	durKeys   map[uint32][]byte
	durTerm   uint32
	rkPresent bool // core/root-key: present, and which term key opens it, and the root key inside
	rkOpen    bool
	rkTerm    uint32
	rkKey     []byte
	rkRoot    []byte

	ops                                                          map[string]int64
	fRot, fRootRot, fSealCycle, fUpgrade, fFailover, fNontrivial bool
	faultsFired                                                  int
	oldTermReads                                                 int
}

func c10Copy(b []byte) []byte {
	out := make([]byte, len(b))
	copy(out, b)
	return out
}

func c10CopyKeys(m map[uint32][]byte) map[uint32][]byte {
	out := make(map[uint32][]byte, len(m))
	for t, k := range m {
		out[t] = k
	}
	return out
}

func c10SameKeys(a, b map[uint32][]byte) bool {
	if len(a) != len(b) {
		return false
	}
	for t, k := range a {
		if o, ok := b[t]; !ok || !bytes.Equal(o, k) {
			return false
		}
	}
	return true
}

func c10Zero(b []byte) bool {
	for _, c := range b {
		if c != 0 {
			return false
		}
	}
	return true
}

func (h *c10H) viol(sig string, detail map[string]any, format string, args ...any) {
	if detail == nil {
		detail = map[string]any{}
	}
	detail["active"] = h.act.name
	detail["active_sealed"] = h.act.sealed
	detail["standby_sealed"] = h.sby.sealed
	detail["durable_term"] = h.durTerm
	detail["active_term"] = h.act.maxTerm
	detail["standby_term"] = h.sby.maxTerm
	detail["root_keys_seen"] = len(h.prevRoots) + 1
	detail["storage_faults_fired"] = h.faultsFired
	h.rec.Violation(h.rt, sig, detail, format, args...)
}

// try runs calls into the barrier; a panic of the code under test on a generated (valid) call is a violation.
func (h *c10H) try(op string, f func()) {
	if p := verifx.Try(f); p != nil {
		h.viol("panic:"+op, map[string]any{"op": op}, "%s panicked: %v", op, p)
	}
}

func (h *c10H) physGet(key string) []byte {
	e, err := h.inm.Get(h.ctx, key)
	if err != nil {
		h.rt.Fatalf("harness: physical get: %v", err)
	}
	if e == nil {
		return nil
	}
	return c10Copy(e.Value)
}

func (h *c10H) physHeader(key string) (uint32, byte, bool) {
	v := h.physGet(key)
	if len(v) < 5 {
		return 0, 0, false
	}
	return binary.BigEndian.Uint32(v[:4]), v[4], true
}

func (h *c10H) checkNewRecord(op, key string, wantTerm uint32) {
	term, ver, ok := h.physHeader(key)
	if !ok || term != wantTerm || ver != AESGCMVersion2 {
		h.viol("new-record-not-under-newest-term", map[string]any{"op": op, "key": key, "found": ok, "record_term": term, "record_version": ver, "want_term": wantTerm},
			"%s wrote %q with header term %d version %d (present=%v), the writer's newest term is %d", op, key, term, ver, ok, wantTerm)
	}
}

// c10Open opens a barrier record with the standard library only.
func c10Open(key []byte, path string, rec []byte) ([]byte, bool) {
	if len(rec) < 5+28 {
		return nil, false
	}
	blk, err := aes.NewCipher(key)
	if err != nil {
		return nil, false
	}
	g, err := cipher.NewGCMWithRandomNonce(blk)
	if err != nil {
		return nil, false
	}
	var aad []byte
	switch rec[4] {
	case AESGCMVersion1:
	case AESGCMVersion2:
		aad = []byte(path)
	default:
		return nil, false
	}
	pt, err := g.Open(nil, nil, rec[5:], aad)
	return pt, err == nil
}

// syncDurable derives the durable keyring, the root key that opens it and the content of the root-key record
// from the bytes in the store.
func (h *c10H) syncDurable(candidates ...[]byte) {
	rec := h.physGet(KeyringPath)
	if rec == nil {
		h.viol("persisted-keyring-missing", nil, "the store holds no %s", KeyringPath)
		return
	}
	cands := append([][]byte{h.rootKey}, candidates...)
	for i := len(h.prevRoots) - 1; i >= 0; i-- {
		cands = append(cands, h.prevRoots[i])
	}
	var found, plain []byte
	for _, c := range cands {
		if pt, ok := c10Open(c, KeyringPath, rec); ok {
			found, plain = c, pt
			break
		}
	}
	if found == nil {
		h.viol("persisted-keyring-unopenable", nil, "no root key ever handed to the barrier opens the persisted keyring: nothing can unseal this store")
		return
	}
	kr, err := DeserializeKeyring(plain)
	if err != nil {
		h.viol("persisted-keyring-unreadable", map[string]any{"err": err.Error()}, "the persisted keyring does not deserialize: %v", err)
		return
	}
	if !bytes.Equal(found, h.rootKey) {
		h.prevRoots = append(h.prevRoots, h.rootKey)
		h.rootKey = c10Copy(found)
		h.fRootRot = true
	}
	for _, c := range candidates {
		if !bytes.Equal(c, h.rootKey) {
			h.prevRoots = append(h.prevRoots, c10Copy(c))
		}
	}
	h.durKeys = map[uint32][]byte{}
	for t, k := range kr.keys {
		h.durKeys[t] = c10Copy(k.Value)
	}
	h.durTerm = kr.ActiveTerm()

	h.rkPresent, h.rkOpen, h.rkTerm, h.rkKey, h.rkRoot = false, false, 0, nil, nil
	rk := h.physGet(RootKeyPath)
	if len(rk) < 5 {
		return
	}
	h.rkPresent = true
	h.rkTerm = binary.BigEndian.Uint32(rk[:4])
	for _, k := range [][]byte{h.durKeys[h.rkTerm], h.act.keys[h.rkTerm], h.sby.keys[h.rkTerm]} {
		if k == nil {
			continue
		}
		if pt, ok := c10Open(k, RootKeyPath, rk); ok {
			if key, err := DeserializeKey(pt); err == nil {
				h.rkOpen, h.rkKey, h.rkRoot = true, k, c10Copy(key.Value)
			}
			break
		}
	}
}

func (h *c10H) modelList(entries map[string][]byte, prefix string) []string {
	seen := map[string]bool{}
	var out []string
	for k := range entries {
		if !strings.HasPrefix(k, prefix) {
			continue
		}
		rest := k[len(prefix):]
		if i := strings.Index(rest, "/"); i >= 0 {
			rest = rest[:i+1]
		}
		if !seen[rest] {
			seen[rest] = true
			out = append(out, rest)
		}
	}
	sort.Strings(out)
	return out
}

func c10SameList(got, want []string) bool {
	g := append([]string(nil), got...)
	sort.Strings(g)
	if len(g) != len(want) {
		return false
	}
	for i := range g {
		if g[i] != want[i] {
			return false
		}
	}
	return true
}

func (h *c10H) sortedEntryKeys() []string {
	ks := make([]string, 0, len(h.entries))
	for k := range h.entries {
		ks = append(ks, k)
	}
	sort.Strings(ks)
	return ks
}

// drawFault arms, with probability 1/4, a one-shot storage fault of one of the given classes.
func (h *c10H) drawFault(classes []string) *c10Fault {
	k := rapid.IntRange(0, 4*len(classes)-1).Draw(h.rt, "storageFault")
	if k >= len(classes) {
		h.faulty.fault = nil
		return nil
	}
	f := &c10Fault{class: classes[k]}
	h.faulty.fault = f
	return f
}

// disarm removes the fault and reports whether it fired.
func (h *c10H) disarm(op string, f *c10Fault) bool {
	h.faulty.fault = nil
	if f == nil || !f.fired {
		return false
	}
	h.faultsFired++
	label := f.firedKey
	switch {
	case strings.HasPrefix(label, KeyringUpgradePrefix):
		label = KeyringUpgradePrefix + "*"
	case strings.HasPrefix(label, "d/") || strings.HasPrefix(label, "e/"):
		label = "data"
	}
	h.ops[fmt.Sprintf("fault-fired:%s:%s %s", op, f.firedOp, label)]++
	return true
}

// ------------------------------------------------------------------ sealed instance: nothing is served, nothing is held

type c10Res struct {
	op  string
	err error
	out bool // a result was returned besides the error
}

func (h *c10H) checkSealed(n *c10Node) {
	b := n.b
	ctx := h.ctx
	probeKey := "d/a"
	if ks := h.sortedEntryKeys(); len(ks) > 0 {
		probeKey = ks[0]
	}
	physBefore := h.physGet(probeKey)
	var res []c10Res
	var sealedFlag bool
	var krErr error
	var kr *Keyring
	add := func(op string, err error, out bool) { res = append(res, c10Res{op, err, out}) }
	h.try("sealed-battery", func() {
		sealedFlag = b.Sealed()
		kr, krErr = b.Keyring()
		e, err := b.Get(ctx, probeKey)
		add("Get", err, e != nil)
		add("Put", b.Put(ctx, &logical.StorageEntry{Key: "d/sealed-probe", Value: []byte("probe-value-0123456789")}), false)
		add("Delete", b.Delete(ctx, probeKey), false)
		l, err := b.List(ctx, "d/")
		add("List", err, l != nil)
		l, err = b.ListPage(ctx, "d/", "", -1)
		add("ListPage", err, l != nil)
		ct, err := b.Encrypt(ctx, probeKey, []byte("plaintext-0123456789"))
		add("Encrypt", err, ct != nil)
		ctProbe := physBefore
		if ctProbe == nil {
			ctProbe = append([]byte{0, 0, 0, 1, 2}, make([]byte, 40)...)
		}
		pt, err := b.Decrypt(ctx, probeKey, ctProbe)
		add("Decrypt", err, pt != nil)
		tx, err := b.BeginTx(ctx)
		if err == nil {
			e, err := tx.Get(ctx, probeKey)
			add("tx.Get", err, e != nil)
			add("tx.Put", tx.Put(ctx, &logical.StorageEntry{Key: "d/sealed-probe", Value: []byte("probe-value-0123456789")}), false)
			add("tx.Delete", tx.Delete(ctx, probeKey), false)
			l, err := tx.List(ctx, "d/")
			add("tx.List", err, l != nil)
			l, err = tx.ListPage(ctx, "d/", "", -1)
			add("tx.ListPage", err, l != nil)
			_ = tx.Rollback(ctx)
		} else {
			add("BeginTx", err, false)
		}
		rtx, err := b.BeginReadOnlyTx(ctx)
		if err == nil {
			e, err := rtx.Get(ctx, probeKey)
			add("rotx.Get", err, e != nil)
			_ = rtx.Rollback(ctx)
		}
		_, err = b.Rotate(ctx)
		add("Rotate", err, false)
		add("CreateUpgrade", b.CreateUpgrade(ctx, 2), false)
		did, _, err := b.CheckUpgrade(ctx)
		add("CheckUpgrade", err, did)
		add("DestroyUpgrade", b.DestroyUpgrade(ctx, 9999), false)
		ki, err := b.ActiveKeyInfo()
		add("ActiveKeyInfo", err, ki != nil)
		add("VerifyRoot", b.VerifyRoot(h.rootKey), false)
		add("RotateRootKey", b.RotateRootKey(ctx, c10Copy(h.rootKey)), false)
		add("SetRootKey", b.SetRootKey(c10Copy(h.rootKey)), false)
		add("ReloadRootKey", b.ReloadRootKey(ctx), false)
	})
	if !sealedFlag {
		h.viol("sealed-flag", map[string]any{"node": n.name}, "%s must be sealed but Sealed() is false", n.name)
	}
	if krErr == nil || kr != nil {
		h.viol("keyring-reachable-while-sealed", map[string]any{"node": n.name}, "Keyring() of the sealed %s returned (%v, %v)", n.name, kr != nil, krErr)
	}
	for _, r := range res {
		if !errors.Is(r.err, ErrBarrierSealed) || r.out {
			h.viol("sealed-op-served:"+r.op, map[string]any{"node": n.name, "op": r.op, "err": fmt.Sprint(r.err), "returned_result": r.out},
				"%s on the sealed %s returned err=%v result=%v, want ErrBarrierSealed and nothing", r.op, n.name, r.err, r.out)
		}
	}
	// in-package: no key material is held
	if b.keyring != nil || len(b.cache) != 0 {
		h.viol("key-material-held-while-sealed", map[string]any{"node": n.name, "keyring_nil": b.keyring == nil, "cached_aeads": len(b.cache)},
			"the sealed %s still holds key material (keyring nil: %v, cached AEADs: %d)", n.name, b.keyring == nil, len(b.cache))
	}
	// nothing reached the store
	if h.physGet("d/sealed-probe") != nil {
		h.viol("sealed-write-reached-storage", map[string]any{"node": n.name}, "a Put on the sealed %s reached the physical store", n.name)
	}
	if !bytes.Equal(physBefore, h.physGet(probeKey)) {
		h.viol("sealed-delete-reached-storage", map[string]any{"node": n.name, "key": probeKey}, "a Delete on the sealed %s changed the physical record of %q", n.name, probeKey)
	}
}

// ------------------------------------------------------------------ unsealed instance: keyring as modelled, entries read back

// checkUnsealed: fresh = the instance has just loaded the durable keyring with the current root key.
func (h *c10H) checkUnsealed(n *c10Node, stage string, fresh bool) {
	b := n.b
	var sealedFlag bool
	var kr *Keyring
	var krErr, vrErr, vrPrevErr error
	var info *KeyInfo
	var infoErr error
	var prev []byte
	for i := len(h.prevRoots) - 1; i >= 0; i-- {
		if !bytes.Equal(h.prevRoots[i], n.rootKey) {
			prev = h.prevRoots[i]
			break
		}
	}
	h.try("unsealed-inspection", func() {
		sealedFlag = b.Sealed()
		kr, krErr = b.Keyring()
		vrErr = b.VerifyRoot(n.rootKey)
		if prev != nil {
			vrPrevErr = b.VerifyRoot(prev)
		}
		info, infoErr = b.ActiveKeyInfo()
	})
	if sealedFlag {
		h.viol("unsealed-flag", map[string]any{"node": n.name}, "%s must be unsealed but Sealed() is true", n.name)
	}
	if krErr != nil || kr == nil {
		h.viol("keyring-unavailable", map[string]any{"node": n.name, "err": fmt.Sprint(krErr)}, "Keyring() of the unsealed %s failed: %v", n.name, krErr)
		return
	}
	bad := ""
	switch {
	case kr.ActiveTerm() != n.maxTerm:
		bad = fmt.Sprintf("active term %d, expected %d", kr.ActiveTerm(), n.maxTerm)
	case len(kr.keys) != len(n.keys):
		bad = fmt.Sprintf("%d terms, expected %d", len(kr.keys), len(n.keys))
	case !bytes.Equal(kr.RootKey(), n.rootKey):
		bad = "root key differs from the one this instance must hold"
	default:
		for t, want := range n.keys {
			k := kr.TermKey(t)
			if k == nil || !bytes.Equal(k.Value, want) {
				bad = fmt.Sprintf("key of term %d missing or different from the key this instance must hold", t)
				break
			}
		}
	}
	if bad != "" {
		sig := "keyring-mismatch"
		if n == h.sby {
			sig = "standby-keyring-differs"
		}
		h.viol(sig, map[string]any{"node": n.name, "what": bad, "stage": stage}, "keyring of %s (%s): %s", n.name, stage, bad)
	}
	if vrErr != nil {
		h.viol("verify-root-rejects-current", map[string]any{"node": n.name, "err": fmt.Sprint(vrErr)}, "VerifyRoot(root key held by %s) = %v", n.name, vrErr)
	}
	if prev != nil && !errors.Is(vrPrevErr, ErrBarrierInvalidKey) {
		h.viol("verify-root-accepts-other", map[string]any{"node": n.name, "err": fmt.Sprint(vrPrevErr)}, "VerifyRoot(another root key) on %s = %v, want ErrBarrierInvalidKey", n.name, vrPrevErr)
	}
	if infoErr != nil || info == nil || info.Term != int(n.maxTerm) {
		h.viol("active-key-info", map[string]any{"node": n.name, "err": fmt.Sprint(infoErr)}, "ActiveKeyInfo of %s = %+v, %v; expected term %d", n.name, info, infoErr, n.maxTerm)
	}
	h.readBack(n, stage, fresh)
}

func (h *c10H) canRead(n *c10Node, key string) bool {
	k, ok := n.keys[h.entryTerm[key]]
	return ok && bytes.Equal(k, h.entryKey[key])
}

// readBack reads every acknowledged entry through n. It must return the exact value when n holds the key the
// entry was written with. When it does not: an instance that has just loaded the durable keyring (fresh) must
// hold it - the entry was acknowledged - so a failure is the violation; a lagging instance must return an error.
func (h *c10H) readBack(n *c10Node, stage string, fresh bool) {
	for _, k := range h.sortedEntryKeys() {
		want := h.entries[k]
		et := h.entryTerm[k]
		var e *logical.StorageEntry
		var err error
		h.try("Get", func() { e, err = n.b.Get(h.ctx, k) })
		d := func() map[string]any {
			m := map[string]any{"node": n.name, "stage": stage, "key": k, "entry_term": et, "want": fmt.Sprintf("%x", want), "err": fmt.Sprint(err),
				"instance_holds_entry_key": h.canRead(n, k), "entry_term_in_durable_keyring": h.durKeys[et] != nil && bytes.Equal(h.durKeys[et], h.entryKey[k])}
			if e != nil {
				m["got"] = fmt.Sprintf("%x", e.Value)
			}
			return m
		}
		if pt, pv, ok := h.physHeader(k); !ok || pt != et || pv != AESGCMVersion2 {
			h.viol("stored-record-header-changed", d(), "physical record of %q has header term %d version %d (present=%v), it was written under term %d", k, pt, pv, ok, et)
		}
		if !h.canRead(n, k) {
			switch {
			case err == nil && e != nil && bytes.Equal(e.Value, want):
				// served correctly although the model does not know how: not a violation of the statement
			case err == nil:
				h.viol("read-without-key", d(), "%s does not hold the key of term %d but Get(%q) returned err=nil without the written value", n.name, et, k)
			case fresh:
				h.viol("acknowledged-entry-unreadable", d(),
					"%s just loaded the persisted keyring with the current root key (%s), but Get(%q) fails: %v - the Put of this entry under term %d was acknowledged and the key of that term is not in the persisted keyring", n.name, stage, k, err, et)
			}
			continue
		}
		switch {
		case err != nil:
			h.viol("entry-unreadable", d(), "%s (%s): Get(%q) of an entry written under term %d failed: %v", n.name, stage, k, et, err)
		case e == nil:
			h.viol("entry-lost", d(), "%s (%s): Get(%q) returned nothing, the entry was written under term %d", n.name, stage, k, et)
		case !bytes.Equal(e.Value, want):
			h.viol("entry-changed", d(), "%s (%s): Get(%q) = %x, written %x", n.name, stage, k, e.Value, want)
		default:
			if et < n.maxTerm {
				h.oldTermReads++
				if n.event {
					h.fNontrivial = true
				}
			}
		}
	}
}

func (h *c10H) invariant() {
	for _, n := range []*c10Node{h.act, h.sby} {
		if n.sealed {
			h.checkSealed(n)
		} else {
			h.checkUnsealed(n, "invariant", false)
		}
	}
}

// ------------------------------------------------------------------ operations

func (h *c10H) drawValue(label string) []byte {
	if rapid.IntRange(0, 9).Draw(h.rt, label+"Big") == 0 {
		n := rapid.IntRange(200, 2000).Draw(h.rt, label+"Len")
		return c10Fill(rapid.Uint64().Draw(h.rt, label+"Seed"), n)
	}
	return rapid.SliceOfN(rapid.Byte(), 0, 24).Draw(h.rt, label)
}

func c10Fill(seed uint64, n int) []byte {
	out := make([]byte, n)
	x := seed
	for i := range out {
		x = x*6364136223846793005 + 1442695040888963407
		out[i] = byte(x >> 56)
	}
	return out
}

func (h *c10H) drawRootKey(label string) []byte {
	n := rapid.SampledFrom([]int{32, 32, 32, 32, 16, 24}).Draw(h.rt, label+"Len")
	return rapid.SliceOfN(rapid.Byte(), n, n).Draw(h.rt, label)
}

func (h *c10H) opPut() {
	key := rapid.SampledFrom(c10Keys).Draw(h.rt, "key")
	val := h.drawValue("val")
	n := h.act
	before := h.physGet(key)
	ft := h.drawFault(c10DataFaults)
	var err error
	h.try("Put", func() { err = n.b.Put(h.ctx, &logical.StorageEntry{Key: key, Value: c10Copy(val)}) })
	fired := h.disarm("Put", ft)
	if n.sealed {
		if !errors.Is(err, ErrBarrierSealed) {
			h.viol("sealed-op-served:Put", map[string]any{"key": key, "err": fmt.Sprint(err)}, "Put on the sealed active returned %v", err)
		}
		return
	}
	if fired {
		if err == nil {
			h.viol("put-acknowledged-but-not-stored", map[string]any{"key": key}, "the storage write of Put(%q) failed but Put returned nil", key)
		}
		if !bytes.Equal(before, h.physGet(key)) {
			h.rt.Fatalf("harness: a faulted Put changed the store")
		}
		return // not acknowledged: the model keeps the previous value
	}
	if err != nil {
		h.viol("put-fails", map[string]any{"key": key, "err": fmt.Sprint(err)}, "Put(%q) on the unsealed active failed without a storage fault: %v", key, err)
		return
	}
	h.entries[key] = val
	h.entryTerm[key] = n.maxTerm
	h.entryKey[key] = n.keys[n.maxTerm]
	h.checkNewRecord("Put", key, n.maxTerm)
}

func (h *c10H) opDelete() {
	key := rapid.SampledFrom(c10Keys).Draw(h.rt, "key")
	n := h.act
	ft := h.drawFault(c10DataFaults)
	var err error
	h.try("Delete", func() { err = n.b.Delete(h.ctx, key) })
	fired := h.disarm("Delete", ft)
	if n.sealed {
		if !errors.Is(err, ErrBarrierSealed) {
			h.viol("sealed-op-served:Delete", map[string]any{"key": key, "err": fmt.Sprint(err)}, "Delete on the sealed active returned %v", err)
		}
		return
	}
	if fired {
		if err == nil {
			h.viol("delete-acknowledged-but-not-done", map[string]any{"key": key}, "the storage delete of Delete(%q) failed but Delete returned nil", key)
		}
		return
	}
	if err != nil {
		h.viol("delete-fails", map[string]any{"key": key, "err": fmt.Sprint(err)}, "Delete(%q) failed without a storage fault: %v", key, err)
		return
	}
	delete(h.entries, key)
	delete(h.entryTerm, key)
	delete(h.entryKey, key)
	if _, _, ok := h.physHeader(key); ok {
		h.viol("delete-not-effective", map[string]any{"key": key}, "Delete(%q) succeeded but the physical record is still there", key)
	}
}

func (h *c10H) opGet(n *c10Node, viaTxn bool) {
	key := rapid.SampledFrom(c10Keys).Draw(h.rt, "key")
	var e *logical.StorageEntry
	var err error
	h.try("Get", func() {
		if !viaTxn {
			e, err = n.b.Get(h.ctx, key)
			return
		}
		tx, terr := n.b.BeginReadOnlyTx(h.ctx)
		if terr != nil {
			err = terr
			return
		}
		defer func() { _ = tx.Rollback(h.ctx) }()
		e, err = tx.Get(h.ctx, key)
	})
	d := map[string]any{"node": n.name, "key": key, "txn": viaTxn, "err": fmt.Sprint(err)}
	if n.sealed {
		if !errors.Is(err, ErrBarrierSealed) || e != nil {
			h.viol("sealed-op-served:Get", d, "Get on the sealed %s returned (%v, %v)", n.name, e != nil, err)
		}
		return
	}
	want, exists := h.entries[key]
	switch {
	case !exists:
		if err != nil || e != nil {
			h.viol("get-absent-key", d, "Get(%q) of a key that holds nothing returned (%v, %v)", key, e != nil, err)
		}
	case !h.canRead(n, key):
		if err == nil && (e == nil || !bytes.Equal(e.Value, want)) {
			h.viol("read-without-key", d, "%s does not hold the key of term %d but Get(%q) returned err=nil without the written value", n.name, h.entryTerm[key], key)
		}
	case err != nil || e == nil:
		h.viol("entry-unreadable", d, "%s: Get(%q) of an entry written under term %d returned (%v, %v)", n.name, key, h.entryTerm[key], e != nil, err)
	case !bytes.Equal(e.Value, want):
		d["got"], d["want"] = fmt.Sprintf("%x", e.Value), fmt.Sprintf("%x", want)
		h.viol("entry-changed", d, "%s: Get(%q) = %x, written %x", n.name, key, e.Value, want)
	}
}

func (h *c10H) opList(n *c10Node) {
	prefix := rapid.SampledFrom(c10Prefixes).Draw(h.rt, "prefix")
	var l, lp []string
	var err, errp error
	h.try("List", func() {
		l, err = n.b.List(h.ctx, prefix)
		lp, errp = n.b.ListPage(h.ctx, prefix, "", -1)
	})
	if n.sealed {
		if !errors.Is(err, ErrBarrierSealed) || !errors.Is(errp, ErrBarrierSealed) || l != nil || lp != nil {
			h.viol("sealed-op-served:List", map[string]any{"node": n.name, "err": fmt.Sprint(err), "err_page": fmt.Sprint(errp)}, "List on the sealed %s returned (%v, %v)", n.name, l, err)
		}
		return
	}
	want := h.modelList(h.entries, prefix)
	if err != nil || errp != nil || !c10SameList(l, want) || !c10SameList(lp, want) {
		h.viol("list-differs", map[string]any{"node": n.name, "prefix": prefix, "got": fmt.Sprint(l), "got_page": fmt.Sprint(lp), "want": fmt.Sprint(want), "err": fmt.Sprint(err)},
			"%s: List(%q) = %v (err %v), ListPage = %v (err %v), model has %v", n.name, prefix, l, err, lp, errp, want)
	}
}

// opTxn runs a transaction on the active: puts, deletes, reads, lists, optionally a rotation or a seal in the
// middle, then Commit or Rollback. Storage faults are not injected inside transactions.
func (h *c10H) opTxn() {
	n := h.act
	nops := rapid.IntRange(1, 4).Draw(h.rt, "txnOps")
	commit := rapid.IntRange(0, 4).Draw(h.rt, "txnCommit") > 0
	var tx logical.Transaction
	var err error
	h.try("BeginTx", func() { tx, err = n.b.BeginTx(h.ctx) })
	if err != nil {
		if n.sealed && errors.Is(err, ErrBarrierSealed) {
			return
		}
		h.viol("begin-tx-fails", map[string]any{"err": fmt.Sprint(err)}, "BeginTx failed: %v", err)
		return
	}
	finished := false
	defer func() {
		if !finished {
			_ = tx.Rollback(h.ctx)
		}
	}()
	pend := map[string][]byte{}
	pendTerm := map[string]uint32{}
	pendKey := map[string][]byte{}
	for k, v := range h.entries {
		pend[k] = v
		pendTerm[k] = h.entryTerm[k]
		pendKey[k] = h.entryKey[k]
	}
	wrote := map[string]bool{}
	sealedInside := false
	for i := 0; i < nops; i++ {
		kind := rapid.SampledFrom([]string{"put", "put", "put", "delete", "get", "get", "list", "rotate", "seal"}).Draw(h.rt, "txnOp")
		key := rapid.SampledFrom(c10Keys).Draw(h.rt, "key")
		switch kind {
		case "put":
			val := h.drawValue("val")
			h.try("tx.Put", func() { err = tx.Put(h.ctx, &logical.StorageEntry{Key: key, Value: c10Copy(val)}) })
			if n.sealed {
				if !errors.Is(err, ErrBarrierSealed) {
					h.viol("sealed-op-served:tx.Put", map[string]any{"err": fmt.Sprint(err)}, "Put in a transaction of the sealed active returned %v", err)
				}
				continue
			}
			if err != nil {
				h.viol("put-fails", map[string]any{"key": key, "txn": true, "err": fmt.Sprint(err)}, "Put(%q) in a transaction failed: %v", key, err)
				continue
			}
			pend[key], pendTerm[key], pendKey[key], wrote[key] = val, n.maxTerm, n.keys[n.maxTerm], true
		case "delete":
			h.try("tx.Delete", func() { err = tx.Delete(h.ctx, key) })
			if n.sealed {
				if !errors.Is(err, ErrBarrierSealed) {
					h.viol("sealed-op-served:tx.Delete", map[string]any{"err": fmt.Sprint(err)}, "Delete in a transaction of the sealed active returned %v", err)
				}
				continue
			}
			if err != nil {
				h.viol("delete-fails", map[string]any{"key": key, "txn": true, "err": fmt.Sprint(err)}, "Delete(%q) in a transaction failed: %v", key, err)
				continue
			}
			delete(pend, key)
			delete(pendTerm, key)
			delete(pendKey, key)
			delete(wrote, key)
		case "get":
			var e *logical.StorageEntry
			h.try("tx.Get", func() { e, err = tx.Get(h.ctx, key) })
			if n.sealed {
				if !errors.Is(err, ErrBarrierSealed) || e != nil {
					h.viol("sealed-op-served:tx.Get", map[string]any{"err": fmt.Sprint(err)}, "Get in a transaction of the sealed active returned (%v, %v)", e != nil, err)
				}
				continue
			}
			want, exists := pend[key]
			if err != nil || (e != nil) != exists || (exists && !bytes.Equal(e.Value, want)) {
				h.viol("txn-read-differs", map[string]any{"key": key, "err": fmt.Sprint(err), "want_present": exists}, "Get(%q) inside the transaction returned (%v, %v), the transaction's view has present=%v", key, e != nil, err, exists)
			}
		case "list":
			prefix := rapid.SampledFrom(c10Prefixes).Draw(h.rt, "prefix")
			var l []string
			h.try("tx.List", func() { l, err = tx.List(h.ctx, prefix) })
			if n.sealed {
				if !errors.Is(err, ErrBarrierSealed) || l != nil {
					h.viol("sealed-op-served:tx.List", map[string]any{"err": fmt.Sprint(err)}, "List in a transaction of the sealed active returned (%v, %v)", l, err)
				}
				continue
			}
			if want := h.modelList(pend, prefix); err != nil || !c10SameList(l, want) {
				h.viol("list-differs", map[string]any{"txn": true, "prefix": prefix, "got": fmt.Sprint(l), "want": fmt.Sprint(want), "err": fmt.Sprint(err)}, "List(%q) inside the transaction = %v (err %v), its view has %v", prefix, l, err, want)
			}
		case "rotate":
			if rapid.IntRange(0, 2).Draw(h.rt, "txnRotate") == 0 {
				h.rotate(false)
			}
		case "seal":
			if !n.sealed && rapid.IntRange(0, 3).Draw(h.rt, "txnSeal") == 0 {
				h.seal(n)
				sealedInside = true
			}
		}
	}
	if sealedInside || n.sealed || !commit {
		// Commit after a seal is not part of the statement (the physical commit does not go through the barrier): roll back.
		h.try("tx.Rollback", func() { err = tx.Rollback(h.ctx) })
		finished = true
		if err != nil {
			h.viol("rollback-fails", map[string]any{"err": fmt.Sprint(err)}, "Rollback failed: %v", err)
		}
		return
	}
	h.try("tx.Commit", func() { err = tx.Commit(h.ctx) })
	finished = true
	if err != nil {
		h.viol("commit-fails", map[string]any{"err": fmt.Sprint(err)}, "Commit of a transaction without concurrent writers failed: %v", err)
		return
	}
	h.entries, h.entryTerm, h.entryKey = pend, pendTerm, pendKey
	wk := make([]string, 0, len(wrote))
	for k := range wrote {
		wk = append(wk, k)
	}
	sort.Strings(wk)
	for _, k := range wk {
		h.checkNewRecord("tx.Put+Commit", k, pendTerm[k])
	}
}

func (h *c10H) opCrypt() {
	key := rapid.SampledFrom(c10Keys).Draw(h.rt, "key")
	pt := h.drawValue("plaintext")
	a, s := h.act, h.sby
	var ct, back, backS []byte
	var err, derr, serr error
	h.try("Encrypt/Decrypt", func() {
		ct, err = a.b.Encrypt(h.ctx, key, pt)
		if err == nil {
			back, derr = a.b.Decrypt(h.ctx, key, ct)
			backS, serr = s.b.Decrypt(h.ctx, key, ct)
		}
	})
	if a.sealed {
		if !errors.Is(err, ErrBarrierSealed) || ct != nil {
			h.viol("sealed-op-served:Encrypt", map[string]any{"err": fmt.Sprint(err)}, "Encrypt on the sealed active returned (%v, %v)", ct != nil, err)
		}
		return
	}
	if err != nil || len(ct) < 5 || binary.BigEndian.Uint32(ct[:4]) != a.maxTerm {
		h.viol("encrypt-not-under-newest-term", map[string]any{"err": fmt.Sprint(err), "ciphertext": fmt.Sprintf("%x", ct)}, "Encrypt returned %x, %v; the newest term is %d", ct, err, a.maxTerm)
		return
	}
	if derr != nil || !bytes.Equal(back, pt) {
		h.viol("decrypt-roundtrip", map[string]any{"err": fmt.Sprint(derr)}, "Decrypt(Encrypt(x)) on the active = %x, %v; x = %x", back, derr, pt)
	}
	sk, sHas := s.keys[a.maxTerm]
	switch {
	case s.sealed:
		if !errors.Is(serr, ErrBarrierSealed) || backS != nil {
			h.viol("sealed-op-served:Decrypt", map[string]any{"err": fmt.Sprint(serr)}, "Decrypt on the sealed standby returned (%v, %v)", backS != nil, serr)
		}
	case sHas && bytes.Equal(sk, a.keys[a.maxTerm]):
		if serr != nil || !bytes.Equal(backS, pt) {
			h.viol("standby-decrypt", map[string]any{"err": fmt.Sprint(serr)}, "the standby holds the key of term %d but Decrypt returned %x, %v", a.maxTerm, backS, serr)
		}
	default:
		if serr == nil {
			h.viol("read-without-key", map[string]any{}, "the standby does not hold the key of term %d but Decrypt succeeded", a.maxTerm)
		}
	}
}

func (h *c10H) rotate(withUpgrade bool) {
	n := h.act
	ft := h.drawFault(c10PersistFaults)
	var nt uint32
	var err error
	h.try("Rotate", func() { nt, err = n.b.Rotate(h.ctx) })
	fired := h.disarm("Rotate", ft)
	if n.sealed {
		if !errors.Is(err, ErrBarrierSealed) {
			h.viol("sealed-op-served:Rotate", map[string]any{"err": fmt.Sprint(err)}, "Rotate on the sealed active returned %v", err)
		}
		return
	}
	var kr *Keyring
	var kerr error
	h.try("Keyring", func() { kr, kerr = n.b.Keyring() })
	if kerr != nil || kr == nil {
		h.viol("keyring-unavailable", map[string]any{"err": fmt.Sprint(kerr)}, "Keyring() after Rotate failed: %v", kerr)
		return
	}
	if err != nil {
		if !fired {
			h.viol("rotate-fails", map[string]any{"err": fmt.Sprint(err)}, "Rotate failed without a storage fault: %v", err)
			return
		}
		// Not acknowledged. What is durable is read from the store; what the instance holds is observed: it may have
		// kept its keyring or (tolerated here, judged by the read-back checks later) already switched to the new term.
		switch at := kr.ActiveTerm(); {
		case at == n.maxTerm:
		case at == n.maxTerm+1 && kr.TermKey(at) != nil:
			n.keys[at] = c10Copy(kr.TermKey(at).Value)
			n.maxTerm = at
			h.ops["note:failed-rotate-left-new-term-in-memory"]++
		default:
			h.viol("failed-rotate-corrupts-keyring", map[string]any{"active_term_now": at}, "after a failed Rotate the active's keyring has active term %d (was %d)", at, n.maxTerm)
		}
		h.syncDurable()
		return
	}
	if nt != n.maxTerm+1 || kr.ActiveTerm() != nt || kr.TermKey(nt) == nil {
		h.viol("rotate-result", map[string]any{"returned_term": nt, "keyring_active_term": kr.ActiveTerm()}, "Rotate returned term %d (keyring active term %d), expected %d", nt, kr.ActiveTerm(), n.maxTerm+1)
		return
	}
	nk := c10Copy(kr.TermKey(nt).Value)
	for t, k := range n.keys {
		if bytes.Equal(k, nk) {
			h.viol("rotate-reuses-key", map[string]any{"term": t}, "the key of the new term %d equals the key of term %d", nt, t)
		}
	}
	n.keys[nt] = nk
	n.maxTerm = nt
	h.fRot = true
	h.syncDurable()
	// acknowledged => durable: the persisted keyring is the one in use, the root-key record is under the new term
	if h.durTerm != nt || !c10SameKeys(h.durKeys, n.keys) || !bytes.Equal(h.rootKey, n.rootKey) {
		h.viol("rotate-acknowledged-but-not-durable", map[string]any{"returned_term": nt, "persisted_terms": len(h.durKeys), "storage_fault": fired},
			"Rotate returned term %d but the persisted keyring has active term %d with %d terms (in memory: %d)", nt, h.durTerm, len(h.durKeys), len(n.keys))
	}
	if !fired && (!h.rkOpen || h.rkTerm != nt || !bytes.Equal(h.rkRoot, n.rootKey)) {
		h.viol("root-key-record-not-under-newest-term", map[string]any{"record_term": h.rkTerm, "present": h.rkPresent, "opens": h.rkOpen}, "after Rotate the %s record is under term %d (opens: %v), newest is %d", RootKeyPath, h.rkTerm, h.rkOpen, nt)
	}
	if withUpgrade {
		h.createUpgrade(nt)
	}
}

func (h *c10H) createUpgrade(term uint32) {
	n := h.act
	path := fmt.Sprintf("%s%d", KeyringUpgradePrefix, term-1)
	before := h.physGet(path)
	ft := h.drawFault(c10UpgradeFaults)
	var err error
	h.try("CreateUpgrade", func() { err = n.b.CreateUpgrade(h.ctx, term) })
	fired := h.disarm("CreateUpgrade", ft)
	if n.sealed {
		if !errors.Is(err, ErrBarrierSealed) {
			h.viol("sealed-op-served:CreateUpgrade", map[string]any{"err": fmt.Sprint(err)}, "CreateUpgrade on the sealed active returned %v", err)
		}
		return
	}
	if fired {
		if err == nil {
			h.viol("create-upgrade-acknowledged-but-not-stored", map[string]any{"term": term}, "the storage write of CreateUpgrade(%d) failed but it returned nil", term)
		}
		if !bytes.Equal(before, h.physGet(path)) {
			h.rt.Fatalf("harness: a faulted CreateUpgrade changed the store")
		}
		return
	}
	if err != nil {
		h.viol("create-upgrade-fails", map[string]any{"term": term, "err": fmt.Sprint(err)}, "CreateUpgrade(%d) failed without a storage fault: %v", term, err)
		return
	}
	h.upgrades[term-1] = &c10Upgrade{key: n.keys[term], encKey: n.keys[term-1]}
	if pt, _, ok := h.physHeader(path); !ok || pt != term-1 {
		h.viol("upgrade-record-term", map[string]any{"term": term, "record_term": pt, "present": ok}, "CreateUpgrade(%d) left %q under term %d (present=%v), standbys at term %d cannot read anything else", term, path, pt, ok, term-1)
	}
}

func (h *c10H) destroyUpgrade(term uint32) {
	n := h.act
	ft := h.drawFault(c10UpgradeFaults)
	var err error
	h.try("DestroyUpgrade", func() { err = n.b.DestroyUpgrade(h.ctx, term) })
	fired := h.disarm("DestroyUpgrade", ft)
	if n.sealed {
		if !errors.Is(err, ErrBarrierSealed) {
			h.viol("sealed-op-served:DestroyUpgrade", map[string]any{"err": fmt.Sprint(err)}, "DestroyUpgrade on the sealed active returned %v", err)
		}
		return
	}
	if fired {
		if err == nil {
			h.viol("destroy-upgrade-acknowledged-but-not-done", map[string]any{"term": term}, "the storage delete of DestroyUpgrade(%d) failed but it returned nil", term)
		}
		return
	}
	if err != nil {
		h.viol("destroy-upgrade-fails", map[string]any{"term": term, "err": fmt.Sprint(err)}, "DestroyUpgrade(%d) failed without a storage fault: %v", term, err)
		return
	}
	delete(h.upgrades, term-1)
}

func (h *c10H) rotateRoot() {
	n := h.act
	var newKey []byte
	valid := true
	if rapid.IntRange(0, 5).Draw(h.rt, "badRootKeySize") == 0 {
		sz := rapid.SampledFrom([]int{0, 1, 8, 15, 17, 20, 31, 33, 64}).Draw(h.rt, "rootKeySize")
		newKey = rapid.SliceOfN(rapid.Byte(), sz, sz).Draw(h.rt, "newRootKey")
		valid = false
	} else {
		newKey = h.drawRootKey("newRootKey")
	}
	var ft *c10Fault
	if valid {
		ft = h.drawFault(c10PersistFaults)
	}
	var err error
	h.try("RotateRootKey", func() { err = n.b.RotateRootKey(h.ctx, c10Copy(newKey)) })
	fired := h.disarm("RotateRootKey", ft)
	if n.sealed {
		if !errors.Is(err, ErrBarrierSealed) {
			h.viol("sealed-op-served:RotateRootKey", map[string]any{"err": fmt.Sprint(err)}, "RotateRootKey on the sealed active returned %v", err)
		}
		return
	}
	if !valid {
		if err == nil {
			h.viol("root-key-bad-size-accepted", map[string]any{"size": len(newKey)}, "RotateRootKey accepted a %d-byte key", len(newKey))
		}
		return // nothing may have changed: the invariant checks the keyring, the next unseal checks the store
	}
	if err != nil {
		if !fired {
			h.viol("rotate-root-fails", map[string]any{"err": fmt.Sprint(err), "size": len(newKey)}, "RotateRootKey with a %d-byte key failed without a storage fault: %v", len(newKey), err)
			return
		}
		// not acknowledged: observe which root key the instance holds now, read the durable state from the store
		var kr *Keyring
		var kerr error
		h.try("Keyring", func() { kr, kerr = n.b.Keyring() })
		switch {
		case kerr != nil || kr == nil:
			h.viol("keyring-unavailable", map[string]any{"err": fmt.Sprint(kerr)}, "Keyring() after a failed RotateRootKey: %v", kerr)
		case bytes.Equal(kr.RootKey(), n.rootKey):
		case bytes.Equal(kr.RootKey(), newKey):
			n.rootKey = c10Copy(newKey)
			h.ops["note:failed-rotate-root-left-new-key-in-memory"]++
		default:
			h.viol("failed-rotate-root-corrupts-keyring", nil, "after a failed RotateRootKey the active holds neither the old nor the new root key")
		}
		h.syncDurable(newKey)
		return
	}
	n.rootKey = c10Copy(newKey)
	h.syncDurable(newKey)
	if !bytes.Equal(h.rootKey, newKey) || !c10SameKeys(h.durKeys, n.keys) {
		h.viol("rotate-root-acknowledged-but-not-durable", map[string]any{"storage_fault": fired}, "RotateRootKey returned nil but the persisted keyring does not open with the new root key (or lost terms)")
	}
	if !fired && (!h.rkOpen || h.rkTerm != n.maxTerm || !bytes.Equal(h.rkRoot, newKey)) {
		h.viol("root-key-record-not-under-newest-term", map[string]any{"record_term": h.rkTerm, "present": h.rkPresent, "opens": h.rkOpen}, "after RotateRootKey the %s record is under term %d (opens: %v, holds the new key: %v), newest is %d", RootKeyPath, h.rkTerm, h.rkOpen, bytes.Equal(h.rkRoot, newKey), n.maxTerm)
	}
}

func (h *c10H) autoRotateCheck() {
	n := h.act
	ft := h.drawFault(c10PersistFaults)
	var reason string
	var err error
	h.try("CheckBarrierAutoRotate", func() { reason, err = n.b.CheckBarrierAutoRotate(h.ctx) })
	fired := h.disarm("CheckBarrierAutoRotate", ft)
	if fired {
		if err == nil {
			h.viol("autorotate-check-swallows-storage-error", nil, "a storage write of CheckBarrierAutoRotate failed but it returned nil")
		}
	} else if err != nil || reason != "" {
		h.viol("autorotate-check", map[string]any{"err": fmt.Sprint(err), "reason": reason}, "CheckBarrierAutoRotate returned (%q, %v) with the default rotation config", reason, err)
	}
	if !n.sealed {
		h.syncDurable() // it may have re-persisted the keyring the instance holds
	}
}

func (h *c10H) seal(n *c10Node) {
	held := n.b.keyring // in-package: the keyring object in use right before the seal
	var err error
	h.try("Seal", func() { err = n.b.Seal() })
	if err != nil {
		h.viol("seal-fails", map[string]any{"node": n.name, "err": fmt.Sprint(err)}, "Seal of %s failed: %v", n.name, err)
		return
	}
	wasUnsealed := !n.sealed
	n.sealed, n.rootKey, n.maxTerm, n.keys = true, nil, 0, map[uint32][]byte{}
	if wasUnsealed && held != nil {
		left := !c10Zero(held.rootKey)
		for _, k := range held.keys {
			if !c10Zero(k.Value) {
				left = true
			}
		}
		if left {
			h.viol("keys-not-zeroized-on-seal", map[string]any{"node": n.name}, "after Seal the keyring object %s used still contains key bytes", n.name)
		}
	}
	h.checkSealed(n)
}

func (h *c10H) loadDurable(n *c10Node) {
	n.rootKey, n.keys, n.maxTerm = h.rootKey, c10CopyKeys(h.durKeys), h.durTerm
}

// unseal tries one key on n; the expected outcome is computed from the key bytes alone.
func (h *c10H) unseal(n *c10Node, kind string, key []byte) {
	var err error
	h.try("Unseal", func() { err = n.b.Unseal(h.ctx, c10Copy(key)) })
	d := map[string]any{"node": n.name, "key_kind": kind, "key_len": len(key), "err": fmt.Sprint(err)}
	if !n.sealed {
		if err != nil {
			h.viol("unseal-of-unsealed-fails", d, "Unseal on the already unsealed %s returned %v", n.name, err)
		}
		return
	}
	right := bytes.Equal(key, h.rootKey)
	validSize := len(key) == 16 || len(key) == 24 || len(key) == 32
	switch {
	case right:
		if err != nil {
			h.viol("unseal-with-current-root-key-fails", d, "Unseal of %s with the root key that opens the persisted keyring failed: %v", n.name, err)
			return
		}
		n.sealed = false
		h.loadDurable(n)
		n.event = n.maxTerm > 1
		h.fSealCycle = true
		h.checkUnsealed(n, "after-unseal", true) // every acknowledged entry reads back exactly, keyring complete
	case err == nil:
		h.viol("unseal-accepts-wrong-key:"+kind, d, "Unseal of %s succeeded with a %s key of %d bytes that is not the current root key", n.name, kind, len(key))
	default:
		if validSize && !errors.Is(err, ErrBarrierInvalidKey) {
			h.viol("unseal-wrong-key-error", d, "Unseal of %s with a %s key returned %v, want ErrBarrierInvalidKey", n.name, kind, err)
		}
		var sealedFlag bool
		h.try("Sealed", func() { sealedFlag = n.b.Sealed() })
		if !sealedFlag {
			h.viol("unsealed-after-failed-unseal:"+kind, d, "%s is unsealed after Unseal failed with %v", n.name, err)
		}
		h.checkSealed(n)
	}
}

func (h *c10H) drawUnsealKey(rightWeight int) (string, []byte) {
	kinds := []string{"wrong", "truncated", "previous", "extended"}
	for i := 0; i < rightWeight; i++ {
		kinds = append(kinds, "right")
	}
	kind := rapid.SampledFrom(kinds).Draw(h.rt, "unsealKind")
	switch kind {
	case "right":
		return kind, h.rootKey
	case "truncated":
		l := rapid.SampledFrom([]int{0, 1, 8, 15, 16, 16, 24, 24, 31}).Draw(h.rt, "truncLen")
		if l >= len(h.rootKey) {
			l = len(h.rootKey) - 1
		}
		return kind, h.rootKey[:l]
	case "extended":
		return kind, append(c10Copy(h.rootKey), rapid.Byte().Draw(h.rt, "extByte"))
	case "previous":
		if len(h.prevRoots) > 0 {
			return kind, h.prevRoots[rapid.IntRange(0, len(h.prevRoots)-1).Draw(h.rt, "prevIdx")]
		}
		fallthrough
	default:
		if rapid.Bool().Draw(h.rt, "oneBitOff") {
			k := c10Copy(h.rootKey)
			k[rapid.IntRange(0, len(k)-1).Draw(h.rt, "flipAt")] ^= 1 << uint(rapid.IntRange(0, 7).Draw(h.rt, "flipBit"))
			return "wrong", k
		}
		return "wrong", h.drawRootKey("wrongKey")
	}
}

func (h *c10H) opSeal(n *c10Node) {
	if rapid.IntRange(0, 3).Draw(h.rt, "stayLong") == 0 {
		h.seal(n)
		return
	}
	// seal, a few unseal attempts, usually ending with the right key
	h.seal(n)
	for i, k := 0, rapid.IntRange(0, 3).Draw(h.rt, "attempts"); i < k && n.sealed; i++ {
		kind, key := h.drawUnsealKey(1)
		h.unseal(n, kind, key)
	}
	if n.sealed && rapid.IntRange(0, 4).Draw(h.rt, "finishRight") > 0 {
		h.unseal(n, "right", h.rootKey)
	}
}

func (h *c10H) opUnseal(n *c10Node) {
	kind, key := h.drawUnsealKey(6)
	h.unseal(n, kind, key)
}

func (h *c10H) reloadKeyring(n *c10Node) bool {
	if n.sealed {
		return false // ReloadKeyring on a sealed barrier is not part of the statement and not generated
	}
	var err error
	h.try("ReloadKeyring", func() { err = n.b.ReloadKeyring(h.ctx) })
	d := map[string]any{"node": n.name, "err": fmt.Sprint(err)}
	if bytes.Equal(n.rootKey, h.rootKey) {
		if err != nil {
			h.viol("reload-keyring-fails", d, "ReloadKeyring on %s, which holds the root key that opens the persisted keyring, failed: %v", n.name, err)
			return false
		}
		h.loadDurable(n)
		if n.maxTerm > 1 {
			n.event = true
		}
		h.checkUnsealed(n, "after-reload-keyring", true)
		return true
	}
	if !errors.Is(err, ErrBarrierInvalidKey) {
		h.viol("reload-keyring-with-stale-root-key", d, "ReloadKeyring on %s, which holds another root key than the persisted keyring's, returned %v, want ErrBarrierInvalidKey", n.name, err)
	}
	return false
}

func (h *c10H) reloadRootKey(n *c10Node) bool {
	var err error
	h.try("ReloadRootKey", func() { err = n.b.ReloadRootKey(h.ctx) })
	d := map[string]any{"node": n.name, "err": fmt.Sprint(err), "record_term": h.rkTerm, "record_opens_with_known_key": h.rkOpen}
	if n.sealed {
		if !errors.Is(err, ErrBarrierSealed) {
			h.viol("sealed-op-served:ReloadRootKey", d, "ReloadRootKey on the sealed %s returned %v", n.name, err)
		}
		return false
	}
	if !h.rkPresent {
		return err == nil
	}
	if k, ok := n.keys[h.rkTerm]; ok && h.rkOpen && bytes.Equal(k, h.rkKey) {
		if err != nil {
			h.viol("reload-root-key-fails", d, "ReloadRootKey on %s, which holds the key of term %d the record is under, failed: %v", n.name, h.rkTerm, err)
			return false
		}
		n.rootKey = h.rkRoot
		return true
	}
	if err == nil {
		h.viol("read-without-key", d, "ReloadRootKey on %s succeeded although it does not hold the key of term %d of the root-key record", n.name, h.rkTerm)
	}
	return false
}

// walk is the standby's upgrade loop (Core.checkKeyringUpgrade): CheckUpgrade until it reports nothing.
func (h *c10H) walk(n *c10Node) bool {
	if n.sealed {
		var err error
		h.try("CheckUpgrade", func() { _, _, err = n.b.CheckUpgrade(h.ctx) })
		if !errors.Is(err, ErrBarrierSealed) {
			h.viol("sealed-op-served:CheckUpgrade", map[string]any{"node": n.name, "err": fmt.Sprint(err)}, "CheckUpgrade on the sealed %s returned %v", n.name, err)
		}
		return false
	}
	installed := 0
	for guard := 0; guard < 64; guard++ {
		var did bool
		var nt uint32
		var err error
		h.try("CheckUpgrade", func() { did, nt, err = n.b.CheckUpgrade(h.ctx) })
		up := h.upgrades[n.maxTerm]
		d := map[string]any{"node": n.name, "at_term": n.maxTerm, "upgrade_record_present": up != nil, "did": did, "new_term": nt, "err": fmt.Sprint(err)}
		if up != nil && !bytes.Equal(n.keys[n.maxTerm], up.encKey) {
			// the record was written under another key of this term number (a rotation that was not acknowledged): unreadable here
			if err == nil {
				h.viol("read-without-key", d, "CheckUpgrade on %s read an upgrade record written under a key it does not hold", n.name)
			}
			return false
		}
		if err != nil {
			h.viol("check-upgrade-fails", d, "CheckUpgrade on %s at term %d failed: %v", n.name, n.maxTerm, err)
			return false
		}
		if did != (up != nil) || (did && nt != n.maxTerm+1) {
			h.viol("check-upgrade-result", d, "CheckUpgrade on %s at term %d returned (%v, %d); upgrade record core/upgrade/%d present: %v", n.name, n.maxTerm, did, nt, n.maxTerm, up != nil)
			return false
		}
		if !did {
			break
		}
		n.maxTerm++
		n.keys[n.maxTerm] = up.key
		installed++
	}
	if installed > 0 {
		n.event = true
		if n == h.sby {
			h.fUpgrade = true
		}
	}
	h.checkUnsealed(n, "after-upgrade-walk", false) // keyring equals the model (and through it the active's) up to the term reached
	return true
}

// follow is Core.performKeyUpgrades: upgrade walk, ReloadRootKey, ReloadKeyring.
func (h *c10H) follow(n *c10Node) bool {
	if !h.walk(n) {
		return false
	}
	if !h.reloadRootKey(n) {
		return false
	}
	if !h.reloadKeyring(n) {
		return false
	}
	// the statement: a standby following the upgrade path ends with the same keyring as the active node
	// (compared directly when the active itself is in step with the store, i.e. no unacknowledged operation left it behind)
	a := h.act
	if n != a && !a.sealed && a.maxTerm == h.durTerm && c10SameKeys(a.keys, h.durKeys) && bytes.Equal(a.rootKey, h.rootKey) {
		var ak, sk *Keyring
		var ea, es error
		h.try("Keyring", func() { ak, ea = a.b.Keyring(); sk, es = n.b.Keyring() })
		same := ea == nil && es == nil && ak.ActiveTerm() == sk.ActiveTerm() && len(ak.keys) == len(sk.keys) && bytes.Equal(ak.RootKey(), sk.RootKey())
		if same {
			for t, k := range ak.keys {
				if o := sk.TermKey(t); o == nil || !bytes.Equal(o.Value, k.Value) {
					same = false
				}
			}
		}
		if !same {
			h.viol("standby-keyring-differs", map[string]any{"err_active": fmt.Sprint(ea), "err_standby": fmt.Sprint(es)}, "after the upgrade walk, ReloadRootKey and ReloadKeyring the standby's keyring differs from the active's")
		}
	}
	return true
}

func (h *c10H) opFailover() {
	if h.sby.sealed {
		// a sealed standby cannot take over; it is unsealed by an operator first
		h.unseal(h.sby, "right", h.rootKey)
		if h.sby.sealed {
			return
		}
	}
	if !h.follow(h.sby) {
		return // the model predicted (and the checks above confirmed) that this standby cannot catch up
	}
	h.act, h.sby = h.sby, h.act
	h.fFailover = true
}

// ------------------------------------------------------------------ the property

func c10Prop(rec *verifx.Recorder) func(rt *rapid.T) {
	return func(rt *rapid.T) {
		ctx := context.Background()
		inm, err := inmem.NewInmem(nil, c10NullLogger)
		if err != nil {
			rt.Fatalf("harness: inmem: %v", err)
		}
		faulty := &c10Faulty{TransactionalBackend: inm.(physical.TransactionalBackend)}
		h := &c10H{rt: rt, rec: rec, ctx: ctx, inm: inm, faulty: faulty,
			entries: map[string][]byte{}, entryTerm: map[string]uint32{}, entryKey: map[string][]byte{}, upgrades: map[uint32]*c10Upgrade{}, ops: map[string]int64{}}
		h.act = &c10Node{name: "node1", b: NewAESGCMBarrier(faulty, nil).(*TransactionalAESGCMBarrier), sealed: true, keys: map[uint32][]byte{}}
		h.sby = &c10Node{name: "node2", b: NewAESGCMBarrier(faulty, nil).(*TransactionalAESGCMBarrier), sealed: true, keys: map[uint32][]byte{}}
		h.rootKey = h.drawRootKey("rootKey")

		// before initialisation nothing can be unsealed
		var uerr error
		h.try("Unseal", func() { uerr = h.act.b.Unseal(ctx, c10Copy(h.rootKey)) })
		if !errors.Is(uerr, ErrBarrierNotInit) || !h.act.b.Sealed() {
			h.viol("unseal-before-init", map[string]any{"err": fmt.Sprint(uerr)}, "Unseal of an uninitialised barrier returned %v", uerr)
		}
		if err := h.act.b.Initialize(ctx, c10Copy(h.rootKey), nil); err != nil {
			rt.Fatalf("harness: initialize: %v", err)
		}
		h.syncDurable()
		if h.durTerm != 1 || !h.rkOpen {
			rt.Fatalf("harness: unexpected durable state after Initialize (term %d, root-key record opens: %v)", h.durTerm, h.rkOpen)
		}
		h.checkSealed(h.act)
		h.checkSealed(h.sby)
		for _, n := range []*c10Node{h.act, h.sby} {
			h.unseal(n, "right", h.rootKey)
			if n.sealed {
				rt.Fatalf("harness: first unseal failed")
			}
		}
		h.fSealCycle = false

		count := func(name string, f func()) func(*rapid.T) {
			return func(*rapid.T) {
				h.ops["op:"+name]++
				f()
			}
		}
		actions := map[string]func(*rapid.T){
			"":                    func(*rapid.T) { h.invariant() },
			"01-put":              count("put", h.opPut),
			"02-rotate":           count("rotate", func() { h.rotate(rapid.IntRange(0, 9).Draw(rt, "withUpgrade") < 7) }),
			"03-txn":              count("txn", h.opTxn),
			"04-get":              count("get", func() { h.opGet(h.act, rapid.Bool().Draw(rt, "viaTxn")) }),
			"05-seal-active":      count("seal-active", func() { h.opSeal(h.act) }),
			"06-unseal-active":    count("unseal-active", func() { h.opUnseal(h.act) }),
			"07-standby-follow":   count("standby-follow", func() { h.follow(h.sby) }),
			"08-get-standby":      count("get-standby", func() { h.opGet(h.sby, rapid.Bool().Draw(rt, "viaTxn")) }),
			"09-rotate-root-key":  count("rotate-root-key", h.rotateRoot),
			"10-seal-standby":     count("seal-standby", func() { h.opSeal(h.sby) }),
			"11-unseal-standby":   count("unseal-standby", func() { h.opUnseal(h.sby) }),
			"12-failover":         count("failover", h.opFailover),
			"13-standby-walk":     count("standby-walk", func() { h.walk(h.sby) }),
			"14-delete":           count("delete", h.opDelete),
			"15-list":             count("list", func() { h.opList(h.act) }),
			"16-crypt":            count("encrypt-decrypt", h.opCrypt),
			"17-reload-keyring":   count("reload-keyring", func() { h.reloadKeyring(h.act); h.reloadKeyring(h.sby) }),
			"18-reload-root-key":  count("reload-root-key", func() { h.reloadRootKey(h.act); h.reloadRootKey(h.sby) }),
			"19-create-upgrade": count("create-upgrade", func() {
				if h.act.maxTerm < 2 {
					h.rotate(true)
					return
				}
				h.createUpgrade(uint32(rapid.IntRange(2, int(h.act.maxTerm)).Draw(rt, "upgradeTerm")))
			}),
			"20-destroy-upgrade": count("destroy-upgrade", func() {
				h.destroyUpgrade(uint32(rapid.IntRange(2, int(h.durTerm)+1).Draw(rt, "upgradeTerm")))
			}),
			"21-list-standby":     count("list", func() { h.opList(h.sby) }),
			"22-active-walk":      count("active-walk", func() { h.walk(h.act) }),
			"23-autorotate-check": count("autorotate-check", h.autoRotateCheck),
			"24-put-again":        count("put", h.opPut),
			"25-txn-again":        count("txn", h.opTxn),
			"26-rotate-again":     count("rotate", func() { h.rotate(rapid.IntRange(0, 9).Draw(rt, "withUpgrade") < 7) }),
		}
		defer func() {
			h.faulty.fault = nil
			for k, v := range h.ops {
				rec.Class(k, v)
			}
			rec.Class("reads-of-entries-under-older-term", int64(h.oldTermReads))
		}()
		rt.Repeat(actions)

		// end of the history: every instance is sealed and unsealed with the root key that opens the store and must
		// then serve every acknowledged entry
		for _, n := range []*c10Node{h.act, h.sby} {
			if !n.sealed {
				h.seal(n)
			}
			h.unseal(n, "right", h.rootKey)
		}

		flag := func(b bool, s string) string {
			if b {
				return s
			}
			return "-"
		}
		class := "rotate:" + flag(h.fRot, "y") + " rootkey:" + flag(h.fRootRot, "y") + " seal-cycle:" + flag(h.fSealCycle, "y") + " standby-upgrade:" + flag(h.fUpgrade, "y") + " failover:" + flag(h.fFailover, "y")
		if h.faultsFired > 0 {
			rec.Class("sequences-with-storage-fault", 1)
		}
		opsSorted := make([]string, 0, len(h.ops))
		for k, v := range h.ops {
			opsSorted = append(opsSorted, fmt.Sprintf("%s=%d", strings.TrimPrefix(k, "op:"), v))
		}
		sort.Strings(opsSorted)
		rec.Case(class, h.fNontrivial, verifx.Digest("c10", class, h.durTerm, len(h.prevRoots), opsSorted, len(h.entries)), func() any {
			return map[string]any{"class": class, "durable_term": h.durTerm, "root_keys_seen": len(h.prevRoots) + 1, "entries": len(h.entries), "ops": strings.Join(opsSorted, " "),
				"storage_faults_fired": h.faultsFired, "reads_of_entries_under_older_term": h.oldTermReads}
		})
	}
}

func TestVerif_C10_State(t *testing.T) {
	rec := verifx.NewRecorder("C10", "barrier-state",
		"rapid state machine over two AESGCMBarrier instances (active, standby) on one in-memory store behind a pass-through that can fail one storage write (core/keyring, core/root-key, core/master delete, core/upgrade/*, data, any) of a Rotate/RotateRootKey/CreateUpgrade/DestroyUpgrade/Put/Delete/auto-rotate check: put/get/delete/list plain and transactional, Encrypt/Decrypt, Rotate (+CreateUpgrade), RotateRootKey (valid and bad sizes), Seal, Unseal with right/wrong/one-bit-off/truncated/extended/previous root key, ReloadKeyring, ReloadRootKey, standby CheckUpgrade walk, performKeyUpgrades sequence, failover; durable state is read from the store; every sequence ends with Seal+Unseal of both instances; non-trivial = >= 1 rotation, then a seal+unseal, keyring reload or standby upgrade on an instance, then that instance returns the exact value of an entry written under an older term")
	defer rec.Flush()
	rapid.Check(t, c10Prop(rec))
}
