//go:build verif

package barrier

// C10, concurrent unit: the periodic flush of encryption counts (CheckBarrierAutoRotate -> persistEncryptions, which
// re-writes the keyring) overlapping a key rotation, a root-key rotation or ordinary writes must never leave a stored
// keyring older than the one the barrier encrypts with: after seal + unseal with the valid root key every entry
// written earlier reads back and the newest term is known.

import (
	"context"
	"fmt"
	"testing"
	"time"

	"github.com/openbao/openbao/sdk/v2/helper/verifx"
	"github.com/openbao/openbao/sdk/v2/logical"
	"pgregory.net/rapid"
)

func TestVerif_C10_BarrierConcurrent(t *testing.T) {
	rec := verifx.NewRecorder("C10", "barrier-concurrent", "one AES-GCM barrier over a recording in-memory store (transactional or not) with a few entries written; then 2-3 concurrent tasks of 1-2 operations each from {flush of the encryption counters (CheckBarrierAutoRotate), Rotate, RotateRootKey(new key), Put, Get, SetRotationConfig} interleaved by the harness at every storage operation (before it and when it has come back; stay-or-switch random walk); oracle after all tasks finished: ActiveKeyInfo's term equals 1 + acknowledged rotations; after Seal and Unseal with the root key that is valid now (the last acknowledged RotateRootKey's, else the original) - and never with an outdated one - the term is still the newest and every entry written and acknowledged reads back; non-trivial = a switch between unfinished tasks of which one persists the keyring")
	defer rec.Flush()
	rapid.Check(t, func(rt *rapid.T) {
		ctx := context.Background()
		phys := verifx.NewRec(verifx.NewInmem(rapid.Bool().Draw(rt, "transactionalStorage")))
		r := verifx.RecOf(phys)
		r.Logging = false
		var b *AESGCMBarrier
		switch v := NewAESGCMBarrier(phys, nil).(type) {
		case *TransactionalAESGCMBarrier:
			b = v.AESGCMBarrier
		case *AESGCMBarrier:
			b = v
		}
		rootKey, err := b.GenerateKey()
		if err != nil {
			t.Fatalf("harness: %v", err)
		}
		if err := b.Initialize(ctx, append([]byte(nil), rootKey...), nil); err != nil {
			t.Fatalf("harness: initialize: %v", err)
		}
		if err := b.Unseal(ctx, append([]byte(nil), rootKey...)); err != nil {
			t.Fatalf("harness: unseal: %v", err)
		}
		model := map[string]string{}
		for i, n := 0, rapid.IntRange(1, 4).Draw(rt, "initialEntries"); i < n; i++ {
			k, v := fmt.Sprintf("d/k%d", i), fmt.Sprintf("v%d", i)
			if err := b.Put(ctx, &logical.StorageEntry{Key: k, Value: []byte(v)}); err != nil {
				t.Fatalf("harness: put: %v", err)
			}
			model[k] = v
		}
		for i, n := 0, rapid.IntRange(0, 2).Draw(rt, "rotationsBefore"); i < n; i++ {
			if _, err := b.Rotate(ctx); err != nil {
				t.Fatalf("harness: rotate: %v", err)
			}
		}
		ki, _ := b.ActiveKeyInfo()
		term0 := ki.Term
		type op struct {
			kind string
			key  string
			val  string
			root []byte
			out  string
		}
		nTasks := rapid.IntRange(2, 3).Draw(rt, "tasks")
		tasks := make([][]*op, nTasks)
		persists := 0
		for i := range tasks {
			for j, n := 0, rapid.IntRange(1, 2).Draw(rt, fmt.Sprintf("ops%d", i)); j < n; j++ {
				kinds := []string{"flush", "flush", "rotate", "rotate-root", "put", "get", "config", "rotate"}
				o := &op{kind: kinds[rapid.IntRange(0, len(kinds)-1).Draw(rt, fmt.Sprintf("kind%d.%d", i, j))]}
				switch o.kind {
				case "put":
					o.key, o.val = fmt.Sprintf("d/t%d.%d", i, j), fmt.Sprintf("w%d.%d", i, j)
				case "get":
					o.key = "d/k0"
				case "rotate-root":
					o.root = rapid.SliceOfN(rapid.Byte(), 32, 32).Draw(rt, fmt.Sprintf("root%d.%d", i, j))
					persists++
				case "flush", "rotate", "config":
					persists++
				}
				tasks[i] = append(tasks[i], o)
			}
		}
		sched := verifx.NewSched(r)
		sched.AfterOps = true
		defer func() {
			sched.RunToEnd(20 * time.Second)
			r.Gate, r.GateAfter, r.TaskOf = nil, nil, nil
		}()
		run := func(o *op) {
			switch o.kind {
			case "flush":
				_, err := b.CheckBarrierAutoRotate(ctx)
				o.out = fmt.Sprint(err)
			case "rotate":
				_, err := b.Rotate(ctx)
				o.out = fmt.Sprint(err)
			case "rotate-root":
				o.out = fmt.Sprint(b.RotateRootKey(ctx, append([]byte(nil), o.root...)))
			case "put":
				o.out = fmt.Sprint(b.Put(ctx, &logical.StorageEntry{Key: o.key, Value: []byte(o.val)}))
			case "get":
				e, err := b.Get(ctx, o.key)
				o.out = fmt.Sprint(e != nil, err)
			case "config":
				rc, _ := b.RotationConfig()
				rc.MaxOperations++
				o.out = fmt.Sprint(b.SetRotationConfig(ctx, rc))
			}
		}
		for i := range tasks {
			i := i
			sched.Spawn(fmt.Sprintf("T%d", i), func() {
				for _, o := range tasks[i] {
					run(o)
				}
			})
		}
		switches, cur := 0, -1
		serr := sched.Run(func(parked []int) int {
			stay := false
			for _, p := range parked {
				if p == cur {
					stay = true
				}
			}
			if stay && rapid.IntRange(0, 9).Draw(rt, "step") < 5 {
				return cur
			}
			pick := parked[rapid.IntRange(0, len(parked)-1).Draw(rt, "pick")]
			if cur >= 0 && pick != cur && !sched.Tasks()[cur].Done {
				switches++
			}
			cur = pick
			return pick
		})
		trace := sched.Trace
		if serr != nil {
			sched.RunToEnd(10 * time.Second)
			t.Fatalf("harness: %v", serr)
		}
		r.Gate, r.GateAfter = nil, nil
		var hist []string
		rotations := 0
		validRoot := rootKey
		var outdated [][]byte
		rootRotations := 0
		for i, ops := range tasks {
			for _, o := range ops {
				hist = append(hist, fmt.Sprintf("T%d: %s %s -> %s", i, o.kind, o.key, o.out))
				switch {
				case o.kind == "rotate" && o.out == "<nil>":
					rotations++
				case o.kind == "put" && o.out == "<nil>":
					model[o.key] = o.val
				case o.kind == "rotate-root" && o.out == "<nil>":
					rootRotations++
				}
			}
		}
		if len(trace) > 80 {
			trace = trace[:80]
		}
		detail := map[string]any{"tasks": hist, "schedule": trace, "term_before": term0}
		if rootRotations > 1 {
			// two acknowledged root-key rotations in flight at once: which of them is the last is decided by their order
			// inside the barrier; both keys are tried below
			rec.Class("two-root-rotations", 1)
		}
		ki, err = b.ActiveKeyInfo()
		if err != nil || ki == nil {
			rec.Violation(rt, "active-key-info:after-concurrent-operations", detail, "ActiveKeyInfo: %v", err)
			return
		}
		if int(ki.Term) != int(term0)+rotations {
			rec.Violation(rt, "term-not-one-plus-rotations:after-concurrent-operations", detail, "%d rotations were acknowledged on term %d but the active term is %d; %v", rotations, term0, ki.Term, hist)
		}
		wantTerm := ki.Term
		if err := b.Seal(); err != nil {
			t.Fatalf("harness: seal: %v", err)
		}
		// candidates for the valid root key: the acknowledged rotate-root keys (any order), else the original
		var cands [][]byte
		for _, ops := range tasks {
			for _, o := range ops {
				if o.kind == "rotate-root" && o.out == "<nil>" {
					cands = append(cands, o.root)
				}
			}
		}
		if len(cands) == 0 {
			cands = [][]byte{validRoot}
		} else {
			outdated = append(outdated, rootKey)
		}
		for _, k := range outdated {
			if err := b.Unseal(ctx, append([]byte(nil), k...)); err == nil {
				rec.Violation(rt, "outdated-root-key-unseals:after-concurrent-operations", detail, "the root key that was replaced by an acknowledged RotateRootKey still unseals the barrier; %v", hist)
				_ = b.Seal()
			}
		}
		opened := false
		var lastErr error
		for _, k := range cands {
			if err := b.Unseal(ctx, append([]byte(nil), k...)); err == nil {
				opened = true
				break
			} else {
				lastErr = err
			}
		}
		if !opened {
			rec.Violation(rt, "valid-root-key-does-not-unseal:after-concurrent-operations", detail, "after the concurrent operations finished and the barrier was sealed, no acknowledged root key unseals it: %v; %v", lastErr, hist)
			return
		}
		ki2, err := b.ActiveKeyInfo()
		if err != nil || ki2 == nil || ki2.Term != wantTerm {
			rec.Violation(rt, "stored-keyring-older-than-active-keyring", detail, "the barrier was encrypting under term %d; after seal + unseal the stored keyring's newest term is %v (err %v): a keyring persisted by an overlapping operation was overwritten by an older snapshot; %v", wantTerm, ki2, err, hist)
			return
		}
		for k, v := range model {
			e, err := b.Get(ctx, k)
			if err != nil || e == nil || string(e.Value) != v {
				rec.Violation(rt, "acknowledged-entry-unreadable:after-concurrent-operations", detail, "entry %q (= %q) written and acknowledged earlier does not read back after seal + unseal: entry=%v err=%v; %v", k, v, e, err, hist)
				return
			}
		}
		rec.Case(fmt.Sprintf("tasks=%d", nTasks), switches > 0 && persists > 0, verifx.Digest(hist, trace), func() any { return detail })
		if switches > 0 {
			rec.Class("with-preemption", 1)
		}
	})
}
