//go:build verif

package verif_storagex

// C13 — every storage backend and wrapping layer implements one key/value and listing contract.
//
// One rapid state machine is run against every stack (base store x layers). The oracle is the
// sorted-map model of model_test.go plus, per layer, the documented rejections:
//   physical.View      rejects keys containing ".."            (must when ".." is a path segment)
//   logical views      reject "." / ".." path segments         (must for "..")
//   StorageEncoding    rejects non-UTF-8 / non-printable keys on Put and Delete (must)
//   file backend       rejects ".." (must for a ".." segment)
//   raft FSM (bolt)    rejects keys longer than 32768 bytes on Put (must)
// A rejected operation must leave the model unchanged; any other error is a violation.

import (
	"bytes"
	"context"
	"errors"
	"fmt"
	"os"
	"path/filepath"
	"sort"
	"strings"
	"testing"
	"unicode"
	"unicode/utf8"

	log "github.com/hashicorp/go-hclog"
	metrics "github.com/hashicorp/go-metrics/compat"
	"github.com/openbao/openbao/sdk/v2/helper/verifx"
	"github.com/openbao/openbao/sdk/v2/logical"
	"github.com/openbao/openbao/sdk/v2/physical"
	"github.com/openbao/openbao/sdk/v2/physical/file"
	"github.com/openbao/openbao/sdk/v2/physical/inmem"
	"github.com/openbao/openbao/v2/internal/physical/raft"
	"github.com/openbao/openbao/v2/internal/vault/barrier"
	"pgregory.net/rapid"
)

const c13BoltMaxKey = 32768

// c13Spec names a stack: a base store and the layers put on top of it, bottom to top.
type c13Spec struct {
	name    string
	base    string // inmem | inmem-notx | file | fsm | inmemstorage
	cache   bool   // physical.NewCache (transactional cache when the base is transactional), enabled, small
	enc     bool   // physical.NewStorageEncoding
	pview   bool   // physical.NewView(prefix)
	logical bool   // logical.NewLogicalStorage
	barrier bool   // AES-GCM barrier
	lview   bool   // logical.NewStorageView(prefix) + SubView
	bview   bool   // barrier.NewView(prefix) + SubView
	maxVal  int    // in-memory bases: max_value_size of the backend (0 = unlimited); drawn per case, see c13RunStack
}

type c13Stack struct {
	spec       c13Spec
	top        sxKV
	clearable  logical.ClearableView
	logicalTop logical.Storage
	raw        physical.Backend // the base store, read directly for the checks "on the underlying store"
	tap        *sxTap           // tap directly above raw (nil for inmemstorage)
	fullPrefix string           // a key k of the top lives at fullPrefix+k in raw
	viewKind   int              // 0 none, 1 physical.View, 2 logical view
	purger     physical.ToggleablePurgemonster
	closeFn    func()
	// begin starts a transaction on the highest layer of the stack that offers one (nil when none does); the returned
	// kv goes through every layer of the stack (a physical.View, which is not transactional itself, is put over the transaction)
	begin func(ctx context.Context, readOnly bool) (*c13TxnH, error)
}

type c13TxnH struct {
	kv       sxKV
	commit   func(ctx context.Context) error
	rollback func(ctx context.Context) error
}

func c13Build(spec c13Spec, dir string) (*c13Stack, error) {
	ctx := context.Background()
	st := &c13Stack{spec: spec, closeFn: func() {}}
	nl := log.NewNullLogger()
	if spec.base == "inmemstorage" {
		s := &logical.InmemStorage{}
		st.top = sxLog{s}
		st.clearable = s
		st.logicalTop = s
		st.raw = s.Underlying()
		return st, nil
	}
	var base physical.Backend
	var err error
	switch spec.base {
	case "inmem", "inmem-notx":
		conf := map[string]string{}
		if spec.base == "inmem-notx" {
			conf["disable_transactions"] = "true"
		}
		if spec.maxVal > 0 {
			conf["max_value_size"] = fmt.Sprint(spec.maxVal)
		}
		base, err = inmem.NewInmem(conf, nl)
	case "file":
		base, err = file.NewFileBackend(map[string]string{"path": dir}, nil)
	case "fsm":
		var f *raft.FSM
		f, err = raft.NewFSM(dir, "n1", nl)
		if err == nil {
			base = f
			st.closeFn = func() { _ = f.Close() }
		}
	default:
		err = fmt.Errorf("unknown base %q", spec.base)
	}
	if err != nil {
		return nil, err
	}
	st.raw = base
	cur, tap := sxNewTap(base)
	st.tap = tap
	if spec.cache {
		c := physical.NewCache(cur, 8, nl, &metrics.BlackholeSink{})
		c.SetEnabled(true)
		st.purger = c
		cur = c
	}
	if spec.enc {
		cur = physical.NewStorageEncoding(cur)
	}
	if tb, ok := cur.(physical.TransactionalBackend); ok && !spec.barrier && !spec.logical {
		pview := spec.pview
		st.begin = func(ctx context.Context, ro bool) (*c13TxnH, error) {
			var tx physical.Transaction
			var err error
			if ro {
				tx, err = tb.BeginReadOnlyTx(ctx)
			} else {
				tx, err = tb.BeginTx(ctx)
			}
			if err != nil {
				return nil, err
			}
			var b physical.Backend = tx
			if pview {
				b = physical.NewView(tx, "v/w/")
			}
			return &c13TxnH{kv: sxPhys{b}, commit: tx.Commit, rollback: tx.Rollback}, nil
		}
	}
	if spec.pview {
		st.fullPrefix = "v/w/"
		st.viewKind = 1
		cur = physical.NewView(cur, st.fullPrefix)
	}
	if !spec.barrier && !spec.logical {
		st.top = sxPhys{cur}
		st.clearable = cur
		st.logicalTop = logical.NewLogicalStorage(cur)
		return st, nil
	}
	var ls logical.Storage
	if spec.barrier {
		b := barrier.NewAESGCMBarrier(cur, nil)
		key, err := b.GenerateKey()
		if err != nil {
			return nil, err
		}
		if err := b.Initialize(ctx, key, nil); err != nil {
			return nil, err
		}
		if err := b.Unseal(ctx, key); err != nil {
			return nil, err
		}
		ls = b
	} else {
		ls = logical.NewLogicalStorage(cur)
	}
	if spec.lview {
		ls = logical.NewStorageView(ls, "v/").SubView("w/")
		st.fullPrefix += "v/w/"
		st.viewKind = 2
	}
	if spec.bview {
		ls = barrier.NewView(ls, "v/").SubView("w/")
		st.fullPrefix += "v/w/"
		st.viewKind = 2
	}
	st.top = sxLog{ls}
	st.clearable = ls
	st.logicalTop = ls
	if ts, ok := ls.(logical.TransactionalStorage); ok {
		st.begin = func(ctx context.Context, ro bool) (*c13TxnH, error) {
			var tx logical.Transaction
			var err error
			if ro {
				tx, err = ts.BeginReadOnlyTx(ctx)
			} else {
				tx, err = ts.BeginTx(ctx)
			}
			if err != nil {
				return nil, err
			}
			return &c13TxnH{kv: sxLog{tx}, commit: tx.Commit, rollback: tx.Rollback}, nil
		}
	}
	return st, nil
}

// ---- which operations a stack documents to reject

func c13HasSeg(key, seg string) bool {
	for _, s := range strings.Split(key, "/") {
		if s == seg {
			return true
		}
	}
	return false
}

func c13NonPrintable(key string) bool {
	return strings.IndexFunc(key, func(c rune) bool { return !unicode.IsPrint(c) }) != -1
}

// c13Verdict: must = some layer has to reject this operation, may = some layer documents that it can.
// op is one of put get delete list.
func (st *c13Stack) c13Verdict(op, key string) (must, may bool) {
	sp := st.spec
	dd := c13HasSeg(key, "..")
	if sp.pview {
		must = must || dd
		may = may || strings.Contains(key, "..")
	}
	if sp.lview || sp.bview {
		must = must || dd
		may = may || dd || c13HasSeg(key, ".")
	}
	if sp.enc && (op == "put" || op == "delete") {
		bad := !utf8.ValidString(key) || c13NonPrintable(key)
		must = must || bad
		may = may || bad
	}
	if sp.base == "file" {
		must = must || dd
		may = may || strings.Contains(key, "..")
	}
	if sp.base == "fsm" && op == "put" && len(st.fullPrefix)+len(key) > c13BoltMaxKey {
		must, may = true, true
	}
	return must, may
}

// c13AfterCleaned: does filepath.Join(prefix, after) — what the raft listings seek to — differ from
// prefix+after by more than a dropped trailing slash? (A dropped trailing slash only moves the seek
// position backwards, which is harmless.)
func c13AfterCleaned(fullPrefix, after string) bool {
	if after == "" {
		return false
	}
	raw := fullPrefix + after
	return filepath.Clean(raw) != strings.TrimSuffix(raw, "/")
}

// ---- generator

var (
	c13CoreSegs = []string{"a", "b", "a-", "a.", "a0", "ab", "é", "x0", "y"}
	c13Long249  = strings.Repeat("L", 249) // the file backend writes "_<name>.temp" first: 249+6 = NAME_MAX
	c13Long300  = strings.Repeat("M", 300)
)

func (st *c13Stack) exoticSegs() []string {
	segs := []string{" ", "A", "~", "日本語", "😀", "a..b", ".a", "a_", "-", "0", c13Long249, "..", "z\u200bz", "a "}
	if st.spec.base != "file" {
		// the file backend stores key k as file "_k": names starting with '_' collide with that scheme, "." is
		// cleaned away by filepath.Join, NUL cannot be part of a file name and names over 249 bytes cannot be written.
		segs = append(segs, "_a", ".", "n\x00u", "h\xff", c13Long300)
	} else {
		segs = append(segs, "h\xffi")
	}
	return segs
}

func (st *c13Stack) genSeg(rt *rapid.T) string {
	if rapid.IntRange(0, 7).Draw(rt, "segKind") == 7 {
		return rapid.SampledFrom(st.exoticSegs()).Draw(rt, "xseg")
	}
	return rapid.SampledFrom(c13CoreSegs).Draw(rt, "seg")
}

func (st *c13Stack) genFreshKey(rt *rapid.T) string {
	n := rapid.IntRange(1, 3).Draw(rt, "depth")
	parts := make([]string, n)
	for i := range parts {
		parts[i] = st.genSeg(rt)
	}
	return strings.Join(parts, "/")
}

func c13Pick(rt *rapid.T, l []string, label string) string {
	return l[rapid.IntRange(0, len(l)-1).Draw(rt, label)]
}

func (st *c13Stack) genKey(rt *rapid.T, keys []string) string {
	mode := rapid.IntRange(0, 11).Draw(rt, "keyMode")
	if len(keys) == 0 && mode < 6 {
		mode = 6
	}
	switch {
	case mode <= 2: // existing key
		return c13Pick(rt, keys, "k")
	case mode == 3: // child of an existing key: the existing key becomes a prefix of another key
		return strings.TrimSuffix(c13Pick(rt, keys, "k"), "/") + "/" + st.genSeg(rt)
	case mode == 4: // an ancestor directory of an existing key, used as a key itself
		k := strings.TrimSuffix(c13Pick(rt, keys, "k"), "/")
		if i := strings.LastIndex(k, "/"); i > 0 {
			return k[:i]
		}
		return k
	case mode == 5: // sibling of an existing key
		k := strings.TrimSuffix(c13Pick(rt, keys, "k"), "/")
		if i := strings.LastIndex(k, "/"); i >= 0 {
			return k[:i+1] + st.genSeg(rt)
		}
		return st.genSeg(rt)
	case mode == 6 && st.spec.base != "file": // key with a trailing slash (legal: listing its directory yields "")
		if rapid.IntRange(0, 3).Draw(rt, "ts") == 0 {
			return st.genFreshKey(rt) + "/"
		}
		return st.genFreshKey(rt)
	case mode == 7 && st.spec.base == "fsm": // length boundary of bolt keys: exactly at and just over the maximum
		base := st.genFreshKey(rt) + "/"
		total := c13BoltMaxKey - len(st.fullPrefix) + rapid.IntRange(0, 1).Draw(rt, "over")
		if total > len(base) {
			return base + strings.Repeat("K", total-len(base))
		}
		return base + "K"
	default:
		return st.genFreshKey(rt)
	}
}

func (st *c13Stack) genPrefix(rt *rapid.T, keys []string) string {
	mode := rapid.IntRange(0, 9).Draw(rt, "prefixMode")
	switch {
	case mode <= 2:
		return ""
	case mode <= 7 && len(keys) > 0: // an ancestor directory of an existing key (or the key itself as a directory)
		k := c13Pick(rt, keys, "pk")
		var cuts []int
		for i := 0; i < len(k); i++ {
			if k[i] == '/' {
				cuts = append(cuts, i+1)
			}
		}
		c := rapid.IntRange(0, len(cuts)).Draw(rt, "cut")
		if c == len(cuts) {
			if strings.HasSuffix(k, "/") {
				return k
			}
			return k + "/"
		}
		return k[:cuts[c]]
	default:
		return st.genFreshKey(rt) + "/"
	}
}

var c13FixedAfters = []string{".", "..", "a/", "a/b", "x/../y", "a/..", "./a", "a//b", "/", "~", "\xff", "a\x00", "a/./b", "../a", "0"}

func (st *c13Stack) genAfter(rt *rapid.T, entries []string) string {
	mode := rapid.IntRange(0, 9).Draw(rt, "afterMode")
	switch {
	case mode == 0:
		return ""
	case mode <= 4 && len(entries) > 0: // an existing entry, or a near miss of one
		e := c13Pick(rt, entries, "ae")
		switch rapid.IntRange(0, 5).Draw(rt, "aeVar") {
		case 0:
			return strings.TrimSuffix(e, "/") // a directory named without its slash
		case 1:
			if len(e) > 1 {
				return e[:len(e)-1]
			}
			return e
		case 2:
			return e + "\x00"
		case 3:
			return e + "/"
		default:
			return e
		}
	case mode <= 6:
		return rapid.SampledFrom(c13FixedAfters).Draw(rt, "fixedAfter")
	case mode == 7: // two segments joined by something filepath.Clean rewrites
		j := rapid.SampledFrom([]string{"/../", "/./", "//", "/"}).Draw(rt, "joiner")
		return st.genSeg(rt) + j + st.genSeg(rt)
	default: // non-existing (or by chance existing) plain segment
		return st.genSeg(rt)
	}
}

func c13GenLimit(rt *rapid.T) int {
	return rapid.SampledFrom([]int{-1, -7, 0, 1, 1, 2, 3, 1 << 30}).Draw(rt, "limit")
}

func c13LimitClass(l int) string {
	switch {
	case l < 0:
		return "limit<0"
	case l == 0:
		return "limit=0"
	case l == 1:
		return "limit=1"
	case l < 10:
		return "limit-small"
	}
	return "limit-huge"
}

// ---- one run of the state machine

type c13Run struct {
	st      *c13Stack
	rec     *verifx.Recorder
	rt      *rapid.T
	ctx     context.Context
	m       map[string][]byte // model: what the top of the stack must contain
	foreign map[string]bool   // keys the stack itself created in the store (barrier keyring); listed, never touched
	outside map[string][]byte // raw content outside the view prefix, must never change
	hist    []string
	ntAfter bool // listing returned/expected a directory entry with a non-empty after
	ntPfx   bool // a key that is also a prefix of another key was present during a listing
	feats   map[string]bool
	recent  []string // keys read, written or deleted through the top outside a transaction (most recent last): likely cached
	deleted []string // keys removed lately (delete, committed transactional delete, clear): must stay gone for point reads
	txnCommits, txnRollbacks, txnDelCached int64
	txnRefused, txnRefusedDouble           int64
	dead                                   context.Context // a context that is already cancelled
	failedWrites                           int64
	txnCommitAfterFailedWrite              int64
}

// ---- failing writes. A Put/Delete may be refused at that call: its context is already cancelled (every layer that looks
// at the context documents that it then returns the context's error; layers that do not look at it carry the write out),
// or the value exceeds the max_value_size the in-memory backend was configured with. The store stays one key/value
// store: "the last value put" is the last put that was accepted, so an operation that returned an error changes
// nothing - at once, later, inside a transaction, or when that transaction is committed afterwards with a live context
// - and one that returned nil took effect although its context was cancelled.

const c13MaxValueSize = 12 // the keys seeded outside a view hold up to 10 bytes

// opCtx draws the context of one write: cancelled once in oneIn.
func (r *c13Run) opCtx(rt *rapid.T, oneIn int) (context.Context, bool) {
	if rapid.IntRange(0, oneIn-1).Draw(rt, "ctxCancelled") == 0 {
		return r.dead, true
	}
	return r.ctx, false
}

func c13GenVal(rt *rapid.T, maxLen int) []byte {
	switch rapid.IntRange(0, 11).Draw(rt, "valKind") {
	case 0:
		return []byte{}
	case 1: // around and over the configured max_value_size
		return rapid.SliceOfN(rapid.Byte(), c13MaxValueSize-1, c13MaxValueSize+4).Draw(rt, "bigVal")
	}
	return rapid.SliceOfN(rapid.Byte(), 1, maxLen).Draw(rt, "val")
}

// writeOutcome is errOutcome for Put/Delete with the two refusals above; true = refused, leave the model alone.
func (r *c13Run) writeOutcome(op, key string, val []byte, cancelled bool, err error) bool {
	if op == "put" && r.st.spec.maxVal > 0 && len(val) > r.st.spec.maxVal {
		r.feats["put-over-max-value-size"] = true
		if err == nil {
			r.viol("missing-rejection-put-too-large", "put %s of %d bytes succeeded on a backend with max_value_size=%d", sxQ(key), len(val), r.st.spec.maxVal)
		}
		r.failedWrites++
		return true
	}
	if cancelled && err != nil {
		r.feats["write-refused-cancelled-context"] = true
		r.failedWrites++
		return true
	}
	if cancelled {
		r.feats["write-accepted-cancelled-context"] = true
	}
	return r.errOutcome(op, key, err)
}

func c13Remember(l []string, k string, max int) []string {
	for i, x := range l {
		if x == k {
			l = append(l[:i], l[i+1:]...)
			break
		}
	}
	l = append(l, k)
	if len(l) > max {
		l = l[len(l)-max:]
	}
	return l
}

func (r *c13Run) touchedOutside(k string) { r.recent = c13Remember(r.recent, k, 12) }
func (r *c13Run) noteDeleted(k string)    { r.deleted = c13Remember(r.deleted, k, 24) }

func (r *c13Run) keys() []string { return sxSortedKeys(r.m) }

// visible = model keys plus foreign keys: what listings at the top must show.
func (r *c13Run) visible() []string {
	ks := r.keys()
	for k := range r.foreign {
		ks = append(ks, k)
	}
	sort.Strings(ks)
	return ks
}

func (r *c13Run) log(format string, args ...any) {
	r.hist = append(r.hist, fmt.Sprintf(format, args...))
}

func (r *c13Run) detail() map[string]any {
	h := r.hist
	if len(h) > 60 {
		h = h[len(h)-60:]
	}
	return map[string]any{"stack": r.st.spec.name, "history": h, "model": sxQM(r.m)}
}

func (r *c13Run) viol(sig, format string, args ...any) bool {
	return r.rec.Violation(r.rt, sig, r.detail(), "[%s] %s", r.st.spec.name, fmt.Sprintf(format, args...))
}

// errOutcome applies the rejection rules to the error of one operation; returns true when the
// operation was (legitimately) rejected and the caller must leave the model unchanged.
func (r *c13Run) errOutcome(op, key string, err error) bool {
	must, may := r.st.c13Verdict(op, key)
	if err != nil {
		r.feats["rejected-op"] = true
		if !may {
			r.viol("unexpected-error-"+op, "%s %s failed though no layer documents a rejection: %v", op, sxQ(key), err)
		}
		if r.st.viewKind != 0 && c13HasSeg(key, "..") && !errors.Is(err, logical.ErrRelativePath) && !errors.Is(err, physical.ErrRelativePath) {
			r.viol("view-wrong-error", "%s %s through a view failed with %v, want ErrRelativePath", op, sxQ(key), err)
		}
		return true
	}
	if must {
		r.viol("missing-rejection-"+op, "%s %s succeeded though a layer of the stack must reject it", op, sxQ(key))
	}
	return false
}

// watch runs f with the tap armed: every operation that reaches the base store must stay inside the view prefix, and
// a helper that keeps issuing operations is cut off (budget) and reported instead of hanging the test.
func (r *c13Run) watch(what string, f func()) {
	tp := r.st.tap
	if tp == nil {
		f()
		return
	}
	tp.armed, tp.ops, tp.budget = true, tp.ops[:0], 20000
	f()
	tp.armed = false
	if tp.budget == 0 {
		r.viol("operation-does-not-terminate", "%s issued more than 20000 operations on the underlying store", what)
	}
	if r.st.viewKind == 0 {
		return
	}
	for _, o := range tp.ops {
		if !strings.HasPrefix(o.Key, r.st.fullPrefix) {
			r.viol("view-touches-outside", "%s made the view issue %s %s on the underlying store, outside its prefix %q", what, o.Kind, sxQ(o.Key), r.st.fullPrefix)
		}
	}
}

func (r *c13Run) put(rt *rapid.T) {
	k := r.st.genKey(rt, r.keys())
	v := c13GenVal(rt, 6)
	ctx, cancelled := r.opCtx(rt, 8)
	var err error
	r.watch("put", func() { err = r.st.top.Put(ctx, k, v) })
	r.log("put %s=%x cancelled=%v -> %v", sxQ(k), v, cancelled, err)
	if r.writeOutcome("put", k, v, cancelled, err) {
		return
	}
	r.m[k] = append([]byte{}, v...)
	r.noteKey(k)
	r.touchedOutside(k)
}

func (r *c13Run) noteKey(k string) {
	if !utf8.ValidString(k) || strings.IndexFunc(k, func(c rune) bool { return c > 127 }) != -1 {
		r.feats["non-ascii-key"] = true
	}
	if len(k) >= 249 {
		r.feats["long-key"] = true
	}
	if strings.HasSuffix(k, "/") {
		r.feats["trailing-slash-key"] = true
	}
}

func (r *c13Run) get(rt *rapid.T) {
	k := r.st.genKey(rt, r.keys())
	var gk string
	var v []byte
	var ok bool
	var err error
	r.watch("get", func() { gk, v, ok, err = r.st.top.Get(r.ctx, k) })
	r.log("get %s -> %x %v %v", sxQ(k), v, ok, err)
	if r.errOutcome("get", k, err) {
		return
	}
	r.touchedOutside(k)
	want, exists := r.m[k]
	if ok != exists || (ok && !bytes.Equal(v, want)) {
		r.viol("get-mismatch", "get %s returned (%x, found=%v), the last put/delete left (%x, found=%v)", sxQ(k), v, ok, want, exists)
	}
	if ok && gk != k {
		r.viol("get-entry-key", "get %s returned an entry whose Key is %s", sxQ(k), sxQ(gk))
	}
}

func (r *c13Run) del(rt *rapid.T) {
	k := r.st.genKey(rt, r.keys())
	ctx, cancelled := r.opCtx(rt, 8)
	var err error
	r.watch("delete", func() { err = r.st.top.Delete(ctx, k) })
	r.log("delete %s cancelled=%v -> %v", sxQ(k), cancelled, err)
	if r.writeOutcome("delete", k, nil, cancelled, err) {
		return
	}
	delete(r.m, k)
	r.touchedOutside(k)
	r.noteDeleted(k)
}

func (r *c13Run) noteListing(prefix, after string, want []string) {
	vis := r.visible()
	set := make(map[string]bool, len(vis))
	for _, k := range vis {
		set[k] = true
	}
	for _, k := range vis {
		if !strings.HasPrefix(k, prefix) || r.ntPfx {
			continue
		}
		for i := len(prefix); i < len(k); i++ {
			if k[i] == '/' && i > 0 && set[k[:i]] {
				r.ntPfx = true // k[:i] is a key and also a directory
				break
			}
		}
	}
	if after != "" {
		for _, e := range sxEntries(vis, prefix) {
			if strings.HasSuffix(e, "/") {
				r.ntAfter = true
				break
			}
		}
	}
}

func (r *c13Run) list(rt *rapid.T) {
	p := r.st.genPrefix(rt, r.keys())
	var got []string
	var err error
	r.watch("list", func() { got, err = r.st.top.List(r.ctx, p) })
	r.log("list %s -> %s %v", sxQ(p), sxQL(got), err)
	if r.errOutcome("list", p, err) {
		return
	}
	want := sxEntries(r.visible(), p)
	r.noteListing(p, "", want)
	if !sxEqList(got, want) {
		r.viol("list-mismatch", "List(%s) = %s, model %s", sxQ(p), sxQL(got), sxQL(want))
	}
}

func (r *c13Run) listPage(rt *rapid.T) {
	p := r.st.genPrefix(rt, r.keys())
	after := r.st.genAfter(rt, sxEntries(r.visible(), p))
	limit := c13GenLimit(rt)
	var got []string
	var err error
	r.watch("listpage", func() { got, err = r.st.top.ListPage(r.ctx, p, after, limit) })
	r.log("listpage %s after=%s limit=%d -> %s %v", sxQ(p), sxQ(after), limit, sxQL(got), err)
	if r.afterRefused(p, after, err) {
		return
	}
	if r.errOutcome("list", p, err) {
		return
	}
	want := sxListPage(r.visible(), p, after, limit)
	r.noteListing(p, after, want)
	r.feats[c13LimitClass(limit)] = true
	cleaned := c13AfterCleaned(r.st.fullPrefix+p, after)
	if cleaned {
		r.feats["after-cleaned-by-join"] = true
	}
	if after != "" {
		r.feats["after-nonempty"] = true
	}
	if !sxEqList(got, want) {
		sig := "listpage-mismatch"
		if r.st.spec.base == "fsm" && cleaned {
			// the raft FSM seeks to filepath.Join(prefix, after); when Join rewrites the string (".", "..", "//", "/./")
			// the seek position is not prefix+after any more (DESIGN F4, plain-listing symptom)
			sig = "raft-listpage-after-cleaned-fsm"
		}
		r.viol(sig, "ListPage(%s, after=%s, limit=%d) = %s, model %s (keys %s)", sxQ(p), sxQ(after), limit, sxQL(got), sxQL(want), sxQL(r.visible()))
	}
}

// afterRefused: the cursor of a paginated listing is an arbitrary string that entries are compared with - it need not
// exist, it is not a path and no layer documents a rejection of it. A ListPage that fails although its prefix is
// acceptable and the same prefix with an empty cursor would be served has refused the cursor.
func (r *c13Run) afterRefused(p, after string, err error) bool {
	if err == nil || after == "" {
		return false
	}
	if _, may := r.st.c13Verdict("list", p); may {
		return false
	}
	r.viol("listpage-refuses-after", "ListPage(%s, after=%s) failed though no layer documents a rejection of the prefix, and any string is a valid cursor: %v", sxQ(p), sxQ(after), err)
	return true
}

func (r *c13Run) hasEmptyEntry() bool {
	for k := range r.m {
		if strings.HasSuffix(k, "/") {
			return true
		}
	}
	return false
}

// helpers: ScanView / ScanViewPaginated / CollectKeys* / CountKeys / HandleListPage over the top of the stack.
func (r *c13Run) helper(rt *rapid.T) {
	if len(r.foreign) > 0 {
		// the barrier's own keys live in the same flat store; scanning the bare barrier is not a use of a view
		return
	}
	which := rapid.IntRange(0, 4).Draw(rt, "helper")
	want := r.keys()
	cmp := func(name string, got []string, err error) {
		r.log("%s -> %s %v", name, sxQL(got), err)
		if err != nil {
			r.viol("helper-error", "%s failed: %v", name, err)
			return
		}
		sort.Strings(got)
		if !sxEqList(got, want) {
			r.viol("helper-visits-wrong-keys", "%s visited %s, the keys under the view are %s", name, sxQL(got), sxQL(want))
		}
	}
	r.feats["helper"] = true
	// a key with a trailing slash makes ListPage(dir, "", 1) return [""] for ever; the helpers document that they
	// need "an adequately large page size" then, so page size / limit 1 is only drawn without such keys
	minPage := 1
	if r.hasEmptyEntry() {
		minPage = 2
	}
	switch which {
	case 0:
		var got []string
		var err error
		r.watch("ScanView", func() { err = logical.ScanView(r.ctx, r.st.clearable, func(p string) { got = append(got, p) }) })
		cmp("ScanView", got, err)
	case 1:
		ps := rapid.SampledFrom([]int{minPage, 2, 3, 7, logical.DefaultScanViewPageLimit}).Draw(rt, "pageSize")
		stopAt := -1
		if rapid.IntRange(0, 3).Draw(rt, "stopEarly") == 0 && len(want) > 0 {
			stopAt = rapid.IntRange(1, len(want)).Draw(rt, "stopAt")
		}
		var got []string
		var err error
		r.watch("ScanViewPaginated", func() {
			err = logical.ScanViewPaginated(r.ctx, r.st.clearable, log.NewNullLogger(), ps, func(page, index int, p string) (bool, error) {
				got = append(got, p)
				return len(got) != stopAt, nil
			})
		})
		if stopAt > 0 {
			r.log("ScanViewPaginated(%d) stop at %d -> %s %v", ps, stopAt, sxQL(got), err)
			seen := map[string]bool{}
			for _, g := range got {
				if _, ok := r.m[g]; !ok || seen[g] {
					r.viol("helper-visits-wrong-keys", "ScanViewPaginated(%d) visited %s, not a (new) key under the view %s", ps, sxQ(g), sxQL(want))
				}
				seen[g] = true
			}
			if err != nil || len(got) != stopAt {
				r.viol("helper-early-stop", "ScanViewPaginated(%d) told to stop after %d callbacks made %d (err %v)", ps, stopAt, len(got), err)
			}
			return
		}
		cmp(fmt.Sprintf("ScanViewPaginated(%d)", ps), got, err)
	case 2:
		var got []string
		var err error
		r.watch("CollectKeys", func() { got, err = logical.CollectKeys(r.ctx, r.st.clearable) })
		cmp("CollectKeys", got, err)
		var n int
		r.watch("CountKeys", func() { n, err = logical.CountKeys(r.ctx, r.st.clearable) })
		if err != nil || n != len(want) {
			r.viol("helper-count", "CountKeys = %d (err %v), the view holds %d keys", n, err, len(want))
		}
	case 3:
		p := r.st.genPrefix(rt, r.keys())
		var got []string
		var err error
		r.watch("CollectKeysWithPrefix", func() { got, err = logical.CollectKeysWithPrefix(r.ctx, r.st.clearable, p) })
		var w []string
		for _, k := range want {
			if strings.HasPrefix(k, p) {
				w = append(w, k)
			}
		}
		want = w
		cmp("CollectKeysWithPrefix("+sxQ(p)+")", got, err)
	case 4:
		p := r.st.genPrefix(rt, r.keys())
		if m, _ := r.st.c13Verdict("list", p); m {
			return
		}
		limit := rapid.SampledFrom([]int{-1, 0, minPage, 2, 3, 100}).Draw(rt, "hlimit")
		var items, batched []string
		var err error
		r.watch("HandleListPage", func() {
			err = logical.HandleListPage(r.ctx, r.st.logicalTop, p, limit,
				func(page, index int, e string) (bool, error) { items = append(items, e); return true, nil },
				func(page int, es []string) (bool, error) {
					if limit > 0 && len(es) > limit {
						return false, fmt.Errorf("batch of %d entries with limit %d", len(es), limit)
					}
					batched = append(batched, es...)
					return true, nil
				})
		})
		w := sxEntries(r.visible(), p)
		r.log("HandleListPage(%s,%d) -> %s %v", sxQ(p), limit, sxQL(items), err)
		if _, may := r.st.c13Verdict("list", p); err != nil && may {
			return
		}
		if err != nil || !sxEqList(items, w) || !sxEqList(batched, w) {
			r.viol("helper-handlelistpage", "HandleListPage(%s, limit=%d) delivered items %s / batches %s (err %v), the listing is %s", sxQ(p), limit, sxQL(items), sxQL(batched), err, sxQL(w))
		}
	}
}

func (r *c13Run) clear(rt *rapid.T) {
	which := rapid.IntRange(0, 2).Draw(rt, "clearKind")
	var err error
	name := []string{"ClearView", "ClearViewWithLogging", "ClearViewWithoutPagination"}[which]
	r.watch(name, func() {
		switch which {
		case 0:
			err = logical.ClearView(r.ctx, r.st.clearable)
		case 1:
			err = logical.ClearViewWithLogging(r.ctx, r.st.clearable, nil)
		default:
			err = logical.ClearViewWithoutPagination(r.ctx, r.st.clearable, log.NewNullLogger())
		}
	})
	r.log("%s -> %v", name, err)
	r.feats["clear"] = true
	if err != nil {
		// a key the layers refuse to delete (encoding) cannot have been stored, so clearing must not fail
		r.viol("clear-error", "%s failed: %v", name, err)
		return
	}
	for _, k := range r.keys() {
		r.noteDeleted(k)
	}
	r.m = map[string][]byte{}
	r.foreign = map[string]bool{} // clearing the bare barrier removes its keyring entries as well: they are under the (whole-store) view
}

// transaction: begin on the highest transactional layer, 1-4 generated put/delete/get/list operations through all layers
// of the stack, then commit or rollback. No concurrent writer exists, so reads inside see model+own writes, a commit
// must succeed (C08: no failure when nothing was committed in between) and applies all writes, a rollback none.
func (r *c13Run) transaction(rt *rapid.T) {
	if r.st.begin == nil {
		rt.Skip("stack has no transactional layer")
	}
	ro := rapid.IntRange(0, 7).Draw(rt, "txnReadOnly") == 0
	var h *c13TxnH
	var err error
	r.watch("begin", func() { h, err = r.st.begin(r.ctx, ro) })
	if err != nil {
		rt.Fatalf("harness: begin: %v", err)
	}
	finished := false
	defer func() {
		if !finished {
			_ = h.rollback(r.ctx)
		}
	}()
	type wr struct {
		del bool
		val []byte
	}
	overlay := map[string]wr{}
	var order []string
	view := func() map[string][]byte {
		m := sxCloneMap(r.m)
		for k, w := range overlay {
			if w.del {
				delete(m, k)
			} else {
				m[k] = w.val
			}
		}
		return m
	}
	genKey := func() string {
		// keys touched outside a transaction (hence probably in the read cache) are likely
		if len(r.recent) > 0 && rapid.IntRange(0, 9).Draw(rt, "txnKeyRecent") < 6 {
			return r.recent[rapid.IntRange(0, len(r.recent)-1).Draw(rt, "txnRecentKey")]
		}
		return r.st.genKey(rt, sxSortedKeys(view()))
	}
	r.log("txn begin ro=%v", ro)
	delCached := 0
	var readKeys []string
	var failed []string // keys of writes the transaction refused (cancelled context, value too large, documented key rejections)
	for i, n := 0, rapid.IntRange(1, 4).Draw(rt, "txnOps"); i < n; i++ {
		switch rapid.SampledFrom([]string{"put", "delete", "delete", "get", "list"}).Draw(rt, "txnOp") {
		case "put":
			k := genKey()
			v := c13GenVal(rt, 4)
			ctx, cancelled := r.ctx, false
			if !ro {
				ctx, cancelled = r.opCtx(rt, 4)
			}
			var err error
			r.watch("txn put", func() { err = h.kv.Put(ctx, k, v) })
			r.log("txn put %s=%x cancelled=%v -> %v", sxQ(k), v, cancelled, err)
			if ro {
				if !errors.Is(err, physical.ErrTransactionReadOnly) {
					if _, may := r.st.c13Verdict("put", k); !may || err == nil {
						r.viol("readonly-txn-accepts-write", "Put(%s) in a read-only transaction returned %v", sxQ(k), err)
					}
				}
				continue
			}
			if r.writeOutcome("put", k, v, cancelled, err) {
				if err != nil {
					failed = append(failed, k)
				}
				continue
			}
			overlay[k] = wr{val: v}
			order = append(order, k)
			r.noteKey(k)
		case "delete":
			k := genKey()
			ctx, cancelled := r.ctx, false
			if !ro {
				ctx, cancelled = r.opCtx(rt, 4)
			}
			var err error
			r.watch("txn delete", func() { err = h.kv.Delete(ctx, k) })
			r.log("txn delete %s cancelled=%v -> %v", sxQ(k), cancelled, err)
			if ro {
				if !errors.Is(err, physical.ErrTransactionReadOnly) {
					if _, may := r.st.c13Verdict("delete", k); !may || err == nil {
						r.viol("readonly-txn-accepts-write", "Delete(%s) in a read-only transaction returned %v", sxQ(k), err)
					}
				}
				continue
			}
			if r.writeOutcome("delete", k, nil, cancelled, err) {
				if err != nil {
					failed = append(failed, k)
				}
				continue
			}
			if _, exists := r.m[k]; exists {
				for _, c := range r.recent {
					if c == k {
						delCached++
						break
					}
				}
			}
			overlay[k] = wr{del: true}
			order = append(order, k)
		case "get":
			k := genKey()
			var gk string
			var v []byte
			var ok bool
			var err error
			r.watch("txn get", func() { gk, v, ok, err = h.kv.Get(r.ctx, k) })
			r.log("txn get %s -> %x %v %v", sxQ(k), v, ok, err)
			if r.errOutcome("get", k, err) {
				continue
			}
			if _, own := overlay[k]; !own {
				readKeys = append(readKeys, k)
			}
			want, exists := view()[k]
			if ok != exists || (ok && !bytes.Equal(v, want)) {
				r.viol("txn-get-mismatch", "Get(%s) inside a transaction returned (%x, found=%v), committed state + own writes hold (%x, found=%v)", sxQ(k), v, ok, want, exists)
			}
			if ok && gk != k {
				r.viol("get-entry-key", "get %s inside a transaction returned an entry whose Key is %s", sxQ(k), sxQ(gk))
			}
		case "list":
			vk := sxSortedKeys(view())
			for f := range r.foreign {
				vk = append(vk, f)
			}
			sort.Strings(vk)
			p := r.st.genPrefix(rt, vk)
			after := r.st.genAfter(rt, sxEntries(vk, p))
			limit := c13GenLimit(rt)
			var got []string
			var err error
			r.watch("txn listpage", func() { got, err = h.kv.ListPage(r.ctx, p, after, limit) })
			r.log("txn listpage %s after=%s limit=%d -> %s %v", sxQ(p), sxQ(after), limit, sxQL(got), err)
			if r.afterRefused(p, after, err) {
				continue
			}
			if r.errOutcome("list", p, err) {
				continue
			}
			if want := sxListPage(vk, p, after, limit); !sxEqList(got, want) {
				r.viol("txn-listpage-mismatch", "ListPage(%s, after=%s, limit=%d) inside a transaction = %s, committed state + own writes give %s", sxQ(p), sxQ(after), limit, sxQL(got), sxQL(want))
			}
		}
	}
	commit := rapid.IntRange(0, 3).Draw(rt, "txnCommit") > 0
	finished = true
	if !commit {
		var err error
		r.watch("rollback", func() { err = h.rollback(r.ctx) })
		r.log("txn rollback -> %v", err)
		r.txnRollbacks++
		if err != nil {
			r.viol("txn-rollback-error", "rollback failed: %v", err)
		}
		return
	}
	// An outside writer changes a key the transaction has read (in-memory bases only: the raft transaction keeps a
	// bolt read transaction open, which must not overlap a write from the same goroutine). Whatever the commit then
	// answers, the store is still one key/value store: a refused commit leaves none of the transaction's writes behind
	// (the invariant after this step compares every layer with the model), an accepted one all of them.
	outside := false
	if !ro && len(readKeys) > 0 && len(order) > 0 && strings.HasPrefix(r.st.spec.base, "inmem") && rapid.IntRange(0, 3).Draw(rt, "txnOutsideWriter") == 0 {
		k := readKeys[rapid.IntRange(0, len(readKeys)-1).Draw(rt, "txnOutsideKey")]
		v := append([]byte{0xee}, rapid.SliceOfN(rapid.Byte(), 1, 3).Draw(rt, "txnOutsideVal")...)
		var perr error
		r.watch("put", func() { perr = r.st.top.Put(r.ctx, k, v) })
		r.log("outside put during txn %s=%x -> %v", sxQ(k), v, perr)
		if !r.writeOutcome("put", k, v, false, perr) {
			r.m[k] = v
			r.touchedOutside(k)
			outside = true
		}
	}
	r.watch("commit", func() { err = h.commit(r.ctx) })
	r.log("txn commit -> %v", err)
	if outside {
		if err != nil {
			r.feats["txn-refused-after-outside-write"] = true
			r.txnRefused++
			if len(order) != len(overlay) {
				r.txnRefusedDouble++
			}
			return
		}
	}
	if err != nil {
		r.viol("txn-commit-failed-without-concurrent-writer", "commit of a transaction failed though nothing else was written since its begin: %v", err)
		return
	}
	r.txnCommits++
	r.txnDelCached += int64(delCached)
	for _, k := range order {
		w := overlay[k]
		if w.del {
			delete(r.m, k)
			r.noteDeleted(k)
		} else {
			r.m[k] = append([]byte{}, w.val...)
		}
	}
	// a write the transaction refused is not part of what was committed: the keys of refused writes hold what the
	// accepted writes (of this transaction or earlier) left there
	if len(failed) > 0 {
		r.txnCommitAfterFailedWrite++
		r.feats["txn-commit-after-refused-write"] = true
	}
	for _, k := range failed {
		if _, may := r.st.c13Verdict("get", k); may {
			continue
		}
		_, v, ok, gerr := r.st.top.Get(r.ctx, k)
		want, exists := r.m[k]
		if gerr != nil || ok != exists || (ok && !bytes.Equal(v, want)) {
			r.viol("txn-commit-applies-refused-write", "a Put/Delete of %s inside the transaction returned an error, the transaction was committed; get %s now returns (%x, found=%v, err %v), the accepted writes left (%x, found=%v)", sxQ(k), sxQ(k), v, ok, gerr, want, exists)
		}
	}
}

func (r *c13Run) purge(rt *rapid.T) {
	if r.st.purger == nil {
		return
	}
	r.st.purger.Purge(r.ctx)
	r.log("cache purge")
}

// invariant: the top of the stack holds exactly the model; the base store holds exactly prefix+model plus the
// untouched outside content.
func (r *c13Run) invariant(rt *rapid.T) {
	got := map[string][]byte{}
	var derr error
	// recursive listing + get through the top
	var walk func(prefix string, depth int)
	walk = func(prefix string, depth int) {
		if derr != nil || depth > 40 {
			return
		}
		ks, err := r.st.top.List(r.ctx, prefix)
		if err != nil {
			derr = fmt.Errorf("list %s: %w", sxQ(prefix), err)
			return
		}
		for _, k := range ks {
			full := prefix + k
			if strings.HasSuffix(k, "/") {
				walk(full, depth+1)
				continue
			}
			if r.foreign[full] {
				got[full] = nil
				continue
			}
			_, v, ok, err := r.st.top.Get(r.ctx, full)
			if err != nil {
				derr = fmt.Errorf("get %s: %w", sxQ(full), err)
				return
			}
			if !ok {
				derr = fmt.Errorf("entry %s listed under %s has no value", sxQ(k), sxQ(prefix))
				return
			}
			got[full] = v
		}
	}
	walk("", 0)
	if derr != nil {
		r.viol("scan-error", "full scan through the top failed: %v", derr)
		return
	}
	want := sxCloneMap(r.m)
	for k := range r.foreign {
		want[k] = nil
	}
	if !sxEqMap(got, want) {
		r.viol("state-mismatch", "full scan of the top = %s, model %s", sxQM(got), sxQM(want))
	}
	// point reads of every model key, independent of what the listings returned
	for _, k := range r.keys() {
		w := r.m[k]
		_, v, ok, err := r.st.top.Get(r.ctx, k)
		if err != nil || !ok || !bytes.Equal(v, w) {
			r.viol("get-mismatch", "get %s returned (%x, found=%v, err %v), the model holds %x", sxQ(k), v, ok, err, w)
		}
	}
	// point reads of lately removed keys: a resurrected key does not show in a listing-driven scan
	for _, k := range r.deleted {
		if _, back := r.m[k]; back {
			continue
		}
		if _, may := r.st.c13Verdict("get", k); may {
			continue
		}
		_, v, ok, err := r.st.top.Get(r.ctx, k)
		if err != nil {
			r.viol("scan-error", "get of removed key %s failed: %v", sxQ(k), err)
		} else if ok {
			r.viol("deleted-key-still-readable", "get %s returned (%x, found=true) although the key was deleted (listing and model do not have it)", sxQ(k), v)
		}
	}
	// the underlying store
	rawGot, err := sxDump(r.ctx, sxPhys{r.st.raw})
	if err != nil {
		r.viol("raw-scan-error", "scan of the underlying store failed: %v", err)
		return
	}
	encrypted := r.st.spec.barrier
	rawWant := sxCloneMap(r.outside)
	for k, v := range r.m {
		rawWant[r.st.fullPrefix+k] = v
	}
	bad := len(rawGot) != len(rawWant)+len(r.foreign)
	for k, v := range rawWant {
		g, ok := rawGot[k]
		if !ok {
			bad = true
			break
		}
		_, isOutside := r.outside[k]
		if (!encrypted || isOutside) && !bytes.Equal(g, v) {
			bad = true
			break
		}
	}
	for k := range r.foreign {
		if _, ok := rawGot[k]; !ok {
			bad = true
		}
	}
	if bad {
		sig := "underlying-mismatch"
		if r.st.viewKind != 0 {
			sig = "view-underlying-mismatch"
		}
		r.viol(sig, "underlying store holds %s, expected %s under prefix %q plus the untouched outside keys", sxQL(sxSortedKeys(rawGot)), sxQL(sxSortedKeys(rawWant)), r.st.fullPrefix)
	}
}

var c13OutsideKeys = []string{"v/w", "v/w0", "v/w-x", "v/x/a", "v/a", "v", "a", "a/b", "v/w.", "w/a", "zz"}

func c13RunStack(t *testing.T, spec c13Spec, salt int) {
	rule := "state machine (put/get/delete/list/list-page/scan+collect+count+HandleListPage helpers/clear/cache purge, ~30 steps) over generated key sets " +
		"(nested, shared prefixes, key that is also a prefix, trailing-slash keys, unicode, invalid UTF-8/NUL where storable, 249/300-byte and bolt-limit lengths); " +
		"writes refused at the call (cancelled context 1 in 8 outside / 1 in 4 inside a transaction that goes on and is committed or rolled back with a live context; value over max_value_size=12 on a quarter of the in-memory stacks) must change nothing; " +
		"after in {\"\", existing entry and near misses, non-existing, \".\", \"..\", \"a/\", \"a/b\", \"x/../y\", seg+{/../,/./,//,/}+seg, NUL/high bytes}, limit in {<0,0,1,2,3,2^30}; " +
		"oracle: sorted-map model, full scan of top and of the underlying store after every step; non-trivial = a listing was checked while a directory entry existed and after!=\"\", or while a key was also a prefix of another key"
	rec := verifx.NewRecorder("C13", "kv-"+spec.name, rule)
	defer rec.Flush()
	ctx := context.Background()
	dead, cancelDead := context.WithCancel(ctx)
	cancelDead()
	rapid.Check(t, func(rt *rapid.T) {
		// every rapid.Check of a process starts from the same PRNG value; consuming a stack-specific number of draws
		// first gives every stack its own cases
		for i := 0; i < salt; i++ {
			rapid.Bool().Draw(rt, "salt")
		}
		dir := ""
		if spec.base == "file" || spec.base == "fsm" {
			d, err := os.MkdirTemp("", "verif-c13-")
			if err != nil {
				rt.Fatalf("harness: %v", err)
			}
			dir = d
			defer os.RemoveAll(d)
		}
		// configuration: some in-memory backends are built with a max_value_size (the barrier's own records do not fit it)
		spec := spec
		if (spec.base == "inmem" || spec.base == "inmem-notx") && !spec.barrier && rapid.IntRange(0, 3).Draw(rt, "maxValueSize") == 0 {
			spec.maxVal = c13MaxValueSize
		}
		st, err := c13Build(spec, dir)
		if err != nil {
			rt.Fatalf("harness: building stack %s: %v", spec.name, err)
		}
		defer st.closeFn()
		r := &c13Run{st: st, rec: rec, rt: rt, ctx: ctx, dead: dead, m: map[string][]byte{}, foreign: map[string]bool{}, outside: map[string][]byte{}, feats: map[string]bool{}}
		// what the stack itself wrote while it was built (barrier keyring)
		pre, err := sxDump(ctx, sxPhys{st.raw})
		if err != nil {
			rt.Fatalf("harness: %v", err)
		}
		if st.viewKind != 0 {
			for k, v := range pre {
				r.outside[k] = v
			}
			for i, k := range c13OutsideKeys {
				v := []byte(fmt.Sprintf("outside-%d", i))
				if err := st.raw.Put(ctx, &physical.Entry{Key: k, Value: v}); err != nil {
					rt.Fatalf("harness: seeding outside key: %v", err)
				}
				r.outside[k] = v
			}
		} else {
			for k := range pre {
				r.foreign[k] = true
			}
		}
		// a few initial keys, so that short sequences also list something
		for i, n := 0, rapid.IntRange(0, 6).Draw(rt, "initialPuts"); i < n; i++ {
			r.put(rt)
		}
		rt.Repeat(map[string]func(*rapid.T){
			"put":      r.put,
			"put2":     r.put,
			"put3":     r.put,
			"get":      r.get,
			"delete":   r.del,
			"list":     r.list,
			"listpage": r.listPage,
			"listpag2": r.listPage,
			"listpag3": r.listPage,
			"helper":   r.helper,
			"clear": func(rt *rapid.T) {
				if rapid.IntRange(0, 9).Draw(rt, "reallyClear") == 0 {
					r.clear(rt)
				}
			},
			"purge": r.purge,
			"txn":   r.transaction,
			"txn2":  r.transaction,
			"":      r.invariant,
		})
		class := "trivial"
		switch {
		case r.ntAfter && r.ntPfx:
			class = "nt-dir-after+key-is-prefix"
		case r.ntAfter:
			class = "nt-dir-after"
		case r.ntPfx:
			class = "nt-key-is-prefix"
		}
		for f := range r.feats {
			rec.Class("case-with-"+f, 1)
		}
		rec.Class("txn-commit", r.txnCommits)
		rec.Class("txn-rollback", r.txnRollbacks)
		rec.Class("write-refused", r.failedWrites)
		rec.Class("txn-commit-after-refused-write", r.txnCommitAfterFailedWrite)
		rec.Class("txn-refused-after-outside-write", r.txnRefused)
		rec.Class("txn-refused-after-outside-write-key-written-twice", r.txnRefusedDouble)
		rec.Class("txn-delete-of-cached-key", r.txnDelCached)
		rec.Case(class, r.ntAfter || r.ntPfx, verifx.Digest(strings.Join(r.hist, "\n")), func() any {
			h := r.hist
			if len(h) > 25 {
				h = h[:25]
			}
			return map[string]any{"stack": spec.name, "ops": h}
		})
	})
}

func c13RunAll(t *testing.T, specs []c13Spec) {
	for i, sp := range specs {
		if t.Failed() {
			return
		}
		sp, i := sp, i
		t.Run(sp.name, func(t *testing.T) { c13RunStack(t, sp, i) })
	}
}

func c13Layered(base string) []c13Spec {
	return []c13Spec{
		{name: base, base: base},
		{name: base + "+cache", base: base, cache: true},
		{name: base + "+encoding", base: base, enc: true},
		{name: base + "+physview", base: base, pview: true},
		{name: base + "+logical+storageview", base: base, logical: true, lview: true},
		{name: base + "+barrier", base: base, barrier: true},
		{name: base + "+barrier+barrierview", base: base, barrier: true, bview: true},
		{name: base + "+cache+encoding+barrier+barrierview", base: base, cache: true, enc: true, barrier: true, bview: true},
	}
}

func TestVerif_C13_Mem(t *testing.T) {
	specs := append(c13Layered("inmem"), c13Layered("inmem-notx")...)
	specs = append(specs, c13Spec{name: "inmemstorage", base: "inmemstorage"},
		c13Spec{name: "inmem+cache+physview", base: "inmem", cache: true, pview: true},
		c13Spec{name: "inmem+barrier+storageview", base: "inmem", barrier: true, lview: true})
	c13RunAll(t, specs)
}

func TestVerif_C13_File(t *testing.T) {
	c13RunAll(t, c13Layered("file"))
}

func TestVerif_C13_FSM(t *testing.T) {
	c13RunAll(t, c13Layered("fsm"))
}
