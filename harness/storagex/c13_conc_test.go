//go:build verif

package verif_storagex

// C13, concurrent unit: the layers that keep state of their own (read cache, transactional read cache) must still
// "return the last value put or nothing after delete" once concurrent requests on the same keys have finished.
// The harness owns the interleaving at the granularity of the operations that reach the backend below the layer
// (storage-step scheduler of verifx); after all tasks are done, every key read through the layer must equal what
// the backend below holds, twice (the second read is answered from the layer's own state).

import (
	"context"
	"fmt"
	"sort"
	"strings"
	"testing"
	"time"

	metrics "github.com/hashicorp/go-metrics/compat"
	log "github.com/hashicorp/go-hclog"
	"github.com/openbao/openbao/sdk/v2/helper/verifx"
	"github.com/openbao/openbao/sdk/v2/physical"
	"pgregory.net/rapid"
)

type c13cOp struct {
	kind string // get put delete list txput txdelete
	key  string
	val  string
	out  string
}

func (o *c13cOp) String() string {
	s := o.kind + " " + o.key
	if o.val != "" {
		s += "=" + o.val
	}
	return s + " -> " + o.out
}

func TestVerif_C13_CacheConcurrent(t *testing.T) {
	rec := verifx.NewRecorder("C13", "cache-concurrent", "a read cache (physical.NewCache, enabled; optionally with the key-encoding layer above it) over a recording in-memory backend (transactional or not) is used by 2-3 concurrent tasks of 1-3 operations each (get / put / delete / list, and on transactional stacks a small write transaction) over two keys; the harness interleaves the tasks at the granularity of the operations reaching the backend below the cache, with a scheduling point before each operation and another when it has come back (stay-or-switch random walk); oracle after all tasks finished: for every key, two consecutive reads through the cache equal the value the backend below holds (a cache may not keep serving a value that a completed put or delete replaced), a listing through the cache equals the backend's, and every value a get returned is the initial value or one some task wrote; non-trivial = a schedule with at least one switch between unfinished tasks where a read and a write of the same key overlap")
	defer rec.Flush()
	nl := log.NewNullLogger()
	rapid.Check(t, func(rt *rapid.T) {
		ctx := context.Background()
		txn := rapid.Bool().Draw(rt, "transactionalStorage")
		inner := verifx.NewRec(verifx.NewInmem(txn))
		r := verifx.RecOf(inner)
		r.Logging = false
		c := physical.NewCache(inner, 16, nl, &metrics.BlackholeSink{})
		c.SetEnabled(true)
		var top physical.Backend = c
		enc := rapid.Bool().Draw(rt, "encodingLayer")
		if enc {
			top = physical.NewStorageEncoding(top)
		}
		keys := []string{"d/a", "d/b"}
		written := map[string]map[string]bool{}
		for _, k := range keys {
			written[k] = map[string]bool{"": true}
			// initial state: present (and cached, or not), or absent (negative entry cached, or not)
			switch rapid.IntRange(0, 3).Draw(rt, "init-"+k) {
			case 0:
			case 1:
				_, _ = top.Get(ctx, k) // caches "absent"
			case 2:
				_ = inner.Put(ctx, &physical.Entry{Key: k, Value: []byte("init")}) // below the cache: not cached yet
				written[k]["init"] = true
			default:
				_ = top.Put(ctx, &physical.Entry{Key: k, Value: []byte("init")})
				written[k]["init"] = true
			}
		}
		nTasks := rapid.IntRange(2, 3).Draw(rt, "tasks")
		tasks := make([][]*c13cOp, nTasks)
		reads, writes := map[string]int{}, map[string]int{}
		for i := range tasks {
			n := rapid.IntRange(1, 3).Draw(rt, fmt.Sprintf("ops%d", i))
			for j := 0; j < n; j++ {
				kinds := []string{"get", "get", "put", "delete", "get", "put", "list"}
				if txn {
					kinds = append(kinds, "txput", "txdelete")
				}
				o := &c13cOp{kind: kinds[rapid.IntRange(0, len(kinds)-1).Draw(rt, fmt.Sprintf("kind%d.%d", i, j))], key: keys[rapid.IntRange(0, 1).Draw(rt, fmt.Sprintf("key%d.%d", i, j))]}
				switch o.kind {
				case "put", "txput":
					o.val = fmt.Sprintf("v%d.%d", i, j)
					written[o.key][o.val] = true
					writes[o.key]++
				case "delete", "txdelete":
					writes[o.key]++
				case "get":
					reads[o.key]++
				}
				tasks[i] = append(tasks[i], o)
			}
		}
		sched := verifx.NewSched(r)
		// tasks also park when an operation has come back from the backend: what the cache does with a value it has
		// just read (storing it) is a step of its own
		sched.AfterOps = true
		defer func() {
			sched.RunToEnd(20 * time.Second)
			r.Gate = nil
			r.GateAfter = nil
			r.TaskOf = nil
		}()
		run := func(o *c13cOp) {
			switch o.kind {
			case "get":
				e, err := top.Get(ctx, o.key)
				switch {
				case err != nil:
					o.out = "err:" + err.Error()
				case e == nil:
					o.out = "absent"
				default:
					o.out = "val:" + string(e.Value)
				}
			case "put":
				o.out = fmt.Sprint(top.Put(ctx, &physical.Entry{Key: o.key, Value: []byte(o.val)}))
			case "delete":
				o.out = fmt.Sprint(top.Delete(ctx, o.key))
			case "list":
				l, err := top.List(ctx, "d/")
				o.out = fmt.Sprint(l, err)
			case "txput", "txdelete":
				tb, ok := top.(physical.TransactionalBackend)
				if !ok {
					o.out = "no-tx"
					return
				}
				tx, err := tb.BeginTx(ctx)
				if err != nil {
					o.out = "begin:" + err.Error()
					return
				}
				_, _ = tx.Get(ctx, o.key)
				if o.kind == "txput" {
					err = tx.Put(ctx, &physical.Entry{Key: o.key, Value: []byte(o.val)})
				} else {
					err = tx.Delete(ctx, o.key)
				}
				if err != nil {
					_ = tx.Rollback(ctx)
					o.out = "txop:" + err.Error()
					return
				}
				o.out = fmt.Sprint(tx.Commit(ctx))
			}
		}
		for i := range tasks {
			i := i
			sched.Spawn(fmt.Sprintf("T%d", i), func() {
				for _, o := range tasks[i] {
					run(o)
				}
			})
		}
		switches := 0
		cur := -1
		err := sched.Run(func(parked []int) int {
			stay := false
			for _, p := range parked {
				if p == cur {
					stay = true
				}
			}
			if stay && rapid.IntRange(0, 9).Draw(rt, "step") < 5 {
				return cur
			}
			pick := parked[rapid.IntRange(0, len(parked)-1).Draw(rt, "pick")]
			if cur >= 0 && pick != cur && !sched.Tasks()[cur].Done {
				switches++
			}
			cur = pick
			return pick
		})
		trace := sched.Trace
		if err != nil {
			sched.RunToEnd(10 * time.Second)
			t.Fatalf("harness: %v", err)
		}
		r.Gate = nil
		r.GateAfter = nil
		var hist []string
		for i, ops := range tasks {
			for _, o := range ops {
				hist = append(hist, fmt.Sprintf("T%d: %s", i, o))
			}
		}
		if len(trace) > 60 {
			trace = trace[:60]
		}
		detail := map[string]any{"transactional": txn, "encoding": enc, "tasks": hist, "schedule": trace}
		overlap := false
		for _, k := range keys {
			if reads[k] > 0 && writes[k] > 0 {
				overlap = true
			}
		}
		// ---- oracle
		for i, ops := range tasks {
			for _, o := range ops {
				if o.kind == "get" && strings.HasPrefix(o.out, "val:") && !written[o.key][strings.TrimPrefix(o.out, "val:")] {
					rec.Violation(rt, "get-returned-value-never-written", detail, "T%d: %s returned a value nobody wrote under that key", i, o)
				}
				if strings.HasPrefix(o.out, "err:") {
					rec.Violation(rt, "get-failed", detail, "T%d: %s", i, o)
				}
			}
		}
		for _, k := range keys {
			below, err := r.Inner.Get(ctx, k)
			if err != nil {
				t.Fatalf("harness: %v", err)
			}
			want := "absent"
			if below != nil {
				want = "val:" + string(below.Value)
			}
			for round := 1; round <= 2; round++ {
				e, err := top.Get(ctx, k)
				got := "absent"
				if err != nil {
					got = "err:" + err.Error()
				} else if e != nil {
					got = "val:" + string(e.Value)
				}
				if got != want {
					sig := "cache-serves-replaced-value"
					if want == "absent" {
						sig = "deleted-key-still-readable:after-concurrent-requests"
					} else if got == "absent" {
						sig = "written-key-reads-as-absent:after-concurrent-requests"
					}
					rec.Violation(rt, sig, detail, "after all concurrent requests finished, read %d of %q through the cache returns %s while the backend below holds %s; history %v", round, k, got, want, hist)
				}
			}
		}
		lt, err1 := top.List(ctx, "d/")
		lb, err2 := r.Inner.List(ctx, "d/")
		sort.Strings(lt)
		sort.Strings(lb)
		if err1 != nil || err2 != nil || fmt.Sprint(lt) != fmt.Sprint(lb) {
			rec.Violation(rt, "listing-differs-after-concurrent-requests", detail, "listing through the cache %v (%v) differs from the backend's %v (%v)", lt, err1, lb, err2)
		}
		cls := "non-transactional"
		if txn {
			cls = "transactional"
		}
		rec.Case(cls, switches > 0 && overlap, verifx.Digest(txn, enc, hist, trace), func() any { return detail })
		if switches > 0 {
			rec.Class("with-preemption", 1)
		}
		blocked := 0
		for _, tk := range sched.Tasks() {
			blocked += tk.Blocked
		}
		if blocked > 0 {
			rec.Class("lock-blocked-seen", 1)
		}
	})
}
