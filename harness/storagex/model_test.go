//go:build verif

// Package verif_storagex exists only in the build overlay (internal/verif_storagex). It hosts the
// harnesses that compare whole stacks of storage layers (C13: key/value + listing contract,
// C08a: transactions) with small reference models. This file holds what both share: the sorted-map
// listing model and adapters that give physical.Backend and logical.Storage one shape.
package verif_storagex

import (
	"bytes"
	"context"
	"fmt"
	"sort"
	"strings"

	"github.com/openbao/openbao/sdk/v2/logical"
	"github.com/openbao/openbao/sdk/v2/physical"
)

// ---- reference listing model (written from the interface documentation, not from any backend)

// sxEntries returns the immediate children of prefix among keys: for every key k = prefix+rest the
// child is rest up to and including its first '/', or rest itself when it has none. Sorted, no duplicates.
func sxEntries(keys []string, prefix string) []string {
	set := map[string]struct{}{}
	for _, k := range keys {
		if len(k) < len(prefix) || k[:len(prefix)] != prefix {
			continue
		}
		rest := k[len(prefix):]
		child := rest
		for i := 0; i < len(rest); i++ {
			if rest[i] == '/' {
				child = rest[:i+1]
				break
			}
		}
		set[child] = struct{}{}
	}
	out := make([]string, 0, len(set))
	for c := range set {
		out = append(out, c)
	}
	sort.Strings(out)
	return out
}

// sxListPage is ListPage(p, after, limit) = [e in list(p) | after=="" or e > after][:limit if limit>0].
func sxListPage(keys []string, prefix, after string, limit int) []string {
	var res []string
	for _, e := range sxEntries(keys, prefix) {
		if after == "" || e > after {
			res = append(res, e)
		}
	}
	if limit > 0 && len(res) > limit {
		res = res[:limit]
	}
	return res
}

func sxEqList(a, b []string) bool {
	if len(a) != len(b) {
		return false
	}
	for i := range a {
		if a[i] != b[i] {
			return false
		}
	}
	return true
}

func sxSortedKeys(m map[string][]byte) []string {
	ks := make([]string, 0, len(m))
	for k := range m {
		ks = append(ks, k)
	}
	sort.Strings(ks)
	return ks
}

func sxCloneMap(m map[string][]byte) map[string][]byte {
	out := make(map[string][]byte, len(m))
	for k, v := range m {
		out[k] = v
	}
	return out
}

func sxEqMap(a, b map[string][]byte) bool {
	if len(a) != len(b) {
		return false
	}
	for k, v := range a {
		w, ok := b[k]
		if !ok || !bytes.Equal(v, w) {
			return false
		}
	}
	return true
}

// sxQ renders keys/entries unambiguously (quotes, escapes) and shortens very long ones.
func sxQ(s string) string {
	if len(s) > 48 {
		return fmt.Sprintf("%q..(%d bytes)", s[:24], len(s))
	}
	return fmt.Sprintf("%q", s)
}

func sxQL(l []string) string {
	parts := make([]string, len(l))
	for i, s := range l {
		parts[i] = sxQ(s)
	}
	return "[" + strings.Join(parts, " ") + "]"
}

func sxQM(m map[string][]byte) string {
	var parts []string
	for _, k := range sxSortedKeys(m) {
		parts = append(parts, sxQ(k)+"="+fmt.Sprintf("%x", m[k]))
	}
	return "{" + strings.Join(parts, " ") + "}"
}

// ---- one shape for physical.Backend and logical.Storage

// sxKV is the key/value + listing interface every layer under test offers.
type sxKV interface {
	Put(ctx context.Context, key string, val []byte) error
	// Get returns the key the layer reports for the entry, its value and whether it exists.
	Get(ctx context.Context, key string) (string, []byte, bool, error)
	Delete(ctx context.Context, key string) error
	List(ctx context.Context, prefix string) ([]string, error)
	ListPage(ctx context.Context, prefix, after string, limit int) ([]string, error)
}

type sxPhys struct{ b physical.Backend }

func (p sxPhys) Put(ctx context.Context, key string, val []byte) error {
	return p.b.Put(ctx, &physical.Entry{Key: key, Value: append([]byte{}, val...)})
}

func (p sxPhys) Get(ctx context.Context, key string) (string, []byte, bool, error) {
	e, err := p.b.Get(ctx, key)
	if err != nil || e == nil {
		return "", nil, false, err
	}
	return e.Key, e.Value, true, nil
}
func (p sxPhys) Delete(ctx context.Context, key string) error { return p.b.Delete(ctx, key) }
func (p sxPhys) List(ctx context.Context, prefix string) ([]string, error) {
	return p.b.List(ctx, prefix)
}

func (p sxPhys) ListPage(ctx context.Context, prefix, after string, limit int) ([]string, error) {
	return p.b.ListPage(ctx, prefix, after, limit)
}

type sxLog struct{ s logical.Storage }

func (p sxLog) Put(ctx context.Context, key string, val []byte) error {
	return p.s.Put(ctx, &logical.StorageEntry{Key: key, Value: append([]byte{}, val...)})
}

func (p sxLog) Get(ctx context.Context, key string) (string, []byte, bool, error) {
	e, err := p.s.Get(ctx, key)
	if err != nil || e == nil {
		return "", nil, false, err
	}
	return e.Key, e.Value, true, nil
}
func (p sxLog) Delete(ctx context.Context, key string) error { return p.s.Delete(ctx, key) }
func (p sxLog) List(ctx context.Context, prefix string) ([]string, error) {
	return p.s.List(ctx, prefix)
}

func (p sxLog) ListPage(ctx context.Context, prefix, after string, limit int) ([]string, error) {
	return p.s.ListPage(ctx, prefix, after, limit)
}

// sxDump reads everything reachable through kv by recursive listing + get.
func sxDump(ctx context.Context, kv sxKV) (map[string][]byte, error) {
	out := map[string][]byte{}
	var walk func(prefix string, depth int) error
	walk = func(prefix string, depth int) error {
		if depth > 40 {
			return fmt.Errorf("listing recursion deeper than 40 at %q", prefix)
		}
		ks, err := kv.List(ctx, prefix)
		if err != nil {
			return fmt.Errorf("list %q: %w", prefix, err)
		}
		for _, k := range ks {
			if strings.HasSuffix(k, "/") {
				if err := walk(prefix+k, depth+1); err != nil {
					return err
				}
				continue
			}
			_, v, ok, err := kv.Get(ctx, prefix+k)
			if err != nil {
				return fmt.Errorf("get %q: %w", prefix+k, err)
			}
			if !ok {
				return fmt.Errorf("listed entry %q of %q has no value", k, prefix)
			}
			if v == nil {
				v = []byte{}
			}
			out[prefix+k] = v
		}
		return nil
	}
	return out, walk("", 0)
}

// ---- a cheap tap between the base store and the layers: records which keys reached the base store while
// armed, and fails every operation once a budget is exhausted (turns a non-terminating helper into an error).

type sxTapOp struct{ Kind, Key string }

type sxTap struct {
	inner  physical.Backend
	armed  bool
	ops    []sxTapOp
	budget int // remaining operations while armed; <0 = unlimited
}

var errSxBudget = fmt.Errorf("verif: operation budget exhausted (non-terminating loop?)")

func (t *sxTap) note(kind, key string) error {
	if !t.armed {
		return nil
	}
	if t.budget == 0 {
		return errSxBudget
	}
	if t.budget > 0 {
		t.budget--
	}
	if len(t.ops) < 4096 {
		t.ops = append(t.ops, sxTapOp{kind, key})
	}
	return nil
}

func (t *sxTap) Put(ctx context.Context, e *physical.Entry) error {
	if err := t.note("put", e.Key); err != nil {
		return err
	}
	return t.inner.Put(ctx, e)
}

func (t *sxTap) Get(ctx context.Context, key string) (*physical.Entry, error) {
	if err := t.note("get", key); err != nil {
		return nil, err
	}
	return t.inner.Get(ctx, key)
}

func (t *sxTap) Delete(ctx context.Context, key string) error {
	if err := t.note("delete", key); err != nil {
		return err
	}
	return t.inner.Delete(ctx, key)
}

func (t *sxTap) List(ctx context.Context, prefix string) ([]string, error) {
	if err := t.note("list", prefix); err != nil {
		return nil, err
	}
	return t.inner.List(ctx, prefix)
}

func (t *sxTap) ListPage(ctx context.Context, prefix, after string, limit int) ([]string, error) {
	if err := t.note("listpage", prefix); err != nil {
		return nil, err
	}
	return t.inner.ListPage(ctx, prefix, after, limit)
}

// sxTapTx is the tap over a transactional base; transactions are tapped as well.
type sxTapTx struct{ *sxTap }

func (t *sxTapTx) begin(ctx context.Context, ro bool) (physical.Transaction, error) {
	tb := t.inner.(physical.TransactionalBackend)
	var tx physical.Transaction
	var err error
	if ro {
		tx, err = tb.BeginReadOnlyTx(ctx)
	} else {
		tx, err = tb.BeginTx(ctx)
	}
	if err != nil {
		return nil, err
	}
	return &sxTapTxnH{parent: t.sxTap, tx: tx}, nil
}
func (t *sxTapTx) BeginTx(ctx context.Context) (physical.Transaction, error) { return t.begin(ctx, false) }
func (t *sxTapTx) BeginReadOnlyTx(ctx context.Context) (physical.Transaction, error) {
	return t.begin(ctx, true)
}

type sxTapTxnH struct {
	parent *sxTap
	tx     physical.Transaction
}

func (h *sxTapTxnH) Put(ctx context.Context, e *physical.Entry) error {
	if err := h.parent.note("put", e.Key); err != nil {
		return err
	}
	return h.tx.Put(ctx, e)
}

func (h *sxTapTxnH) Get(ctx context.Context, key string) (*physical.Entry, error) {
	if err := h.parent.note("get", key); err != nil {
		return nil, err
	}
	return h.tx.Get(ctx, key)
}

func (h *sxTapTxnH) Delete(ctx context.Context, key string) error {
	if err := h.parent.note("delete", key); err != nil {
		return err
	}
	return h.tx.Delete(ctx, key)
}

func (h *sxTapTxnH) List(ctx context.Context, prefix string) ([]string, error) {
	if err := h.parent.note("list", prefix); err != nil {
		return nil, err
	}
	return h.tx.List(ctx, prefix)
}

func (h *sxTapTxnH) ListPage(ctx context.Context, prefix, after string, limit int) ([]string, error) {
	if err := h.parent.note("listpage", prefix); err != nil {
		return nil, err
	}
	return h.tx.ListPage(ctx, prefix, after, limit)
}
func (h *sxTapTxnH) Commit(ctx context.Context) error   { return h.tx.Commit(ctx) }
func (h *sxTapTxnH) Rollback(ctx context.Context) error { return h.tx.Rollback(ctx) }

// sxNewTap wraps inner; the result is transactional iff inner is.
func sxNewTap(inner physical.Backend) (physical.Backend, *sxTap) {
	t := &sxTap{inner: inner, budget: -1}
	if _, ok := inner.(physical.TransactionalBackend); ok {
		return &sxTapTx{t}, t
	}
	return t, t
}
