//go:build verif

package verif_storagex

// C08a — storage transactions are serializable and atomic (non-raft transactional stacks).
//
// The single test goroutine interleaves up to 4 open transactions (read-write or read-only) and plain writers
// over 6 keys in 2 directories. Oracle = optimistic-concurrency model:
//   (1) a read/listing inside a transaction equals f(S + own writes so far) for a committed state S between the
//       transaction's begin and now (reads reflect own earlier writes);
//   (2) Commit()==nil of a transaction with writes: every value and listing it observed, recomputed on the committed
//       state at commit time (+ the own writes that preceded the observation), is unchanged; afterwards the committed
//       state is old state + all its writes;
//   (3) a failed commit is Is(physical.ErrTransactionCommitFailure) and changes nothing;
//   (4) a commit fails only if something was committed by someone else between its begin and its commit;
//   (5) read-only transactions refuse writes (ErrTransactionReadOnly), finished transactions refuse everything
//       (ErrTransactionAlreadyCommitted);
//   (6) after every step a full scan through the non-transactional face of the stack equals the committed state.
// Allowed by the statement and therefore not violations: a conflict reported for a blind write or for an
// intervening write that restored the old value (ABA) — and the ABA transaction committing.

import (
	"bytes"
	"context"
	"errors"
	"fmt"
	"sort"
	"strings"
	"testing"

	log "github.com/hashicorp/go-hclog"
	metrics "github.com/hashicorp/go-metrics/compat"
	"github.com/openbao/openbao/sdk/v2/helper/verifx"
	"github.com/openbao/openbao/sdk/v2/logical"
	"github.com/openbao/openbao/sdk/v2/physical"
	"github.com/openbao/openbao/sdk/v2/physical/inmem"
	"github.com/openbao/openbao/v2/internal/vault/barrier"
	"pgregory.net/rapid"
)

type c08Txn interface {
	sxKV
	Commit(ctx context.Context) error
	Rollback(ctx context.Context) error
}

type c08Store interface {
	sxKV
	Begin(ctx context.Context, readOnly bool) (c08Txn, error)
}

// physical.TransactionalBackend
type c08Phys struct {
	sxPhys
	tb physical.TransactionalBackend
}

type c08PhysTxn struct {
	sxPhys
	tx physical.Transaction
}

func (t c08PhysTxn) Commit(ctx context.Context) error   { return t.tx.Commit(ctx) }
func (t c08PhysTxn) Rollback(ctx context.Context) error { return t.tx.Rollback(ctx) }

func (s c08Phys) Begin(ctx context.Context, ro bool) (c08Txn, error) {
	var tx physical.Transaction
	var err error
	if ro {
		tx, err = s.tb.BeginReadOnlyTx(ctx)
	} else {
		tx, err = s.tb.BeginTx(ctx)
	}
	if err != nil {
		return nil, err
	}
	return c08PhysTxn{sxPhys{tx}, tx}, nil
}

// physical.View is not transactional itself: the view is put over the backend and over each transaction.
type c08PView struct {
	sxPhys
	tb     physical.TransactionalBackend
	prefix string
}

func (s c08PView) Begin(ctx context.Context, ro bool) (c08Txn, error) {
	var tx physical.Transaction
	var err error
	if ro {
		tx, err = s.tb.BeginReadOnlyTx(ctx)
	} else {
		tx, err = s.tb.BeginTx(ctx)
	}
	if err != nil {
		return nil, err
	}
	return c08PhysTxn{sxPhys{physical.NewView(tx, s.prefix)}, tx}, nil
}

// logical.TransactionalStorage
type c08Log struct {
	sxLog
	ts logical.TransactionalStorage
}

type c08LogTxn struct {
	sxLog
	tx logical.Transaction
}

func (t c08LogTxn) Commit(ctx context.Context) error   { return t.tx.Commit(ctx) }
func (t c08LogTxn) Rollback(ctx context.Context) error { return t.tx.Rollback(ctx) }

func (s c08Log) Begin(ctx context.Context, ro bool) (c08Txn, error) {
	var tx logical.Transaction
	var err error
	if ro {
		tx, err = s.ts.BeginReadOnlyTx(ctx)
	} else {
		tx, err = s.ts.BeginTx(ctx)
	}
	if err != nil {
		return nil, err
	}
	return c08LogTxn{sxLog{tx}, tx}, nil
}

type c08Spec struct {
	name    string
	cache   bool
	enc     bool
	pview   bool
	logical bool
	barrier bool
	bview   bool
	lview   bool
}

var c08Specs = []c08Spec{
	{name: "inmem"},
	{name: "inmem+cache", cache: true},
	{name: "inmem+encoding", enc: true},
	{name: "inmem+cache+encoding", cache: true, enc: true},
	{name: "inmem+physview", pview: true},
	{name: "inmem+logical", logical: true},
	{name: "inmem+barrier", barrier: true},
	{name: "inmem+barrier+barrierview", barrier: true, bview: true},
	{name: "inmem+barrier+storageview", barrier: true, lview: true},
	{name: "inmem+cache+encoding+barrier+barrierview", cache: true, enc: true, barrier: true, bview: true},
}

// c08Hook is a pass-through transactional backend placed directly above the in-memory backend, i.e. BELOW the cache
// (and every other layer). It gives the harness two generated interleaving points inside Commit of the layers above it:
// a one-shot hook run just before the inner Commit is called, and one run just after the inner Commit returned
// successfully. The hooks run synchronously in the test goroutine (at those two moments physical.cacheTransaction.Commit
// holds none of its locks: the per-key parent locks and modifiedLock are only taken after the inner Commit returned).
type c08Hook struct {
	inner  physical.TransactionalBackend
	before func()
	after  func()
}

func (h *c08Hook) Put(ctx context.Context, e *physical.Entry) error { return h.inner.Put(ctx, e) }
func (h *c08Hook) Get(ctx context.Context, k string) (*physical.Entry, error) {
	return h.inner.Get(ctx, k)
}
func (h *c08Hook) Delete(ctx context.Context, k string) error { return h.inner.Delete(ctx, k) }
func (h *c08Hook) List(ctx context.Context, p string) ([]string, error) {
	return h.inner.List(ctx, p)
}

func (h *c08Hook) ListPage(ctx context.Context, p, after string, limit int) ([]string, error) {
	return h.inner.ListPage(ctx, p, after, limit)
}

func (h *c08Hook) BeginTx(ctx context.Context) (physical.Transaction, error) {
	tx, err := h.inner.BeginTx(ctx)
	if err != nil {
		return nil, err
	}
	return &c08HookTxn{Transaction: tx, h: h}, nil
}

func (h *c08Hook) BeginReadOnlyTx(ctx context.Context) (physical.Transaction, error) {
	tx, err := h.inner.BeginReadOnlyTx(ctx)
	if err != nil {
		return nil, err
	}
	return &c08HookTxn{Transaction: tx, h: h}, nil
}

type c08HookTxn struct {
	physical.Transaction
	h *c08Hook
}

func (t *c08HookTxn) Commit(ctx context.Context) error {
	// both hooks are one-shot and belong to the commit they were armed for
	before, after := t.h.before, t.h.after
	t.h.before, t.h.after = nil, nil
	if before != nil {
		before()
	}
	err := t.Transaction.Commit(ctx)
	if err == nil && after != nil {
		after()
	}
	return err
}

type c08Built struct {
	store      c08Store
	hook       *c08Hook
	base       physical.Backend // the in-memory backend itself
	fullPrefix string           // a key k of the top lives at fullPrefix+k in base
	encrypted  bool
}

func c08Build(spec c08Spec) (*c08Built, error) {
	bt := &c08Built{}
	st, err := c08BuildStore(spec, bt)
	if err != nil {
		return nil, err
	}
	bt.store = st
	return bt, nil
}

func c08BuildStore(spec c08Spec, bt *c08Built) (c08Store, error) {
	ctx := context.Background()
	nl := log.NewNullLogger()
	base, err := inmem.NewInmem(nil, nl)
	if err != nil {
		return nil, err
	}
	bt.base = base
	bt.hook = &c08Hook{inner: base.(physical.TransactionalBackend)}
	var cur physical.Backend = bt.hook
	if spec.cache {
		c := physical.NewCache(cur, 0, nl, &metrics.BlackholeSink{})
		c.SetEnabled(true)
		cur = c
	}
	if spec.enc {
		cur = physical.NewStorageEncoding(cur)
	}
	tb, ok := cur.(physical.TransactionalBackend)
	if !ok {
		return nil, fmt.Errorf("stack %s: %T is not a physical.TransactionalBackend", spec.name, cur)
	}
	if spec.pview {
		bt.fullPrefix = "v/w/"
		return c08PView{sxPhys{physical.NewView(cur, "v/w/")}, tb, "v/w/"}, nil
	}
	if !spec.barrier && !spec.logical {
		return c08Phys{sxPhys{cur}, tb}, nil
	}
	var ls logical.Storage
	if spec.barrier {
		b := barrier.NewAESGCMBarrier(cur, nil)
		key, err := b.GenerateKey()
		if err != nil {
			return nil, err
		}
		if err := b.Initialize(ctx, key, nil); err != nil {
			return nil, err
		}
		if err := b.Unseal(ctx, key); err != nil {
			return nil, err
		}
		ls = b
		bt.encrypted = true
	} else {
		ls = logical.NewLogicalStorage(cur)
	}
	if spec.lview {
		ls = logical.NewStorageView(ls, "v/")
		bt.fullPrefix = "v/"
	}
	if spec.bview {
		ls = barrier.NewView(ls, "v/").SubView("w/")
		bt.fullPrefix = "v/w/"
	}
	ts, ok := ls.(logical.TransactionalStorage)
	if !ok {
		return nil, fmt.Errorf("stack %s: %T is not a logical.TransactionalStorage", spec.name, ls)
	}
	return c08Log{sxLog{ls}, ts}, nil
}

// ---- model

var (
	c08Keys     = []string{"d/a", "d/b", "d/c", "e/a", "e/b", "e/c"}
	c08Prefixes = []string{"", "d/", "e/"}
	c08Afters   = []string{"", "a", "b", "c", "d/", "0", "e", "z"}
	c08Limits   = []int{-1, 0, 1, 2}
	c08Values   = [][]byte{[]byte("0"), []byte("1"), []byte("2")}
)

type c08Write struct {
	del bool
	val []byte
}

type c08Obs struct {
	list    bool
	key     string // key or prefix
	after   string
	limit   int
	overlay map[string]c08Write // own writes that preceded the observation
	val     []byte
	found   bool
	entries []string
}

type c08MTxn struct {
	id       int
	ro       bool
	h        c08Txn
	beginVer int
	overlay  map[string]c08Write
	obs      []c08Obs
	readKeys map[string]bool
	lists    map[string]bool
	cached   map[string]bool // keys whose last operation in the transaction was a successful get or put
	finished bool
}

func c08Apply(base map[string][]byte, ov map[string]c08Write) map[string][]byte {
	m := sxCloneMap(base)
	for k, w := range ov {
		if w.del {
			delete(m, k)
		} else {
			m[k] = w.val
		}
	}
	return m
}

func c08CloneOv(ov map[string]c08Write) map[string]c08Write {
	out := make(map[string]c08Write, len(ov))
	for k, w := range ov {
		out[k] = w
	}
	return out
}

type c08Run struct {
	spec     c08Spec
	st       c08Store
	rec      *verifx.Recorder
	rt       *rapid.T
	ctx      context.Context
	versions []map[string][]byte // committed states, versions[len-1] is current
	wrote    [][]string          // wrote[i] = keys written by the step that produced versions[i]
	open     []*c08MTxn
	done     []*c08MTxn
	nextID   int
	hist     []string
	bt       *c08Built
	baseForeign map[string]bool // keys the stack itself put into the base store while it was built (barrier keyring)
	hookAfter, hookBefore, hookOnTxnKey int
	foreignTop map[string]bool
	// case statistics
	maxOpen          int
	commitsAfterConf int
	conflicts        int
	abaCommits       int
	blindConflicts   int
	staleWriteless   int
	noOverlapFail    int
	laterSnapshot    int
	roRefused        int
	useAfter         int
}

// listKeys: the keys a listing sees = model keys plus what the stack itself keeps at top level (barrier keyring
// under core/), represented by one placeholder key per foreign top-level entry.
func (r *c08Run) listKeys(m map[string][]byte) []string {
	ks := sxSortedKeys(m)
	for e := range r.foreignTop {
		if strings.HasSuffix(e, "/") {
			ks = append(ks, e+"\x00foreign")
		} else {
			ks = append(ks, e)
		}
	}
	sort.Strings(ks)
	return ks
}

func (r *c08Run) cur() map[string][]byte { return r.versions[len(r.versions)-1] }

func (r *c08Run) log(format string, args ...any) {
	r.hist = append(r.hist, fmt.Sprintf(format, args...))
}

func (r *c08Run) detail() map[string]any {
	return map[string]any{"stack": r.spec.name, "history": r.hist, "committed": sxQM(r.cur())}
}

func (r *c08Run) viol(sig, format string, args ...any) bool {
	return r.rec.Violation(r.rt, sig, r.detail(), "[%s] %s", r.spec.name, fmt.Sprintf(format, args...))
}

func (r *c08Run) pushVersion(m map[string][]byte, keys []string) {
	r.versions = append(r.versions, m)
	r.wrote = append(r.wrote, keys)
}

// touched: did a step committed after the transaction began write a key the transaction read, wrote or listed over?
func (r *c08Run) touched(x *c08MTxn) bool {
	for v := x.beginVer + 1; v < len(r.versions); v++ {
		for _, k := range r.wrote[v] {
			if x.readKeys[k] {
				return true
			}
			if _, ok := x.overlay[k]; ok {
				return true
			}
			for p := range x.lists {
				if strings.HasPrefix(k, p) {
					return true
				}
			}
		}
	}
	return false
}

func (r *c08Run) pickOpen(rt *rapid.T) *c08MTxn {
	if len(r.open) == 0 {
		rt.Skip("no open transaction")
	}
	return r.open[rapid.IntRange(0, len(r.open)-1).Draw(rt, "txn")]
}

func (r *c08Run) begin(rt *rapid.T) {
	if len(r.open) >= 4 {
		rt.Skip("4 transactions open")
	}
	ro := rapid.IntRange(0, 3).Draw(rt, "readOnly") == 0
	h, err := r.st.Begin(r.ctx, ro)
	if err != nil {
		rt.Fatalf("harness: begin: %v", err)
	}
	r.nextID++
	x := &c08MTxn{id: r.nextID, ro: ro, h: h, beginVer: len(r.versions) - 1, overlay: map[string]c08Write{}, readKeys: map[string]bool{}, lists: map[string]bool{}, cached: map[string]bool{}}
	r.open = append(r.open, x)
	if len(r.open) > r.maxOpen {
		r.maxOpen = len(r.open)
	}
	r.log("T%d begin ro=%v", x.id, ro)
}

// checkRead: got must equal f(S + own writes) for a committed state S between begin and now.
func (r *c08Run) checkRead(x *c08MTxn, what string, eq func(state map[string][]byte) bool) {
	for v := x.beginVer; v < len(r.versions); v++ {
		if eq(c08Apply(r.versions[v], x.overlay)) {
			if v != x.beginVer && !eq(c08Apply(r.versions[x.beginVer], x.overlay)) {
				r.laterSnapshot++
			}
			return
		}
	}
	r.viol("txn-read-mismatch", "T%d %s matches no committed state since its begin overlaid with its own writes (begin state %s, own writes %v)", x.id, what, sxQM(r.versions[x.beginVer]), c08OvString(x.overlay))
}

func c08OvString(ov map[string]c08Write) string {
	var ks []string
	for k := range ov {
		ks = append(ks, k)
	}
	sort.Strings(ks)
	var parts []string
	for _, k := range ks {
		if ov[k].del {
			parts = append(parts, k+"=<del>")
		} else {
			parts = append(parts, k+"="+string(ov[k].val))
		}
	}
	return "{" + strings.Join(parts, " ") + "}"
}

func (r *c08Run) txGet(rt *rapid.T) {
	x := r.pickOpen(rt)
	k := rapid.SampledFrom(c08Keys).Draw(rt, "key")
	_, v, ok, err := x.h.Get(r.ctx, k)
	r.log("T%d get %s -> %s %v %v", x.id, k, v, ok, err)
	if err != nil {
		r.viol("txn-op-error", "T%d Get(%s) failed: %v", x.id, k, err)
		return
	}
	r.checkRead(x, fmt.Sprintf("Get(%s)=(%s,%v)", k, v, ok), func(s map[string][]byte) bool {
		w, exists := s[k]
		return exists == ok && (!ok || bytes.Equal(v, w))
	})
	x.obs = append(x.obs, c08Obs{key: k, overlay: c08CloneOv(x.overlay), val: v, found: ok})
	if _, own := x.overlay[k]; !own {
		x.readKeys[k] = true
	}
	x.cached[k] = true
}

func (r *c08Run) txList(rt *rapid.T) {
	x := r.pickOpen(rt)
	p := rapid.SampledFrom(c08Prefixes).Draw(rt, "prefix")
	paged := rapid.IntRange(0, 2).Draw(rt, "paged") > 0
	after, limit := "", -1
	var got []string
	var err error
	if paged {
		after = rapid.SampledFrom(c08Afters).Draw(rt, "after")
		limit = rapid.SampledFrom(c08Limits).Draw(rt, "limit")
		got, err = x.h.ListPage(r.ctx, p, after, limit)
	} else {
		got, err = x.h.List(r.ctx, p)
	}
	r.log("T%d listpage %q after=%q limit=%d -> %v %v", x.id, p, after, limit, got, err)
	if err != nil {
		r.viol("txn-op-error", "T%d ListPage(%q,%q,%d) failed: %v", x.id, p, after, limit, err)
		return
	}
	r.checkRead(x, fmt.Sprintf("ListPage(%q,%q,%d)=%v", p, after, limit, got), func(s map[string][]byte) bool {
		return sxEqList(got, sxListPage(r.listKeys(s), p, after, limit))
	})
	x.obs = append(x.obs, c08Obs{list: true, key: p, after: after, limit: limit, overlay: c08CloneOv(x.overlay), entries: got})
	x.lists[p] = true
}

func (r *c08Run) txWrite(rt *rapid.T) {
	x := r.pickOpen(rt)
	k := rapid.SampledFrom(c08Keys).Draw(rt, "key")
	del := rapid.IntRange(0, 3).Draw(rt, "delete") == 0
	var v []byte
	var err error
	if del {
		err = x.h.Delete(r.ctx, k)
	} else {
		v = rapid.SampledFrom(c08Values).Draw(rt, "val")
		err = x.h.Put(r.ctx, k, v)
	}
	r.log("T%d write %s del=%v val=%s -> %v", x.id, k, del, v, err)
	if x.ro {
		r.roRefused++
		if !errors.Is(err, physical.ErrTransactionReadOnly) {
			r.viol("readonly-txn-accepts-write", "read-only T%d: write to %s returned %v, want ErrTransactionReadOnly", x.id, k, err)
		}
		return
	}
	if err != nil {
		r.viol("txn-op-error", "T%d write to %s failed: %v", x.id, k, err)
		return
	}
	x.overlay[k] = c08Write{del: del, val: v}
	x.cached[k] = !del
}

func (r *c08Run) removeOpen(x *c08MTxn) {
	for i, o := range r.open {
		if o == x {
			r.open = append(r.open[:i], r.open[i+1:]...)
			break
		}
	}
	x.finished = true
	r.done = append(r.done, x)
}

// staleObs returns a description of the first observation of x that no longer holds on the current committed state.
func (r *c08Run) staleObs(x *c08MTxn) string {
	for _, o := range x.obs {
		s := c08Apply(r.cur(), o.overlay)
		if o.list {
			now := sxListPage(r.listKeys(s), o.key, o.after, o.limit)
			if !sxEqList(now, o.entries) {
				return fmt.Sprintf("ListPage(%q,%q,%d) returned %v, would now return %v", o.key, o.after, o.limit, o.entries, now)
			}
			continue
		}
		w, exists := s[o.key]
		if exists != o.found || (exists && !bytes.Equal(w, o.val)) {
			return fmt.Sprintf("Get(%s) returned (%s,%v), would now return (%s,%v)", o.key, o.val, o.found, w, exists)
		}
	}
	return ""
}

type c08HookOp struct {
	key string
	del bool
	val []byte
}

func (r *c08Run) commit(rt *rapid.T) {
	r.doCommit(r.pickOpen(rt), "", nil)
}

// commitHooked: a commit with 1-2 plain writes (through the top of the stack) landing inside it, either just before the
// inner-most Commit is called or just after it returned successfully — below the cache and every other layer.
func (r *c08Run) commitHooked(rt *rapid.T) {
	x := r.pickOpen(rt)
	when := rapid.SampledFrom([]string{"after", "after", "before"}).Draw(rt, "hookWhen")
	var own []string
	for k := range x.overlay {
		own = append(own, k)
	}
	sort.Strings(own)
	n := rapid.IntRange(1, 2).Draw(rt, "hookOps")
	ops := make([]c08HookOp, n)
	for i := range ops {
		if len(own) > 0 && rapid.Bool().Draw(rt, "hookOnTxnKey") {
			ops[i].key = own[rapid.IntRange(0, len(own)-1).Draw(rt, "hookOwnKey")]
		} else {
			ops[i].key = rapid.SampledFrom(c08Keys).Draw(rt, "hookKey")
		}
		ops[i].del = rapid.IntRange(0, 2).Draw(rt, "hookDelete") == 0
		if !ops[i].del {
			ops[i].val = rapid.SampledFrom(c08Values).Draw(rt, "hookVal")
		}
	}
	r.doCommit(x, when, ops)
}

// applyHookOps puts the plain writes of a hook into the model, one committed version each.
func (r *c08Run) applyHookOps(x *c08MTxn, ops []c08HookOp) {
	for _, o := range ops {
		m := sxCloneMap(r.cur())
		if o.del {
			delete(m, o.key)
		} else {
			m[o.key] = o.val
		}
		r.pushVersion(m, []string{o.key})
		if _, ok := x.overlay[o.key]; ok {
			r.hookOnTxnKey++
		}
	}
}

func (r *c08Run) doCommit(x *c08MTxn, when string, ops []c08HookOp) {
	fired := false
	var hookErr error
	hook := func() {
		fired = true
		for _, o := range ops {
			var err error
			if o.del {
				err = r.st.Delete(r.ctx, o.key)
			} else {
				err = r.st.Put(r.ctx, o.key, o.val)
			}
			if err != nil && hookErr == nil {
				hookErr = fmt.Errorf("plain write to %s inside commit: %w", o.key, err)
			}
		}
	}
	switch when {
	case "before":
		// serial order that really happens: the plain writes, then the commit attempt
		r.bt.hook.before = hook
		r.applyHookOps(x, ops)
	case "after":
		r.bt.hook.after = hook
	}
	touched := r.touched(x)
	othersCommitted := len(r.versions)-1 > x.beginVer
	stale := r.staleObs(x)
	err := x.h.Commit(r.ctx)
	r.bt.hook.before, r.bt.hook.after = nil, nil
	r.log("T%d commit hook=%q ops=%v fired=%v -> %v", x.id, when, ops, fired, err)
	r.removeOpen(x)
	if hookErr != nil {
		r.viol("plain-op-error", "%v", hookErr)
	}
	if when == "before" {
		if !fired {
			r.rt.Fatalf("harness: before-commit hook did not fire (commit never reached the base transaction)")
		}
		r.hookBefore++
	}
	if when == "after" && fired != (err == nil) {
		r.rt.Fatalf("harness: after-commit hook fired=%v but commit returned %v", fired, err)
	}
	if touched {
		r.commitsAfterConf++
	}
	hasWrites := len(x.overlay) > 0
	if err == nil {
		if hasWrites {
			if stale != "" {
				r.viol("stale-transaction-committed", "T%d committed although %s", x.id, stale)
			}
			if touched {
				r.abaCommits++
			}
			var keys []string
			for k := range x.overlay {
				keys = append(keys, k)
			}
			sort.Strings(keys)
			r.pushVersion(c08Apply(r.cur(), x.overlay), keys)
		} else if stale != "" {
			r.staleWriteless++
		}
		if when == "after" {
			// serial order that really happened: the transaction's writes, then the plain writes
			r.applyHookOps(x, ops)
			r.hookAfter++
		}
		if when != "" {
			r.afterHookReads()
		}
		return
	}
	if !errors.Is(err, physical.ErrTransactionCommitFailure) {
		r.viol("commit-wrong-error", "T%d commit failed with %v, not a ErrTransactionCommitFailure", x.id, err)
		return
	}
	r.conflicts++
	if !othersCommitted {
		r.viol("spurious-commit-failure", "T%d commit failed although nothing was committed since its begin: %v", x.id, err)
		return
	}
	if !touched {
		r.noOverlapFail++
	} else if stale == "" {
		r.blindConflicts++
	}
}

// afterHookReads: after a commit with writes landing inside it, a brand-new transaction must read exactly the committed
// state (plain reads, full scan and base-store scan are done by the invariant after every step).
func (r *c08Run) afterHookReads() {
	tx, err := r.st.Begin(r.ctx, false)
	if err != nil {
		r.rt.Fatalf("harness: begin: %v", err)
	}
	defer tx.Rollback(r.ctx) //nolint:errcheck
	for _, k := range c08Keys {
		_, v, ok, err := tx.Get(r.ctx, k)
		w, exists := r.cur()[k]
		if err != nil || ok != exists || (ok && !bytes.Equal(v, w)) {
			r.viol("new-txn-read-mismatch", "a transaction begun after the commit reads %s = (%s,%v,err %v), committed state holds (%s,%v)", k, v, ok, err, w, exists)
		}
	}
	for _, p := range c08Prefixes {
		got, err := tx.List(r.ctx, p)
		want := sxListPage(r.listKeys(r.cur()), p, "", -1)
		if err != nil || !sxEqList(got, want) {
			r.viol("new-txn-read-mismatch", "a transaction begun after the commit lists %q = %v (err %v), committed state gives %v", p, got, err, want)
		}
	}
}

func (r *c08Run) rollback(rt *rapid.T) {
	x := r.pickOpen(rt)
	err := x.h.Rollback(r.ctx)
	r.log("T%d rollback -> %v", x.id, err)
	r.removeOpen(x)
	if err != nil {
		r.viol("rollback-error", "T%d rollback failed: %v", x.id, err)
	}
}

func (r *c08Run) plainWrite(rt *rapid.T) {
	k := rapid.SampledFrom(c08Keys).Draw(rt, "key")
	del := rapid.IntRange(0, 3).Draw(rt, "delete") == 0
	m := sxCloneMap(r.cur())
	var err error
	var v []byte
	if del {
		err = r.st.Delete(r.ctx, k)
		delete(m, k)
	} else {
		v = rapid.SampledFrom(c08Values).Draw(rt, "val")
		err = r.st.Put(r.ctx, k, v)
		m[k] = v
	}
	r.log("plain write %s del=%v val=%s -> %v", k, del, v, err)
	if err != nil {
		r.viol("plain-op-error", "plain write to %s failed: %v", k, err)
		return
	}
	r.pushVersion(m, []string{k})
}

func (r *c08Run) plainRead(rt *rapid.T) {
	if rapid.Bool().Draw(rt, "list") {
		p := rapid.SampledFrom(c08Prefixes).Draw(rt, "prefix")
		after := rapid.SampledFrom(c08Afters).Draw(rt, "after")
		limit := rapid.SampledFrom(c08Limits).Draw(rt, "limit")
		got, err := r.st.ListPage(r.ctx, p, after, limit)
		r.log("plain listpage %q %q %d -> %v %v", p, after, limit, got, err)
		want := sxListPage(r.listKeys(r.cur()), p, after, limit)
		if err != nil || !sxEqList(got, want) {
			r.viol("plain-read-mismatch", "plain ListPage(%q,%q,%d) = %v (err %v), committed state gives %v", p, after, limit, got, err, want)
		}
		return
	}
	k := rapid.SampledFrom(c08Keys).Draw(rt, "key")
	_, v, ok, err := r.st.Get(r.ctx, k)
	r.log("plain get %s -> %s %v %v", k, v, ok, err)
	w, exists := r.cur()[k]
	if err != nil || ok != exists || (ok && !bytes.Equal(v, w)) {
		r.viol("plain-read-mismatch", "plain Get(%s) = (%s,%v,err %v), committed state holds (%s,%v)", k, v, ok, err, w, exists)
	}
}

func (r *c08Run) useAfterFinish(rt *rapid.T) {
	if len(r.done) == 0 {
		rt.Skip("no finished transaction")
	}
	x := r.done[rapid.IntRange(0, len(r.done)-1).Draw(rt, "finished")]
	op := rapid.SampledFrom([]string{"get", "put", "delete", "list", "listpage", "commit", "rollback"}).Draw(rt, "op")
	k := rapid.SampledFrom(c08Keys).Draw(rt, "key")
	var err error
	switch op {
	case "get":
		_, _, _, err = x.h.Get(r.ctx, k)
	case "put":
		err = x.h.Put(r.ctx, k, []byte("9"))
	case "delete":
		err = x.h.Delete(r.ctx, k)
	case "list":
		_, err = x.h.List(r.ctx, "d/")
	case "listpage":
		_, err = x.h.ListPage(r.ctx, "d/", "a", 1)
	case "commit":
		err = x.h.Commit(r.ctx)
	case "rollback":
		err = x.h.Rollback(r.ctx)
	}
	r.log("T%d (finished) %s %s -> %v", x.id, op, k, err)
	r.useAfter++
	if errors.Is(err, physical.ErrTransactionAlreadyCommitted) {
		return
	}
	if x.ro && (op == "put" || op == "delete") && errors.Is(err, physical.ErrTransactionReadOnly) {
		return
	}
	sig := "finished-txn-usable"
	if r.spec.cache && op == "get" && err == nil && x.cached[k] {
		// the transaction of the cache layer keeps serving keys it has cached after Commit/Rollback
		sig = "cache-txn-get-after-finish"
	}
	r.viol(sig, "%s on T%d after it was committed/rolled back returned %v, want ErrTransactionAlreadyCommitted", op, x.id, err)
}

func (r *c08Run) invariant(rt *rapid.T) {
	// full scan through the non-transactional face; top-level entries the stack created itself (barrier keyring) are skipped
	top, err := r.st.List(r.ctx, "")
	if err != nil {
		r.viol("scan-error", "full scan failed: %v", err)
		return
	}
	got := map[string][]byte{}
	for _, e := range top {
		if r.foreignTop[e] {
			continue
		}
		if !strings.HasSuffix(e, "/") {
			r.viol("committed-state-mismatch", "full scan found unexpected top-level key %q", e)
			return
		}
		sub, err := r.st.List(r.ctx, e)
		if err != nil {
			r.viol("scan-error", "full scan failed: %v", err)
			return
		}
		for _, k := range sub {
			_, v, ok, err := r.st.Get(r.ctx, e+k)
			if err != nil || !ok {
				r.viol("scan-error", "full scan: Get(%s) = found %v, err %v", e+k, ok, err)
				return
			}
			got[e+k] = v
		}
	}
	if !sxEqMap(got, r.cur()) {
		r.viol("committed-state-mismatch", "full scan = %s, model of the committed state = %s", sxQM(got), sxQM(r.cur()))
	}
	// point reads of every key, listed or not (a stale cache entry for a deleted key is invisible to a listing-driven scan)
	for _, k := range c08Keys {
		_, v, ok, err := r.st.Get(r.ctx, k)
		w, exists := r.cur()[k]
		if err != nil || ok != exists || (ok && !bytes.Equal(v, w)) {
			r.viol("plain-read-mismatch", "plain Get(%s) = (%s,%v,err %v), committed state holds (%s,%v)", k, v, ok, err, w, exists)
		}
	}
	// the base store, read directly
	raw, err := sxDump(r.ctx, sxPhys{r.bt.base})
	if err != nil {
		r.viol("scan-error", "scan of the base store failed: %v", err)
		return
	}
	bad := len(raw) != len(r.cur())+len(r.baseForeign)
	for k, v := range r.cur() {
		g, ok := raw[r.bt.fullPrefix+k]
		if !ok || (!r.bt.encrypted && !bytes.Equal(g, v)) {
			bad = true
		}
	}
	if bad {
		r.viol("base-store-mismatch", "base store holds %s, committed state %s under prefix %q (+%d keys of the stack itself)", sxQL(sxSortedKeys(raw)), sxQM(r.cur()), r.bt.fullPrefix, len(r.baseForeign))
	}
}

func c08RunStack(t *testing.T, spec c08Spec, salt int) {
	rec := verifx.NewRecorder("C08", "txn-"+spec.name,
		"single goroutine interleaves <=4 open transactions (rw / read-only) and plain writers over 6 keys in 2 directories, values from 3 constants; "+
			"ops get/put/delete/list/list-page(after,limit)/commit/rollback/use-after-finish/plain read+write; "+
			"commit-with-hook: 1-2 generated plain writes through the top land inside Commit, below the cache, just before or just after the inner-most Commit; "+
			"OCC model (1)-(6); full scan, point reads of all keys and base-store scan after every step; "+
			"non-trivial = at least 2 transactions were open at once and a commit was attempted by a transaction after another committer wrote a key it had read, written or listed over")
	defer rec.Flush()
	ctx := context.Background()
	rapid.Check(t, func(rt *rapid.T) {
		for i := 0; i < salt; i++ {
			rapid.Bool().Draw(rt, "salt")
		}
		bt, err := c08Build(spec)
		if err != nil {
			rt.Fatalf("harness: %v", err)
		}
		st := bt.store
		r := &c08Run{spec: spec, st: st, bt: bt, rec: rec, rt: rt, ctx: ctx, baseForeign: map[string]bool{}}
		if pre, err := sxDump(ctx, sxPhys{bt.base}); err != nil {
			rt.Fatalf("harness: %v", err)
		} else {
			for k := range pre {
				r.baseForeign[k] = true
			}
		}
		r.versions = []map[string][]byte{{}}
		r.wrote = [][]string{nil}
		r.foreignTop = map[string]bool{}
		if pre, err := st.List(ctx, ""); err != nil {
			rt.Fatalf("harness: %v", err)
		} else {
			for _, e := range pre {
				r.foreignTop[e] = true
			}
		}
		defer func() {
			for _, x := range r.open {
				_ = x.h.Rollback(ctx)
			}
		}()
		for i, n := 0, rapid.IntRange(0, 4).Draw(rt, "initialWrites"); i < n; i++ {
			r.plainWrite(rt)
		}
		rt.Repeat(map[string]func(*rapid.T){
			"begin":      r.begin,
			"begin2":     r.begin,
			"txGet":      r.txGet,
			"txGet2":     r.txGet,
			"txList":     r.txList,
			"txList2":    r.txList,
			"txWrite":    r.txWrite,
			"txWrite2":   r.txWrite,
			"txWrite3":   r.txWrite,
			"commit":     r.commit,
			"commit2":    r.commit,
			"commitHook": r.commitHooked,
			"rollback":   r.rollback,
			"plainWrite": r.plainWrite,
			"plainRead":  r.plainRead,
			"useAfter":   r.useAfterFinish,
			"":           r.invariant,
		})
		nt := r.maxOpen >= 2 && r.commitsAfterConf > 0
		class := "serial"
		switch {
		case nt && r.conflicts > 0:
			class = "overlap+conflict-reported"
		case nt:
			class = "overlap+commit-after-conflicting-commit"
		case r.maxOpen >= 2:
			class = "overlap-no-conflict"
		}
		rec.Class("commit-conflicts", int64(r.conflicts))
		rec.Class("commits-after-conflicting-commit", int64(r.commitsAfterConf))
		rec.Class("aba-or-blind-commit-ok", int64(r.abaCommits))
		rec.Class("conflict-with-unchanged-observations", int64(r.blindConflicts))
		rec.Class("conflict-without-overlap", int64(r.noOverlapFail))
		rec.Class("writeless-stale-commit-ok", int64(r.staleWriteless))
		rec.Class("read-from-later-state", int64(r.laterSnapshot))
		rec.Class("readonly-write-refused", int64(r.roRefused))
		rec.Class("use-after-finish", int64(r.useAfter))
		rec.Class("hook-fired-inside-commit-after-inner-commit", int64(r.hookAfter))
		rec.Class("hook-fired-inside-commit-before-inner-commit", int64(r.hookBefore))
		rec.Class("hook-write-on-key-written-by-the-transaction", int64(r.hookOnTxnKey))
		rec.Case(class, nt, verifx.Digest(strings.Join(r.hist, "\n")), func() any {
			return map[string]any{"stack": spec.name, "ops": r.hist}
		})
	})
}

func TestVerif_C08_Txn(t *testing.T) {
	for i, sp := range c08Specs {
		if t.Failed() {
			return
		}
		sp, i := sp, i
		t.Run(sp.name, func(t *testing.T) { c08RunStack(t, sp, i) })
	}
}
