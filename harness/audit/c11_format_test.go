//go:build verif

package audit

import (
	"bytes"
	"context"
	"crypto/hmac"
	"crypto/sha256"
	"encoding/base64"
	"encoding/hex"
	"encoding/json"
	"errors"
	"fmt"
	"reflect"
	"slices"
	"sort"
	"strconv"
	"strings"
	"testing"
	"time"
	"unicode/utf8"

	"github.com/openbao/openbao/sdk/v2/helper/salt"
	"github.com/openbao/openbao/sdk/v2/helper/verifx"
	"github.com/openbao/openbao/sdk/v2/helper/wrapping"
	"github.com/openbao/openbao/sdk/v2/logical"
	"github.com/openbao/openbao/v2/internal/helper/namespace"
	"pgregory.net/rapid"
)

// C11a — audit entries never hold plaintext secrets (non-raw mode).
//
// A case is a specification tree (c11Node) from which (a) the logical.LogInput is built twice (one copy is
// handed to the formatter, the other is the reference for the "inputs are not mutated" oracle) and (b) the
// expected audit entry is derived by a reference model written from the documentation:
//
//   * docs/audit: strings inside request/response data are HMAC-SHA256'd with the device salt; other JSON types
//     pass through; keys of objects are not hashed (hashstructure.go: "Only _values_ are hashed").
//   * audit_non_hmac_request_keys / audit_non_hmac_response_keys: values under these keys are not HMAC'd. The
//     walker's documented rule (hashWalker.key / Primitive comments): the key that counts is the most recently
//     entered map key, slices in between are transparent.
//   * []byte values become base64 strings by the JSON copy (getUnmarshaledCopy) and are HMAC'd as such, except the
//     response's top-level http_raw_body given as []byte, which is "reverted to the direct string form" first.
//   * hmac_accessor: accessors are HMAC'd iff enabled; client tokens and the wrapping token always.
//   * elide_list_responses: for list operations the top-level "keys" (array) and "key_info" (object) of the
//     response data are replaced by their element count (FormatterConfig doc comment).
//   * a time.Time value marshals to an RFC 3339 string, which is left in clear by design (never a canary).
//
// Deliberately NOT asserted: anything about fields that are not secrets per the statement (paths, lease ids are
// only compared for equality with the input as part of "unchanged"), precision of integers beyond 2^53 (the JSON
// copy decodes numbers into float64; numbers are compared as float64), Secret/Auth.InternalData (never emitted).

const c11Base62 = "0123456789ABCDEFGHIJKLMNOPQRSTUVWXYZabcdefghijklmnopqrstuvwxyz"

type c11Kind int

const (
	c11Str c11Kind = iota
	c11Bytes
	c11Int
	c11Int64
	c11Uint64
	c11Float
	c11JNum
	c11Bool
	c11Nil
	c11Time
	c11Map
	c11Slice
)

type c11Typed int

const (
	c11Generic   c11Typed = iota
	c11TypedStr           // map[string]string / []string
	c11TypedList          // map[string][]string
	c11Struct             // c11LeafStruct
)

type c11LeafStruct struct {
	Value string   `json:"value"`
	Count int      `json:"count"`
	Tags  []string `json:"tags"`
}

type c11Node struct {
	kind  c11Kind
	typed c11Typed
	str   string // c11Str: the full leaf value; c11JNum: the literal
	core  string // canary core contained in str / byt ("" for the empty string leaf)
	byt   []byte
	i     int64
	u     uint64
	f     float64
	b     bool
	t     time.Time
	keys  []string
	kids  []*c11Node
}

// c11Canary is one planted secret.
type c11Canary struct {
	core    string
	forms   []string // byte strings that must not occur in the entry unless allowed
	where   string   // human readable location
	field   string   // signature class
	allowed bool     // may legitimately appear in clear
	depth   int
	inSlice bool
}

type c11Gen struct {
	rt       *rapid.T
	n        int // canaries handed out
	budget   int
	canaries []*c11Canary
}

func (g *c11Gen) canaryCore() string {
	idx := g.n
	g.n++
	a := rapid.Uint64().Draw(g.rt, "ca")
	b := rapid.Uint64().Draw(g.rt, "cb")
	c := rapid.Uint64().Draw(g.rt, "cc")
	var sb strings.Builder
	sb.WriteByte("GHIJKLMNOPQRSTUVWXYZ"[a%20]) // never a hex digit: cannot occur inside an HMAC
	a /= 20
	for _, v := range []uint64{a, b, c} {
		for i := 0; i < 7; i++ {
			if sb.Len() == 21 {
				break
			}
			sb.WriteByte(c11Base62[v%62])
			v /= 62
		}
	}
	// the last three characters number the canary: distinct within a case even after shrinking
	sb.WriteByte(c11Base62[(idx/3844)%62])
	sb.WriteByte(c11Base62[(idx/62)%62])
	sb.WriteByte(c11Base62[idx%62])
	return sb.String()
}

var (
	c11Prefixes = []string{"", "", "", "", "hvs.", "s.", "-----BEGIN KEY-----\n", "2024-01-01 "}
	c11Suffixes = []string{"", "", "", "", "\"q\"", "<&>", " é✓", "\n\t", "T10:00:00Z", "\\", ".nsid1"}
	c11TopKeys  = []string{"password", "token", "data", "keys", "key_info", "http_raw_body", "http_content_type", "value", "secret", "config", "items", "k0", "k1"}
	c11SubKeys  = []string{"password", "token", "data", "keys", "value", "secret", "inner", "k0", "k1", "k2"}
)

// numericCore: a secret that consists of decimal digits only (a PIN, a one-time code, a card or account number, a
// numeric secret id): 16 digits (a value an int64 can hold), the last three number the canary. An exact 16-digit match
// inside an HMAC's hex form has probability 16^-16 per position.
func (g *c11Gen) numericCore() string {
	idx := g.n
	g.n++
	a := rapid.Uint64().Draw(g.rt, "na")
	b := rapid.Uint64().Draw(g.rt, "nb")
	return fmt.Sprintf("%d%06d%06d%03d", 1+a%9, a/9%1000000, b%1000000, idx%1000)
}

func (g *c11Gen) strLeaf() *c11Node {
	if rapid.IntRange(0, 6).Draw(g.rt, "numericSecret") == 0 {
		core := g.numericCore()
		s := core
		if rapid.IntRange(0, 3).Draw(g.rt, "negative") == 0 {
			s = "-" + core
		}
		return &c11Node{kind: c11Str, str: s, core: core}
	}
	core := g.canaryCore()
	s := core
	if rapid.IntRange(0, 3).Draw(g.rt, "decorate") == 0 {
		s = rapid.SampledFrom(c11Prefixes).Draw(g.rt, "prefix") + core + rapid.SampledFrom(c11Suffixes).Draw(g.rt, "suffix")
	}
	return &c11Node{kind: c11Str, str: s, core: core}
}

func (g *c11Gen) bytesLeaf(utf8Only bool) *c11Node {
	core := g.canaryCore()
	var b []byte
	if utf8Only {
		b = []byte(rapid.SampledFrom([]string{"", "{\"certificate\":\"", "-----BEGIN CERTIFICATE-----\n"}).Draw(g.rt, "rawpre") + core +
			rapid.SampledFrom([]string{"", "\"}", "\n-----END CERTIFICATE-----\n", "<html>&amp;</html>"}).Draw(g.rt, "rawpost"))
	} else {
		b = append(b, rapid.SliceOfN(rapid.Byte(), 0, 4).Draw(g.rt, "bpre")...)
		b = append(b, core...)
		b = append(b, rapid.SliceOfN(rapid.Byte(), 0, 4).Draw(g.rt, "bpost")...)
	}
	return &c11Node{kind: c11Bytes, byt: b, core: core}
}

func (g *c11Gen) leaf() *c11Node {
	switch k := rapid.IntRange(0, 99).Draw(g.rt, "leaf"); {
	case k < 50:
		return g.strLeaf()
	case k < 60:
		return g.bytesLeaf(false)
	case k < 66:
		return &c11Node{kind: c11Int, i: int64(rapid.IntRange(-1000000, 1000000).Draw(g.rt, "int"))}
	case k < 69:
		return &c11Node{kind: c11Int64, i: rapid.Int64().Draw(g.rt, "int64")}
	case k < 71:
		return &c11Node{kind: c11Uint64, u: rapid.Uint64().Draw(g.rt, "uint64")}
	case k < 75:
		return &c11Node{kind: c11Float, f: rapid.Float64Range(-1e12, 1e12).Draw(g.rt, "float")}
	case k < 80:
		return &c11Node{kind: c11JNum, str: rapid.SampledFrom([]string{"0", "-1", "42", "1.50", "1e3", "9007199254740993", "-0.000125", "123456789012345678901234567890"}).Draw(g.rt, "jnum")}
	case k < 87:
		return &c11Node{kind: c11Bool, b: rapid.Bool().Draw(g.rt, "bool")}
	case k < 92:
		return &c11Node{kind: c11Nil}
	case k < 95:
		return &c11Node{kind: c11Time, t: time.Unix(int64(rapid.IntRange(0, 2000000000).Draw(g.rt, "unix")), int64(rapid.IntRange(0, 999999999).Draw(g.rt, "nsec"))).UTC()}
	case k < 97:
		return &c11Node{kind: c11Str, str: "", core: ""} // empty string leaf
	case k < 98:
		return &c11Node{kind: c11Map} // empty map
	default:
		return &c11Node{kind: c11Slice} // empty slice
	}
}

func (g *c11Gen) distinctKeys(pool []string, n int) []string {
	perm := rapid.Permutation(pool).Draw(g.rt, "keys")
	if n > len(perm) {
		n = len(perm)
	}
	return append([]string(nil), perm[:n]...)
}

// node draws a value at the given container depth (the data map itself is depth 0, its values depth 1).
func (g *c11Gen) node(depth int) *c11Node {
	g.budget--
	containerChance := []int{0, 45, 40, 35, 30, 0}[min(depth, 5)] // values at depth 5 are leaves: nesting <= 5
	if g.budget <= 0 || rapid.IntRange(0, 99).Draw(g.rt, "container") >= containerChance {
		return g.leaf()
	}
	switch rapid.IntRange(0, 9).Draw(g.rt, "ckind") {
	case 0, 1, 2:
		return g.mapNode(depth, c11SubKeys, rapid.IntRange(0, 4).Draw(g.rt, "msize"))
	case 3, 4, 5:
		n := rapid.IntRange(0, 4).Draw(g.rt, "ssize")
		s := &c11Node{kind: c11Slice}
		for i := 0; i < n; i++ {
			s.kids = append(s.kids, g.node(depth+1))
		}
		return s
	case 6: // []string
		n := rapid.IntRange(1, 4).Draw(g.rt, "ssize")
		s := &c11Node{kind: c11Slice, typed: c11TypedStr}
		for i := 0; i < n; i++ {
			s.kids = append(s.kids, g.strLeaf())
		}
		return s
	case 7: // map[string]string
		m := &c11Node{kind: c11Map, typed: c11TypedStr, keys: g.distinctKeys(c11SubKeys, rapid.IntRange(1, 3).Draw(g.rt, "msize"))}
		for range m.keys {
			m.kids = append(m.kids, g.strLeaf())
		}
		return m
	case 8: // map[string][]string
		m := &c11Node{kind: c11Map, typed: c11TypedList, keys: g.distinctKeys(c11SubKeys, rapid.IntRange(1, 2).Draw(g.rt, "msize"))}
		for range m.keys {
			s := &c11Node{kind: c11Slice, typed: c11TypedStr}
			for i, n := 0, rapid.IntRange(1, 3).Draw(g.rt, "ssize"); i < n; i++ {
				s.kids = append(s.kids, g.strLeaf())
			}
			m.kids = append(m.kids, s)
		}
		return m
	default: // a struct value, as some backends put into response data
		tags := &c11Node{kind: c11Slice, typed: c11TypedStr}
		for i, n := 0, rapid.IntRange(1, 2).Draw(g.rt, "tags"); i < n; i++ {
			tags.kids = append(tags.kids, g.strLeaf())
		}
		return &c11Node{kind: c11Map, typed: c11Struct, keys: []string{"value", "count", "tags"},
			kids: []*c11Node{g.strLeaf(), {kind: c11Int, i: int64(rapid.IntRange(0, 99).Draw(g.rt, "count"))}, tags}}
	}
}

func (g *c11Gen) mapNode(depth int, pool []string, size int) *c11Node {
	m := &c11Node{kind: c11Map, keys: g.distinctKeys(pool, size)}
	for range m.keys {
		m.kids = append(m.kids, g.node(depth+1))
	}
	return m
}

// build renders the specification as a fresh Go value, the way backends and the HTTP layer produce them.
func (n *c11Node) build() any {
	switch n.kind {
	case c11Str:
		return n.str
	case c11Bytes:
		return append([]byte(nil), n.byt...)
	case c11Int:
		return int(n.i)
	case c11Int64:
		return n.i
	case c11Uint64:
		return n.u
	case c11Float:
		return n.f
	case c11JNum:
		return json.Number(n.str)
	case c11Bool:
		return n.b
	case c11Nil:
		return nil
	case c11Time:
		return n.t
	case c11Slice:
		if n.typed == c11TypedStr {
			out := make([]string, 0, len(n.kids))
			for _, k := range n.kids {
				out = append(out, k.str)
			}
			return out
		}
		out := make([]any, 0, len(n.kids))
		for _, k := range n.kids {
			out = append(out, k.build())
		}
		return out
	case c11Map:
		switch n.typed {
		case c11TypedStr:
			out := map[string]string{}
			for i, k := range n.keys {
				out[k] = n.kids[i].str
			}
			return out
		case c11TypedList:
			out := map[string][]string{}
			for i, k := range n.keys {
				out[k] = n.kids[i].build().([]string)
			}
			return out
		case c11Struct:
			return c11LeafStruct{Value: n.kids[0].str, Count: int(n.kids[1].i), Tags: n.kids[2].build().([]string)}
		}
		return n.buildMap()
	}
	panic("c11: unknown node kind")
}

func (n *c11Node) buildMap() map[string]any {
	out := make(map[string]any, len(n.keys))
	for i, k := range n.keys {
		out[k] = n.kids[i].build()
	}
	return out
}

type c11Model struct {
	hm       func(string) string
	exempt   []string
	g        *c11Gen
	section  string // "req-data" / "resp-data"
	elide    bool   // response data of a list operation with elision enabled
	response bool
}

// expect derives the JSON value the audit entry must carry for n. key is the nearest enclosing map key.
func (m *c11Model) expect(n *c11Node, key, path string, depth int, inSlice, top bool) any {
	exempt := slices.Contains(m.exempt, key)
	reg := func(core string, forms ...string) {
		if core == "" {
			return
		}
		m.g.canaries = append(m.g.canaries, &c11Canary{core: core, forms: append([]string{core}, forms...), where: m.section + path,
			field: m.section, allowed: exempt, depth: depth, inSlice: inSlice})
	}
	str := func(s string) any {
		if exempt {
			return s
		}
		return m.hm(s)
	}
	switch n.kind {
	case c11Str:
		reg(n.core)
		return str(n.str)
	case c11Bytes:
		b64 := base64.StdEncoding.EncodeToString(n.byt)
		reg(n.core, b64)
		if m.response && top && key == logical.HTTPRawBody {
			return str(string(n.byt))
		}
		return str(b64)
	case c11Int, c11Int64:
		return float64(n.i)
	case c11Uint64:
		return float64(n.u)
	case c11Float:
		return n.f
	case c11JNum:
		f, err := strconv.ParseFloat(n.str, 64)
		if err != nil {
			panic(err)
		}
		return f
	case c11Bool:
		return n.b
	case c11Nil:
		return nil
	case c11Time:
		return n.t.Format(time.RFC3339Nano) // timestamps are left in clear by design
	case c11Slice:
		out := make([]any, 0, len(n.kids))
		for i, k := range n.kids {
			out = append(out, m.expect(k, key, fmt.Sprintf("%s[%d]", path, i), depth+1, true, false))
		}
		return out
	case c11Map:
		out := make(map[string]any, len(n.keys))
		for i, k := range n.keys {
			out[k] = m.expect(n.kids[i], k, path+"."+k, depth+1, inSlice, false)
		}
		return out
	}
	panic("c11: unknown node kind")
}

// expectData models the top-level data map (nil when the entry omits it).
func (m *c11Model) expectData(n *c11Node) any {
	if n == nil || len(n.keys) == 0 {
		return nil // "data,omitempty"
	}
	out := make(map[string]any, len(n.keys))
	for i, k := range n.keys {
		kid := n.kids[i]
		v := m.expect(kid, k, "."+k, 1, false, true)
		if m.elide {
			// "The elision replaces the values of the keys and key_info fields with an integer count"
			if k == "keys" && kid.kind == c11Slice {
				v = float64(len(kid.kids))
				m.dropCanariesUnder(m.section + "." + k)
			} else if k == "key_info" && kid.kind == c11Map {
				v = float64(len(kid.keys))
				m.dropCanariesUnder(m.section + "." + k)
			}
		}
		out[k] = v
	}
	return out
}

// dropCanariesUnder: elided values are not in the entry at all, whatever the exemption list says.
func (m *c11Model) dropCanariesUnder(prefix string) {
	for _, c := range m.g.canaries {
		if strings.HasPrefix(c.where, prefix) {
			c.allowed = false
		}
	}
}

// c11Diff compares a decoded JSON value (UseNumber) with the model's value; "" when equal.
func c11Diff(path string, got, want any) string {
	switch w := want.(type) {
	case nil:
		if got != nil {
			return fmt.Sprintf("%s: got %v, want null", path, verifx.Trunc(fmt.Sprint(got), 120))
		}
	case string:
		g, ok := got.(string)
		if !ok || g != w {
			return fmt.Sprintf("%s: got %q, want %q", path, verifx.Trunc(fmt.Sprint(got), 120), verifx.Trunc(w, 120))
		}
	case bool:
		g, ok := got.(bool)
		if !ok || g != w {
			return fmt.Sprintf("%s: got %v, want %v", path, got, w)
		}
	case float64:
		g, ok := got.(json.Number)
		if !ok {
			return fmt.Sprintf("%s: got %T %v, want number %v", path, got, verifx.Trunc(fmt.Sprint(got), 120), w)
		}
		f, err := strconv.ParseFloat(string(g), 64)
		if err != nil || f != w {
			return fmt.Sprintf("%s: got number %s, want %v", path, g, w)
		}
	case []any:
		g, ok := got.([]any)
		if !ok || len(g) != len(w) {
			return fmt.Sprintf("%s: got %s, want an array of %d", path, verifx.Trunc(fmt.Sprintf("%T %v", got, got), 120), len(w))
		}
		for i := range w {
			if d := c11Diff(fmt.Sprintf("%s[%d]", path, i), g[i], w[i]); d != "" {
				return d
			}
		}
	case map[string]any:
		g, ok := got.(map[string]any)
		if !ok {
			return fmt.Sprintf("%s: got %s, want an object", path, verifx.Trunc(fmt.Sprintf("%T %v", got, got), 120))
		}
		keys := make([]string, 0, len(w))
		for k := range w {
			keys = append(keys, k)
		}
		sort.Strings(keys)
		for _, k := range keys {
			gv, present := g[k]
			if !present {
				return fmt.Sprintf("%s.%s: key missing in the entry", path, k)
			}
			if d := c11Diff(path+"."+k, gv, w[k]); d != "" {
				return d
			}
		}
		for k := range g {
			if _, ok := w[k]; !ok {
				return fmt.Sprintf("%s.%s: unexpected key in the entry", path, k)
			}
		}
	default:
		panic(fmt.Sprintf("c11Diff: model value of type %T", want))
	}
	return ""
}

// c11Case is everything generated for one case.
type c11Case struct {
	cfg            FormatterConfig
	prefix         string
	op             logical.Operation
	reqData        *c11Node // nil = no data
	respData       *c11Node
	hasResp        bool
	reqExempt      []string
	respExempt     []string
	authTok        string // LogInput.Auth (empty token = no Auth block when !hasAuth)
	authAcc        string
	hasAuth        bool
	reqTok, reqAcc string
	respAuth       bool
	respTok        string
	respAcc        string
	wrap           bool
	wrapTok        string
	wrapJWT        string // when set, the wrapping token is handed out in JWT form; its jti claim is wrapTok
	wrapAcc        string
	wrappedAcc     string
	secret         bool
	leaseID        string
	reqWrapTTL     bool
	outerErr       error
	rawBody        string // "", "bytes", "string"
}

var c11OuterErr = errors.New("permission denied")

func (c *c11Case) buildInput() *logical.LogInput {
	req := &logical.Request{
		ID:                       "5b3e7a0c-8f1d-4c59-9a65-2b1f0c3d9e11",
		Operation:                c.op,
		Path:                     "secret/data/app/config",
		MountPoint:               "secret/",
		MountType:                "kv",
		MountAccessor:            "kv_3f6a1d2b",
		ClientToken:              c.reqTok,
		ClientTokenAccessor:      c.reqAcc,
		ClientTokenRemainingUses: 3,
		Headers:                  map[string][]string{"user-agent": {"verif/1.0"}},
		Connection:               &logical.Connection{RemoteAddr: "192.0.2.17", RemotePort: 40022},
	}
	if c.reqData != nil {
		req.Data = c.reqData.buildMap()
	}
	if c.reqWrapTTL {
		req.WrapInfo = &logical.RequestWrapInfo{TTL: 90 * time.Second}
	}
	in := &logical.LogInput{Request: req, OuterErr: c.outerErr}
	if c.reqExempt != nil {
		in.NonHMACReqDataKeys = append([]string(nil), c.reqExempt...)
	}
	if c.respExempt != nil {
		in.NonHMACRespDataKeys = append([]string(nil), c.respExempt...)
	}
	if c.hasAuth {
		in.Auth = &logical.Auth{
			ClientToken: c.authTok, Accessor: c.authAcc, DisplayName: "userpass-alice", Policies: []string{"default", "dev"},
			TokenPolicies: []string{"default", "dev"}, Metadata: map[string]string{"username": "alice"}, EntityID: "0f1e2d3c-aaaa-bbbb-cccc-112233445566",
			TokenType: logical.TokenTypeService, LeaseOptions: logical.LeaseOptions{TTL: time.Hour, Renewable: true, IssueTime: time.Unix(1700000000, 0).UTC()},
			PolicyResults: &logical.PolicyResults{Allowed: true, GrantingPolicies: []logical.PolicyInfo{{Name: "dev", NamespaceId: "root", Type: "acl"}}},
			InternalData:  map[string]any{"note": "not emitted"},
		}
	}
	if c.hasResp {
		resp := &logical.Response{Warnings: []string{"a warning without secrets"}}
		if c.respData != nil {
			resp.Data = c.respData.buildMap()
		}
		if c.respAuth {
			resp.Auth = &logical.Auth{
				ClientToken: c.respTok, Accessor: c.respAcc, DisplayName: "userpass-bob", Policies: []string{"default"}, TokenPolicies: []string{"default"},
				Metadata: map[string]string{"username": "bob"}, EntityID: "99999999-aaaa-bbbb-cccc-112233445566", NumUses: 5,
				TokenType: logical.TokenTypeService, LeaseOptions: logical.LeaseOptions{TTL: 30 * time.Minute, Renewable: true},
			}
		}
		if c.wrap {
			resp.WrapInfo = &wrapping.ResponseWrapInfo{TTL: 5 * time.Minute, Token: c.wrapTok, Accessor: c.wrapAcc, WrappedAccessor: c.wrappedAcc,
				CreationTime: time.Unix(1700000100, 0).UTC(), CreationPath: "auth/token/create"}
			if c.wrapJWT != "" {
				resp.WrapInfo.Token, resp.WrapInfo.Format = c.wrapJWT, "jwt"
			}
		}
		if c.secret {
			resp.Secret = &logical.Secret{LeaseID: c.leaseID, LeaseOptions: logical.LeaseOptions{TTL: time.Hour, Renewable: true},
				InternalData: map[string]any{"role": "deploy"}}
		}
		in.Response = resp
	}
	return in
}

func c11Field(m map[string]any, path ...string) any {
	var cur any = m
	for _, p := range path {
		mm, ok := cur.(map[string]any)
		if !ok {
			return nil
		}
		cur, ok = mm[p]
		if !ok {
			return nil
		}
	}
	return cur
}

func TestVerif_C11_AuditFormat(t *testing.T) {
	rec := verifx.NewRecorder("C11", "audit-format",
		"logical.LogInput with generated request/response data trees (maps, slices, typed maps/slices, struct values, nesting <= 5; string, []byte, int, int64, uint64, float, json.Number, bool, nil, time, empty leaves), raw-body responses (http_raw_body as []byte and as string), wrapped responses, request and response Auth blocks, secret lease ids, request token/accessor; a fresh 24-char base62 canary (one string leaf in seven: a 16-digit decimal one, optionally negative) in every string/[]byte leaf and every token/accessor field; each token/accessor field of the request and of the Auth blocks is on its own present or empty (no token on unauthenticated paths, an Auth known by its accessor only, a token without accessor); config: hmac_accessor on/off, non-HMAC request/response keys from the top-level keys, elide_list_responses on/off, raw off; FormatRequest and FormatResponse with the JSON writer and a real salt; non-trivial = a canary at depth >= 2 or inside a slice, or a raw-body / wrap-info / auth case")
	defer rec.Flush()

	const saltValue = "c1d1ab0e-5a17-4e1f-9e57-verif-c11-salt"
	store := &logical.InmemStorage{}
	if err := store.Put(context.Background(), &logical.StorageEntry{Key: "salt", Value: []byte(saltValue)}); err != nil {
		t.Fatalf("harness: storing salt: %v", err)
	}
	salter, err := salt.NewSalt(context.Background(), store, &salt.Config{HMAC: sha256.New, HMACType: "hmac-sha256"})
	if err != nil {
		t.Fatalf("harness: salt: %v", err)
	}
	// the documented construction ("hashed with a salt using HMAC-SHA256"), computed independently once
	{
		h := hmac.New(sha256.New, []byte(saltValue))
		h.Write([]byte("probe"))
		if want := "hmac-sha256:" + hex.EncodeToString(h.Sum(nil)); salter.GetIdentifiedHMAC("probe") != want {
			t.Fatalf("harness: salt.GetIdentifiedHMAC is not HMAC-SHA256 keyed with the stored salt: %s vs %s", salter.GetIdentifiedHMAC("probe"), want)
		}
	}
	hm := salter.GetIdentifiedHMAC
	saltFunc := func(context.Context) (*salt.Salt, error) { return salter, nil }
	ctx := namespace.RootContext(context.Background())

	rapid.Check(t, func(rt *rapid.T) {
		g := &c11Gen{rt: rt, budget: rapid.IntRange(4, 40).Draw(rt, "budget")}
		c := &c11Case{}
		c.cfg = FormatterConfig{Raw: false, HMACAccessor: rapid.Bool().Draw(rt, "hmacAccessor"), ElideListResponses: rapid.Bool().Draw(rt, "elide")}
		c.prefix = rapid.SampledFrom([]string{"", "", "@cee: "}).Draw(rt, "prefix")
		c.op = rapid.SampledFrom([]logical.Operation{logical.ReadOperation, logical.UpdateOperation, logical.CreateOperation, logical.ListOperation,
			logical.ListOperation, logical.DeleteOperation, logical.PatchOperation, logical.ScanOperation}).Draw(rt, "op")

		// Every token / accessor field of a request or of an Auth block is present or empty on its own: requests
		// to unauthenticated paths carry no token, an Auth can describe a token by its accessor only (the token
		// store answers auth/token/renew-accessor with the accessor and a blanked client token), a request can
		// carry a token whose accessor was not looked up. An empty field holds no secret and plants no canary.
		// (The fields of a finished wrapping - token, accessor - are always set by the core.)
		absent := func(label string) bool {
			return !strings.HasPrefix(label, "response.wrap_info.") && rapid.IntRange(0, 3).Draw(rt, label+"-absent") == 0
		}
		token := func(label string) string {
			if absent(label) {
				return ""
			}
			core := g.canaryCore()
			g.canaries = append(g.canaries, &c11Canary{core: core, forms: []string{core}, where: label, field: label, allowed: false})
			return rapid.SampledFrom([]string{"", "", "hvs.", "s."}).Draw(rt, label+"-prefix") + core
		}
		accessor := func(label string) string {
			if absent(label) {
				return ""
			}
			core := g.canaryCore()
			g.canaries = append(g.canaries, &c11Canary{core: core, forms: []string{core}, where: label, field: label, allowed: !c.cfg.HMACAccessor})
			return core
		}

		// request side
		switch rapid.IntRange(0, 9).Draw(rt, "reqData") {
		case 0:
			c.reqData = nil
		case 1:
			c.reqData = &c11Node{kind: c11Map}
		default:
			c.reqData = g.mapNode(0, c11TopKeys, rapid.IntRange(1, 5).Draw(rt, "reqKeys"))
		}
		c.reqTok = token("request.client_token")
		c.reqAcc = accessor("request.client_token_accessor")
		c.hasAuth = rapid.IntRange(0, 9).Draw(rt, "hasAuth") < 6
		if c.hasAuth {
			if rapid.Bool().Draw(rt, "sameToken") {
				c.authTok, c.authAcc = c.reqTok, c.reqAcc // the usual case: the request carries the token the auth describes
			} else {
				c.authTok, c.authAcc = token("auth.client_token"), accessor("auth.accessor")
			}
		}
		c.reqWrapTTL = rapid.IntRange(0, 5).Draw(rt, "reqWrap") == 0
		if rapid.IntRange(0, 7).Draw(rt, "outerErr") == 0 {
			c.outerErr = c11OuterErr
		}

		// response side
		c.hasResp = rapid.IntRange(0, 9).Draw(rt, "hasResp") > 0
		if c.hasResp {
			switch k := rapid.IntRange(0, 11).Draw(rt, "respKind"); {
			case k == 0:
				c.respData = nil
			case k == 1:
				c.respData = &c11Node{kind: c11Map}
			case k <= 3: // raw body response as the pki/sys backends build it
				body := g.bytesLeaf(true)
				c.rawBody = "bytes"
				if rapid.Bool().Draw(rt, "rawAsString") {
					body = &c11Node{kind: c11Str, str: string(body.byt), core: body.core}
					c.rawBody = "string"
				}
				c.respData = &c11Node{kind: c11Map, keys: []string{logical.HTTPContentType, logical.HTTPRawBody, logical.HTTPStatusCode},
					kids: []*c11Node{g.strLeaf(), body, {kind: c11Int, i: 200}}}
				if rapid.Bool().Draw(rt, "rawExtra") {
					c.respData.keys = append(c.respData.keys, "value")
					c.respData.kids = append(c.respData.kids, g.node(1))
				}
			case k <= 5 && c.op == logical.ListOperation: // a list response
				keys := &c11Node{kind: c11Slice, typed: c11Typed(rapid.IntRange(0, 1).Draw(rt, "keysTyped"))}
				info := &c11Node{kind: c11Map}
				for i, n := 0, rapid.IntRange(0, 4).Draw(rt, "nkeys"); i < n; i++ {
					keys.kids = append(keys.kids, g.strLeaf())
					info.keys = append(info.keys, fmt.Sprintf("entry%d", i))
					info.kids = append(info.kids, g.node(2))
				}
				c.respData = &c11Node{kind: c11Map, keys: []string{"keys"}, kids: []*c11Node{keys}}
				if rapid.Bool().Draw(rt, "withKeyInfo") {
					c.respData.keys = append(c.respData.keys, "key_info")
					c.respData.kids = append(c.respData.kids, info)
				}
			default:
				c.respData = g.mapNode(0, c11TopKeys, rapid.IntRange(1, 5).Draw(rt, "respKeys"))
			}
			c.respAuth = rapid.IntRange(0, 4).Draw(rt, "respAuth") == 0
			if c.respAuth {
				c.respTok, c.respAcc = token("response.auth.client_token"), accessor("response.auth.accessor")
			}
			c.wrap = rapid.IntRange(0, 4).Draw(rt, "wrap") == 0
			if c.wrap {
				c.wrapTok, c.wrapAcc = token("response.wrap_info.token"), accessor("response.wrap_info.accessor")
				if rapid.Bool().Draw(rt, "wrappedAccessor") {
					c.wrappedAcc = accessor("response.wrap_info.wrapped_accessor")
				}
				if rapid.IntRange(0, 2).Draw(rt, "wrapFormatJWT") == 0 {
					// wrap format "jwt": the client gets a signed JWT whose jti claim is the wrapping token id
					// (built like Core.wrapInCubbyhole does; the signature bytes are irrelevant to the formatter)
					enc := base64.RawURLEncoding.EncodeToString
					claims, _ := json.Marshal(map[string]any{"jti": c.wrapTok, "iss": "http://127.0.0.1:8200", "nbf": 1700000100, "type": "wrapping", "addr": "http://127.0.0.1:8200", "accessor": "", "namespace": ""})
					c.wrapJWT = enc([]byte(`{"alg":"ES512","typ":"JWT"}`)) + "." + enc(claims) + "." + enc(bytes.Repeat([]byte{0x5a}, 132))
				}
			}
			c.secret = rapid.IntRange(0, 3).Draw(rt, "secret") == 0
			c.leaseID = "aws/creds/deploy/" + rapid.StringMatching(`[a-zA-Z0-9]{24}`).Draw(rt, "leaseID")
		}
		pickExempt := func(n *c11Node, label string) []string {
			if n == nil {
				return nil
			}
			var out []string
			for _, k := range n.keys {
				if rapid.IntRange(0, 9).Draw(rt, label) < 3 {
					out = append(out, k)
				}
			}
			if rapid.IntRange(0, 9).Draw(rt, label+"-absent") == 0 {
				out = append(out, "not_a_key")
			}
			return out
		}
		c.reqExempt = pickExempt(c.reqData, "reqExempt")
		c.respExempt = pickExempt(c.respData, "respExempt")

		// An exempted raw body is written through json.Marshal, which coerces invalid UTF-8: outside the
		// harness assumption (and no secrecy question), so such a body is reduced to its canary.
		if c.respData != nil {
			for i, k := range c.respData.keys {
				if kid := c.respData.kids[i]; k == logical.HTTPRawBody && kid.kind == c11Bytes && slices.Contains(c.respExempt, k) && !utf8.Valid(kid.byt) {
					kid.byt = []byte(kid.core)
				}
			}
		}

		// reference model
		reqModel := &c11Model{hm: hm, exempt: c.reqExempt, g: g, section: "request.data"}
		wantReqData := reqModel.expectData(c.reqData)
		elide := c.cfg.ElideListResponses && c.op == logical.ListOperation
		respModel := &c11Model{hm: hm, exempt: c.respExempt, g: g, section: "response.data", response: true, elide: elide}
		var wantRespData any
		if c.hasResp {
			wantRespData = respModel.expectData(c.respData)
		}
		hmTok := func(s string) any {
			if s == "" {
				return nil // omitempty
			}
			return hm(s)
		}
		hmAcc := func(s string) any {
			if s == "" {
				return nil
			}
			if c.cfg.HMACAccessor {
				return hm(s)
			}
			return s
		}

		in := c.buildInput()
		ref := c.buildInput()
		if !reflect.DeepEqual(in, ref) {
			rt.Fatalf("harness: two builds of the same case differ")
		}
		f := &AuditFormatter{AuditFormatWriter: &JSONFormatWriter{Prefix: c.prefix, SaltFunc: saltFunc}}

		// classification
		deep, sliced, exemptUsed, bytesLeaf := false, false, false, false
		for _, cn := range g.canaries {
			if cn.depth >= 2 {
				deep = true
			}
			if cn.inSlice {
				sliced = true
			}
			if cn.allowed && strings.Contains(cn.field, ".data") {
				exemptUsed = true
			}
			if len(cn.forms) > 1 {
				bytesLeaf = true
			}
		}
		class := "data-only"
		switch {
		case c.rawBody != "":
			class = "raw-body-" + c.rawBody
		case c.wrap:
			class = "wrapped"
		case c.respAuth:
			class = "response-auth"
		case elide && c.hasResp && c.respData != nil:
			class = "list-elided"
		case c.hasAuth:
			class = "request-auth"
		}
		for name, on := range map[string]bool{"canary-depth>=2": deep, "canary-in-slice": sliced, "exempt-key-used": exemptUsed, "bytes-leaf": bytesLeaf,
			"auth-accessor-without-token": (c.hasAuth && c.authTok == "" && c.authAcc != "") || (c.hasResp && c.respAuth && c.respTok == "" && c.respAcc != ""),
			"auth-token-without-accessor": (c.hasAuth && c.authTok != "" && c.authAcc == "") || (c.hasResp && c.respAuth && c.respTok != "" && c.respAcc == ""),
			"request-without-token":       c.reqTok == "", "request-accessor-without-token": c.reqTok == "" && c.reqAcc != "",
			"hmac-accessor-on": c.cfg.HMACAccessor, "elision-applied": elide && c.hasResp && c.respData != nil, "secret-lease": c.hasResp && c.secret, "no-response": !c.hasResp} {
			if on {
				rec.Class(name, 1)
			}
		}
		nontrivial := deep || sliced || c.rawBody != "" || c.wrap || c.respAuth || c.hasAuth
		sample := func() any {
			b, _ := json.Marshal(map[string]any{"request_data": in.Request.Data, "response": in.Response, "non_hmac_req": c.reqExempt, "non_hmac_resp": c.respExempt})
			return map[string]any{"class": class, "hmac_accessor": c.cfg.HMACAccessor, "elide_list_responses": c.cfg.ElideListResponses, "operation": string(c.op),
				"canaries": len(g.canaries), "input": verifx.Trunc(string(b), 1500)}
		}
		rec.Case(class, nontrivial, verifx.Digest("c11", class, c.cfg.HMACAccessor, c.cfg.ElideListResponses, c.op, fmt.Sprint(in.Request.Data), fmt.Sprint(ref.Response), c.reqExempt, c.respExempt, c.reqTok, c.reqAcc, c.authTok, c.authAcc, c.respTok, c.respAcc, c.wrapTok), sample)

		detail := func(out []byte) map[string]any {
			s := sample().(map[string]any)
			s["entry"] = verifx.Trunc(string(out), 3000)
			return s
		}

		check := func(which string, out []byte, isResponse bool) {
			// (1) no canary in clear
			for _, cn := range g.canaries {
				if cn.allowed {
					continue
				}
				if !isResponse && strings.HasPrefix(cn.field, "response.") {
					continue
				}
				for _, form := range cn.forms {
					if bytes.Contains(out, []byte(form)) {
						rec.Violation(rt, "canary-in-clear:"+cn.field, detail(out), "%s entry contains the plaintext secret planted at %s (%q)", which, cn.where, verifx.Trunc(form, 40))
					}
				}
			}
			// (2) exact oracle
			body := out
			if c.prefix != "" {
				if !bytes.HasPrefix(body, []byte(c.prefix)) {
					rt.Fatalf("harness: %s entry lacks the configured prefix: %q", which, verifx.Trunc(string(out), 80))
				}
				body = body[len(c.prefix):]
			}
			dec := json.NewDecoder(bytes.NewReader(body))
			dec.UseNumber()
			var entry map[string]any
			if err := dec.Decode(&entry); err != nil {
				rt.Fatalf("harness: %s entry is not JSON: %v: %q", which, err, verifx.Trunc(string(out), 200))
			}
			type fieldWant struct {
				sig  string
				path []string
				want any
			}
			var authTok, authAcc any
			if c.hasAuth {
				authTok, authAcc = hmTok(c.authTok), hmAcc(c.authAcc)
			}
			wants := []fieldWant{
				{"auth", []string{"auth", "client_token"}, authTok},
				{"auth", []string{"auth", "accessor"}, authAcc},
				{"request-token", []string{"request", "client_token"}, hmTok(c.reqTok)},
				{"request-accessor", []string{"request", "client_token_accessor"}, hmAcc(c.reqAcc)},
				{"request-data", []string{"request", "data"}, wantReqData},
				{"unchanged-field", []string{"request", "path"}, in.Request.Path},
				{"unchanged-field", []string{"request", "id"}, in.Request.ID},
				{"unchanged-field", []string{"request", "operation"}, string(c.op)},
			}
			if isResponse {
				var rTok, rAcc, wTok, wAcc, wwAcc, lease any
				if c.hasResp && c.respAuth {
					rTok, rAcc = hmTok(c.respTok), hmAcc(c.respAcc)
				}
				if c.hasResp && c.wrap {
					wTok, wAcc, wwAcc = hmTok(c.wrapTok), hmAcc(c.wrapAcc), hmAcc(c.wrappedAcc)
					if c.wrapJWT != "" {
						wTok = hmTok(c.wrapJWT)
					}
				}
				if c.hasResp && c.secret {
					lease = c.leaseID
				}
				wants = append(wants,
					fieldWant{"response-data", []string{"response", "data"}, wantRespData},
					fieldWant{"response-auth", []string{"response", "auth", "client_token"}, rTok},
					fieldWant{"response-auth", []string{"response", "auth", "accessor"}, rAcc},
					fieldWant{"wrap-info", []string{"response", "wrap_info", "token"}, wTok},
					fieldWant{"wrap-info", []string{"response", "wrap_info", "accessor"}, wAcc},
					fieldWant{"wrap-info", []string{"response", "wrap_info", "wrapped_accessor"}, wwAcc},
					fieldWant{"unchanged-field", []string{"response", "secret", "lease_id"}, lease},
				)
			}
			for _, w := range wants {
				if d := c11Diff(strings.Join(w.path, "."), c11Field(entry, w.path...), w.want); d != "" {
					rec.Violation(rt, "exact-mismatch:"+w.sig, detail(out), "%s entry differs from the reference model: %s", which, d)
				}
			}
			// (3) inputs untouched
			if !reflect.DeepEqual(in, ref) {
				rec.Violation(rt, "input-mutated", detail(out), "Format%s modified its input", which)
			}
		}

		var buf bytes.Buffer
		var ferr error
		if p := verifx.Try(func() { ferr = f.FormatRequest(ctx, &buf, c.cfg, in) }); p != nil {
			rt.Fatalf("harness: FormatRequest panicked on a valid input: %v\n%v", p, sample())
		}
		if ferr != nil {
			rt.Fatalf("harness: FormatRequest failed on a valid input: %v\n%v", ferr, sample())
		}
		check("Request", buf.Bytes(), false)

		buf.Reset()
		if p := verifx.Try(func() { ferr = f.FormatResponse(ctx, &buf, c.cfg, in) }); p != nil {
			rt.Fatalf("harness: FormatResponse panicked on a valid input: %v\n%v", p, sample())
		}
		if ferr != nil {
			rt.Fatalf("harness: FormatResponse failed on a valid input: %v\n%v", ferr, sample())
		}
		check("Response", buf.Bytes(), true)
	})
}
