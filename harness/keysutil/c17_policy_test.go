//go:build verif

package keysutil

// C17, unit "keysutil": keysutil.Policy + LockManager over in-memory storage, driven by a rapid state
// machine. The oracle is a model of the key ring (latest version, minimum versions, which key material
// belongs to which version) plus a table of everything the run produced (ciphertexts, signatures, HMAC keys)
// with the inputs that produced it.

import (
	"bytes"
	"context"
	"crypto"
	"crypto/ecdsa"
	"crypto/ed25519"
	"crypto/rand"
	"crypto/rsa"
	"crypto/sha256"
	"crypto/x509"
	"encoding/base64"
	"encoding/hex"
	"encoding/pem"
	"errors"
	"fmt"
	"math/big"
	"os"
	"sort"
	"strconv"
	"strings"
	"testing"

	"github.com/openbao/openbao/sdk/v2/helper/verifx"
	"github.com/openbao/openbao/sdk/v2/logical"
	"pgregory.net/rapid"
)

const c17Name = "k"

type c17Kind struct {
	name      string
	kt        KeyType
	enc       bool // encryption / decryption supported
	aead      bool // associated data supported
	sign      bool
	hashInput bool // signing input is a digest computed by the caller
	derive    bool // derivation supported
	rsaBits   int
	nonceSize int
	ecdsa     bool
}

var c17KindTable = map[string]c17Kind{
	"aes128-gcm96":       {name: "aes128-gcm96", kt: KeyType_AES128_GCM96, enc: true, aead: true, derive: true, nonceSize: 12},
	"aes256-gcm96":       {name: "aes256-gcm96", kt: KeyType_AES256_GCM96, enc: true, aead: true, derive: true, nonceSize: 12},
	"chacha20-poly1305":  {name: "chacha20-poly1305", kt: KeyType_ChaCha20_Poly1305, enc: true, aead: true, derive: true, nonceSize: 12},
	"xchacha20-poly1305": {name: "xchacha20-poly1305", kt: KeyType_XChaCha20_Poly1305, enc: true, aead: true, derive: true, nonceSize: 24},
	"ed25519":            {name: "ed25519", kt: KeyType_ED25519, sign: true, derive: true},
	"ecdsa-p256":         {name: "ecdsa-p256", kt: KeyType_ECDSA_P256, sign: true, hashInput: true, ecdsa: true},
	"ecdsa-p384":         {name: "ecdsa-p384", kt: KeyType_ECDSA_P384, sign: true, hashInput: true, ecdsa: true},
	"ecdsa-p521":         {name: "ecdsa-p521", kt: KeyType_ECDSA_P521, sign: true, hashInput: true, ecdsa: true},
	"rsa-2048":           {name: "rsa-2048", kt: KeyType_RSA2048, enc: true, sign: true, hashInput: true, rsaBits: 2048},
	"rsa-3072":           {name: "rsa-3072", kt: KeyType_RSA3072, enc: true, sign: true, hashInput: true, rsaBits: 3072},
	"rsa-4096":           {name: "rsa-4096", kt: KeyType_RSA4096, enc: true, sign: true, hashInput: true, rsaBits: 4096},
	"hmac":               {name: "hmac", kt: KeyType_HMAC},
}

// rapid biases integer draws towards small values (SampledFrom of n items gives the first ones most of the
// mass), so weighted choices are made from slot tables indexed by fair coin flips.
func c17Slots(slots int, pairs ...any) []string {
	var out []string
	for i := 0; i+1 < len(pairs); i += 2 {
		for n := 0; n < pairs[i+1].(int); n++ {
			out = append(out, pairs[i].(string))
		}
	}
	if len(out) > slots {
		panic(fmt.Sprintf("slot table overfull: %d > %d", len(out), slots))
	}
	for i := 0; len(out) < slots; i += 2 {
		out = append(out, pairs[i%len(pairs)].(string))
	}
	return out
}

func c17Slot(t *rapid.T, label string, table []string) string {
	n := 0
	for i := 0; 1<<uint(i) < len(table); i++ {
		if rapid.Bool().Draw(t, label) {
			n |= 1 << uint(i)
		}
	}
	return table[n]
}

var (
	c17KindsQuick = c17Slots(64, "aes256-gcm96", 8, "ed25519", 8, "chacha20-poly1305", 7, "ecdsa-p256", 6, "aes128-gcm96", 7, "xchacha20-poly1305", 7,
		"ecdsa-p384", 4, "hmac", 6, "ecdsa-p521", 4, "rsa-2048", 1)
	c17KindsThorough = c17Slots(128, "aes256-gcm96", 15, "ed25519", 15, "chacha20-poly1305", 14, "ecdsa-p256", 11, "aes128-gcm96", 14, "xchacha20-poly1305", 14,
		"ecdsa-p384", 8, "hmac", 12, "ecdsa-p521", 8, "rsa-2048", 6, "rsa-3072", 2, "rsa-4096", 1)

	c17ActsEnc = c17Slots(32, "fault", 1, "fault-cycle", 1, "encrypt", 4, "encrypt-ver", 2, "decrypt", 5, "decrypt-mut", 5, "rotate", 4, "config", 3, "trim", 1, "backup", 1, "restore", 1,
		"delete-restore", 1, "reload", 1, "hmac", 2)
	c17ActsSign = c17Slots(32, "fault", 1, "fault-cycle", 1, "sign", 5, "verify", 6, "verify-mut", 5, "rotate", 4, "config", 3, "trim", 1, "backup", 1, "restore", 1,
		"delete-restore", 1, "reload", 1, "hmac", 2)
	c17ActsBoth = c17Slots(32, "fault", 1, "fault-cycle", 1, "encrypt", 3, "encrypt-ver", 1, "decrypt", 3, "decrypt-mut", 3, "sign", 3, "verify", 3, "verify-mut", 3, "rotate", 3, "config", 3,
		"trim", 1, "backup", 1, "restore", 1, "delete-restore", 1, "reload", 1)
	c17ActsHMAC = c17Slots(32, "fault", 1, "fault-cycle", 1, "hmac", 10, "rotate", 6, "config", 5, "trim", 2, "backup", 2, "restore", 2, "delete-restore", 1, "reload", 2)
)

// model of the key ring
type c17Model struct {
	latest, minDec, minEnc, minAvail int
	deletionAllowed                  bool
	fps                              map[int]string // version -> fingerprint of the key material created for it
}

func (m *c17Model) clone() *c17Model {
	n := *m
	n.fps = map[int]string{}
	for k, v := range m.fps {
		n.fps[k] = v
	}
	return &n
}

// one row of the oracle table
type c17Entry struct {
	kind   string // "ct" or "sig"
	text   string
	ver    int
	fp     string
	ctx    []byte
	ad     []byte
	pt     []byte // plaintext or message
	hash   HashType
	marsh  MarshalingType
	sigAlg string
	salt   int
	rotAt  int // rotations performed before this row was produced
	cfgAt  int // min-version changes performed before this row was produced
}

type c17Snapshot struct {
	backup string
	m      *c17Model
}

type c17Case struct {
	manyVersions bool // long-lived derived key (10+ versions, digit-prefixed contexts); no injected faults in these cases
	rec         *verifx.Recorder
	lm          *LockManager
	st          logical.Storage
	kind        c17Kind
	derived     bool
	convergent  bool
	useCache    bool
	exportable  bool
	plainBackup bool
	rsaCap      int
	m           *c17Model
	entries     []*c17Entry
	ctxPool     [][]byte
	adPool      [][]byte
	ptPool      [][]byte
	rotations   int
	cfgChanges  int
	snap        *c17Snapshot
	hmacKeys    map[string][]byte // version|fingerprint -> HMAC key first observed
	trimmed     map[string]bool   // fingerprints of trimmed versions
	ntRot       bool
	ntCfg       bool
	ntMut       bool
	trace       []string

	// storage faults
	inner       logical.Storage  // the real storage (reads of the oracle go here)
	fs          *c17FaultStorage // what the lock manager sees
	faulting    bool             // the operation in progress may fail because of an injected fault
	faultUsed   bool             // one faulted operation per case
	opErr       error            // error of the operation that ran with faulting=true
	intended    *c17Model        // what the faulted operation would have made of the key ring
	commit      func()           // bookkeeping to run if the intended change turns out to be applied
	faultTag    string           // prefix for violation signatures once a fault has fired
	forceLatest bool             // directed sequence: produce material under the latest version
	dead        bool             // a known finding was hit: the rest of the case is not judged
}

type c17Stop struct{}

// c17FaultStorage passes everything through and fails one generated write while armed.
type c17FaultStorage struct {
	logical.Storage
	armed    bool
	mode     string // "kth", "policy", "archive"
	k        int
	writes   int
	fired    bool
	firedKey string
}

func (s *c17FaultStorage) hit(key string) bool {
	if !s.armed || s.fired {
		return false
	}
	s.writes++
	switch s.mode {
	case "kth":
		if s.writes != s.k {
			return false
		}
	case "policy":
		if !strings.HasPrefix(key, "policy/") {
			return false
		}
	case "archive":
		if !strings.HasPrefix(key, "archive/") {
			return false
		}
	}
	s.fired, s.firedKey = true, key
	return true
}

func (s *c17FaultStorage) Put(ctx context.Context, e *logical.StorageEntry) error {
	if s.hit(e.Key) {
		return errors.New("verif: injected storage write failure")
	}
	return s.Storage.Put(ctx, e)
}

func (s *c17FaultStorage) Delete(ctx context.Context, key string) error {
	if s.hit(key) {
		return errors.New("verif: injected storage delete failure")
	}
	return s.Storage.Delete(ctx, key)
}

var c17Ctx = context.Background()

func c17FP(e KeyEntry) string {
	h := sha256.New()
	w := func(b []byte) {
		fmt.Fprintf(h, "%d:", len(b))
		h.Write(b)
	}
	wb := func(x *big.Int) {
		if x == nil {
			w(nil)
		} else {
			w(x.Bytes())
		}
	}
	w(e.Key)
	w(e.HMACKey)
	wb(e.EC_X)
	wb(e.EC_Y)
	wb(e.EC_D)
	if e.RSAKey != nil {
		wb(e.RSAKey.N)
		wb(e.RSAKey.D)
		fmt.Fprintf(h, "e%d", e.RSAKey.E)
	}
	w([]byte(e.FormattedPublicKey))
	fmt.Fprintf(h, "cv%d", e.ConvergentVersion)
	return hex.EncodeToString(h.Sum(nil)[:10])
}

func (c *c17Case) step(format string, args ...any) {
	c.trace = append(c.trace, fmt.Sprintf(format, args...))
}

func (c *c17Case) viol(t *rapid.T, sig string, format string, args ...any) {
	t.Helper()
	detail := map[string]any{
		"key_type": c.kind.name, "derived": c.derived, "convergent": c.convergent, "cache": c.useCache,
		"model": fmt.Sprintf("latest=%d minDec=%d minEnc=%d minAvail=%d", c.m.latest, c.m.minDec, c.m.minEnc, c.m.minAvail),
		"trace": append([]string(nil), c.trace...),
	}
	if c.faultTag != "" {
		// everything that goes wrong after an injected write failure is reported under one signature per
		// (operation, failed write); the underlying signature is kept in the message
		format = "(" + sig + ") " + format
		sig = c.faultTag
		detail["underlying_signature"] = sig
		for _, k := range strings.Split(os.Getenv("VERIF_C17_TOLERATE"), ",") {
			if k != "" && "after-fault:"+k == c.faultTag { // diagnostic knob, never set by the driver
				c.rec.Class("tolerated:"+c.faultTag, 1)
				c.dead = true
				panic(c17Stop{})
			}
		}
	}
	if !c.rec.Violation(t, sig, detail, "[%s derived=%v convergent=%v cache=%v] "+format+"; steps: %s",
		append(append([]any{c.kind.name, c.derived, c.convergent, c.useCache}, args...), strings.Join(c.trace, " | "))...) {
		// listed known finding: the state is no longer meaningful, stop judging this case
		c.dead = true
		panic(c17Stop{})
	}
}

// guard runs one state-machine callback; after a known finding the case is left alone.
func (c *c17Case) guard(f func(*rapid.T)) func(*rapid.T) {
	return func(t *rapid.T) {
		if c.dead {
			return
		}
		defer func() {
			if r := recover(); r != nil {
				if _, ok := r.(c17Stop); ok {
					return
				}
				panic(r)
			}
		}()
		f(t)
	}
}

// with fetches the policy through the lock manager exactly as the transit backend does and releases it afterwards.
func (c *c17Case) with(t *rapid.T, exclusive bool, f func(p *Policy)) {
	t.Helper()
	var p *Policy
	var err error
	if pn := verifx.Try(func() {
		p, _, err = c.lm.GetPolicyWithLockType(c17Ctx, PolicyRequest{Storage: c.st, Name: c17Name}, rand.Reader, exclusive)
	}); pn != nil {
		c.viol(t, "policy-load-panic", "fetching the policy panicked: %v", pn)
		return
	}
	if err != nil {
		c.viol(t, "policy-unloadable", "the stored policy can no longer be loaded: %v", err)
		return
	}
	if p == nil {
		c.viol(t, "policy-vanished", "the policy is gone from cache and storage")
		return
	}
	defer p.Unlock()
	f(p)
}

func c17Bytes(t *rapid.T, label string, min, max int) []byte {
	return rapid.SliceOfN(rapid.Byte(), min, max).Draw(t, label)
}

func (c *c17Case) drawPlaintext(t *rapid.T) []byte {
	if c.kind.rsaBits > 0 {
		// OAEP/SHA-256 limit: k - 2*32 - 2
		max := c.kind.rsaBits/8 - 66
		switch rapid.IntRange(0, 5).Draw(t, "ptClass") {
		case 0:
			return []byte{}
		case 1:
			return c17Bytes(t, "pt", 1, 1)
		case 2:
			return c17Bytes(t, "pt", max, max)
		default:
			return c17Bytes(t, "pt", 1, 48)
		}
	}
	k := rapid.IntRange(0, 19).Draw(t, "ptClass")
	switch {
	case k < 8:
		return c.ptPool[rapid.IntRange(0, len(c.ptPool)-1).Draw(t, "ptIdx")]
	case k < 10:
		return []byte{}
	case k < 12:
		return c17Bytes(t, "pt", 1, 1)
	case k == 12 && len(c.entries) < 12:
		// 64 KiB: a drawn seed block repeated (drawing 65536 bytes one by one is slow and does not shrink)
		seed := c17Bytes(t, "ptSeed", 1, 16)
		return bytes.Repeat(seed, 65536/len(seed)+1)[:65536]
	default:
		return c17Bytes(t, "pt", 2, 80)
	}
}

func (c *c17Case) drawCtx(t *rapid.T) []byte {
	if !c.derived {
		return nil
	}
	return c.ctxPool[rapid.IntRange(0, len(c.ctxPool)-1).Draw(t, "ctxIdx")]
}

func (c *c17Case) drawAD(t *rapid.T) []byte {
	if !c.kind.aead {
		return nil
	}
	i := rapid.IntRange(0, len(c.adPool)).Draw(t, "adIdx")
	if i == len(c.adPool) {
		return nil
	}
	return c.adPool[i]
}

type c17AD struct{ b []byte }

func (a c17AD) GetAssociatedData() ([]byte, error) { return a.b, nil }

func c17Factories(ad []byte) []any {
	if ad == nil {
		return nil
	}
	return []any{c17AD{ad}}
}

func b64(b []byte) string { return base64.StdEncoding.EncodeToString(b) }

// splitVersioned splits "vault:v<N>:<body>".
func c17Split(s string) (ver int, body string, ok bool) {
	if !strings.HasPrefix(s, "vault:v") {
		return 0, "", false
	}
	rest := strings.TrimPrefix(s, "vault:v")
	i := strings.IndexByte(rest, ':')
	if i < 0 {
		return 0, "", false
	}
	for _, ch := range rest[:i] {
		if ch < '0' || ch > '9' {
			return 0, "", false
		}
	}
	n, err := strconv.Atoi(rest[:i])
	if err != nil {
		return 0, "", false
	}
	return n, rest[i+1:], true
}

func (c *c17Case) usable(ver int, fp string) bool {
	return ver >= c.m.minDec && ver <= c.m.latest && c.m.fps[ver] == fp
}

func (c *c17Case) noteUse(e *c17Entry) {
	if c.rotations-e.rotAt >= 2 {
		c.ntRot = true
	}
	if c.cfgChanges > e.cfgAt {
		c.ntCfg = true
	}
}

// ---------------------------------------------------------------- state-changing actions

func (c *c17Case) actRotate(t *rapid.T) {
	if c.kind.rsaBits > 0 && c.m.latest >= c.rsaCap {
		t.Skip("rsa rotation cap")
	}
	c.step("rotate(v%d)", c.m.latest+1)
	c.with(t, true, func(p *Policy) {
		var err error
		if pn := verifx.Try(func() { err = p.Rotate(c17Ctx, c.st, rand.Reader) }); pn != nil {
			c.viol(t, "rotate-panic", "Rotate panicked: %v", pn)
		}
		if err != nil {
			if c.faulting {
				c.opErr = err
				c.intended = c.m.clone()
				c.intended.latest++
				c.commit = func() { c.rotations++ }
				return
			}
			c.viol(t, "rotate-failed", "Rotate failed: %v", err)
		}
		c.m.latest++
		ke, ok := p.Keys[strconv.Itoa(c.m.latest)]
		if !ok {
			c.viol(t, "rotate-no-new-key", "after Rotate the key map has no version %d (LatestVersion=%d)", c.m.latest, p.LatestVersion)
		}
		fp := c17FP(ke)
		for v, old := range c.m.fps {
			if old == fp {
				c.viol(t, "rotate-reused-key", "version %d has the same key material as version %d", c.m.latest, v)
			}
		}
		c.m.fps[c.m.latest] = fp
		c.rotations++
	})
}

func (c *c17Case) actConfig(t *rapid.T) {
	m := c.m
	lo := m.minAvail
	if lo < 1 {
		lo = 1
	}
	newDec, newEnc, del := m.minDec, m.minEnc, m.deletionAllowed
	what := rapid.SampledFrom([]string{"dec", "dec", "enc", "enc", "both", "both", "deletion"}).Draw(t, "configWhat")
	drawEnc := func(dec int) int {
		elo := dec
		if elo < lo {
			elo = lo
		}
		if m.minAvail == 0 && rapid.IntRange(0, 3).Draw(t, "encZero") == 0 {
			return 0
		}
		return rapid.IntRange(elo, m.latest).Draw(t, "minEnc")
	}
	switch what {
	case "dec":
		hi := m.latest
		if m.minEnc > 0 {
			hi = m.minEnc
		}
		newDec = rapid.IntRange(lo, hi).Draw(t, "minDec")
	case "enc":
		newEnc = drawEnc(m.minDec)
	case "both":
		newDec = rapid.IntRange(lo, m.latest).Draw(t, "minDec")
		newEnc = drawEnc(newDec)
	case "deletion":
		del = !del
	}
	c.configTo(t, newDec, newEnc, del)
}

// configTo applies a valid configuration the way the transit config endpoint does: set the fields, persist,
// put the fields back if persisting failed.
func (c *c17Case) configTo(t *rapid.T, newDec, newEnc int, del bool) {
	m := c.m
	c.step("config(minDec=%d,minEnc=%d,del=%v)", newDec, newEnc, del)
	failed := false
	c.with(t, true, func(p *Policy) {
		od, oe, odel := p.MinDecryptionVersion, p.MinEncryptionVersion, p.DeletionAllowed
		p.MinDecryptionVersion = newDec
		p.MinEncryptionVersion = newEnc
		p.DeletionAllowed = del
		var err error
		if pn := verifx.Try(func() { err = p.Persist(c17Ctx, c.st) }); pn != nil {
			c.viol(t, "persist-panic", "Persist panicked after a valid configuration change: %v", pn)
		}
		if err != nil {
			p.MinDecryptionVersion, p.MinEncryptionVersion, p.DeletionAllowed = od, oe, odel
			if c.faulting {
				failed = true
				c.opErr = err
				c.intended = m.clone()
				c.intended.minDec, c.intended.minEnc, c.intended.deletionAllowed = newDec, newEnc, del
				changed := newDec != m.minDec || newEnc != m.minEnc
				c.commit = func() {
					if changed {
						c.cfgChanges++
					}
				}
				return
			}
			c.viol(t, "config-persist-failed", "Persist failed for the valid configuration min_decryption_version=%d min_encryption_version=%d (latest %d, min_available %d): %v",
				newDec, newEnc, m.latest, m.minAvail, err)
		}
	})
	if failed {
		return
	}
	if newDec != m.minDec || newEnc != m.minEnc {
		c.cfgChanges++
	}
	m.minDec, m.minEnc, m.deletionAllowed = newDec, newEnc, del
}

func (c *c17Case) actTrim(t *rapid.T) {
	m := c.m
	if m.minEnc == 0 {
		t.Skip("trim needs min_encryption_version")
	}
	lo := m.minAvail
	if lo < 1 {
		lo = 1
	}
	hi := m.minDec
	if m.minEnc < hi {
		hi = m.minEnc
	}
	if hi < lo {
		t.Skip("nothing to trim")
	}
	n := rapid.IntRange(lo, hi).Draw(t, "minAvail")
	c.step("trim(%d)", n)
	apply := func(m *c17Model) {
		for v, fp := range m.fps {
			if v < n {
				c.trimmed[fp] = true
				delete(m.fps, v)
			}
		}
		m.minAvail = n
	}
	failed := false
	c.with(t, true, func(p *Policy) {
		orig := p.MinAvailableVersion
		p.MinAvailableVersion = n
		var err error
		if pn := verifx.Try(func() { err = p.Persist(c17Ctx, c.st) }); pn != nil {
			c.viol(t, "persist-panic", "Persist panicked after trim: %v", pn)
		}
		if err != nil {
			p.MinAvailableVersion = orig // as the trim endpoint does
			if c.faulting {
				failed = true
				c.opErr = err
				c.intended = m.clone()
				c.intended.minAvail = n
				c.commit = func() { apply(c.m) }
				return
			}
			c.viol(t, "trim-persist-failed", "Persist failed for min_available_version=%d (minDec %d, minEnc %d, latest %d): %v", n, m.minDec, m.minEnc, m.latest, err)
		}
	})
	if !failed {
		apply(m)
	}
}

func (c *c17Case) actBackup(t *rapid.T) {
	c.step("backup()")
	var out string
	var err error
	if pn := verifx.Try(func() { out, err = c.lm.BackupPolicy(c17Ctx, c.st, c17Name) }); pn != nil {
		c.viol(t, "backup-panic", "BackupPolicy panicked: %v", pn)
	}
	if !(c.exportable && c.plainBackup) {
		if err == nil {
			c.viol(t, "backup-not-refused", "backup succeeded although exportable=%v allow_plaintext_backup=%v", c.exportable, c.plainBackup)
		}
		return
	}
	if err != nil {
		c.viol(t, "backup-failed", "BackupPolicy failed: %v", err)
	}
	c.snap = &c17Snapshot{backup: out, m: c.m.clone()}
}

func (c *c17Case) actDeleteRestore(t *rapid.T) {
	if !c.m.deletionAllowed {
		c.step("delete(denied)")
		var err error
		if pn := verifx.Try(func() { err = c.lm.DeletePolicy(c17Ctx, c.st, c17Name) }); pn != nil {
			c.viol(t, "delete-panic", "DeletePolicy panicked: %v", pn)
		}
		if err == nil {
			c.viol(t, "delete-not-refused", "DeletePolicy succeeded although deletion_allowed is false")
		}
		return
	}
	if c.snap == nil {
		t.Skip("no backup to restore")
	}
	del := rapid.Bool().Draw(t, "deleteFirst")
	c.step("restore(deleteFirst=%v,latest=%d)", del, c.snap.m.latest)
	c.restore(t, del)
}

func (c *c17Case) actRestore(t *rapid.T) {
	if c.snap == nil {
		t.Skip("no backup to restore")
	}
	c.step("restore(force,latest=%d)", c.snap.m.latest)
	c.restore(t, false)
}

func (c *c17Case) restore(t *rapid.T, deleteFirst bool) {
	var err error
	if deleteFirst {
		if pn := verifx.Try(func() { err = c.lm.DeletePolicy(c17Ctx, c.st, c17Name) }); pn != nil {
			c.viol(t, "delete-panic", "DeletePolicy panicked: %v", pn)
		}
		if err != nil {
			c.viol(t, "delete-failed", "DeletePolicy failed although deletion_allowed is true: %v", err)
		}
	}
	if pn := verifx.Try(func() { err = c.lm.RestorePolicy(c17Ctx, c.st, c17Name, c.snap.backup, !deleteFirst) }); pn != nil {
		c.viol(t, "restore-panic", "RestorePolicy panicked: %v", pn)
	}
	old := c.m
	done := func() {
		c.m = c.snap.m.clone()
		for _, fp := range c.m.fps {
			delete(c.trimmed, fp)
		}
		if old.minDec != c.m.minDec || old.minEnc != c.m.minEnc {
			c.cfgChanges++
		}
	}
	if err != nil {
		if c.faulting {
			c.opErr = err
			c.intended = c.snap.m.clone()
			c.commit = done
			return
		}
		c.viol(t, "restore-failed", "RestorePolicy of a backup taken in this run failed: %v", err)
	}
	done()
}

func (c *c17Case) actReload(t *rapid.T) {
	c.step("reload()")
	c.lm.InvalidatePolicy(c17Name)
}

// ---------------------------------------------------------------- encryption

func (c *c17Case) actEncrypt(t *rapid.T, explicit bool) {
	if !c.kind.enc {
		t.Skip("no encryption")
	}
	m := c.m
	ver := 0
	if explicit {
		ver = rapid.IntRange(-1, m.latest+1).Draw(t, "keyVersion")
		if c.manyVersions && rapid.Bool().Draw(t, "lowOrTenth") {
			ver = []int{1, 10, 1, 11, 2}[rapid.IntRange(0, 4).Draw(t, "whichLowOrTenth")]
		}
	}
	ctx := c.drawCtx(t)
	ad := c.drawAD(t)
	pt := c.drawPlaintext(t)
	var nonce []byte
	if !explicit && rapid.IntRange(0, 19).Draw(t, "withNonce") == 0 {
		n := c.kind.nonceSize
		if n == 0 {
			n = 12
		}
		nonce = c17Bytes(t, "nonce", n, n)
	}
	if c.forceLatest {
		nonce = nil
	}
	c.step("encrypt(ver=%d,ctx=%x,ad=%x,pt=%s,nonce=%v)", ver, ctx, ad, verifx.Trunc(hex.EncodeToString(pt), 24), nonce != nil)
	c.encrypt(t, ver, ctx, ad, pt, nonce, len(c.entries) < 40 || c.forceLatest)
}

// encrypt performs one encryption, checks it against the model and (optionally) files it in the table.
func (c *c17Case) encrypt(t *rapid.T, ver int, ctx, ad, pt, nonce []byte, keep bool) *c17Entry {
	m := c.m
	want := ver
	if ver == 0 {
		want = m.latest
	}
	mustFail := ver < 0 || ver > m.latest || (ver != 0 && (ver < m.minEnc || ver < m.minDec))
	var out *c17Entry
	c.with(t, false, func(p *Policy) {
		var ct string
		var err error
		if pn := verifx.Try(func() { ct, err = p.EncryptWithFactory(ver, ctx, nonce, b64(pt), c17Factories(ad)...) }); pn != nil {
			c.viol(t, "encrypt-panic", "EncryptWithFactory panicked: %v", pn)
		}
		if mustFail {
			c.rec.Class("enc:refused-version", 1)
			if err == nil {
				sig := "encrypt-version-not-refused"
				if ver > 0 && ver < m.minEnc {
					sig = "encrypt-below-min-encryption-version"
				}
				c.viol(t, sig, "encryption with key_version=%d succeeded (latest %d, min_encryption_version %d, min_decryption_version %d): %s", ver, m.latest, m.minEnc, m.minDec, verifx.Trunc(ct, 40))
			}
			return
		}
		if err != nil {
			if nonce != nil {
				c.rec.Class("enc:nonce-refused", 1)
				return // a caller-supplied nonce is not accepted by any current key configuration
			}
			c.viol(t, "encrypt-failed", "encryption with valid inputs failed (key_version=%d): %v", ver, err)
		}
		gotVer, body, ok := c17Split(ct)
		if !ok {
			c.viol(t, "ciphertext-malformed", "ciphertext %q has no vault:vN: prefix", verifx.Trunc(ct, 40))
		}
		if gotVer != want {
			sig := "encrypt-wrong-version"
			if gotVer < m.minEnc {
				sig = "encrypt-below-min-encryption-version"
			}
			c.viol(t, sig, "encryption (key_version=%d) produced a version %d ciphertext, expected version %d (min_encryption_version %d)", ver, gotVer, want, m.minEnc)
		}
		raw, derr := base64.StdEncoding.DecodeString(body)
		if derr != nil {
			c.viol(t, "ciphertext-malformed", "ciphertext body is not base64: %v", derr)
		}
		e := &c17Entry{kind: "ct", text: ct, ver: want, fp: m.fps[want], ctx: ctx, ad: ad, pt: pt, rotAt: c.rotations, cfgAt: c.cfgChanges}
		c.rec.Class("enc:ok", 1)
		// uniqueness / determinism against everything produced so far
		if c.kind.aead {
			ns := c.kind.nonceSize
			if len(raw) < ns+16 {
				c.viol(t, "ciphertext-too-short", "ciphertext body has %d bytes, less than nonce+tag", len(raw))
			}
			for _, x := range c.entries {
				if x.kind != "ct" {
					continue
				}
				_, xbody, _ := c17Split(x.text)
				xraw, _ := base64.StdEncoding.DecodeString(xbody)
				sameKey := x.fp == e.fp && x.ver == e.ver
				if c.convergent && nonce == nil {
					sameIn := sameKey && bytes.Equal(x.ctx, ctx) && bytes.Equal(x.pt, pt) && bytes.Equal(x.ad, ad)
					if sameIn && x.text != ct {
						c.viol(t, "convergent-not-deterministic", "same version %d, context, associated data and plaintext gave two ciphertexts %s / %s", want, verifx.Trunc(x.text, 40), verifx.Trunc(ct, 40))
					}
					if !sameIn && x.text == ct {
						c.viol(t, "convergent-collision", "different (version, context, associated data, plaintext) gave the same ciphertext %s", verifx.Trunc(ct, 40))
					}
					sameNonceIn := bytes.Equal(x.ctx, ctx) && bytes.Equal(x.pt, pt)
					if sameKey && !sameNonceIn && len(xraw) >= ns && bytes.Equal(xraw[:ns], raw[:ns]) {
						c.viol(t, "convergent-nonce-reuse", "version %d: the same nonce %x was derived for different (context, plaintext): ctx %x/%x", want, raw[:ns], x.ctx, ctx)
					}
					if sameKey && sameNonceIn {
						c.rec.Class("enc:convergent-repeat", 1)
						if !bytes.Equal(x.ad, ad) && len(xraw) >= ns && bytes.Equal(xraw[:ns], raw[:ns]) {
							// not part of the property: the convergent nonce does not depend on the associated data
							c.rec.Class("obs:convergent-nonce-shared-across-associated-data", 1)
						}
					}
				} else {
					if x.text == ct {
						c.viol(t, "ciphertext-repeated", "non-convergent encryption returned a ciphertext seen before: %s", verifx.Trunc(ct, 40))
					}
					if sameKey && len(xraw) >= ns && bytes.Equal(xraw[:ns], raw[:ns]) {
						c.viol(t, "nonce-reuse", "version %d: nonce %x used twice", want, raw[:ns])
					}
				}
			}
		} else {
			for _, x := range c.entries {
				if x.kind == "ct" && x.text == ct {
					c.viol(t, "ciphertext-repeated", "randomised encryption returned a ciphertext seen before")
				}
			}
		}
		// immediate round trip
		back, derr2 := p.DecryptWithFactory(ctx, nil, ct, c17Factories(ad)...)
		if derr2 != nil {
			c.viol(t, "roundtrip-failed", "decrypting a ciphertext just produced (version %d) failed: %v", want, derr2)
		}
		if back != b64(pt) {
			c.viol(t, "decrypt-wrong-plaintext", "decrypting a ciphertext just produced returned %s, plaintext was %s", verifx.Trunc(back, 40), verifx.Trunc(b64(pt), 40))
		}
		if c.manyVersions && derr2 == nil {
			// second opinion: a lock manager without a cache loads the stored policy and must read the ciphertext as well
			// (what every other node, and this node after its next restart, will do)
			if lm2, err := NewLockManager(false, 0); err == nil {
				if p2, _, err := lm2.GetPolicy(c17Ctx, PolicyRequest{Storage: c.inner, Name: c17Name}, rand.Reader); err == nil && p2 != nil {
					back2, err2 := p2.DecryptWithFactory(ctx, nil, ct, c17Factories(ad)...)
					p2.Unlock()
					if err2 != nil || back2 != b64(pt) {
						c.viol(t, "ciphertext-unreadable-for-a-freshly-loaded-policy", "a version %d ciphertext just produced with context %x decrypts on the policy object that made it, but the same policy loaded from storage by another lock manager answers %v / %s", want, ctx, err2, verifx.Trunc(back2, 40))
					}
				}
			}
		}
		if keep {
			c.entries = append(c.entries, e)
		}
		out = e
	})
	return out
}

func (c *c17Case) pick(t *rapid.T, kind string) *c17Entry {
	var idx []int
	for i, e := range c.entries {
		if e.kind == kind {
			idx = append(idx, i)
		}
	}
	if len(idx) == 0 {
		t.Skip("nothing produced yet")
	}
	return c.entries[idx[rapid.IntRange(0, len(idx)-1).Draw(t, "entry")]]
}

func (c *c17Case) actDecrypt(t *rapid.T) {
	if !c.kind.enc {
		t.Skip("no encryption")
	}
	e := c.pick(t, "ct")
	rewrap := rapid.IntRange(0, 2).Draw(t, "thenRewrap") == 0
	c.decryptEntry(t, e, rewrap)
}

// decryptEntry decrypts a table row with its own context / associated data and judges the outcome.
func (c *c17Case) decryptEntry(t *rapid.T, e *c17Entry, rewrap bool) {
	ok := c.usable(e.ver, e.fp)
	c.step("decrypt(v%d made at rot %d, usable=%v, rewrap=%v)", e.ver, e.rotAt, ok, rewrap)
	c.noteUse(e)
	c.with(t, false, func(p *Policy) {
		var got string
		var err error
		if pn := verifx.Try(func() { got, err = p.DecryptWithFactory(e.ctx, nil, e.text, c17Factories(e.ad)...) }); pn != nil {
			c.viol(t, "decrypt-panic", "DecryptWithFactory panicked: %v", pn)
		}
		if err == nil && got != b64(e.pt) {
			c.viol(t, "decrypt-wrong-plaintext", "decrypting %s returned %s, the plaintext was %s", verifx.Trunc(e.text, 40), verifx.Trunc(got, 40), verifx.Trunc(b64(e.pt), 40))
		}
		if ok {
			c.rec.Class("dec:ok", 1)
			if err != nil {
				c.viol(t, "decrypt-refused-valid", "a version %d ciphertext (latest %d, min_decryption_version %d, made %d rotations ago) is refused with the original context/associated data: %v",
					e.ver, c.m.latest, c.m.minDec, c.rotations-e.rotAt, err)
			}
		} else {
			switch {
			case e.ver < c.m.minDec:
				c.rec.Class("dec:refused-too-old", 1)
			case e.ver > c.m.latest:
				c.rec.Class("dec:refused-too-new", 1)
			default:
				c.rec.Class("dec:refused-other-key", 1)
			}
			if err == nil {
				sig := "decrypt-unusable-version-accepted"
				if e.ver < c.m.minDec {
					sig = "decrypt-below-min-decryption-version"
				}
				c.viol(t, sig, "a version %d ciphertext was decrypted although latest=%d min_decryption_version=%d min_available_version=%d", e.ver, c.m.latest, c.m.minDec, c.m.minAvail)
			}
		}
	})
	if ok && rewrap {
		// rewrap-equivalent: decrypt + encrypt with the latest version
		n := c.encrypt(t, 0, e.ctx, e.ad, e.pt, nil, len(c.entries) < 40)
		if n != nil && n.ver != c.m.latest {
			c.viol(t, "rewrap-not-latest", "re-encryption produced version %d, latest is %d", n.ver, c.m.latest)
		}
		c.rec.Class("dec:rewrap", 1)
	}
}

const c17B64 = "ABCDEFGHIJKLMNOPQRSTUVWXYZabcdefghijklmnopqrstuvwxyz0123456789+/"

// drawOtherVersion draws an existing version different from v (0 if there is none).
func (c *c17Case) drawOtherVersion(t *rapid.T, v int) int {
	lo := c.m.minAvail
	if lo < 1 {
		lo = 1
	}
	var vs []int
	for w := lo; w <= c.m.latest; w++ {
		if w != v {
			vs = append(vs, w)
		}
	}
	if len(vs) == 0 {
		return 0
	}
	return vs[rapid.IntRange(0, len(vs)-1).Draw(t, "otherVersion")]
}

func (c *c17Case) drawMissingVersion(t *rapid.T) string {
	return rapid.SampledFrom([]string{
		strconv.Itoa(c.m.latest + 1), strconv.Itoa(c.m.latest + 7), "-1", "99999999999999999999", "", "x", "1x",
	}).Draw(t, "missingVersion")
}

func (c *c17Case) actDecryptMutated(t *rapid.T) {
	if !c.kind.enc {
		t.Skip("no encryption")
	}
	e := c.pick(t, "ct")
	kinds := []string{"flipbit", "flipbit", "flipchar", "truncate", "extend", "ver-other", "ver-other", "ver-missing", "ver-zero", "strip-prefix", "respell"}
	if c.derived {
		kinds = append(kinds, "ctx-other", "ctx-other", "ctx-empty")
	}
	if c.kind.aead {
		kinds = append(kinds, "ad-other", "ad-other")
	}
	mk := rapid.SampledFrom(kinds).Draw(t, "mutation")
	_, body, _ := c17Split(e.text)
	raw, _ := base64.StdEncoding.DecodeString(body)
	text, ctx, ad := e.text, e.ctx, e.ad
	origOK := c.usable(e.ver, e.fp)
	// mayEqual: the mutated input may legitimately behave exactly like the original one
	mayEqual, mustMatchOrig := false, false
	prefix := "vault:v" + strconv.Itoa(e.ver) + ":"
	switch mk {
	case "flipbit":
		if len(raw) == 0 {
			t.Skip("empty body")
		}
		i := rapid.IntRange(0, len(raw)-1).Draw(t, "byte")
		if rapid.Bool().Draw(t, "fromEnd") {
			i = len(raw) - 1 - i
		}
		bit := rapid.IntRange(0, 7).Draw(t, "bit")
		nr := append([]byte(nil), raw...)
		nr[i] ^= 1 << uint(bit)
		text = prefix + b64(nr)
	case "flipchar":
		if len(body) == 0 {
			t.Skip("empty body")
		}
		i := rapid.IntRange(0, len(body)-1).Draw(t, "char")
		alphabet := c17B64 + "=-_ *"
		ch := alphabet[rapid.IntRange(0, len(alphabet)-1).Draw(t, "newChar")]
		if ch == body[i] {
			ch = alphabet[(strings.IndexByte(alphabet, ch)+1)%len(alphabet)]
		}
		nb := body[:i] + string(ch) + body[i+1:]
		text = prefix + nb
		if dec, err := base64.StdEncoding.DecodeString(nb); err == nil && bytes.Equal(dec, raw) {
			// only unused trailing bits of the last base64 character differ: same ciphertext bytes
			mayEqual, mustMatchOrig = true, true
		}
	case "truncate":
		if len(raw) == 0 {
			t.Skip("empty body")
		}
		n := rapid.IntRange(0, len(raw)-1).Draw(t, "keep")
		text = prefix + b64(raw[:n])
	case "extend":
		text = prefix + b64(append(append([]byte(nil), raw...), c17Bytes(t, "extra", 1, 4)...))
	case "ver-other":
		w := c.drawOtherVersion(t, e.ver)
		if w == 0 {
			text = "vault:v" + strconv.Itoa(c.m.latest+1) + ":" + body
			mk = "ver-missing"
		} else {
			text = "vault:v" + strconv.Itoa(w) + ":" + body
		}
	case "ver-missing":
		text = "vault:v" + c.drawMissingVersion(t) + ":" + body
	case "ver-zero":
		// documented compatibility: version 0 in a ciphertext means version 1
		text = "vault:v0:" + body
		if e.ver == 1 {
			mayEqual, mustMatchOrig = true, true
		}
	case "strip-prefix":
		text = rapid.SampledFrom([]string{body, "vault:" + body, "v" + strconv.Itoa(e.ver) + ":" + body, "bao:v" + strconv.Itoa(e.ver) + ":" + body, "vault:v" + strconv.Itoa(e.ver) + body, ""}).Draw(t, "stripped")
	case "respell":
		// another spelling of the same version number: not required to fail, but never a different plaintext and never outside the window
		text = "vault:v" + rapid.SampledFrom([]string{"0", "00", "+"}).Draw(t, "pad") + strconv.Itoa(e.ver) + ":" + body
		mayEqual = true
	case "ctx-other":
		for _, x := range c.ctxPool {
			if !bytes.Equal(x, e.ctx) {
				ctx = x
			}
		}
		if rapid.Bool().Draw(t, "ctxFresh") || bytes.Equal(ctx, e.ctx) {
			ctx = append(append([]byte(nil), e.ctx...), byte(rapid.IntRange(0, 255).Draw(t, "ctxByte")))
		}
	case "ctx-empty":
		ctx = nil
	case "ad-other":
		switch {
		case e.ad == nil:
			ad = c17Bytes(t, "newAD", 1, 8)
		case rapid.Bool().Draw(t, "dropAD"):
			ad = nil
		default:
			ad = append(append([]byte(nil), e.ad...), 0x01)
			if rapid.Bool().Draw(t, "adFlip") {
				ad = append([]byte(nil), e.ad...)
				ad[0] ^= 0x80
			}
		}
	}
	c.ntMut = true
	c.noteUse(e)
	c.rec.Class("mut:"+mk, 1)
	c.step("decrypt-mut(%s on v%d usable=%v -> %s ctx=%x ad=%x)", mk, e.ver, origOK, verifx.Trunc(text, 28), ctx, ad)
	c.with(t, false, func(p *Policy) {
		var got string
		var err error
		if pn := verifx.Try(func() { got, err = p.DecryptWithFactory(ctx, nil, text, c17Factories(ad)...) }); pn != nil {
			c.viol(t, "decrypt-panic:"+mk, "DecryptWithFactory panicked on a mutated input (%s): %v", mk, pn)
		}
		if err != nil {
			if mustMatchOrig && origOK {
				c.viol(t, "decrypt-refused-valid", "an input equivalent to a valid version %d ciphertext (%s) was refused: %v", e.ver, mk, err)
			}
			return
		}
		if got != b64(e.pt) {
			c.viol(t, "decrypt-wrong-plaintext", "mutation %s of a version %d ciphertext decrypted to %s, the plaintext was %s", mk, e.ver, verifx.Trunc(got, 40), verifx.Trunc(b64(e.pt), 40))
		}
		if !mayEqual {
			c.viol(t, "mutation-accepted:"+mk, "mutation %s of a version %d ciphertext was accepted (input %s, context %x, associated data %x)", mk, e.ver, verifx.Trunc(text, 48), ctx, ad)
		}
		c.rec.Class("obs:accepted-"+mk, 1)
		if !origOK {
			c.viol(t, "decrypt-unusable-version-accepted", "respelled version prefix (%s) made an unusable version %d ciphertext decryptable (latest %d, min_decryption_version %d)", mk, e.ver, c.m.latest, c.m.minDec)
		}
	})
}

// ---------------------------------------------------------------- signing

var (
	c17HashesAll = []HashType{HashTypeSHA1, HashTypeSHA2224, HashTypeSHA2256, HashTypeSHA2384, HashTypeSHA2512, HashTypeSHA3224, HashTypeSHA3256, HashTypeSHA3384, HashTypeSHA3512}
)

func c17Digest(h HashType, msg []byte) []byte {
	hf := HashFuncMap[h]()
	hf.Write(msg)
	return hf.Sum(nil)
}

func (c *c17Case) sigInput(h HashType, msg []byte) []byte {
	if c.kind.hashInput {
		return c17Digest(h, msg)
	}
	return msg
}

func (c *c17Case) drawMsg(t *rapid.T) []byte {
	if rapid.IntRange(0, 2).Draw(t, "msgPool") > 0 {
		return c.ptPool[rapid.IntRange(0, len(c.ptPool)-1).Draw(t, "msgIdx")]
	}
	return c17Bytes(t, "msg", 0, 64)
}

func c17SigDecode(m MarshalingType, body string) ([]byte, error) {
	if m == MarshalingTypeJWS {
		return base64.RawURLEncoding.DecodeString(body)
	}
	return base64.StdEncoding.DecodeString(body)
}

func c17SigEncode(m MarshalingType, raw []byte) string {
	if m == MarshalingTypeJWS {
		return base64.RawURLEncoding.EncodeToString(raw)
	}
	return base64.StdEncoding.EncodeToString(raw)
}

// stdlibVerify checks a signature with the standard library against the public key stored for the version.
func (c *c17Case) stdlibVerify(ke KeyEntry, e *c17Entry, raw []byte) (bool, string) {
	in := c.sigInput(e.hash, e.pt)
	switch {
	case c.kind.ecdsa:
		blk, _ := pem.Decode([]byte(ke.FormattedPublicKey))
		if blk == nil {
			return false, "public key is not PEM"
		}
		pk, err := x509.ParsePKIXPublicKey(blk.Bytes)
		if err != nil {
			return false, err.Error()
		}
		pub, ok := pk.(*ecdsa.PublicKey)
		if !ok {
			return false, "public key is not ECDSA"
		}
		if e.marsh == MarshalingTypeJWS {
			if len(raw)%2 != 0 {
				return false, "odd JWS length"
			}
			r := new(big.Int).SetBytes(raw[:len(raw)/2])
			s := new(big.Int).SetBytes(raw[len(raw)/2:])
			return ecdsa.Verify(pub, in, r, s), ""
		}
		return ecdsa.VerifyASN1(pub, in, raw), ""
	case c.kind.kt == KeyType_ED25519:
		if c.derived {
			return true, "" // the derived public key is not stored
		}
		pub, err := base64.StdEncoding.DecodeString(ke.FormattedPublicKey)
		if err != nil || len(pub) != ed25519.PublicKeySize {
			return false, "bad stored public key"
		}
		return ed25519.Verify(ed25519.PublicKey(pub), in, raw), ""
	case c.kind.rsaBits > 0:
		if ke.RSAKey == nil {
			return false, "no RSA key"
		}
		ch := CryptoHashMap[e.hash]
		if e.sigAlg == "pkcs1v15" {
			return rsa.VerifyPKCS1v15(&ke.RSAKey.PublicKey, ch, in, raw) == nil, ""
		}
		return rsa.VerifyPSS(&ke.RSAKey.PublicKey, ch, in, raw, &rsa.PSSOptions{SaltLength: rsa.PSSSaltLengthAuto}) == nil, ""
	}
	return true, ""
}

func (c *c17Case) drawHash(t *rapid.T, label string) HashType {
	if c.kind.rsaBits > 0 {
		return rapid.SampledFrom([]HashType{HashTypeSHA2256, HashTypeSHA2384, HashTypeSHA2512, HashTypeSHA2224, HashTypeSHA1}).Draw(t, label)
	}
	return rapid.SampledFrom(c17HashesAll).Draw(t, label)
}

func (c *c17Case) actSign(t *rapid.T) {
	if !c.kind.sign {
		t.Skip("no signing")
	}
	m := c.m
	ver := 0
	if rapid.IntRange(0, 2).Draw(t, "explicitVersion") == 0 {
		ver = rapid.IntRange(-1, m.latest+1).Draw(t, "keyVersion")
	}
	if c.forceLatest {
		ver = 0
	}
	ctx := c.drawCtx(t)
	msg := c.drawMsg(t)
	h := c.drawHash(t, "hash")
	marsh := MarshalingTypeASN1
	if rapid.IntRange(0, 2).Draw(t, "jws") == 0 {
		marsh = MarshalingTypeJWS
	}
	sigAlg, salt := "", rsa.PSSSaltLengthAuto
	if c.kind.rsaBits > 0 {
		sigAlg = rapid.SampledFrom([]string{"pss", "pkcs1v15", ""}).Draw(t, "sigAlg")
		if rapid.Bool().Draw(t, "saltHash") {
			salt = rsa.PSSSaltLengthEqualsHash
		}
	}
	want := ver
	if ver == 0 {
		want = m.latest
	}
	mustFail := ver < 0 || ver > m.latest || (ver != 0 && (ver < m.minEnc || ver < m.minDec))
	c.step("sign(ver=%d,hash=%d,marsh=%d,alg=%q,salt=%d,ctx=%x,msg=%x)", ver, h, marsh, sigAlg, salt, ctx, msg)
	c.with(t, false, func(p *Policy) {
		var res *SigningResult
		var err error
		opts := &SigningOptions{HashAlgorithm: h, Marshaling: marsh, SaltLength: salt, SigAlgorithm: sigAlg}
		if pn := verifx.Try(func() { res, err = p.SignWithOptions(ver, ctx, c.sigInput(h, msg), opts) }); pn != nil {
			c.viol(t, "sign-panic", "SignWithOptions panicked: %v", pn)
		}
		if mustFail {
			c.rec.Class("sign:refused-version", 1)
			if err == nil {
				sig := "sign-version-not-refused"
				if ver > 0 && ver < m.minEnc {
					sig = "sign-below-min-encryption-version"
				}
				c.viol(t, sig, "signing with key_version=%d succeeded (latest %d, min_encryption_version %d, min_decryption_version %d)", ver, m.latest, m.minEnc, m.minDec)
			}
			return
		}
		if err != nil || res == nil {
			c.viol(t, "sign-failed", "signing with valid inputs failed (key_version=%d hash=%d alg=%q salt=%d): %v", ver, h, sigAlg, salt, err)
		}
		gotVer, body, ok := c17Split(res.Signature)
		if !ok || gotVer != want {
			c.viol(t, "sign-wrong-version", "signature %q does not carry version %d", verifx.Trunc(res.Signature, 40), want)
		}
		raw, derr := c17SigDecode(marsh, body)
		if derr != nil {
			c.viol(t, "signature-malformed", "signature body does not decode under its marshaling: %v", derr)
		}
		if sigAlg == "" {
			sigAlg = "pss"
		}
		e := &c17Entry{kind: "sig", text: res.Signature, ver: want, fp: m.fps[want], ctx: ctx, pt: msg, hash: h, marsh: marsh, sigAlg: sigAlg, salt: salt, rotAt: c.rotations, cfgAt: c.cfgChanges}
		if c.kind.kt == KeyType_ED25519 && c.derived {
			// the derived public key is returned with the signature
			if len(res.PublicKey) != ed25519.PublicKeySize || !ed25519.Verify(ed25519.PublicKey(res.PublicKey), msg, raw) {
				c.viol(t, "signature-invalid-under-returned-key", "the derived-key signature does not verify under the public key returned with it")
			}
		}
		if good, why := c.stdlibVerify(p.Keys[strconv.Itoa(want)], e, raw); !good {
			c.viol(t, "signature-invalid-under-version-key", "the version %d signature does not verify with the standard library under the public key of version %d %s", want, want, why)
		}
		valid, verr := p.VerifySignatureWithOptions(ctx, c.sigInput(h, msg), res.Signature, opts)
		if verr != nil || !valid {
			c.viol(t, "verify-rejects-valid", "a signature just produced (version %d) does not verify: valid=%v err=%v", want, valid, verr)
		}
		c.rec.Class("sign:ok", 1)
		if len(c.entries) < 40 || c.forceLatest {
			c.entries = append(c.entries, e)
		}
	})
}

func (c *c17Case) actVerify(t *rapid.T, mutate bool) {
	if !c.kind.sign {
		t.Skip("no signing")
	}
	c.verifyEntry(t, c.pick(t, "sig"), mutate)
}

// verifyEntry verifies a table row, optionally with one variation, and judges the verdict.
func (c *c17Case) verifyEntry(t *rapid.T, e *c17Entry, mutate bool) {
	_, body, _ := c17Split(e.text)
	raw, _ := c17SigDecode(e.marsh, body)
	text, ctx, msg, h, marsh, sigAlg, salt := e.text, e.ctx, e.pt, e.hash, e.marsh, e.sigAlg, e.salt
	usable := c.usable(e.ver, e.fp)
	expect := usable
	mk := "none"
	if mutate {
		kinds := []string{"msg", "msg", "flipbit", "flipbit", "ver-other", "ver-missing", "strip-prefix", "hash", "marsh", "truncate"}
		if c.kind.rsaBits > 0 {
			kinds = append(kinds, "sigalg", "sigalg", "salt", "salt")
		}
		if c.derived {
			kinds = append(kinds, "ctx-other", "ctx-other", "ctx-empty")
		}
		mk = rapid.SampledFrom(kinds).Draw(t, "mutation")
		prefix := "vault:v" + strconv.Itoa(e.ver) + ":"
		expect = false
		switch mk {
		case "msg":
			if rapid.Bool().Draw(t, "msgAppend") || len(msg) == 0 {
				msg = append(append([]byte(nil), msg...), byte(rapid.IntRange(0, 255).Draw(t, "msgByte")))
			} else {
				msg = append([]byte(nil), msg...)
				msg[rapid.IntRange(0, len(msg)-1).Draw(t, "msgPos")] ^= 1 << uint(rapid.IntRange(0, 7).Draw(t, "msgBit"))
			}
		case "flipbit":
			if len(raw) == 0 {
				t.Skip("empty signature")
			}
			nr := append([]byte(nil), raw...)
			pos := rapid.IntRange(0, len(nr)-1).Draw(t, "byte")
			if rapid.Bool().Draw(t, "fromEnd") {
				pos = len(nr) - 1 - pos
			}
			nr[pos] ^= 1 << uint(rapid.IntRange(0, 7).Draw(t, "bit"))
			text = prefix + c17SigEncode(e.marsh, nr)
		case "truncate":
			if len(raw) == 0 {
				t.Skip("empty signature")
			}
			text = prefix + c17SigEncode(e.marsh, raw[:rapid.IntRange(0, len(raw)-1).Draw(t, "keep")])
		case "ver-other":
			w := c.drawOtherVersion(t, e.ver)
			if w == 0 {
				w = c.m.latest + 1
				mk = "ver-missing"
			}
			text = "vault:v" + strconv.Itoa(w) + ":" + body
		case "ver-missing":
			text = "vault:v" + c.drawMissingVersion(t) + ":" + body
		case "strip-prefix":
			text = rapid.SampledFrom([]string{body, "vault:" + body, "v" + strconv.Itoa(e.ver) + ":" + body, ""}).Draw(t, "stripped")
		case "hash":
			var others []HashType
			for _, x := range c17HashesAll {
				if x != e.hash && (c.kind.rsaBits == 0 || x <= HashTypeSHA2512) {
					others = append(others, x)
				}
			}
			h = rapid.SampledFrom(others).Draw(t, "otherHash")
			if !c.kind.hashInput {
				expect = usable // the hash algorithm is not used by this key type
			}
		case "marsh":
			marsh = MarshalingTypeJWS
			if e.marsh == MarshalingTypeJWS {
				marsh = MarshalingTypeASN1
			}
			if !c.kind.ecdsa {
				// for these key types the marshaling only selects the base64 alphabet
				if dec, err := c17SigDecode(marsh, body); err == nil && bytes.Equal(dec, raw) {
					expect = usable
				}
			}
		case "sigalg":
			if sigAlg == "pss" {
				sigAlg = "pkcs1v15"
			} else {
				sigAlg = "pss"
			}
		case "salt":
			if e.sigAlg != "pss" {
				sigAlg, mk = "pss", "sigalg" // salt only matters for pss: verify under the other algorithm instead
			} else if salt == rsa.PSSSaltLengthAuto {
				salt = rsa.PSSSaltLengthEqualsHash // signed with the maximal salt, verified demanding hash-length salt
			} else {
				salt = rsa.PSSSaltLengthAuto // auto-detection accepts any salt length
				expect = usable
			}
		case "ctx-other":
			for _, x := range c.ctxPool {
				if !bytes.Equal(x, e.ctx) {
					ctx = x
				}
			}
			if rapid.Bool().Draw(t, "ctxFresh") || bytes.Equal(ctx, e.ctx) {
				ctx = append(append([]byte(nil), e.ctx...), byte(rapid.IntRange(0, 255).Draw(t, "ctxByte")))
			}
		case "ctx-empty":
			ctx = nil
		}
		c.ntMut = true
		c.rec.Class("vmut:"+mk, 1)
	}
	c.noteUse(e)
	c.step("verify(%s on v%d usable=%v expect=%v)", mk, e.ver, usable, expect)
	c.with(t, false, func(p *Policy) {
		var valid bool
		var err error
		opts := &SigningOptions{HashAlgorithm: h, Marshaling: marsh, SaltLength: salt, SigAlgorithm: sigAlg}
		if pn := verifx.Try(func() { valid, err = p.VerifySignatureWithOptions(ctx, c.sigInput(h, msg), text, opts) }); pn != nil {
			c.viol(t, "verify-panic:"+mk, "VerifySignatureWithOptions panicked (%s): %v", mk, pn)
		}
		if err != nil && valid {
			c.viol(t, "verify-valid-with-error", "verification returned valid=true together with error %v", err)
		}
		switch {
		case expect && !valid:
			c.viol(t, "verify-rejects-valid", "a version %d signature (latest %d, min_decryption_version %d, made %d rotations ago, variation %s) is rejected: err=%v", e.ver, c.m.latest, c.m.minDec, c.rotations-e.rotAt, mk, err)
		case !expect && valid:
			sig := "verify-accepts-invalid:" + mk
			if mk == "none" && e.ver < c.m.minDec {
				sig = "verify-below-min-decryption-version"
			}
			c.viol(t, sig, "verification accepted a signature it must not accept (variation %s, version %d, latest %d, min_decryption_version %d, key material current=%v)", mk, e.ver, c.m.latest, c.m.minDec, c.m.fps[e.ver] == e.fp)
		}
		if expect {
			c.rec.Class("verify:true", 1)
		} else {
			c.rec.Class("verify:false", 1)
		}
	})
}

// ---------------------------------------------------------------- HMAC keys

func (c *c17Case) actHMAC(t *rapid.T) {
	m := c.m
	ver := rapid.IntRange(-1, m.latest+1).Draw(t, "hmacVersion")
	if rapid.Bool().Draw(t, "hmacInWindow") {
		ver = rapid.IntRange(m.minDec, m.latest).Draw(t, "hmacVersionIn")
	}
	c.hmacKey(t, ver)
}

// hmacKey fetches the HMAC key of a version and compares it with what the run has seen for that version.
func (c *c17Case) hmacKey(t *rapid.T, ver int) {
	m := c.m
	c.step("hmac(ver=%d)", ver)
	mustFail := ver < m.minDec || ver > m.latest
	c.with(t, false, func(p *Policy) {
		var key []byte
		var err error
		if pn := verifx.Try(func() { key, err = p.HMACKey(ver) }); pn != nil {
			c.viol(t, "hmac-panic", "HMACKey panicked: %v", pn)
		}
		if mustFail {
			c.rec.Class("hmac:refused", 1)
			if err == nil {
				c.viol(t, "hmac-unusable-version-accepted", "HMACKey(%d) returned a key although latest=%d min_decryption_version=%d", ver, m.latest, m.minDec)
			}
			return
		}
		if err != nil || len(key) == 0 {
			c.viol(t, "hmac-key-missing", "HMACKey(%d) failed for a usable version (latest %d, min_decryption_version %d): %v", ver, m.latest, m.minDec, err)
		}
		id := fmt.Sprintf("%d|%s", ver, m.fps[ver])
		if old, ok := c.hmacKeys[id]; ok {
			if !bytes.Equal(old, key) {
				c.viol(t, "hmac-key-changed", "the HMAC key of version %d changed during the run: HMACs made earlier no longer verify", ver)
			}
			c.rec.Class("hmac:recheck", 1)
			if c.rotations >= 2 {
				c.ntRot = true
			}
		} else {
			for oid, ok2 := range c.hmacKeys {
				if bytes.Equal(ok2, key) {
					c.viol(t, "hmac-key-shared", "versions %s and %s use the same HMAC key", oid, id)
				}
			}
			c.hmacKeys[id] = append([]byte(nil), key...)
			c.rec.Class("hmac:first", 1)
		}
		if c.kind.kt == KeyType_HMAC {
			if c17FP(KeyEntry{Key: key, HMACKey: key}) != m.fps[ver] {
				c.viol(t, "hmac-key-not-version-key", "an hmac-type key returns an HMAC key for version %d that is not that version's key", ver)
			}
		}
	})
}

// ---------------------------------------------------------------- invariants

func (c *c17Case) checkPolicy(t *rapid.T, where string, p *Policy) {
	m := c.m
	if p.LatestVersion != m.latest || p.MinDecryptionVersion != m.minDec || p.MinEncryptionVersion != m.minEnc || p.MinAvailableVersion != m.minAvail || p.DeletionAllowed != m.deletionAllowed {
		c.viol(t, "policy-fields-diverge", "%s policy has latest=%d minDec=%d minEnc=%d minAvail=%d deletion_allowed=%v, expected latest=%d minDec=%d minEnc=%d minAvail=%d deletion_allowed=%v",
			where, p.LatestVersion, p.MinDecryptionVersion, p.MinEncryptionVersion, p.MinAvailableVersion, p.DeletionAllowed, m.latest, m.minDec, m.minEnc, m.minAvail, m.deletionAllowed)
	}
	if p.ArchiveVersion != p.LatestVersion {
		c.viol(t, "archive-version-stale", "%s policy: ArchiveVersion=%d, LatestVersion=%d", where, p.ArchiveVersion, p.LatestVersion)
	}
	if p.ArchiveMinVersion != p.MinAvailableVersion {
		c.viol(t, "archive-min-version-stale", "%s policy: ArchiveMinVersion=%d, MinAvailableVersion=%d", where, p.ArchiveMinVersion, p.MinAvailableVersion)
	}
	if p.MinDecryptionVersion < 1 || p.MinDecryptionVersion > p.LatestVersion || (p.MinEncryptionVersion != 0 && (p.MinEncryptionVersion < p.MinDecryptionVersion || p.MinEncryptionVersion > p.LatestVersion)) ||
		p.MinAvailableVersion > p.MinDecryptionVersion || (p.MinAvailableVersion > 0 && p.MinEncryptionVersion < p.MinAvailableVersion) {
		c.viol(t, "policy-min-versions-inconsistent", "%s policy: latest=%d minDec=%d minEnc=%d minAvail=%d", where, p.LatestVersion, p.MinDecryptionVersion, p.MinEncryptionVersion, p.MinAvailableVersion)
	}
	var have []int
	for k := range p.Keys {
		v, err := strconv.Atoi(k)
		if err != nil {
			c.viol(t, "policy-key-map-bad-index", "%s policy: key map index %q", where, k)
		}
		have = append(have, v)
	}
	sort.Ints(have)
	for v := m.minDec; v <= m.latest; v++ {
		ke, ok := p.Keys[strconv.Itoa(v)]
		if !ok {
			c.viol(t, "policy-key-missing", "%s policy: version %d (>= min_decryption_version %d) is not in the key map %v", where, v, m.minDec, have)
		}
		if fp := c17FP(ke); fp != m.fps[v] {
			c.viol(t, "policy-key-material-changed", "%s policy: key material of version %d is not what was created for that version", where, v)
		}
	}
	for _, v := range have {
		if v < m.minDec || v > m.latest {
			c.viol(t, "policy-key-not-archived", "%s policy: key map %v holds version %d outside [min_decryption_version %d, latest %d]", where, have, v, m.minDec, m.latest)
		}
	}
}

func (c *c17Case) check(t *rapid.T) {
	m := c.m
	c.with(t, false, func(p *Policy) { c.checkPolicy(t, "live", p) })
	stored, err := LoadPolicy(c17Ctx, c.inner, "policy/"+c17Name)
	if err != nil || stored == nil {
		c.viol(t, "policy-unloadable", "the stored policy cannot be loaded: %v", err)
		return
	}
	c.checkPolicy(t, "stored", stored)
	arch, err := stored.LoadArchive(c17Ctx, c.inner)
	if err != nil {
		c.viol(t, "archive-unloadable", "the stored archive cannot be loaded: %v", err)
		return
	}
	lo := m.minAvail
	if lo < 1 {
		lo = 1
	}
	if len(arch.Keys)+m.minAvail < m.latest+1 {
		c.viol(t, "archive-too-short", "archive has %d entries, min_available_version=%d, latest=%d", len(arch.Keys), m.minAvail, m.latest)
	}
	for v := lo; v <= m.latest; v++ {
		if fp := c17FP(arch.Keys[v-m.minAvail]); fp != m.fps[v] {
			c.viol(t, "archive-key-material-wrong", "archive slot of version %d does not hold the key material created for that version", v)
		}
	}
	for i, ke := range arch.Keys {
		if c.trimmed[c17FP(ke)] {
			c.viol(t, "trimmed-key-still-stored", "archive slot %d still holds the key material of a trimmed version (min_available_version %d)", i, m.minAvail)
		}
	}
}

// ---------------------------------------------------------------- storage faults

func (c *c17Case) drawFault(t *rapid.T, table []string) (string, int) {
	mode := c17Slot(t, "faultMode", table)
	k := 0
	if mode == "kth" {
		k = rapid.IntRange(1, 4).Draw(t, "faultK")
	}
	return mode, k
}

// faulted runs one mutating operation with one generated write failure armed and then finds out from
// storage (not from assumptions) whether the key ring is unchanged or fully changed.
func (c *c17Case) faulted(t *rapid.T, op string, mode string, k int, run func()) {
	c.faultUsed = true
	c.opErr, c.intended, c.commit = nil, nil, nil
	*c.fs = c17FaultStorage{Storage: c.inner, armed: true, mode: mode, k: k}
	c.faulting = true
	c.step("fault(%s,%s,k=%d)", op, mode, k)
	func() {
		defer func() { c.faulting = false; c.fs.armed = false }()
		run()
	}()
	c.rec.Class("fault:op:"+op, 1)
	if !c.fs.fired {
		c.rec.Class("fault:not-reached", 1)
		if c.opErr != nil {
			c.viol(t, op+"-failed", "%s failed although no write failed: %v", op, c.opErr)
		}
		return
	}
	target := "policy"
	if strings.HasPrefix(c.fs.firedKey, "archive/") {
		target = "archive"
	}
	c.faultTag = "after-fault:" + op + "-" + target
	c.rec.Class("fault:fired:"+op+"-"+target, 1)
	c.step("fault-fired(%s write %d, err=%v)", c.fs.firedKey, c.fs.writes, c.opErr != nil)
	if c.opErr == nil {
		// the operation reported success although a write failed; the model was advanced by the operation itself,
		// the invariant check that follows compares it with storage
		c.rec.Class("fault:swallowed", 1)
		return
	}
	stored, err := LoadPolicy(c17Ctx, c.inner, "policy/"+c17Name)
	if err != nil || stored == nil {
		c.viol(t, "policy-unloadable", "after the failed %s the stored policy cannot be loaded: %v", op, err)
		return
	}
	matches := func(m *c17Model) bool {
		if stored.LatestVersion != m.latest || stored.MinDecryptionVersion != m.minDec || stored.MinEncryptionVersion != m.minEnc ||
			stored.MinAvailableVersion != m.minAvail || stored.DeletionAllowed != m.deletionAllowed {
			return false
		}
		for v := m.minDec; v <= m.latest; v++ {
			if fp, ok := m.fps[v]; ok {
				if ke, has := stored.Keys[strconv.Itoa(v)]; has && c17FP(ke) != fp {
					return false
				}
			}
		}
		return true
	}
	switch {
	case matches(c.m):
		c.rec.Class("fault:rolled-back", 1)
	case c.intended != nil && matches(c.intended):
		if _, ok := c.intended.fps[c.intended.latest]; !ok {
			c.intended.fps[c.intended.latest] = c17FP(stored.Keys[strconv.Itoa(c.intended.latest)])
		}
		if op == "restore" {
			c.commit()
		} else {
			c.m = c.intended
			c.commit()
		}
		c.rec.Class("fault:applied-despite-error", 1)
	default:
		c.viol(t, "partial-state", "after the failed %s the stored policy (latest=%d minDec=%d minEnc=%d minAvail=%d deletion_allowed=%v) is neither the old nor the intended key ring",
			op, stored.LatestVersion, stored.MinDecryptionVersion, stored.MinEncryptionVersion, stored.MinAvailableVersion, stored.DeletionAllowed)
	}
}

var (
	c17FaultModes      = []string{"kth", "kth", "kth", "kth", "policy", "policy", "archive", "archive"}
	c17FaultModesCycle = []string{"policy", "policy", "policy", "policy", "kth", "kth", "archive", "policy"}
)

// actFault: one generated mutating operation with one generated write failure.
func (c *c17Case) actFault(t *rapid.T) {
	if c.manyVersions {
		t.Skip("no faults in long-lived-key cases")
	}
	op := c17Slot(t, "faultOp", []string{"rotate", "rotate", "config", "config", "trim", "trim", "restore", "restore"})
	if op == "trim" && c.m.minEnc == 0 {
		op = "config"
	}
	if op == "restore" && c.snap == nil {
		op = "rotate"
	}
	if op == "rotate" && c.kind.rsaBits > 0 && c.m.latest >= c.rsaCap {
		op = "config"
	}
	mode, k := c.drawFault(t, c17FaultModes)
	c.faulted(t, op, mode, k, func() {
		switch op {
		case "rotate":
			c.actRotate(t)
		case "config":
			c.actConfig(t)
		case "trim":
			c.actTrim(t)
		case "restore":
			c.actRestore(t)
		}
	})
}

// actFaultCycle is the directed history: a rotation hit by a write failure, the retry, material produced under
// the new version, one more rotation, min_decryption_version raised above that version and lowered again, a
// reload, and then the material must still decrypt / verify.
func (c *c17Case) actFaultCycle(t *rapid.T) {
	if c.manyVersions {
		t.Skip("no faults in long-lived-key cases")
	}
	if c.kind.rsaBits > 0 && c.m.latest >= c.rsaCap {
		c.actConfig(t)
		return
	}
	mode, k := c.drawFault(t, c17FaultModesCycle)
	reloadEarly := rapid.Bool().Draw(t, "reloadBeforeLowering")
	before := c.m.latest
	c.faulted(t, "rotate", mode, k, func() { c.actRotate(t) })
	if c.m.latest == before {
		c.actRotate(t) // the client retries
	}
	n1 := c.m.latest
	oldDec, oldEnc, del := c.m.minDec, c.m.minEnc, c.m.deletionAllowed
	first := len(c.entries)
	c.forceLatest = true
	func() {
		defer func() { c.forceLatest = false }()
		if c.kind.enc {
			c.actEncrypt(t, false)
		}
		if c.kind.sign {
			c.actSign(t)
		}
	}()
	c.hmacKey(t, n1)
	c.actRotate(t)
	raisedEnc := oldEnc
	if raisedEnc != 0 && raisedEnc < n1+1 {
		raisedEnc = n1 + 1
	}
	c.configTo(t, n1+1, raisedEnc, del)
	if reloadEarly {
		c.actReload(t)
	}
	c.configTo(t, oldDec, oldEnc, del)
	c.actReload(t)
	for _, e := range c.entries[first:] {
		if e.ver != n1 {
			continue
		}
		if e.kind == "ct" {
			c.decryptEntry(t, e, false)
		} else {
			c.verifyEntry(t, e, false)
		}
	}
	c.hmacKey(t, n1)
	c.rec.Class("fault:cycle-completed", 1)
	if c.fs.fired {
		c.rec.Class("fault:cycle-completed-after-fired-fault", 1)
	}
}

// stepAction is the single state-machine action: it picks what to do from the slot table of the key's
// capabilities and substitutes a sensible action when the chosen one is not applicable yet.
func (c *c17Case) stepAction(t *rapid.T) {
	table := c17ActsHMAC
	switch {
	case c.kind.enc && c.kind.sign:
		table = c17ActsBoth
	case c.kind.enc:
		table = c17ActsEnc
	case c.kind.sign:
		table = c17ActsSign
	}
	name := c17Slot(t, "do", table)
	has := func(kind string) bool {
		for _, e := range c.entries {
			if e.kind == kind {
				return true
			}
		}
		return false
	}
	switch name {
	case "fault", "fault-cycle":
		if c.faultUsed {
			name = "rotate"
			if c.kind.rsaBits > 0 && c.m.latest >= c.rsaCap {
				name = "config"
			}
		}
	case "decrypt", "decrypt-mut":
		if !has("ct") {
			name = "encrypt"
		}
	case "verify", "verify-mut":
		if !has("sig") {
			name = "sign"
		}
	case "trim":
		if c.m.minEnc == 0 {
			name = "config"
		}
	case "restore":
		if c.snap == nil {
			name = "backup"
		}
	case "delete-restore":
		if c.m.deletionAllowed && c.snap == nil {
			name = "backup"
		}
	case "rotate":
		if c.kind.rsaBits > 0 && c.m.latest >= c.rsaCap {
			name = "config"
		}
	}
	switch name {
	case "fault":
		c.actFault(t)
	case "fault-cycle":
		c.actFaultCycle(t)
	case "encrypt":
		c.actEncrypt(t, false)
	case "encrypt-ver":
		c.actEncrypt(t, true)
	case "decrypt":
		c.actDecrypt(t)
	case "decrypt-mut":
		c.actDecryptMutated(t)
	case "sign":
		c.actSign(t)
	case "verify":
		c.actVerify(t, false)
	case "verify-mut":
		c.actVerify(t, true)
	case "rotate":
		c.actRotate(t)
	case "config":
		c.actConfig(t)
	case "trim":
		c.actTrim(t)
	case "backup":
		c.actBackup(t)
	case "restore":
		c.actRestore(t)
	case "delete-restore":
		c.actDeleteRestore(t)
	case "reload":
		c.actReload(t)
	case "hmac":
		c.actHMAC(t)
	default:
		t.Fatalf("harness: unknown action %q", name)
	}
}

// ---------------------------------------------------------------- the test

func TestVerif_C17_Policy(t *testing.T) {
	rec := verifx.NewRecorder("C17", "keysutil", "rapid state machine (t.Repeat) over keysutil.Policy+LockManager on in-memory storage: key type (AES128/256-GCM96, ChaCha20/XChaCha20-Poly1305, ED25519, ECDSA P-256/384/521, HMAC, RSA-2048 rarely; RSA-3072/4096 thorough only) x derived/convergent(v3)/neither x cache on/off; actions rotate, config (min versions, deletion_allowed), trim, backup, restore (force or delete first), reload, encrypt (latest or explicit version, context, associated data), decrypt (+ re-encrypt), 17 ciphertext mutations, sign, verify (+ 13 variations), HMAC key; oracle = model of the key ring + table of everything produced; non-trivial = a decrypt/verify of material produced >= 2 rotations earlier, or after a min-version change, or of a mutated input")
	defer rec.Flush()
	kinds := c17KindsQuick
	if verifx.Thorough() {
		kinds = c17KindsThorough
	}
	rapid.Check(t, func(rt *rapid.T) {
		c := &c17Case{rec: rec, hmacKeys: map[string][]byte{}, trimmed: map[string]bool{}}
		c.kind = c17KindTable[c17Slot(rt, "keyType", kinds)]
		mode := "plain"
		switch {
		case c.kind.aead:
			mode = c17Slot(rt, "mode", []string{"plain", "derived", "convergent", "convergent"})
		case c.kind.derive:
			mode = c17Slot(rt, "mode", []string{"plain", "derived"})
		}
		c.derived = mode != "plain"
		c.convergent = mode == "convergent"
		c.useCache = rapid.Bool().Draw(rt, "useCache")
		flags := rapid.IntRange(0, 7).Draw(rt, "backupFlags")
		c.exportable = flags != 0
		c.plainBackup = flags != 1
		c.rsaCap = 5
		if c.kind.rsaBits >= 4096 {
			c.rsaCap = 4
		}
		keySize := 0
		if c.kind.kt == KeyType_HMAC {
			keySize = rapid.SampledFrom([]int{32, 33, 64, 100, 512}).Draw(rt, "keySize")
		}
		nctx := rapid.IntRange(2, 3).Draw(rt, "nctx")
		for i := 0; i < nctx; i++ {
			c.ctxPool = append(c.ctxPool, c17Bytes(rt, "ctx", 1, 12))
		}
		for i := 1; i < len(c.ctxPool); i++ {
			for j := 0; j < i; j++ {
				if bytes.Equal(c.ctxPool[i], c.ctxPool[j]) {
					c.ctxPool[i] = append(append([]byte(nil), c.ctxPool[i]...), byte(i))
				}
			}
		}
		// One derived key in five lives long: it is rotated past version 10 right after creation, and its contexts are
		// X, "0"+X and "1"+X - so that (version 1, "0"+X) and (version 10, X), or (1, "1"+X) and (11, X), read the same
		// when version and context are merely written one after the other.
		manyVersions := c.derived && c.kind.rsaBits == 0 && rapid.IntRange(0, 4).Draw(rt, "manyVersions") == 0
		c.manyVersions = manyVersions
		if manyVersions {
			x := c.ctxPool[0]
			c.ctxPool = [][]byte{x, append([]byte("0"), x...), append([]byte("1"), x...)}
		}
		c.adPool = [][]byte{c17Bytes(rt, "ad", 1, 12), c17Bytes(rt, "ad", 1, 40)}
		c.ptPool = [][]byte{c17Bytes(rt, "pt", 1, 24), c17Bytes(rt, "pt", 1, 24), c17Bytes(rt, "pt", 0, 40)}

		cacheSize := 0
		if c.useCache && rapid.Bool().Draw(rt, "lruCache") {
			cacheSize = 10
		}
		lm, err := NewLockManager(c.useCache, cacheSize)
		if err != nil {
			rt.Fatalf("harness: NewLockManager: %v", err)
		}
		c.lm = lm
		c.inner = &logical.InmemStorage{}
		c.fs = &c17FaultStorage{Storage: c.inner}
		c.st = c.fs
		c.m = &c17Model{latest: 1, minDec: 1, fps: map[int]string{}}
		c.step("create(%s,%s,cache=%v,exportable=%v,plaintext_backup=%v)", c.kind.name, mode, c.useCache, c.exportable, c.plainBackup)
		p, upserted, err := lm.GetPolicyExclusive(c17Ctx, PolicyRequest{
			Upsert: true, Storage: c.st, Name: c17Name, KeyType: c.kind.kt, KeySize: keySize,
			Derived: c.derived, Convergent: c.convergent, Exportable: c.exportable, AllowPlaintextBackup: c.plainBackup,
		}, rand.Reader)
		if err != nil || p == nil || !upserted {
			c.viol(rt, "create-failed", "creating the key failed: upserted=%v err=%v", upserted, err)
			return
		}
		c.m.fps[1] = c17FP(p.Keys["1"])
		p.Unlock()
		if manyVersions {
			for n := rapid.IntRange(9, 11).Draw(rt, "earlyRotations"); n > 0 && !c.dead; n-- {
				c.actRotate(rt)
			}
			rec.Class("key-with-10+-versions", 1)
			if c.kind.enc && !c.dead && c.m.latest >= 10 {
				// the two uses whose (version, context) pairs read the same when written one after the other
				pt := c.ptPool[0]
				c.step("encrypt(ver=1,ctx=%x) then encrypt(ver=10,ctx=%x)", c.ctxPool[1], c.ctxPool[0])
				c.encrypt(rt, 1, c.ctxPool[1], nil, pt, nil, true)
				if !c.dead {
					c.encrypt(rt, 10, c.ctxPool[0], nil, pt, nil, true)
				}
			}
		}

		rt.Repeat(map[string]func(*rapid.T){"": c.guard(c.check), "step": c.guard(c.stepAction)})
		if c.dead {
			rec.Class("known-finding-case", 1)
			return
		}

		if c.ntRot {
			rec.Class("nt:two-rotations-earlier", 1)
		}
		if c.ntCfg {
			rec.Class("nt:after-min-version-change", 1)
		}
		if c.ntMut {
			rec.Class("nt:mutated-input", 1)
		}
		rec.Class(fmt.Sprintf("rotations:%d", min(c.rotations, 6)), 1)
		rec.Class("steps", int64(len(c.trace)-1))
		for _, s := range c.trace[1:] {
			name := s
			if i := strings.IndexByte(s, '('); i > 0 {
				name = s[:i]
			}
			rec.Class("act:"+name, 1)
		}
		rec.Case(c.kind.name+"/"+mode, c.ntRot || c.ntCfg || c.ntMut, verifx.Digest(strings.Join(c.trace, "|")), func() any {
			tr := c.trace
			if len(tr) > 40 {
				tr = tr[:40]
			}
			return map[string]any{"key_type": c.kind.name, "mode": mode, "cache": c.useCache, "rotations": c.rotations, "min_version_changes": c.cfgChanges,
				"table_rows": len(c.entries), "steps": tr}
		})
	})
}

var _ = crypto.SHA256
