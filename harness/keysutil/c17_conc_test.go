//go:build verif

package keysutil

// C17, concurrent unit: requests on one transit key that overlap while the lock manager's policy cache is cold (fresh
// process, eviction) must leave a cache that agrees with storage: an acknowledged configuration change or rotation is
// what every later request sees ("refused once the minimum decryption version is raised above them").

import (
	"crypto/rand"
	"fmt"
	"testing"
	"time"

	"github.com/openbao/openbao/sdk/v2/helper/verifx"
	"github.com/openbao/openbao/sdk/v2/logical"
	"pgregory.net/rapid"
)

// c17GatedCache wraps the lock manager's cache: every access is a scheduling point.
type c17GatedCache struct {
	inner Cache
	s     *verifx.Sched
}

func (g *c17GatedCache) Delete(key any) { g.s.Park("cache-delete", fmt.Sprint(key)); g.inner.Delete(key) }
func (g *c17GatedCache) Load(key any) (any, bool) {
	g.s.Park("cache-load", fmt.Sprint(key))
	return g.inner.Load(key)
}
func (g *c17GatedCache) Store(key, value any) { g.s.Park("cache-store", fmt.Sprint(key)); g.inner.Store(key, value) }
func (g *c17GatedCache) Size() int            { return g.inner.Size() }

func TestVerif_C17_ConcurrentColdCache(t *testing.T) {
	rec := verifx.NewRecorder("C17", "concurrent-cold-cache", "an AES-GCM / ChaCha20 / Ed25519 key with 2-4 versions is persisted, then a fresh lock manager (cold policy cache; sync-map or LRU) serves 2-3 concurrent tasks of 1-2 operations each on that key: raise / lower min_decryption_version, set min_encryption_version, rotate, encrypt, decrypt a ciphertext of version 1, read the policy; the harness interleaves the tasks at every storage operation (before and after) and at every access to the policy cache; oracle after all tasks finished: the policy a new request obtains through the lock manager equals the policy stored (latest version, minimum versions, archive version, number of keys), every acknowledged rotation is counted, and a version-1 ciphertext decrypts exactly when the stored min_decryption_version admits it; non-trivial = a writer overlapped another task while the cache was cold")
	defer rec.Flush()
	rapid.Check(t, func(rt *rapid.T) {
		phys := verifx.NewRec(verifx.NewInmem(rapid.Bool().Draw(rt, "transactionalStorage")))
		r := verifx.RecOf(phys)
		r.Logging = false
		st := logical.NewLogicalStorage(phys)
		kt := []KeyType{KeyType_AES256_GCM96, KeyType_ChaCha20_Poly1305, KeyType_ED25519}[rapid.IntRange(0, 2).Draw(rt, "keyType")]
		// ---- set-up with a throw-away lock manager: create, rotate, produce a version-1 ciphertext
		lm0, err := NewLockManager(false, 0)
		if err != nil {
			t.Fatalf("harness: %v", err)
		}
		p0, _, err := lm0.GetPolicy(c17Ctx, PolicyRequest{Storage: st, Name: c17Name, KeyType: kt, Upsert: true}, rand.Reader)
		if err != nil || p0 == nil {
			t.Fatalf("harness: create policy: %v", err)
		}
		versions := rapid.IntRange(2, 4).Draw(rt, "versions")
		for i := 1; i < versions; i++ {
			if err := p0.Rotate(c17Ctx, st, rand.Reader); err != nil {
				t.Fatalf("harness: rotate: %v", err)
			}
		}
		var ct1 string
		if kt != KeyType_ED25519 {
			ct1, err = p0.EncryptWithFactory(1, nil, nil, "cGxhaW4=")
			if err != nil {
				t.Fatalf("harness: encrypt v1: %v", err)
			}
		}
		p0.Unlock()

		// ---- the lock manager under test: cold cache, gated
		lruCache := rapid.Bool().Draw(rt, "lruCache")
		size := 0
		if lruCache {
			size = 8
		}
		lm, err := NewLockManager(true, size)
		if err != nil {
			t.Fatalf("harness: %v", err)
		}
		sched := verifx.NewSched(r)
		sched.AfterOps = true
		lm.cache = &c17GatedCache{inner: lm.cache, s: sched}
		defer func() {
			sched.RunToEnd(20 * time.Second)
			r.Gate, r.GateAfter, r.TaskOf = nil, nil, nil
		}()
		type op struct {
			kind string
			arg  int
			out  string
		}
		nTasks := rapid.IntRange(2, 3).Draw(rt, "tasks")
		tasks := make([][]*op, nTasks)
		writers := 0
		for i := range tasks {
			for j, n := 0, rapid.IntRange(1, 2).Draw(rt, fmt.Sprintf("ops%d", i)); j < n; j++ {
				kinds := []string{"min-dec", "min-dec", "rotate", "read", "min-enc", "encrypt"}
				if ct1 != "" {
					kinds = append(kinds, "decrypt-v1", "decrypt-v1")
				}
				o := &op{kind: kinds[rapid.IntRange(0, len(kinds)-1).Draw(rt, fmt.Sprintf("kind%d.%d", i, j))]}
				switch o.kind {
				case "min-dec", "min-enc":
					o.arg = rapid.IntRange(1, versions).Draw(rt, fmt.Sprintf("arg%d.%d", i, j))
					writers++
				case "rotate":
					writers++
				}
				tasks[i] = append(tasks[i], o)
			}
		}
		rotationsAcked := 0
		run := func(o *op) {
			exclusive := o.kind == "min-dec" || o.kind == "min-enc" || o.kind == "rotate"
			p, _, err := lm.GetPolicyWithLockType(c17Ctx, PolicyRequest{Storage: st, Name: c17Name}, rand.Reader, exclusive)
			if err != nil || p == nil {
				o.out = fmt.Sprintf("get-policy: %v", err)
				return
			}
			defer p.Unlock()
			switch o.kind {
			case "min-dec":
				if o.arg > p.LatestVersion || p.MinEncryptionVersion != 0 && o.arg > p.MinEncryptionVersion {
					o.out = "refused"
					return
				}
				old := p.MinDecryptionVersion
				p.MinDecryptionVersion = o.arg
				if err := p.Persist(c17Ctx, st); err != nil {
					p.MinDecryptionVersion = old
					o.out = "persist: " + err.Error()
					return
				}
				o.out = "ok"
			case "min-enc":
				if o.arg > p.LatestVersion || o.arg < p.MinDecryptionVersion {
					o.out = "refused"
					return
				}
				old := p.MinEncryptionVersion
				p.MinEncryptionVersion = o.arg
				if err := p.Persist(c17Ctx, st); err != nil {
					p.MinEncryptionVersion = old
					o.out = "persist: " + err.Error()
					return
				}
				o.out = "ok"
			case "rotate":
				if err := p.Rotate(c17Ctx, st, rand.Reader); err != nil {
					o.out = "rotate: " + err.Error()
					return
				}
				rotationsAcked++
				o.out = "ok"
			case "read":
				o.out = fmt.Sprintf("latest=%d min_dec=%d", p.LatestVersion, p.MinDecryptionVersion)
			case "encrypt":
				if kt == KeyType_ED25519 {
					_, err := p.Sign(0, nil, []byte("msg"), HashTypeSHA2256, "", MarshalingTypeASN1)
					o.out = fmt.Sprint(err)
					return
				}
				_, err := p.EncryptWithFactory(0, nil, nil, "cGxhaW4=")
				o.out = fmt.Sprint(err)
			case "decrypt-v1":
				_, err := p.DecryptWithFactory(nil, nil, ct1)
				o.out = fmt.Sprint(err == nil)
			}
		}
		for i := range tasks {
			i := i
			sched.Spawn(fmt.Sprintf("T%d", i), func() {
				for _, o := range tasks[i] {
					run(o)
				}
			})
		}
		switches, cur := 0, -1
		serr := sched.Run(func(parked []int) int {
			stay := false
			for _, p := range parked {
				if p == cur {
					stay = true
				}
			}
			if stay && rapid.IntRange(0, 9).Draw(rt, "step") < 5 {
				return cur
			}
			pick := parked[rapid.IntRange(0, len(parked)-1).Draw(rt, "pick")]
			if cur >= 0 && pick != cur && !sched.Tasks()[cur].Done {
				switches++
			}
			cur = pick
			return pick
		})
		trace := sched.Trace
		if serr != nil {
			sched.RunToEnd(10 * time.Second)
			t.Fatalf("harness: %v", serr)
		}
		r.Gate, r.GateAfter = nil, nil
		lm.cache = lm.cache.(*c17GatedCache).inner
		var hist []string
		for i, ops := range tasks {
			for _, o := range ops {
				hist = append(hist, fmt.Sprintf("T%d: %s(%d) -> %s", i, o.kind, o.arg, o.out))
			}
		}
		if len(trace) > 80 {
			trace = trace[:80]
		}
		detail := map[string]any{"key_type": kt.String(), "versions_before": versions, "lru_cache": lruCache, "tasks": hist, "schedule": trace}
		// ---- oracle: cache agrees with storage
		fresh, _ := NewLockManager(false, 0)
		ps, _, err := fresh.GetPolicy(c17Ctx, PolicyRequest{Storage: st, Name: c17Name}, rand.Reader)
		if err != nil || ps == nil {
			rec.Violation(rt, "policy-unloadable:after-concurrent-requests", detail, "the stored policy cannot be loaded after the concurrent requests: %v", err)
			return
		}
		stored := fmt.Sprintf("latest=%d min_dec=%d min_enc=%d archive=%d keys=%d", ps.LatestVersion, ps.MinDecryptionVersion, ps.MinEncryptionVersion, ps.ArchiveVersion, len(ps.Keys))
		storedMinDec, storedLatest := ps.MinDecryptionVersion, ps.LatestVersion
		ps.Unlock()
		pc, _, err := lm.GetPolicy(c17Ctx, PolicyRequest{Storage: st, Name: c17Name}, rand.Reader)
		if err != nil || pc == nil {
			rec.Violation(rt, "policy-unloadable:after-concurrent-requests", detail, "the policy cannot be obtained through the lock manager after the concurrent requests: %v", err)
			return
		}
		cached := fmt.Sprintf("latest=%d min_dec=%d min_enc=%d archive=%d keys=%d", pc.LatestVersion, pc.MinDecryptionVersion, pc.MinEncryptionVersion, pc.ArchiveVersion, len(pc.Keys))
		decOK := false
		if ct1 != "" {
			_, derr := pc.DecryptWithFactory(nil, nil, ct1)
			decOK = derr == nil
		}
		pc.Unlock()
		if cached != stored {
			rec.Violation(rt, "cached-policy-differs-from-stored-policy", detail, "after all concurrent requests finished the lock manager serves a policy (%s) that differs from the one in storage (%s): an acknowledged, persisted change is invisible to later requests; history %v", cached, stored, hist)
		}
		if storedLatest != versions+rotationsAcked {
			rec.Violation(rt, "acknowledged-rotation-lost", detail, "%d rotations were acknowledged on a key with %d versions but the stored policy is at version %d; history %v", rotationsAcked, versions, storedLatest, hist)
		}
		if ct1 != "" && decOK != (storedMinDec <= 1) {
			rec.Violation(rt, "decryption-ignores-stored-minimum-version", detail, "a version-1 ciphertext decrypts=%v although the stored min_decryption_version is %d; history %v", decOK, storedMinDec, hist)
		}
		rec.Case(kt.String(), switches > 0 && writers > 0, verifx.Digest(kt.String(), versions, lruCache, hist, trace), func() any { return detail })
		if switches > 0 {
			rec.Class("with-preemption", 1)
		}
	})
}

// First use of a key name by several requests at once (N workers start and encrypt under a fresh key name): every
// request asks the lock manager for the policy with Upsert, as transit's encrypt/<name> does, and encrypts. However the
// requests interleave, every ciphertext that was returned must decrypt to its plaintext on the policy as it is stored
// afterwards.
func TestVerif_C17_ConcurrentFirstUse(t *testing.T) {
	rec := verifx.NewRecorder("C17", "concurrent-first-use", "2-3 concurrent tasks call LockManager.GetPolicy(Upsert) for a key name that does not exist yet (lock manager with the policy cache on - sync map or LRU - or off, as on a mount with caching disabled; transactional or plain storage) and encrypt a generated plaintext with the policy they got, interleaved at every storage operation and, with the cache on, at every cache access by a generated schedule; afterwards a fresh cache-less lock manager loads the stored policy: every ciphertext a task received must decrypt to its plaintext, and exactly one version 1 exists; non-trivial = a switch between two unfinished tasks")
	defer rec.Flush()
	rapid.Check(t, func(rt *rapid.T) {
		phys := verifx.NewRec(verifx.NewInmem(rapid.Bool().Draw(rt, "transactionalStorage")))
		r := verifx.RecOf(phys)
		r.Logging = false
		st := logical.NewLogicalStorage(phys)
		kt := []KeyType{KeyType_AES256_GCM96, KeyType_ChaCha20_Poly1305}[rapid.IntRange(0, 1).Draw(rt, "keyType")]
		cacheMode := []string{"off", "off", "syncmap", "lru"}[rapid.IntRange(0, 3).Draw(rt, "policyCache")]
		size := 0
		if cacheMode == "lru" {
			size = 10
		}
		lm, err := NewLockManager(cacheMode != "off", size)
		if err != nil {
			t.Fatalf("harness: %v", err)
		}
		sched := verifx.NewSched(r)
		sched.AfterOps = true
		if cacheMode != "off" {
			lm.cache = &c17GatedCache{inner: lm.cache, s: sched}
		}
		defer func() {
			sched.RunToEnd(20 * time.Second)
			r.Gate, r.GateAfter, r.TaskOf = nil, nil, nil
		}()
		type task struct {
			pt       string
			ct       string
			err      error
			upserted bool
		}
		n := rapid.IntRange(2, 3).Draw(rt, "tasks")
		tasks := make([]*task, n)
		for i := range tasks {
			tk := &task{pt: b64(c17Bytes(rt, "pt", 1, 16))}
			tasks[i] = tk
			sched.Spawn(fmt.Sprintf("encrypt%d", i), func() {
				p, ups, err := lm.GetPolicy(c17Ctx, PolicyRequest{Storage: st, Name: c17Name, KeyType: kt, Upsert: true}, rand.Reader)
				if err != nil || p == nil {
					tk.err = fmt.Errorf("GetPolicy: %v", err)
					return
				}
				tk.upserted = ups
				defer p.Unlock() // held for the whole request, as transit's encrypt path does
				tk.ct, tk.err = p.EncryptWithFactory(0, nil, nil, tk.pt)
			})
		}
		switches, cur := 0, -1
		serr := sched.Run(func(parked []int) int {
			stay := false
			for _, p := range parked {
				if p == cur {
					stay = true
				}
			}
			if stay && rapid.IntRange(0, 9).Draw(rt, "step") < 6 {
				return cur
			}
			pick := parked[rapid.IntRange(0, len(parked)-1).Draw(rt, "pick")]
			if cur >= 0 && pick != cur && !sched.Tasks()[cur].Done {
				switches++
			}
			cur = pick
			return pick
		})
		trace := sched.Trace
		if serr != nil {
			sched.RunToEnd(10 * time.Second)
			t.Fatalf("harness: %v", serr)
		}
		r.Gate, r.GateAfter = nil, nil
		if len(trace) > 100 {
			trace = trace[:100]
		}
		detail := map[string]any{"cache": cacheMode, "key_type": kt.String(), "schedule": trace}
		lm2, _ := NewLockManager(false, 0)
		p2, _, err := lm2.GetPolicy(c17Ctx, PolicyRequest{Storage: st, Name: c17Name}, rand.Reader)
		if err != nil || p2 == nil {
			for i, tk := range tasks {
				if tk.err == nil && tk.ct != "" {
					rec.Violation(rt, "first-use-ciphertext-without-stored-key", detail, "task %d received a ciphertext, but no policy is stored afterwards (%v)", i, err)
				}
			}
		} else {
			for i, tk := range tasks {
				if tk.err != nil || tk.ct == "" {
					continue
				}
				back, derr := p2.DecryptWithFactory(nil, nil, tk.ct)
				if derr != nil || back != tk.pt {
					rec.Violation(rt, "first-use-ciphertext-undecryptable", detail, "task %d (upserted=%v) received ciphertext %s for its plaintext, but the policy as stored afterwards answers %v / %q: the key it was made with was overwritten by another first use", i, tk.upserted, verifx.Trunc(tk.ct, 40), derr, verifx.Trunc(back, 24))
				}
			}
			p2.Unlock()
		}
		rec.Case("cache="+cacheMode, switches > 0, verifx.Digest(cacheMode, trace), func() any { return detail })
	})
}
