//go:build verif

package framework

import (
	"context"
	"fmt"
	"math"
	"strings"
	"testing"
	"time"

	"github.com/openbao/openbao/sdk/v2/helper/verifx"
	"github.com/openbao/openbao/sdk/v2/logical"
	"pgregory.net/rapid"
)

// C05a — lifetimes bounded by max TTL at the framework level.
//
// Reference model (written from the property statement, the doc comments of CalculateTTL and the comments of
// its callers expiration.go Renew/RenewToken and the token store):
//
//   effMax   = the smallest positive value among (system/mount max, backend max, explicit max)
//   request  = increment if > 0, else backend TTL if > 0, else the system default
//   start    = issue time truncated to the second (the code says "Truncate all times to the second since that
//              is the lowest precision for TTLs"); the zero time means "issued now"
//
//   non-periodic:  a granted ttl satisfies 0 < ttl <= request and  now + ttl <= start + effMax
//   periodic:      a granted ttl satisfies 0 < ttl <= min(period, effMax) and, when an explicit max is set,
//                  now + ttl <= start + explicitMax
//
// "now" is the second-truncated clock read inside the call. The harness reads the clock before (t0) and after
// (t1) the call; trunc(t0) <= now <= trunc(t1), so "ttl <= start + bound - trunc(t0)" is implied by the model
// for every possible interleaving and needs no tolerance, and an error is only legitimate when the bound is
// already exhausted at trunc(t1) (or when the system view reports a non-positive maximum, which the code guards
// with "should never happen").
//
// Deliberately NOT asserted (not part of the statement): that the ttl is not capped more than necessary
// (it is only counted, as `exact_model_matches`), the text/number of warnings, the error text.

const c05Sec = int64(time.Second)

type c05Params struct {
	SysDefault, SysMax                                 time.Duration
	Increment, BackendTTL, Period, BackendMax, ExplMax time.Duration
	ZeroStart                                          bool
	Elapsed                                            time.Duration
	ElapsedClass                                       string
}

func (p c05Params) sample() map[string]any {
	return map[string]any{
		"sys_default": p.SysDefault.String(), "sys_max": p.SysMax.String(), "increment": p.Increment.String(),
		"backend_ttl": p.BackendTTL.String(), "period": p.Period.String(), "backend_max": p.BackendMax.String(),
		"explicit_max": p.ExplMax.String(), "zero_start": p.ZeroStart, "elapsed": p.Elapsed.String(), "elapsed_class": p.ElapsedClass,
	}
}

func c05MinPositive(vs ...time.Duration) time.Duration {
	var m time.Duration
	for _, v := range vs {
		if v > 0 && (m == 0 || v < m) {
			m = v
		}
	}
	return m
}

var c05Bases = []time.Duration{
	time.Second, 2 * time.Second, 3 * time.Second, 10 * time.Second, time.Minute, 90 * time.Second, time.Hour,
	24 * time.Hour, 768 * time.Hour, 1500 * time.Millisecond, 2*time.Hour + 333*time.Millisecond,
}

const (
	c05Huge     = 876000 * time.Hour // 100 years
	c05MaxInt64 = time.Duration(math.MaxInt64)
)

// c05Lattice draws one value of {0, 1s, small, =m, m-1s, m+1s, huge, negative} relative to m.
func c05Lattice(rt *rapid.T, label string, m time.Duration) time.Duration {
	switch rapid.IntRange(0, 9).Draw(rt, label) {
	case 0, 1:
		return 0
	case 2:
		return time.Second
	case 3:
		// small: strictly below m (when m allows), whole or fractional seconds
		if m <= 1 {
			return 1
		}
		if m >= 3*time.Second && rapid.IntRange(0, 3).Draw(rt, label+"-small-whole") > 0 {
			return time.Duration(rapid.Int64Range(1, int64(m/time.Second)-1).Draw(rt, label+"-small-s")) * time.Second
		}
		return time.Duration(rapid.Int64Range(1, int64(m)-1).Draw(rt, label+"-small"))
	case 4:
		return m
	case 5:
		return m - time.Second
	case 6:
		return m + time.Second
	case 7:
		if rapid.Bool().Draw(rt, label+"-maxint") {
			return c05MaxInt64
		}
		return c05Huge
	case 8:
		return -time.Duration(rapid.Int64Range(1, int64(24*time.Hour)).Draw(rt, label+"-neg"))
	default:
		// between m and 2m
		return m + time.Duration(rapid.Int64Range(1, int64(m)).Draw(rt, label+"-above"))
	}
}

func c05DrawParams(rt *rapid.T, allowBadSys bool) c05Params {
	m := rapid.SampledFrom(c05Bases).Draw(rt, "base")
	var p c05Params
	// system/mount maximum: always positive for a real mount (core default 768h, tune 0 = inherit); the
	// non-positive values are a separate small class where only the upper bounds are asserted.
	switch k := rapid.IntRange(0, 11).Draw(rt, "sysmax"); {
	case k <= 4:
		p.SysMax = m
	case k == 5:
		p.SysMax = m + time.Second
	case k == 6:
		p.SysMax = m - time.Second
		if p.SysMax <= 0 {
			p.SysMax = m
		}
	case k == 7:
		p.SysMax = 2 * m
	case k == 8:
		p.SysMax = c05Huge
	case k == 9:
		p.SysMax = 768 * time.Hour
	case k == 10:
		p.SysMax = time.Duration(rapid.Int64Range(1, int64(2*m)).Draw(rt, "sysmax-any"))
	default:
		if allowBadSys {
			p.SysMax = rapid.SampledFrom([]time.Duration{0, -time.Second, -time.Hour}).Draw(rt, "sysmax-bad")
		} else {
			p.SysMax = m
		}
	}
	switch rapid.IntRange(0, 4).Draw(rt, "sysdef") {
	case 0:
		p.SysDefault = time.Second
	case 1:
		p.SysDefault = m / 2
		if p.SysDefault <= 0 {
			p.SysDefault = 1
		}
	case 2:
		p.SysDefault = m
	case 3:
		p.SysDefault = 2 * m
	default:
		p.SysDefault = 768 * time.Hour
	}
	p.Increment = c05Lattice(rt, "increment", m)
	p.BackendTTL = c05Lattice(rt, "backendTTL", m)
	if rapid.IntRange(0, 2).Draw(rt, "periodic") == 0 {
		p.Period = c05Lattice(rt, "period", m)
	}
	p.BackendMax = c05Lattice(rt, "backendMax", m)
	p.ExplMax = c05Lattice(rt, "explicitMax", m)

	eff := c05MinPositive(p.SysMax, p.BackendMax, p.ExplMax)
	ref := eff
	if p.Period > 0 && p.ExplMax > 0 && rapid.Bool().Draw(rt, "elapsed-vs-explicit") {
		ref = p.ExplMax
	}
	if ref <= 0 {
		ref = m
	}
	switch rapid.IntRange(0, 8).Draw(rt, "elapsed") {
	case 0:
		p.ZeroStart, p.ElapsedClass = true, "zero-time"
	case 1:
		p.Elapsed, p.ElapsedClass = 0, "0"
	case 2, 3:
		p.Elapsed, p.ElapsedClass = time.Duration(rapid.Int64Range(0, int64(ref)-1).Draw(rt, "elapsed-below")), "<max"
	case 4:
		p.Elapsed, p.ElapsedClass = ref-time.Second, "max-1s"
		if p.Elapsed < 0 {
			p.Elapsed = 0
		}
	case 5:
		p.Elapsed, p.ElapsedClass = ref, "=max"
	case 6:
		p.Elapsed, p.ElapsedClass = ref+time.Second, "max+1s"
	case 7:
		p.Elapsed, p.ElapsedClass = ref-2*time.Second, "max-2s"
		if p.Elapsed < 0 {
			p.Elapsed = 0
		}
	default:
		if ref > c05Huge {
			p.Elapsed = ref
		} else {
			p.Elapsed = ref + time.Duration(rapid.Int64Range(1, int64(ref)).Draw(rt, "elapsed-above"))
		}
		p.ElapsedClass = ">max"
	}
	// keep start times representable and sane (not before year 1800)
	if p.Elapsed > 200*365*24*time.Hour || p.Elapsed < 0 {
		p.Elapsed = 200 * 365 * 24 * time.Hour
	}
	return p
}

type c05Outcome struct {
	TTL      time.Duration
	Warnings []string
	Err      error
	T0, T1   time.Time
	Start    time.Time // as handed to the function (zero when ZeroStart)
}

// c05Verdict applies the reference model to one observed call. Returns (class, nontrivial).
func c05Verdict(rt verifx.TB, rec *verifx.Recorder, p c05Params, o c05Outcome, where string) (string, bool) {
	eff := c05MinPositive(p.SysMax, p.BackendMax, p.ExplMax)
	periodic := p.Period > 0
	t0s, t1s := o.T0.Unix(), o.T1.Unix()
	// remaining(bound, at) = start + bound - at, in ns, computed on whole seconds (start and at are second
	// truncated, bound may carry a fraction). For the zero start the start is the call's own "now".
	remainingHi := func(bound time.Duration) time.Duration { // largest value the model allows
		if p.ZeroStart {
			return bound
		}
		return time.Duration((o.Start.Unix()-t0s)*c05Sec) + bound
	}
	remainingLo := func(bound time.Duration) time.Duration { // smallest value the model allows
		if p.ZeroStart {
			return bound
		}
		return time.Duration((o.Start.Unix()-t1s)*c05Sec) + bound
	}
	detail := func() map[string]any {
		d := p.sample()
		d["where"] = where
		d["ttl"] = o.TTL.String()
		d["eff_max"] = eff.String()
		d["err"] = fmt.Sprint(o.Err)
		d["start_unix"] = o.Start.Unix()
		d["t0_unix"], d["t1_unix"] = t0s, t1s
		return d
	}
	kind := "nonperiodic"
	if periodic {
		kind = "periodic"
		if p.ExplMax > 0 {
			kind = "periodic+explicit"
		}
	}

	if o.Err != nil {
		// When is a refusal legitimate?
		switch {
		case p.SysMax <= 0:
			return kind + ":error-sysmax<=0", false
		case !periodic && remainingLo(eff) <= 0:
			return kind + ":error-past-max", true
		case periodic && p.ExplMax > 0 && remainingLo(p.ExplMax) <= 0:
			return kind + ":error-past-explicit-max", true
		}
		rec.Violation(rt, "unexpected-error:"+kind, detail(),
			"%s: CalculateTTL refused (%v) although the lease is within its bound (effMax %s, elapsed %s)", where, o.Err, eff, p.Elapsed)
		return kind + ":error-unexpected", false
	}

	ttl := o.TTL
	if ttl <= 0 {
		rec.Violation(rt, "ttl-not-positive:"+kind, detail(), "%s: CalculateTTL granted ttl %s without an error", where, ttl)
	}
	if eff > 0 && ttl > eff {
		rec.Violation(rt, "ttl-exceeds-effmax:"+kind, detail(), "%s: ttl %s exceeds the effective max TTL %s", where, ttl, eff)
	}
	var model time.Duration // what the documentation implies when trunc(t0)==trunc(t1)
	capped := false
	if !periodic {
		requested := p.SysDefault
		switch {
		case p.Increment > 0:
			requested = p.Increment
		case p.BackendTTL > 0:
			requested = p.BackendTTL
		}
		if ttl > requested {
			rec.Violation(rt, "ttl-exceeds-requested", detail(), "%s: ttl %s exceeds the requested %s", where, ttl, requested)
		}
		if eff > 0 {
			if hi := remainingHi(eff); ttl > hi {
				rec.Violation(rt, "expiry-past-issue+effmax", detail(),
					"%s: ttl %s granted %s after issue moves the expiry past issue + effMax (%s): at most %s was left", where, ttl, p.Elapsed, eff, hi)
			}
			model = min(requested, remainingHi(eff))
		}
		capped = ttl < requested
	} else {
		if ttl > p.Period {
			rec.Violation(rt, "ttl-exceeds-period", detail(), "%s: periodic ttl %s exceeds the period %s", where, ttl, p.Period)
		}
		model = min(p.Period, eff)
		if p.ExplMax > 0 {
			if hi := remainingHi(p.ExplMax); ttl > hi {
				rec.Violation(rt, "periodic-expiry-past-issue+explicitmax", detail(),
					"%s: periodic ttl %s granted %s after issue moves the expiry past issue + explicit max (%s): at most %s was left", where, ttl, p.Elapsed, p.ExplMax, hi)
			}
			model = min(model, remainingHi(p.ExplMax))
		}
		capped = ttl < p.Period
	}
	if t0s == t1s && p.SysMax > 0 {
		if ttl == model {
			rec.Class("exact_model_matches", 1)
		} else {
			rec.Class("exact_model_differs", 1)
		}
	}
	if len(o.Warnings) > 0 {
		rec.Class("with_warning", 1)
	}
	if capped {
		return kind + ":capped", true
	}
	return kind + ":uncapped", periodic && p.ExplMax > 0
}

func c05Call(p c05Params) c05Outcome {
	sys := logical.StaticSystemView{DefaultLeaseTTLVal: p.SysDefault, MaxLeaseTTLVal: p.SysMax}
	var o c05Outcome
	o.T0 = time.Now()
	if !p.ZeroStart {
		o.Start = o.T0.Add(-p.Elapsed)
	}
	o.TTL, o.Warnings, o.Err = CalculateTTL(sys, p.Increment, p.BackendTTL, p.Period, p.BackendMax, p.ExplMax, o.Start)
	o.T1 = time.Now()
	if !p.ZeroStart {
		o.Start = o.Start.Truncate(time.Second)
	}
	return o
}

func TestVerif_C05_CalculateTTL(t *testing.T) {
	rec := verifx.NewRecorder("C05", "calculate-ttl",
		"framework.CalculateTTL over the lattice {0,1s,small,=max,max±1s,huge,negative} for increment, backend TTL, period, backend max, explicit max; system default/max from logical.StaticSystemView; issue time = now - elapsed with elapsed in {zero time, 0, <max, max-2s, max-1s, =max, max+1s, >max}; the call is bracketed by clock readings so the bound is exact; non-trivial = the granted ttl was capped by a maximum (below the requested value / period), the call was refused because the bound was exhausted, or a periodic token with an explicit max")
	defer rec.Flush()
	rapid.Check(t, func(rt *rapid.T) {
		p := c05DrawParams(rt, true)
		var o c05Outcome
		if pv := verifx.Try(func() { o = c05Call(p) }); pv != nil {
			rec.Violation(rt, "calculate-ttl-panic", p.sample(), "CalculateTTL panicked: %v", pv)
			return
		}
		class, nt := c05Verdict(rt, rec, p, o, "single call")
		rec.Class("elapsed:"+p.ElapsedClass, 1)
		rec.Case(class, nt, verifx.Digest("c05", p.SysDefault, p.SysMax, p.Increment, p.BackendTTL, p.Period, p.BackendMax, p.ExplMax, p.ZeroStart, p.Elapsed), func() any {
			s := p.sample()
			s["ttl"] = o.TTL.String()
			s["err"] = fmt.Sprint(o.Err)
			s["warnings"] = o.Warnings
			s["class"] = class
			return s
		})
	})
}

// TestVerif_C05_RenewSequences folds renewals: a lease/token is issued, then renewed k times with generated
// increments while (virtual) time since issue advances. Each renewal goes either directly through CalculateTTL
// with the arguments the expiration manager passes (expiration.go Renew / RenewToken), or first through the
// deprecated framework.LeaseExtend handler (which must pass the backend values through unchanged) and then
// through CalculateTTL on the values it returned. The wall clock cannot be advanced, so virtual time is
// realised by moving the issue time into the past: at virtual elapsed e the function is called with
// start = now - e. The absolute expiry relative to issue, e + ttl, must never exceed effMax.
func TestVerif_C05_RenewSequences(t *testing.T) {
	rec := verifx.NewRecorder("C05", "renew-sequences",
		"issue + up to 8 renewals with generated increments (lattice values relative to the max) and advancing time since issue (a generated fraction of the remaining ttl, sometimes past the expiry or past the max); half of the sequences route each renewal through framework.LeaseExtend for a Secret or an Auth first; every step is checked with the bracketed bound and the absolute expiry since issue is tracked; non-trivial = at least one renewal was capped or refused because the bound was reached")
	defer rec.Flush()
	ctx := context.Background()
	rapid.Check(t, func(rt *rapid.T) {
		base := c05DrawParams(rt, false)
		base.ZeroStart, base.Elapsed, base.ElapsedClass = true, 0, "issue"
		base.Increment = 0                                  // issuance has no increment (request_handling.go passes 0)
		viaExtend := rapid.IntRange(0, 2).Draw(rt, "route") // 0 direct, 1 LeaseExtend+Secret, 2 LeaseExtend+Auth
		if viaExtend == 1 {
			// secrets have neither period nor explicit max (expiration.go Renew passes 0 for both)
			base.Period, base.ExplMax = 0, 0
		}
		eff := c05MinPositive(base.SysMax, base.BackendMax, base.ExplMax)
		periodicUnbounded := base.Period > 0 && base.ExplMax <= 0
		steps := rapid.IntRange(1, 8).Draw(rt, "steps")
		sys := logical.StaticSystemView{DefaultLeaseTTLVal: base.SysDefault, MaxLeaseTTLVal: base.SysMax}

		var elapsed time.Duration // virtual time since issue
		var lastTTL time.Duration
		capped, refused, maxExpiry := 0, 0, time.Duration(0)
		trace := []map[string]any{}
		for i := 0; i <= steps; i++ {
			p := base
			where := "issue"
			if i > 0 {
				where = fmt.Sprintf("renewal %d of %d", i, steps)
				p.ZeroStart = false
				p.Increment = c05Lattice(rt, "increment", eff)
				// advance virtual time
				switch rapid.IntRange(0, 5).Draw(rt, "advance") {
				case 0:
					// immediately
				case 1, 2, 3:
					if lastTTL > 1 {
						elapsed += time.Duration(rapid.Int64Range(1, int64(lastTTL)-1).Draw(rt, "within"))
					}
				case 4:
					elapsed += lastTTL // exactly at expiry
				default:
					elapsed += lastTTL + time.Second
				}
				if elapsed > 200*365*24*time.Hour || elapsed < 0 {
					elapsed = 200 * 365 * 24 * time.Hour
				}
				p.Elapsed, p.ElapsedClass = elapsed, "renew"
			}
			var o c05Outcome
			pv := verifx.Try(func() {
				if i == 0 || viaExtend == 0 {
					o = c05Call(p)
					return
				}
				// the path of a backend that still uses LeaseExtend as its renew handler
				o.T0 = time.Now()
				o.Start = o.T0.Add(-p.Elapsed)
				req := &logical.Request{Operation: logical.RenewOperation}
				h := LeaseExtend(p.BackendTTL, p.BackendMax, sys)
				if viaExtend == 1 {
					req.Secret = &logical.Secret{LeaseOptions: logical.LeaseOptions{TTL: lastTTL, Increment: p.Increment, IssueTime: o.Start, Renewable: true}}
					resp, err := h(ctx, req, nil)
					if err != nil || resp == nil || resp.Secret == nil {
						rt.Fatalf("harness: LeaseExtend(secret) returned %v, %v", resp, err)
					}
					if resp.Secret.TTL != p.BackendTTL || resp.Secret.MaxTTL != p.BackendMax {
						rec.Violation(rt, "lease-extend-changes-values", p.sample(), "LeaseExtend returned ttl %s max %s, backend passed %s / %s", resp.Secret.TTL, resp.Secret.MaxTTL, p.BackendTTL, p.BackendMax)
					}
					o.TTL, o.Warnings, o.Err = CalculateTTL(sys, p.Increment, resp.Secret.TTL, 0, resp.Secret.MaxTTL, 0, o.Start)
				} else {
					req.Auth = &logical.Auth{LeaseOptions: logical.LeaseOptions{TTL: lastTTL, Increment: p.Increment, IssueTime: o.Start, Renewable: true}, Period: p.Period, ExplicitMaxTTL: p.ExplMax}
					resp, err := h(ctx, req, nil)
					if err != nil || resp == nil || resp.Auth == nil {
						rt.Fatalf("harness: LeaseExtend(auth) returned %v, %v", resp, err)
					}
					if resp.Auth.TTL != p.BackendTTL || resp.Auth.MaxTTL != p.BackendMax || resp.Auth.Period != p.Period || resp.Auth.ExplicitMaxTTL != p.ExplMax {
						rec.Violation(rt, "lease-extend-changes-values", p.sample(), "LeaseExtend returned ttl %s max %s period %s explicit %s", resp.Auth.TTL, resp.Auth.MaxTTL, resp.Auth.Period, resp.Auth.ExplicitMaxTTL)
					}
					o.TTL, o.Warnings, o.Err = CalculateTTL(sys, p.Increment, resp.Auth.TTL, resp.Auth.Period, resp.Auth.MaxTTL, resp.Auth.ExplicitMaxTTL, o.Start)
				}
				o.T1 = time.Now()
				o.Start = o.Start.Truncate(time.Second)
			})
			if pv != nil {
				rec.Violation(rt, "calculate-ttl-panic", p.sample(), "%s: panicked: %v", where, pv)
				return
			}
			class, _ := c05Verdict(rt, rec, p, o, where)
			trace = append(trace, map[string]any{"step": where, "elapsed": elapsed.String(), "increment": p.Increment.String(), "ttl": o.TTL.String(), "err": fmt.Sprint(o.Err), "class": class})
			if o.Err != nil {
				refused++
				break // the lease is gone: the expiration manager returns the error and the lease expires
			}
			lastTTL = o.TTL
			if i == 0 {
				// virtual issue instant = the second-truncated "now" of the issuing call
				elapsed = 0
			}
			// absolute expiry relative to the (second-truncated) issue time. The function sees
			// elapsed' = now - trunc(start) which is at least the whole seconds of `elapsed`.
			if !periodicUnbounded {
				bound := eff
				if base.Period > 0 {
					bound = base.ExplMax
				}
				whole := elapsed.Truncate(time.Second)
				if exp := whole + o.TTL; exp > bound && exp > 0 {
					d := base.sample()
					d["trace"] = trace
					rec.Violation(rt, "renewals-move-expiry-past-bound", d,
						"%s: %s after issue a ttl of %s was granted: expiry %s after issue exceeds the bound %s", where, elapsed, o.TTL, exp, bound)
				}
				if exp := whole + o.TTL; exp > maxExpiry {
					maxExpiry = exp
				}
			}
			if strings.HasSuffix(class, ":capped") {
				capped++
			}
		}
		kind := []string{"direct", "lease-extend-secret", "lease-extend-auth"}[viaExtend]
		switch {
		case base.Period > 0 && base.ExplMax > 0:
			kind += ":periodic+explicit"
		case base.Period > 0:
			kind += ":periodic"
		default:
			kind += ":nonperiodic"
		}
		rec.Class(fmt.Sprintf("renewals_capped:%d", min(capped, 3)), 1)
		rec.Class(fmt.Sprintf("refused:%d", refused), 1)
		rec.Case(kind, capped > 0 && len(trace) > 1 || refused > 0 && len(trace) > 1, verifx.Digest("c05seq", viaExtend, base.SysDefault, base.SysMax, base.BackendTTL, base.Period, base.BackendMax, base.ExplMax, fmt.Sprint(trace)), func() any {
			s := base.sample()
			s["route"] = kind
			s["eff_max"] = eff.String()
			s["trace"] = trace
			s["max_expiry_after_issue"] = maxExpiry.String()
			return s
		})
	})
}
