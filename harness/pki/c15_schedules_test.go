//go:build verif

package pki

// C15, issuer configuration histories with concurrent requests.
//
// "... has a validity ending no later than the issuer's (unless the issuer is configured to permit that)": the
// configuration in force is the result of a history of issuer updates (POST = all fields, PATCH = only the fields
// named), some of which run concurrently. Generated: a short-lived issuer with a generated leaf_not_after_behavior,
// 0-2 sequential configuration requests, then TWO requests (PATCH issuer / POST issuer / issue a leaf that would
// outlive the issuer) run as tasks of the storage-step scheduler (verifx.Sched): every single preemption of the first
// task (it is stopped before or after its k-th storage operation, the other runs until it is done or blocked on a
// lock, then the first goes on; fresh mount per k), or random stay-or-switch walks. The reference model keeps the SET
// of values leaf_not_after_behavior may have after the acknowledged requests: a request that names the field sets it,
// a request that does not name it leaves it alone (PATCH semantics of the documentation), two overlapping requests
// that both name it leave either value. Oracle (the one of the issue unit): a certificate issued once both requests
// were acknowledged may end after the issuer only if "permit" is among the possible values; a certificate issued
// concurrently with the updates only if "permit" is possible before or after them.

import (
	"crypto/x509"
	"fmt"
	"sort"
	"strings"
	"testing"
	"time"

	"github.com/openbao/openbao/sdk/v2/helper/verifx"
	"github.com/openbao/openbao/sdk/v2/logical"
	"pgregory.net/rapid"
)

type c15CfgReq struct {
	Kind   string         // patch | post | issue
	Ref    string         // id | default
	Fields map[string]any // patch / post
}

func (r *c15CfgReq) names(f string) bool { _, ok := r.Fields[f]; return ok }

func (r *c15CfgReq) String() string {
	if r.Kind == "issue" {
		return "issue(ttl beyond issuer)"
	}
	ks := make([]string, 0, len(r.Fields))
	for k := range r.Fields {
		ks = append(ks, fmt.Sprintf("%s=%v", k, r.Fields[k]))
	}
	sort.Strings(ks)
	return fmt.Sprintf("%s issuer/<%s> {%s}", strings.ToUpper(r.Kind), r.Ref, strings.Join(ks, " "))
}

var (
	c15Behaviours = []string{"err", "permit", "truncate"}
	c15CfgUsages  = [][]string{{"issuing-certificates", "crl-signing"}, {"issuing-certificates", "crl-signing", "ocsp-signing"}, {"read-only", "issuing-certificates", "crl-signing", "ocsp-signing"}}
	c15CfgURLs    = [][]string{{"http://ca.example.com/issuer"}, {}, {"http://ca.example.com/a", "http://ca.example.com/b"}}
)

// c15Tightening: values of leaf_not_after_behavior for the racing requests. The statement binds the engine only while
// "permit" is NOT configured, so the histories that matter end in err / truncate.
var c15Tightening = []string{"err", "truncate", "err", "permit", "truncate"}

// c15DrawCfgReq: a configuration request. behaviour: +1 = names leaf_not_after_behavior, -1 = does not, 0 = as drawn.
func c15DrawCfgReq(rt *rapid.T, label string, allowIssue bool, behaviour int, values []string) *c15CfgReq {
	r := &c15CfgReq{Fields: map[string]any{}}
	kinds := []string{"patch", "patch", "patch", "patch", "post"}
	if allowIssue {
		kinds = append(kinds, "issue")
	}
	r.Kind = rapid.SampledFrom(kinds).Draw(rt, label+"Kind")
	if r.Kind == "issue" {
		return r
	}
	r.Ref = rapid.SampledFrom([]string{"id", "default"}).Draw(rt, label+"Ref")
	if r.Kind == "post" && behaviour >= 0 { // a POST states the whole configuration
		r.Fields["issuer_name"] = rapid.SampledFrom([]string{"root", "ca-2026", "ca-2027"}).Draw(rt, label+"Name")
		r.Fields["leaf_not_after_behavior"] = rapid.SampledFrom(values).Draw(rt, label+"Behaviour")
		r.Fields["usage"] = append([]string{}, rapid.SampledFrom(c15CfgUsages).Draw(rt, label+"Usage")...)
		return r
	}
	r.Kind = "patch"
	fields := []string{"issuer_name", "usage", "issuing_certificates", "crl_distribution_points", "issuer_name"}
	if behaviour == 0 {
		fields = append(fields, "leaf_not_after_behavior", "leaf_not_after_behavior")
	}
	n := rapid.IntRange(1, 2).Draw(rt, label+"NFields")
	if behaviour > 0 {
		r.Fields["leaf_not_after_behavior"] = rapid.SampledFrom(values).Draw(rt, label+"Behaviour")
		n--
	}
	for i := 0; i < n; i++ {
		switch f := rapid.SampledFrom(fields).Draw(rt, label+"Field"); f {
		case "leaf_not_after_behavior":
			r.Fields[f] = rapid.SampledFrom(values).Draw(rt, label+"Behaviour")
		case "issuer_name":
			r.Fields[f] = rapid.SampledFrom([]string{"ca-2026", "ca-2027", "root"}).Draw(rt, label+"Name")
		case "usage":
			r.Fields[f] = append([]string{}, rapid.SampledFrom(c15CfgUsages).Draw(rt, label+"Usage")...)
		default:
			r.Fields[f] = append([]string{}, rapid.SampledFrom(c15CfgURLs).Draw(rt, label+"URLs")...)
		}
	}
	return r
}

type c15CfgScenario struct {
	B0       string
	Second   bool // a second, unrelated issuer exists on the mount
	Pre      []*c15CfgReq
	Req      [2]*c15CfgReq
	First    int
	K        int // single preemption after K scheduling points of the first task; -1 = walk
	ProbeVia string
}

func c15DrawCfgScenario(rt *rapid.T) *c15CfgScenario {
	sc := &c15CfgScenario{B0: rapid.SampledFrom([]string{"permit", "err", "permit", "truncate"}).Draw(rt, "initialBehaviour"), Second: rapid.Bool().Draw(rt, "secondIssuer")}
	for i, n := 0, rapid.IntRange(0, 2).Draw(rt, "nEarlier"); i < n; i++ {
		sc.Pre = append(sc.Pre, c15DrawCfgReq(rt, "earlier", false, 0, c15Behaviours))
	}
	// the pair: mostly updates of DIFFERENT fields (one names leaf_not_after_behavior, the other does not: whatever
	// the interleaving, both must be in force afterwards), otherwise whatever is drawn (incl. issue racing an update)
	switch rapid.SampledFrom([]string{"disjoint", "free", "disjoint"}).Draw(rt, "pairShape") {
	case "disjoint":
		namer := rapid.IntRange(0, 1).Draw(rt, "namer")
		sc.Req[namer] = c15DrawCfgReq(rt, "namer", false, +1, c15Tightening)
		sc.Req[1-namer] = c15DrawCfgReq(rt, "other", false, -1, nil)
	default:
		sc.Req[0] = c15DrawCfgReq(rt, "a", true, 0, c15Tightening)
		sc.Req[1] = c15DrawCfgReq(rt, "b", sc.Req[0].Kind != "issue", 0, c15Tightening)
	}
	sc.First = rapid.IntRange(0, 1).Draw(rt, "firstTask")
	sc.ProbeVia = rapid.SampledFrom([]string{"issue/r", "issuer/<id>/issue/r", "sign/r"}).Draw(rt, "probe")
	return sc
}

type c15Set map[string]bool

func (s c15Set) String() string {
	var ks []string
	for k := range s {
		ks = append(ks, k)
	}
	sort.Strings(ks)
	return "{" + strings.Join(ks, ",") + "}"
}

// c15AfterSequential: the possible values after ONE request that ran alone.
func c15AfterSequential(before c15Set, r *c15CfgReq, err error) c15Set {
	if r.Kind == "issue" || !r.names("leaf_not_after_behavior") {
		return before
	}
	v := r.Fields["leaf_not_after_behavior"].(string)
	if err != nil { // a refused request may or may not have taken effect: the model does not guess
		out := c15Set{v: true}
		for k := range before {
			out[k] = true
		}
		return out
	}
	return c15Set{v: true}
}

const c15CfgIssuerTTL = "100m"

// c15CfgRun plays the scenario under one schedule; returns the number of scheduling points of the first task and
// whether it finished before it could be preempted.
func c15CfgRun(rt *rapid.T, rec *verifx.Recorder, sc *c15CfgScenario, walk func(parked []int, cur int) int) (firstOps int, firstDoneBeforePreempt bool) {
	phys := verifx.NewRec(verifx.NewInmem(false))
	vr := verifx.RecOf(phys)
	s := logical.NewLogicalStorage(phys)
	b, err := vxBackend(s, time.Hour, 48*time.Hour)
	if err != nil {
		rt.Fatalf("harness: backend: %v", err)
	}
	defer vxClose(b)
	must := func(what string, resp *logical.Response, err error) *logical.Response {
		if err != nil || resp == nil {
			rt.Fatalf("harness: %s: %v", what, err)
		}
		return resp
	}
	resp, err := vxWrite(b, s, "root/generate/internal", map[string]any{"common_name": "verif short root", "key_type": "ec", "issuer_name": "root", "ttl": c15CfgIssuerTTL})
	resp = must("root/generate", resp, err)
	issuer, err := vxParseCertPEM(vxStr(resp.Data, "certificate"))
	if err != nil {
		rt.Fatalf("harness: %v", err)
	}
	id := fmt.Sprint(resp.Data["issuer_id"])
	if sc.Second {
		r2, err := vxWrite(b, s, "root/generate/internal", map[string]any{"common_name": "verif other root", "key_type": "ec", "issuer_name": "other", "ttl": "8760h"})
		must("second root", r2, err)
	}
	r3, err := vxWrite(b, s, "issuer/"+id, map[string]any{"issuer_name": "root", "leaf_not_after_behavior": sc.B0})
	must("configure issuer", r3, err)
	r4, err := vxWrite(b, s, "config/issuers", map[string]any{"default": id})
	must("config/issuers", r4, err)
	if _, err := vxWrite(b, s, "roles/r", map[string]any{"allow_any_name": true, "enforce_hostnames": false, "key_type": "ec", "max_ttl": "12h", "ttl": "30m", "no_store": true, "issuer_ref": id}); err != nil {
		rt.Fatalf("harness: role: %v", err)
	}
	call := func(r *c15CfgReq) (*logical.Response, error) {
		switch r.Kind {
		case "issue":
			return vxWrite(b, s, "issue/r", map[string]any{"common_name": "racing.example.com", "ttl": "3h"})
		case "post":
			return vxReq(b, s, logical.UpdateOperation, "issuer/"+map[string]string{"id": id, "default": "default"}[r.Ref], c15CopyData(r.Fields))
		default:
			return vxReq(b, s, logical.PatchOperation, "issuer/"+map[string]string{"id": id, "default": "default"}[r.Ref], c15CopyData(r.Fields))
		}
	}
	var history []string
	possible := c15Set{sc.B0: true}
	history = append(history, "issuer created with leaf_not_after_behavior="+sc.B0)
	for _, r := range sc.Pre {
		_, err := call(r)
		possible = c15AfterSequential(possible, r, err)
		history = append(history, fmt.Sprintf("%s -> err=%v", r, err != nil))
	}
	before := possible

	// ---- the two concurrent requests
	var resps [2]*logical.Response
	var errs [2]error
	sched := verifx.NewSched(vr)
	sched.AfterOps = true
	sched.Grace = 2 * time.Second
	defer func() {
		// rapid may abort the property from inside a draw: never leave a task parked
		sched.RunToEnd(20 * time.Second)
		vr.Gate, vr.GateAfter, vr.TaskOf = nil, nil, nil
	}()
	tasks := []*verifx.Task{
		sched.Spawn("a", func() { resps[0], errs[0] = call(sc.Req[0]) }),
		sched.Spawn("b", func() { resps[1], errs[1] = call(sc.Req[1]) }),
	}
	first, second := sc.First, 1-sc.First
	cur := -1
	preempted := false
	secondStarted := false
	rerr := sched.Run(func(parked []int) int {
		has := func(i int) bool {
			for _, p := range parked {
				if p == i {
					return true
				}
			}
			return false
		}
		if walk != nil {
			cur = walk(parked, cur)
			return cur
		}
		if !preempted && tasks[first].Ops < sc.K+1 && has(first) {
			return first
		}
		if !preempted {
			preempted = true
			firstDoneBeforePreempt = tasks[first].Done
			firstOps = tasks[first].Ops
		}
		if has(second) {
			secondStarted = true
			return second
		}
		return parked[0]
	})
	_ = secondStarted
	if !preempted {
		firstDoneBeforePreempt, firstOps = true, tasks[first].Ops
	}
	trace := sched.Trace
	if rerr != nil {
		sched.RunToEnd(10 * time.Second)
		rt.Fatalf("harness: %v", rerr)
	}
	vr.Gate, vr.GateAfter, vr.TaskOf = nil, nil, nil

	// did the two really overlap? (the task that started first took a step after the other had started)
	overlapped := false
	if len(trace) > 0 {
		firstName := trace[0][:strings.Index(trace[0], ":")]
		started := false
		for _, t := range trace {
			if name := t[:strings.Index(t, ":")]; name != firstName {
				started = true
			} else if started {
				overlapped = true
			}
		}
	}
	// order in which they ran when they did not overlap
	order := []int{0, 1}
	if len(trace) > 0 && strings.HasPrefix(trace[0], "b:") {
		order = []int{1, 0}
	}
	for i := range sc.Req {
		history = append(history, fmt.Sprintf("CONCURRENT %s -> err=%v", sc.Req[i], errs[i] != nil))
	}

	// ---- model
	after := before
	if !overlapped {
		for _, i := range order {
			after = c15AfterSequential(after, sc.Req[i], errs[i])
		}
	} else {
		// every linearisation of the two acknowledged requests
		after = c15Set{}
		for _, ord := range [][]int{{0, 1}, {1, 0}} {
			p := before
			for _, i := range ord {
				p = c15AfterSequential(p, sc.Req[i], errs[i])
			}
			for k := range p {
				after[k] = true
			}
		}
	}
	desc := c15TraceShape(trace)
	judge := func(what string, cert *x509.Certificate, allowed c15Set) {
		if e := cert.CheckSignatureFrom(issuer); e != nil {
			rec.Violation(rt, "bad-signature", map[string]any{"history": history, "schedule": desc}, "%s: certificate does not verify under the issuer: %v", what, e)
		}
		if cert.NotAfter.After(issuer.NotAfter) && !allowed["permit"] {
			raw := fmt.Sprintf("%s: a certificate was issued that ends %s after the issuer although leaf_not_after_behavior can only be %s after the acknowledged requests (history: %s; schedule: %s)",
				what, cert.NotAfter.Sub(issuer.NotAfter).Round(10*time.Minute), allowed, strings.Join(history, " ; "), desc)
			rt.Logf("violation notafter-beyond-issuer: %s", raw)
			rec.Violation(rt, "notafter-beyond-issuer", map[string]any{"history": history, "schedule": desc, "possible_behaviours": allowed.String(), "certificate": vxCertPEM(cert),
				"issuer_not_after": issuer.NotAfter.UTC().Format(time.RFC3339)}, "%s", vxStable(raw))
		}
	}
	for i, r := range sc.Req {
		if r.Kind == "issue" && errs[i] == nil && resps[i] != nil {
			cert, perr := vxParseCertPEM(vxStr(resps[i].Data, "certificate"))
			if perr != nil {
				rec.Violation(rt, "response-unparseable", map[string]any{"history": history}, "racing issue succeeded but the certificate does not parse: %v", perr)
				continue
			}
			both := c15Set{}
			for k := range before {
				both[k] = true
			}
			for k := range after {
				both[k] = true
			}
			judge("issue racing the update", cert, both)
			rec.Class("racing-issue-served", 1)
		}
	}
	// ---- probe once everything was acknowledged
	path, data := "issue/r", map[string]any{"common_name": "probe.example.com", "ttl": "3h"}
	switch sc.ProbeVia {
	case "issuer/<id>/issue/r":
		path = "issuer/" + id + "/issue/r"
	case "sign/r":
		q := &c15Req{Endpoint: "sign", CsrCN: "probe.example.com", Key: 0}
		if err := q.buildCSR(); err != nil {
			rt.Fatalf("harness: CSR: %v", err)
		}
		path, data = "sign/r", map[string]any{"common_name": "probe.example.com", "ttl": "3h", "csr": q.csrPEM}
	}
	presp, perr := vxWrite(b, s, path, data)
	outcome := "refused"
	if perr == nil && presp != nil {
		outcome = "issued"
		cert, e := vxParseCertPEM(vxStr(presp.Data, "certificate"))
		if e != nil {
			rec.Violation(rt, "response-unparseable", map[string]any{"history": history}, "%s succeeded but the certificate does not parse: %v", path, e)
		} else {
			if cert.NotAfter.After(issuer.NotAfter) {
				outcome = "issued-beyond-issuer"
			}
			judge(sc.ProbeVia+" after the updates", cert, after)
		}
	} else if perr != nil && !strings.Contains(perr.Error(), "beyond the expiration of the CA") {
		rec.Class("probe-refused-for-another-reason", 1)
		rec.Note("probe refused: %s (history %v)", verifx.Trunc(perr.Error(), 200), history)
	}
	rec.Class("probe:"+outcome+"/model"+after.String(), 1)

	namesBehaviour := sc.Req[0].names("leaf_not_after_behavior") || sc.Req[1].names("leaf_not_after_behavior")
	cls := sc.Req[0].Kind + "||" + sc.Req[1].Kind + "/sequential"
	if overlapped {
		cls = sc.Req[0].Kind + "||" + sc.Req[1].Kind + "/interleaved"
	}
	mode := "preempt"
	if walk != nil {
		mode = "walk"
	}
	rec.Class("mode:"+mode, 1)
	if overlapped && namesBehaviour {
		rec.Class("interleaved-and-one-request-names-leaf_not_after_behavior", 1)
	}
	if overlapped && sc.Req[0].names("leaf_not_after_behavior") != sc.Req[1].names("leaf_not_after_behavior") && errs[0] == nil && errs[1] == nil && sc.Req[0].Kind != "issue" && sc.Req[1].Kind != "issue" {
		rec.Class("interleaved-updates-one-naming-the-behaviour-one-not", 1)
	}
	if tasks[0].Blocked+tasks[1].Blocked > 0 {
		rec.Class("a-task-ran-into-a-lock-of-the-other", 1)
	}
	for i := range errs {
		if errs[i] != nil {
			rec.Class("racing-request-refused:"+sc.Req[i].Kind, 1)
		}
	}
	rec.Case(cls, overlapped && namesBehaviour && !after["permit"], verifx.Digest(sc.B0, sc.Second, fmt.Sprint(sc.Pre), sc.Req[0].String(), sc.Req[1].String(), sc.First, mode, desc, sc.ProbeVia), func() any {
		return map[string]any{"history": history, "schedule": desc, "first": sc.First, "k": sc.K, "possible_after": after.String(), "probe": sc.ProbeVia, "probe_outcome": outcome}
	})
	return firstOps, firstDoneBeforePreempt
}

func c15CopyData(d map[string]any) map[string]any {
	out := map[string]any{}
	for k, v := range d {
		if l, ok := v.([]string); ok {
			v = append([]string{}, l...)
		}
		out[k] = v
	}
	return out
}

// c15TraceShape renders a schedule as runs: "a x5 [after-get config/] | b x9 [put config/] | a x3".
func c15TraceShape(trace []string) string {
	var out []string
	for i := 0; i < len(trace); {
		name := trace[i][:strings.Index(trace[i], ":")]
		j := i
		for j < len(trace) && strings.HasPrefix(trace[j], name+":") {
			j++
		}
		last := trace[j-1][len(name)+1:]
		if f := strings.Fields(last); len(f) == 2 {
			key := f[1]
			if k := strings.Index(key, "/"); k >= 0 {
				key = key[:k+1]
			}
			last = f[0] + " " + key
		}
		out = append(out, fmt.Sprintf("%s x%d [%s]", name, j-i, last))
		i = j
	}
	return strings.Join(out, " | ")
}

// TestVerif_C15_IssuerSchedules: for a generated scenario either every single preemption of the first task (fresh
// mount per preemption point; quick tier: at most 12 evenly spread points) or random stay-or-switch walks.
func TestVerif_C15_IssuerSchedules(t *testing.T) {
	rec := verifx.NewRecorder("C15", "issuer-schedules", "short-lived issuer (100m) with generated leaf_not_after_behavior, optional second issuer, 0-2 earlier PATCH/POST updates of the issuer; then two requests (PATCH issuer with 1-2 of leaf_not_after_behavior / issuer_name / usage / AIA URLs, POST issuer, or issue with a ttl beyond the issuer) interleaved at storage-operation granularity (before and after each operation) by the storage-step scheduler: all single preemptions of either task or random walks; model = set of values leaf_not_after_behavior can have under every linearisation of the acknowledged requests; after both returned a leaf with ttl 3h is requested (issue / issuer-scoped issue / sign): it may end after the issuer only if permit is possible; one evaluation = one schedule; non-trivial = the two requests really interleaved, one of them names leaf_not_after_behavior and permit is not among the possible values afterwards")
	defer rec.Flush()
	vxKeys()
	rapid.Check(t, func(rt *rapid.T) {
		sc := c15DrawCfgScenario(rt)
		if rapid.IntRange(0, 3).Draw(rt, "mode") == 0 {
			nWalks := rapid.IntRange(2, 4).Draw(rt, "walks")
			for i := 0; i < nWalks; i++ {
				sc.K = -1
				c15CfgRun(rt, rec, sc, func(parked []int, cur int) int {
					stay := false
					for _, p := range parked {
						if p == cur {
							stay = true
						}
					}
					if stay && rapid.IntRange(0, 9).Draw(rt, "step") < 7 {
						return cur
					}
					return parked[rapid.IntRange(0, len(parked)-1).Draw(rt, "pick")]
				})
			}
			return
		}
		sc.K = 1 << 30
		n, _ := c15CfgRun(rt, rec, sc, nil)
		limit := verifx.Scale(12, 1<<20)
		stride := (n + limit - 1) / limit
		if stride < 1 {
			stride = 1
		}
		off := rapid.IntRange(0, stride-1).Draw(rt, "preemptionOffset")
		for k := off; k < n; k += stride {
			sc.K = k
			if _, done := c15CfgRun(rt, rec, sc, nil); done {
				break
			}
		}
	})
}
