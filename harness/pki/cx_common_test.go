//go:build verif

package pki

// Shared harness code of the /verif PKI checks (C15, C16): backend construction over a caller-supplied
// logical.Storage, a fault-injecting storage wrapper, PEM helpers and a pool of pre-generated keys.

import (
	"context"
	"crypto"
	"crypto/ecdsa"
	"crypto/ed25519"
	"crypto/elliptic"
	"crypto/rand"
	"crypto/rsa"
	"crypto/x509"
	"encoding/pem"
	"errors"
	"fmt"
	"regexp"
	"strings"
	"sync"
	"time"

	log "github.com/hashicorp/go-hclog"
	"github.com/openbao/openbao/sdk/v2/helper/verifx"
	"github.com/openbao/openbao/sdk/v2/logical"
	"pgregory.net/rapid"
)

// vxBackend builds a PKI backend instance over s the way the server does at mount/unseal time:
// Factory-equivalent construction, Setup, then Initialize (storage migration check, CRL config load).
func vxBackend(s logical.Storage, defTTL, maxTTL time.Duration) (*backend, error) {
	config := &logical.BackendConfig{
		Logger:      log.NewNullLogger(),
		System:      &logical.StaticSystemView{DefaultLeaseTTLVal: defTTL, MaxLeaseTTLVal: maxTTL, VersionString: "verif"},
		Config:      map[string]string{},
		StorageView: s,
	}
	b := Backend(config)
	if err := b.Setup(context.Background(), config); err != nil {
		return nil, err
	}
	if err := b.Initialize(context.Background(), &logical.InitializationRequest{Storage: s}); err != nil {
		return nil, err
	}
	if b.useLegacyBundleCaStorage() {
		return nil, errors.New("backend stayed in legacy storage mode after Initialize")
	}
	return b, nil
}

func vxClose(b *backend) {
	if b != nil {
		b.Cleanup(context.Background())
	}
}

// vxReq performs one request; a logical error response is returned as err (with the response).
func vxReq(b *backend, s logical.Storage, op logical.Operation, path string, data map[string]any) (resp *logical.Response, err error) {
	if data == nil {
		data = map[string]any{}
	}
	resp, err = b.HandleRequest(context.Background(), &logical.Request{
		Operation: op, Path: path, Data: data, Storage: s, MountPoint: "pki/",
	})
	if err != nil {
		return resp, err
	}
	if resp != nil && resp.IsError() {
		return resp, resp.Error()
	}
	return resp, nil
}

func vxWrite(b *backend, s logical.Storage, path string, data map[string]any) (*logical.Response, error) {
	return vxReq(b, s, logical.UpdateOperation, path, data)
}

func vxRead(b *backend, s logical.Storage, path string) (*logical.Response, error) {
	return vxReq(b, s, logical.ReadOperation, path, nil)
}

func vxParseCertPEM(p string) (*x509.Certificate, error) {
	blk, _ := pem.Decode([]byte(p))
	if blk == nil {
		return nil, errors.New("no PEM block")
	}
	return x509.ParseCertificate(blk.Bytes)
}

func vxCertPEM(c *x509.Certificate) string {
	return string(pem.EncodeToMemory(&pem.Block{Type: "CERTIFICATE", Bytes: c.Raw}))
}

func vxStr(m map[string]any, k string) string {
	if m == nil {
		return ""
	}
	s, _ := m[k].(string)
	return s
}

// ---- key pool (crypto/rand; key material never enters a verdict, only type and size do)

type vxKey struct {
	name   string // e.g. "ec256", "rsa2048", "ed25519"
	typ    string // "rsa", "ec", "ed25519"
	bits   int
	signer crypto.Signer
}

var (
	vxPoolOnce sync.Once
	vxPool     []*vxKey
)

// vxKeys returns the process-wide pool: index order is fixed, so a rapid draw of an index means the
// same key class in every run.
func vxKeys() []*vxKey {
	vxPoolOnce.Do(func() {
		add := func(name, typ string, bits int, k crypto.Signer, err error) {
			if err != nil {
				panic(fmt.Sprintf("harness: key pool %s: %v", name, err))
			}
			vxPool = append(vxPool, &vxKey{name: name, typ: typ, bits: bits, signer: k})
		}
		k1, e := ecdsa.GenerateKey(elliptic.P256(), rand.Reader)
		add("ec256", "ec", 256, k1, e)
		k1b, e := ecdsa.GenerateKey(elliptic.P256(), rand.Reader)
		add("ec256b", "ec", 256, k1b, e)
		k2, e := ecdsa.GenerateKey(elliptic.P224(), rand.Reader)
		add("ec224", "ec", 224, k2, e)
		k3, e := ecdsa.GenerateKey(elliptic.P384(), rand.Reader)
		add("ec384", "ec", 384, k3, e)
		k4, e := ecdsa.GenerateKey(elliptic.P521(), rand.Reader)
		add("ec521", "ec", 521, k4, e)
		_, k5, e := ed25519.GenerateKey(rand.Reader)
		add("ed25519", "ed25519", 0, k5, e)
		k6, e := rsa.GenerateKey(rand.Reader, 2048)
		add("rsa2048", "rsa", 2048, k6, e)
		k7, e := rsa.GenerateKey(rand.Reader, 3072)
		add("rsa3072", "rsa", 3072, k7, e)
		k8, e := rsa.GenerateKey(rand.Reader, 1024)
		add("rsa1024", "rsa", 1024, k8, e)
		// well-formed keys whose modulus is a bit short of the nominal size (generators that do not force the top
		// bits of the primes produce them): one bit below the engine's floor and below a role's key_bits
		k9, e := rsa.GenerateKey(rand.Reader, 2047)
		add("rsa2047", "rsa", 2047, k9, e)
		k10, e := rsa.GenerateKey(rand.Reader, 3071)
		add("rsa3071", "rsa", 3071, k10, e)
	})
	return vxPool
}

// ---- fault-injecting logical.Storage

var errVxFault = errors.New("verif: injected storage fault")

// vxFaultStorage wraps a logical.Storage. While armed it counts the operations issued by the arming
// goroutine (background goroutines of the backend are passed through uncounted, so the count is
// deterministic) and fails the operation whose index equals failAt, once.
type vxFaultStorage struct {
	logical.Storage
	mu      sync.Mutex
	armed   bool
	gid     int64
	count   int
	failAt  int    // 1-based index of the operation to fail; 0 = none
	target  string // "kind key-prefix": fail the targetN-th operation matching it ("" = none)
	targetN int
	seen    int
	crash   bool // once the fault fired, every further counted operation fails too (until disarmed)
	fired   bool
	log     []string // "kind key" of counted ops; the failed one carries the suffix " FAULT"
}

func (f *vxFaultStorage) arm(failAt int) {
	f.mu.Lock()
	f.armed, f.gid, f.count, f.failAt, f.fired, f.log = true, verifx.GoID(), 0, failAt, false, nil
	f.target, f.targetN, f.seen, f.crash = "", 0, 0, false
	f.mu.Unlock()
}

// disarm returns the counted operations and whether the fault fired.
func (f *vxFaultStorage) disarm() (ops []string, fired bool) {
	f.mu.Lock()
	defer f.mu.Unlock()
	ops, fired = f.log, f.fired
	f.armed, f.log, f.fired = false, nil, false
	return ops, fired
}

func (f *vxFaultStorage) step(kind, key string) error {
	f.mu.Lock()
	defer f.mu.Unlock()
	if !f.armed || verifx.GoID() != f.gid {
		return nil
	}
	f.count++
	op := kind + " " + key
	if f.fired {
		if f.crash {
			f.log = append(f.log, op+" (after crash)")
			return errVxFault
		}
		f.log = append(f.log, op)
		return nil
	}
	hit := f.failAt != 0 && f.count == f.failAt
	if f.target != "" && strings.HasPrefix(op, f.target) {
		f.seen++
		hit = hit || f.seen == f.targetN
	}
	if hit {
		f.fired = true
		f.log = append(f.log, op+" FAULT")
		return errVxFault
	}
	f.log = append(f.log, op)
	return nil
}

func (f *vxFaultStorage) Get(ctx context.Context, key string) (*logical.StorageEntry, error) {
	if err := f.step("get", key); err != nil {
		return nil, err
	}
	return f.Storage.Get(ctx, key)
}

func (f *vxFaultStorage) Put(ctx context.Context, e *logical.StorageEntry) error {
	if err := f.step("put", e.Key); err != nil {
		return err
	}
	return f.Storage.Put(ctx, e)
}

func (f *vxFaultStorage) Delete(ctx context.Context, key string) error {
	if err := f.step("delete", key); err != nil {
		return err
	}
	return f.Storage.Delete(ctx, key)
}

func (f *vxFaultStorage) List(ctx context.Context, prefix string) ([]string, error) {
	if err := f.step("list", prefix); err != nil {
		return nil, err
	}
	return f.Storage.List(ctx, prefix)
}

func (f *vxFaultStorage) ListPage(ctx context.Context, prefix string, after string, limit int) ([]string, error) {
	if err := f.step("list", prefix); err != nil {
		return nil, err
	}
	return f.Storage.ListPage(ctx, prefix, after, limit)
}

func vxIsInjected(err error) bool {
	return err != nil && strings.Contains(err.Error(), errVxFault.Error())
}

// rapid re-runs a failing case and accepts it (and shrinks it) only if the failure message is identical, so
// messages must not contain values that differ from run to run: serial numbers, issuer/CRL ids, times.
var (
	vxReSerial = regexp.MustCompile(`\b([0-9a-fA-F]{2}[:-]){7,}[0-9a-fA-F]{2}\b`)
	vxReUUID   = regexp.MustCompile(`\b[0-9a-f]{8}-[0-9a-f]{4}-[0-9a-f]{4}-[0-9a-f]{4}-[0-9a-f]{12}\b`)
	vxReTime   = regexp.MustCompile(`\b\d{4}-\d{2}-\d{2}[T ]\d{2}:\d{2}:\d{2}(\.\d+)?( ?(Z|[+-]\d{2}:?\d{2})( [A-Z]{3,4})?( m=[+-][0-9.]+)?)?`)
	vxReUnix   = regexp.MustCompile(`\b1[6-9]\d{8}\b`)
	vxReBigHex = regexp.MustCompile(`\b[0-9a-f]{30,}\b`)
	vxReBigDec = regexp.MustCompile(`\b\d{25,}\b`)
)

func vxStable(msg string) string {
	msg = vxReTime.ReplaceAllString(msg, "<time>")
	msg = vxReSerial.ReplaceAllString(msg, "<serial>")
	msg = vxReUUID.ReplaceAllString(msg, "<id>")
	msg = vxReUnix.ReplaceAllString(msg, "<unix-time>")
	msg = vxReBigHex.ReplaceAllString(msg, "<hex>")
	msg = vxReBigDec.ReplaceAllString(msg, "<number>")
	return msg
}

// vxChance is true with the given probability. rapid's integer generators favour small values, so the
// percentage is built from fair coin flips; all-false (the shrink target) means "feature off".
func vxChance(rt *rapid.T, label string, percent int) bool {
	v := 0
	for i := 0; i < 6; i++ {
		if rapid.Bool().Draw(rt, label) {
			v |= 1 << i
		}
	}
	return v*100 >= (100-percent)*64
}
