//go:build verif

package pki

// C15 reference model: the role as the documentation describes it
// (website/content/docs/api/secret/pki.mdx, "Create/Update role") and an authoriser for names that works
// on DNS labels, not on string suffixes. The authoriser is the MOST PERMISSIVE reading of that text: a name
// it rejects is permitted by no sentence of the documentation.

import (
	"crypto/x509"
	"encoding/asn1"
	"net"
	"strings"
	"time"

	"golang.org/x/net/idna"
)

type c15Role struct {
	AllowedDomains   []string
	AllowBare        bool
	AllowSub         bool
	AllowGlob        bool
	AllowWildcard    *bool // nil = parameter not sent (documented default true)
	AllowLocalhost   bool
	AllowAnyName     bool
	EnforceHostnames bool
	AllowIPSANs      bool
	IPCIDRs          []string
	URISANs          []string
	OtherSANs        []string
	KeyType          string
	KeyBits          int
	TTL, MaxTTL      time.Duration
	NotBeforeDur     *time.Duration // nil = not sent (default 30s)
	NotAfter         string
	NotAfterBound    string // "" = not sent (default permit)
	NotBeforeBound   string
	KeyUsage         []string // nil = not sent (default DigitalSignature, KeyAgreement, KeyEncipherment)
	KeyUsageSent     bool
	ExtKeyUsage      []string
	ServerFlag       bool
	ClientFlag       bool
	CodeSignFlag     bool
	EmailFlag        bool
	CNValidations    []string // nil = not sent (default email, hostname)
	UseCSRCN         bool
	UseCSRSANs       bool
	RequireCN        bool
	BasicConstraints bool
	NoStore          bool
	IssuerRef        string
}

func (r *c15Role) data() map[string]any {
	d := map[string]any{
		"allowed_domains":                    append([]string{}, r.AllowedDomains...),
		"allow_bare_domains":                 r.AllowBare,
		"allow_subdomains":                   r.AllowSub,
		"allow_glob_domains":                 r.AllowGlob,
		"allow_localhost":                    r.AllowLocalhost,
		"allow_any_name":                     r.AllowAnyName,
		"enforce_hostnames":                  r.EnforceHostnames,
		"allow_ip_sans":                      r.AllowIPSANs,
		"allowed_ip_sans_cidr":               append([]string{}, r.IPCIDRs...),
		"allowed_uri_sans":                   append([]string{}, r.URISANs...),
		"allowed_other_sans":                 append([]string{}, r.OtherSANs...),
		"key_type":                           r.KeyType,
		"key_bits":                           r.KeyBits,
		"ext_key_usage":                      append([]string{}, r.ExtKeyUsage...),
		"server_flag":                        r.ServerFlag,
		"client_flag":                        r.ClientFlag,
		"code_signing_flag":                  r.CodeSignFlag,
		"email_protection_flag":              r.EmailFlag,
		"use_csr_common_name":                r.UseCSRCN,
		"use_csr_sans":                       r.UseCSRSANs,
		"require_cn":                         r.RequireCN,
		"basic_constraints_valid_for_non_ca": r.BasicConstraints,
		"no_store":                           r.NoStore,
		"issuer_ref":                         r.IssuerRef,
	}
	if r.AllowWildcard != nil {
		d["allow_wildcard_certificates"] = *r.AllowWildcard
	}
	if r.TTL > 0 {
		d["ttl"] = int(r.TTL / time.Second)
	}
	if r.MaxTTL > 0 {
		d["max_ttl"] = int(r.MaxTTL / time.Second)
	}
	if r.NotBeforeDur != nil {
		d["not_before_duration"] = int(*r.NotBeforeDur / time.Second)
	}
	if r.NotAfter != "" {
		d["not_after"] = r.NotAfter
	}
	if r.NotAfterBound != "" {
		d["not_after_bound"] = r.NotAfterBound
	}
	if r.NotBeforeBound != "" {
		d["not_before_bound"] = r.NotBeforeBound
	}
	if r.KeyUsageSent {
		d["key_usage"] = append([]string{}, r.KeyUsage...)
	}
	if r.CNValidations != nil {
		d["cn_validations"] = append([]string{}, r.CNValidations...)
	}
	return d
}

func (r *c15Role) wildcardAllowed() bool { return r.AllowWildcard == nil || *r.AllowWildcard }

func (r *c15Role) cnMode() (disabled, email, hostname bool) {
	if r.CNValidations == nil {
		return false, true, true
	}
	for _, v := range r.CNValidations {
		switch strings.ToLower(v) {
		case "disabled":
			disabled = true
		case "email":
			email = true
		case "hostname":
			hostname = true
		}
	}
	return
}

func (r *c15Role) notBeforeDuration() time.Duration {
	if r.NotBeforeDur == nil || *r.NotBeforeDur == 0 {
		return 30 * time.Second
	}
	return *r.NotBeforeDur
}

var c15KeyUsageNames = map[string]x509.KeyUsage{
	"digitalsignature":  x509.KeyUsageDigitalSignature,
	"contentcommitment": x509.KeyUsageContentCommitment,
	"keyencipherment":   x509.KeyUsageKeyEncipherment,
	"dataencipherment":  x509.KeyUsageDataEncipherment,
	"keyagreement":      x509.KeyUsageKeyAgreement,
	"certsign":          x509.KeyUsageCertSign,
	"crlsign":           x509.KeyUsageCRLSign,
	"encipheronly":      x509.KeyUsageEncipherOnly,
	"decipheronly":      x509.KeyUsageDecipherOnly,
}

var c15ExtKeyUsageNames = map[string]x509.ExtKeyUsage{
	"any":             x509.ExtKeyUsageAny,
	"serverauth":      x509.ExtKeyUsageServerAuth,
	"clientauth":      x509.ExtKeyUsageClientAuth,
	"codesigning":     x509.ExtKeyUsageCodeSigning,
	"emailprotection": x509.ExtKeyUsageEmailProtection,
	"ipsecendsystem":  x509.ExtKeyUsageIPSECEndSystem,
	"ipsectunnel":     x509.ExtKeyUsageIPSECTunnel,
	"ipsecuser":       x509.ExtKeyUsageIPSECUser,
	"timestamping":    x509.ExtKeyUsageTimeStamping,
	"ocspsigning":     x509.ExtKeyUsageOCSPSigning,
}

func (r *c15Role) allowedKeyUsage() x509.KeyUsage {
	names := r.KeyUsage
	if !r.KeyUsageSent {
		names = []string{"DigitalSignature", "KeyAgreement", "KeyEncipherment"}
	}
	var ku x509.KeyUsage
	for _, n := range names {
		ku |= c15KeyUsageNames[strings.ToLower(strings.TrimSpace(n))]
	}
	return ku
}

func (r *c15Role) allowedEKUs() map[x509.ExtKeyUsage]bool {
	m := map[x509.ExtKeyUsage]bool{}
	if r.ServerFlag {
		m[x509.ExtKeyUsageServerAuth] = true
	}
	if r.ClientFlag {
		m[x509.ExtKeyUsageClientAuth] = true
	}
	if r.CodeSignFlag {
		m[x509.ExtKeyUsageCodeSigning] = true
	}
	if r.EmailFlag {
		m[x509.ExtKeyUsageEmailProtection] = true
	}
	for _, n := range r.ExtKeyUsage {
		if e, ok := c15ExtKeyUsageNames[strings.ToLower(strings.TrimSpace(n))]; ok {
			m[e] = true
		}
	}
	return m
}

// ---- labels

// c15Labels splits a host name into canonical labels: one trailing dot dropped, every label lower-cased
// and converted to its ASCII (punycode) form where that is possible.
func c15Labels(name string) []string {
	name = strings.TrimSuffix(name, ".")
	parts := strings.Split(name, ".")
	for i, p := range parts {
		p = strings.ToLower(p) // Unicode-aware, before the punycode conversion (BÜCHER = bücher)
		if a, err := idna.ToASCII(p); err == nil && a != "" {
			p = strings.ToLower(a)
		}
		parts[i] = p
	}
	return parts
}

func c15LabelsEqual(a, b []string) bool {
	if len(a) != len(b) {
		return false
	}
	for i := range a {
		if a[i] != b[i] {
			return false
		}
	}
	return true
}

// c15ProperSuffix: b is a proper label-suffix of a (a has at least one more label on the left).
func c15ProperSuffix(a, b []string) bool {
	if len(a) <= len(b) || len(b) == 0 {
		return false
	}
	return c15LabelsEqual(a[len(a)-len(b):], b)
}

// c15Glob is an anchored shell-style match where '*' matches any (possibly empty) run of characters,
// dots included (the documentation says so explicitly); compared case-insensitively.
func c15Glob(pattern, s string) bool {
	p, t := strings.ToLower(pattern), strings.ToLower(s)
	parts := strings.Split(p, "*")
	if len(parts) == 1 {
		return p == t
	}
	if !strings.HasPrefix(t, parts[0]) {
		return false
	}
	t = t[len(parts[0]):]
	last := parts[len(parts)-1]
	if len(t) < len(last) || !strings.HasSuffix(t, last) {
		return false
	}
	t = t[:len(t)-len(last)]
	for _, mid := range parts[1 : len(parts)-1] {
		i := strings.Index(t, mid)
		if i < 0 {
			return false
		}
		t = t[i+len(mid):]
	}
	return true
}

func c15ValidLabel(l string) bool {
	if len(l) == 0 || len(l) > 63 {
		return false
	}
	for i := 0; i < len(l); i++ {
		c := l[i]
		alnum := c >= 'a' && c <= 'z' || c >= 'A' && c <= 'Z' || c >= '0' && c <= '9'
		if !alnum && !(c == '-' && i > 0 && i < len(l)-1) {
			return false
		}
	}
	return true
}

// c15ValidHostname: RFC 1123 host name (letters, digits, interior hyphens; labels 1..63; total <= 253),
// after conversion of internationalised labels; one trailing dot tolerated.
func c15ValidHostname(name string) bool {
	name = strings.TrimSuffix(name, ".")
	if name == "" {
		return false
	}
	total := 0
	for _, l := range strings.Split(name, ".") {
		if a, err := idna.ToASCII(l); err == nil {
			l = a
		}
		if !c15ValidLabel(l) {
			return false
		}
		total += len(l) + 1
	}
	return total-1 <= 253
}

// c15ValidWildLabel: one of the four documented forms *, x*, *x, x*y with x,y label characters.
func c15ValidWildLabel(l string) bool {
	if strings.Count(l, "*") != 1 {
		return false
	}
	if l == "*" {
		return true
	}
	i := strings.Index(l, "*")
	left, right := l[:i], l[i+1:]
	ok := func(s string, start, end bool) bool {
		for j := 0; j < len(s); j++ {
			c := s[j]
			alnum := c >= 'a' && c <= 'z' || c >= 'A' && c <= 'Z' || c >= '0' && c <= '9'
			if alnum {
				continue
			}
			if c == '-' && !(start && j == 0) && !(end && j == len(s)-1) {
				continue
			}
			return false
		}
		return true
	}
	return ok(left, true, false) && ok(right, false, true) && len(l) <= 63
}

// c15HostAuthorised decides whether host (a DNS name, or the domain part of an e-mail address) may appear
// on a certificate of this role. full is the complete name as requested (the e-mail address for e-mails).
func c15HostAuthorised(r *c15Role, host, full string) (bool, string) {
	wild := strings.Contains(host, "*")
	base := host
	wildLabel := ""
	if wild {
		// "When set to false, this prevents wildcards from being issued even if they would've been
		// allowed by an option above"; also stated for allow_any_name.
		if !r.wildcardAllowed() {
			return false, "wildcard-but-allow_wildcard_certificates=false"
		}
		if strings.Count(host, "*") > 1 {
			return false, "more-than-one-wildcard"
		}
		parts := strings.SplitN(host, ".", 2)
		wildLabel = parts[0]
		if !strings.Contains(wildLabel, "*") {
			return false, "wildcard-not-in-leftmost-label"
		}
		if len(parts) == 2 {
			base = parts[1]
		} else {
			base = ""
		}
	}
	if r.EnforceHostnames {
		if base != "" && !c15ValidHostname(base) {
			return false, "enforce_hostnames-but-not-a-hostname"
		}
		if !wild && base == "" {
			return false, "enforce_hostnames-but-empty"
		}
		if wild && !c15ValidWildLabel(wildLabel) {
			return false, "enforce_hostnames-but-bad-wildcard-label"
		}
	}
	if r.AllowAnyName {
		return true, "any-name"
	}
	name := c15Labels(host)
	bl := c15Labels(base)
	authBase := func(n []string) bool { // n authorised as an ordinary (non-wildcard) name?
		if r.AllowLocalhost {
			for _, lh := range []string{"localhost", "localdomain"} {
				if c15LabelsEqual(n, []string{lh}) || r.AllowSub && c15ProperSuffix(n, []string{lh}) {
					return true
				}
			}
		}
		for _, d := range r.AllowedDomains {
			if d == "" {
				continue
			}
			dl := c15Labels(d)
			if r.AllowBare && c15LabelsEqual(n, dl) {
				return true
			}
			if r.AllowSub && c15ProperSuffix(n, dl) {
				return true
			}
			if r.AllowGlob && strings.Contains(d, "*") && c15Glob(d, strings.Join(n, ".")) {
				return true
			}
		}
		return false
	}
	if authBase(name) {
		return true, "domain-rule"
	}
	if r.AllowGlob {
		for _, d := range r.AllowedDomains {
			if strings.Contains(d, "*") && (c15Glob(d, host) || c15Glob(d, full) || c15Glob(d, strings.TrimSuffix(host, "."))) {
				return true, "glob"
			}
		}
	}
	if wild && base != "" && authBase(bl) {
		return true, "wildcard-over-authorised-base"
	}
	return false, "no-rule-authorises"
}

// c15NameAuthorised handles DNS names and e-mail addresses (kind "dns" / "email").
func c15NameAuthorised(r *c15Role, name, kind string) (bool, string) {
	if kind == "email" || strings.Contains(name, "@") {
		parts := strings.Split(name, "@")
		if len(parts) != 2 {
			if r.AllowAnyName && !r.EnforceHostnames {
				return true, "any-name"
			}
			return false, "malformed-email"
		}
		return c15HostAuthorised(r, parts[1], name)
	}
	return c15HostAuthorised(r, name, name)
}

// c15CNAuthorised: the common name is judged only when cn_validations does not disable validation.
func c15CNAuthorised(r *c15Role, cn string) (bool, string) {
	disabled, email, hostname := r.cnMode()
	if disabled || cn == "" {
		return true, "cn-not-validated"
	}
	if strings.Contains(cn, "@") {
		if !email {
			return false, "cn-is-email-but-cn_validations-lacks-email"
		}
		return c15NameAuthorised(r, cn, "email")
	}
	if !hostname {
		return false, "cn-is-hostname-but-cn_validations-lacks-hostname"
	}
	return c15NameAuthorised(r, cn, "dns")
}

// ---- other SAN parsing (independent of the package's helpers)

type c15OtherName struct {
	OID   string
	Value string
}

var c15OIDSubjectAltName = asn1.ObjectIdentifier{2, 5, 29, 17}

func c15OtherNames(cert *x509.Certificate) ([]c15OtherName, error) {
	var out []c15OtherName
	for _, ext := range cert.Extensions {
		if !ext.Id.Equal(c15OIDSubjectAltName) {
			continue
		}
		var seq asn1.RawValue
		if _, err := asn1.Unmarshal(ext.Value, &seq); err != nil {
			return nil, err
		}
		rest := seq.Bytes
		for len(rest) > 0 {
			var gn asn1.RawValue
			var err error
			rest, err = asn1.Unmarshal(rest, &gn)
			if err != nil {
				return nil, err
			}
			if gn.Class != asn1.ClassContextSpecific || gn.Tag != 0 {
				continue
			}
			var oid asn1.ObjectIdentifier
			r2, err := asn1.Unmarshal(gn.Bytes, &oid)
			if err != nil {
				return nil, err
			}
			var wrapped asn1.RawValue
			if _, err := asn1.Unmarshal(r2, &wrapped); err != nil {
				return nil, err
			}
			var inner asn1.RawValue
			if _, err := asn1.Unmarshal(wrapped.Bytes, &inner); err != nil {
				return nil, err
			}
			out = append(out, c15OtherName{OID: oid.String(), Value: string(inner.Bytes)})
		}
	}
	return out, nil
}

func c15OtherSANAllowed(r *c15Role, o c15OtherName) bool {
	if len(r.OtherSANs) == 1 && r.OtherSANs[0] == "*" {
		return true
	}
	for _, a := range r.OtherSANs {
		p := strings.SplitN(a, ";", 2)
		if len(p) != 2 || p[0] != o.OID {
			continue
		}
		tv := strings.SplitN(p[1], ":", 2)
		if len(tv) == 2 && c15Glob(tv[1], o.Value) {
			return true
		}
	}
	return false
}

func c15IPAllowed(r *c15Role, ip net.IP) bool {
	if !r.AllowIPSANs {
		return false
	}
	if len(r.IPCIDRs) == 0 {
		return true
	}
	for _, c := range r.IPCIDRs {
		if _, n, err := net.ParseCIDR(c); err == nil && n.Contains(ip) {
			return true
		}
	}
	return false
}

func c15URIAllowed(r *c15Role, u string) bool {
	for _, a := range r.URISANs {
		if c15Glob(a, u) {
			return true
		}
	}
	return false
}

// c15SameName: the engine may convert an internationalised name to its ASCII form; apart from that a
// certificate name must be one of the requested strings.
func c15SameName(certName, requested string) bool {
	if certName == requested {
		return true
	}
	a, err1 := idna.ToASCII(requested)
	if err1 == nil && strings.EqualFold(a, certName) {
		return true
	}
	return false
}

func c15In(certName string, requested []string) bool {
	for _, r := range requested {
		if c15SameName(certName, r) {
			return true
		}
	}
	return false
}
