//go:build verif

package pki

// C15 — Issued certificates respect issuer, role and lifetime constraints.
//
// Generated: a mount configuration (1-2 issuers, their key types, leaf_not_after_behavior, short or long
// validity, mount max TTL), a role, and 1-5 requests to issue / sign / sign-verbatim (plus the
// issuer-scoped variants and, rarely, sign-intermediate) whose names are derived from the role's
// allowed_domains. Every successful response is parsed and compared with the reference model in
// c15_model_test.go. Mounts are memoised by their configuration (issuers are reused across cases); the
// sequence of rapid draws never depends on the cache.

import (
	"bytes"
	"crypto/ecdsa"
	"crypto/ed25519"
	"crypto/rand"
	"crypto/rsa"
	"crypto/x509"
	"crypto/x509/pkix"
	"encoding/asn1"
	"encoding/pem"
	"fmt"
	"net"
	"net/url"
	"sort"
	"strings"
	"sync"
	"testing"
	"time"

	"github.com/openbao/openbao/sdk/v2/helper/verifx"
	"github.com/openbao/openbao/sdk/v2/logical"
	"golang.org/x/net/idna"
	"pgregory.net/rapid"
)

// ---- mounts

type c15MountCfg struct {
	RootKey, IntKey       string // "ec", "ed25519", "rsa"; IntKey "" = no intermediate
	RootBehav, IntBehav   string // err, truncate, permit
	RootShort, IntShort   bool
	MountMax              time.Duration
	DefaultIsIntermediate bool
}

type c15Mount struct {
	cfg     c15MountCfg
	b       *backend
	s       logical.Storage
	issuers map[string]*x509.Certificate // "root", "int"
	behav   map[string]string
	def     string
	serials map[string]string // serial -> description of the request that produced it
}

var (
	c15MountMu sync.Mutex
	c15Mounts  = map[c15MountCfg]*c15Mount{}
)

const (
	c15ShortIssuerTTL = "100m"
	c15LongIssuerTTL  = "87600h"
	c15MountDefault   = 24 * time.Hour
)

func c15GetMount(cfg c15MountCfg) (*c15Mount, error) {
	c15MountMu.Lock()
	defer c15MountMu.Unlock()
	if m, ok := c15Mounts[cfg]; ok {
		return m, nil
	}
	s := &logical.InmemStorage{}
	b, err := vxBackend(s, c15MountDefault, cfg.MountMax)
	if err != nil {
		return nil, err
	}
	m := &c15Mount{cfg: cfg, b: b, s: s, issuers: map[string]*x509.Certificate{}, behav: map[string]string{}, def: "root", serials: map[string]string{}}
	ttl := c15LongIssuerTTL
	if cfg.RootShort {
		ttl = c15ShortIssuerTTL
	}
	resp, err := vxWrite(b, s, "root/generate/internal", map[string]any{"common_name": "verif root", "key_type": cfg.RootKey, "issuer_name": "root", "ttl": ttl})
	if err != nil {
		return nil, fmt.Errorf("root/generate: %w", err)
	}
	root, err := vxParseCertPEM(vxStr(resp.Data, "certificate"))
	if err != nil {
		return nil, err
	}
	m.issuers["root"] = root
	if cfg.IntKey != "" {
		resp, err = vxWrite(b, s, "intermediate/generate/internal", map[string]any{"common_name": "verif intermediate", "key_type": cfg.IntKey})
		if err != nil {
			return nil, fmt.Errorf("intermediate/generate: %w", err)
		}
		ittl := c15LongIssuerTTL
		if cfg.IntShort || cfg.RootShort {
			ittl = "95m"
		}
		resp, err = vxWrite(b, s, "issuer/root/sign-intermediate", map[string]any{"csr": vxStr(resp.Data, "csr"), "common_name": "verif intermediate", "ttl": ittl})
		if err != nil {
			return nil, fmt.Errorf("sign-intermediate: %w", err)
		}
		icert, err := vxParseCertPEM(vxStr(resp.Data, "certificate"))
		if err != nil {
			return nil, err
		}
		m.serials[icert.SerialNumber.String()] = "intermediate"
		resp, err = vxWrite(b, s, "intermediate/set-signed", map[string]any{"certificate": vxStr(resp.Data, "certificate")})
		if err != nil {
			return nil, fmt.Errorf("set-signed: %w", err)
		}
		ids, _ := resp.Data["imported_issuers"].([]string)
		if len(ids) != 1 {
			return nil, fmt.Errorf("set-signed imported %v", resp.Data["imported_issuers"])
		}
		if _, err = vxWrite(b, s, "issuer/"+ids[0], map[string]any{"issuer_name": "int", "leaf_not_after_behavior": cfg.IntBehav}); err != nil {
			return nil, fmt.Errorf("name intermediate: %w", err)
		}
		m.issuers["int"] = icert
		m.behav["int"] = cfg.IntBehav
		if cfg.DefaultIsIntermediate {
			if _, err = vxWrite(b, s, "config/issuers", map[string]any{"default": "int"}); err != nil {
				return nil, fmt.Errorf("config/issuers: %w", err)
			}
			m.def = "int"
		}
	}
	if _, err = vxWrite(b, s, "issuer/root", map[string]any{"issuer_name": "root", "leaf_not_after_behavior": cfg.RootBehav}); err != nil {
		return nil, fmt.Errorf("configure root: %w", err)
	}
	m.behav["root"] = cfg.RootBehav
	// read back what the mount says, so that the model's view of the issuers is the configured one
	for name := range m.issuers {
		r, err := vxRead(b, s, "issuer/"+name)
		if err != nil {
			return nil, err
		}
		if got := vxStr(r.Data, "leaf_not_after_behavior"); got != m.behav[name] {
			return nil, fmt.Errorf("issuer %s leaf_not_after_behavior=%q want %q", name, got, m.behav[name])
		}
	}
	c15Mounts[cfg] = m
	return m, nil
}

func (m *c15Mount) resolve(ref string) string {
	if ref == "default" || ref == "" {
		return m.def
	}
	return ref
}

func c15DrawMount(rt *rapid.T) c15MountCfg {
	keyT := func(label string) string {
		switch n := rapid.IntRange(0, 19).Draw(rt, label); {
		case n < 11:
			return "ec"
		case n < 19:
			return "ed25519"
		default:
			return "rsa"
		}
	}
	behav := rapid.SampledFrom([]string{"err", "truncate", "permit"})
	cfg := c15MountCfg{RootKey: keyT("rootKey"), RootBehav: behav.Draw(rt, "rootBehaviour"), RootShort: rapid.IntRange(0, 3).Draw(rt, "rootShort") == 0,
		MountMax: rapid.SampledFrom([]time.Duration{48 * time.Hour, 720 * time.Hour}).Draw(rt, "mountMax")}
	if rapid.Bool().Draw(rt, "hasIntermediate") {
		cfg.IntKey = keyT("intKey")
		if cfg.IntKey == "rsa" {
			cfg.IntKey = "ec" // one RSA key generation per mount at most
		}
		cfg.IntBehav = behav.Draw(rt, "intBehaviour")
		cfg.IntShort = rapid.IntRange(0, 2).Draw(rt, "intShort") == 0
		cfg.DefaultIsIntermediate = rapid.Bool().Draw(rt, "defaultIsInt")
	}
	return cfg
}

// ---- role generator

// allowed_other_sans of generated roles: absent, catch-all, one OID with any value, one OID with a value pattern,
// two patterns for one OID, two OIDs
var c15OtherSANRoles = [][]string{nil, {"1.3.6.1.4.1.311.20.2.3;utf8:*@example.com"}, nil, {"*"}, {"1.3.6.1.4.1.311.20.2.3;UTF8:*@example.com", "1.3.6.1.4.1.311.20.2.3;UTF-8:svc-*"},
	{"1.3.6.1.4.1.311.20.2.3;UTF8:*"}, {"1.3.6.1.4.1.311.20.2.3;utf8:*@example.com", "1.2.3.4;UTF8:x*"}}

// other-SAN values requests are built from (several values of one OID are an ordinary request: a user with several UPNs)
var c15OtherSANPool = []string{"1.3.6.1.4.1.311.20.2.3;UTF8:user@example.com", "1.3.6.1.4.1.311.20.2.3;UTF8:user@evil.net", "1.2.3.4;UTF8:x",
	"1.3.6.1.4.1.311.20.2.3;UTF8:admin@example.com", "1.3.6.1.4.1.311.20.2.3;UTF8:svc-build", "1.3.6.1.4.1.311.20.2.3;UTF8:root", "1.2.3.4;UTF8:xy", "1.2.3.4;UTF8:y",
	"1.3.6.1.4.1.311.20.2.3;UTF8:ops@example.com"}

func c15OtherSANValueAllowed(r *c15Role, v string) bool {
	p := strings.SplitN(v, ";", 2)
	return c15OtherSANAllowed(r, c15OtherName{OID: p[0], Value: strings.SplitN(p[1], ":", 2)[1]})
}

// c15DrawOthers draws the other SANs of one request (API parameter or CSR): 1-3 values the role admits (or, when the
// role admits none of the pool / hostile is set, possibly values it does not admit), in the generated order; with
// hostile set one value the role does NOT admit is inserted at a generated position among them.
func c15DrawOthers(rt *rapid.T, r *c15Role, legit, hostile bool, label string) []string {
	var good, bad []string
	for _, v := range c15OtherSANPool {
		if c15OtherSANValueAllowed(r, v) {
			good = append(good, v)
		} else {
			bad = append(bad, v)
		}
	}
	var out []string
	if len(good) > 0 {
		out = rapid.SliceOfNDistinct(rapid.SampledFrom(good), 1, min(3, len(good)), rapid.ID[string]).Draw(rt, label)
	}
	if len(bad) > 0 && (hostile || len(good) == 0 && !legit) {
		b := rapid.SampledFrom(bad).Draw(rt, label+"Forbidden")
		at := rapid.IntRange(0, len(out)).Draw(rt, label+"ForbiddenAt")
		out = append(out[:at:at], append([]string{b}, out[at:]...)...)
	}
	return out
}

var (
	c15BaseDomains = []string{"example.com", "foo.example.com", "corp.internal", "example.org", "a.b.c.test", "bücher.example", "xn--bcher-kva.example", "myhost", "EXAMPLE.net", "localhost"}
	c15GlobDomains = []string{"*.example.com", "ftp*.example.com", "*example.com", "foo.*.example.com", "*.*.example.com", "*-api.corp.internal", "web-*.example.org"}
	c15LabelPool   = []string{"a", "b", "www", "foo", "bar", "ftp1", "x-y", "0"}
)

func c15DrawRole(rt *rapid.T, m *c15Mount) *c15Role {
	r := &c15Role{}
	nd := rapid.SampledFrom([]int{2, 1, 3, 0}).Draw(rt, "nDomains")
	for i := 0; i < nd; i++ {
		if vxChance(rt, "globDomain", 35) {
			r.AllowedDomains = append(r.AllowedDomains, rapid.SampledFrom(c15GlobDomains).Draw(rt, "domain"))
		} else {
			r.AllowedDomains = append(r.AllowedDomains, rapid.SampledFrom(c15BaseDomains).Draw(rt, "domain"))
		}
	}
	// an empty entry is what the API stores for a trailing comma ("example.com,"); it authorises nothing
	if nd > 0 && vxChance(rt, "emptyDomainEntry", 15) {
		at := rapid.IntRange(0, len(r.AllowedDomains)).Draw(rt, "emptyEntryAt")
		r.AllowedDomains = append(r.AllowedDomains[:at:at], append([]string{""}, r.AllowedDomains[at:]...)...)
	}
	r.AllowBare = vxChance(rt, "allow_bare_domains", 60)
	r.AllowSub = vxChance(rt, "allow_subdomains", 60)
	r.AllowGlob = vxChance(rt, "allow_glob_domains", 55)
	switch rapid.IntRange(0, 3).Draw(rt, "allow_wildcard_certificates") {
	case 0: // not sent
	case 1:
		f := false
		r.AllowWildcard = &f
	default:
		tr := true
		r.AllowWildcard = &tr
	}
	r.AllowLocalhost = vxChance(rt, "allow_localhost", 50)
	r.AllowAnyName = vxChance(rt, "allow_any_name", 12)
	r.EnforceHostnames = vxChance(rt, "enforce_hostnames", 65)
	r.AllowIPSANs = vxChance(rt, "allow_ip_sans", 75)
	r.IPCIDRs = rapid.SampledFrom([][]string{{"10.0.0.0/8"}, nil, {"192.168.0.0/16", "fd00::/8"}, nil}).Draw(rt, "allowed_ip_sans_cidr")
	r.URISANs = rapid.SampledFrom([][]string{nil, nil, {"spiffe://example.com/*"}, {"https://*.example.com/x"}, {"*"}}).Draw(rt, "allowed_uri_sans")
	r.OtherSANs = rapid.SampledFrom(c15OtherSANRoles).Draw(rt, "allowed_other_sans")
	switch n := rapid.IntRange(0, 19).Draw(rt, "key_type"); {
	case n < 9:
		r.KeyType = "ec"
		r.KeyBits = rapid.SampledFrom([]int{0, 224, 256, 384, 521}).Draw(rt, "key_bits")
	case n < 13:
		r.KeyType = "ed25519"
	case n < 16:
		r.KeyType = "rsa"
		r.KeyBits = rapid.SampledFrom([]int{0, 2048, 3072}).Draw(rt, "key_bits")
	default:
		r.KeyType = "any"
	}
	r.MaxTTL = rapid.SampledFrom([]time.Duration{0, 0, time.Hour, 6 * time.Hour, 72 * time.Hour, 2000 * time.Hour}).Draw(rt, "max_ttl")
	r.TTL = rapid.SampledFrom([]time.Duration{0, 0, 30 * time.Minute, time.Hour, 12 * time.Hour, 100 * time.Hour}).Draw(rt, "ttl")
	if r.MaxTTL > 0 && r.TTL > r.MaxTTL {
		r.TTL = r.MaxTTL // the API refuses ttl > max_ttl; construct a valid role
	}
	if vxChance(rt, "not_before_duration_sent", 50) {
		d := rapid.SampledFrom([]time.Duration{0, 10 * time.Second, 5 * time.Minute, 2 * time.Hour}).Draw(rt, "not_before_duration")
		r.NotBeforeDur = &d
	}
	if vxChance(rt, "role_not_after", 6) {
		r.NotAfter = rapid.SampledFrom([]string{"2030-01-01T00:00:00Z", "9999-12-31T23:59:59Z"}).Draw(rt, "not_after")
	}
	r.NotAfterBound = rapid.SampledFrom([]string{"", "ttl-limited", "permit", "ttl-limited", "", "forbid", "2027-06-01T00:00:00Z", "ttl-limited"}).Draw(rt, "not_after_bound")
	r.NotBeforeBound = rapid.SampledFrom([]string{"", "permit", "duration", "forbid"}).Draw(rt, "not_before_bound")
	switch rapid.IntRange(0, 5).Draw(rt, "key_usage") {
	case 0, 1: // not sent
	case 2:
		r.KeyUsageSent = true
	case 3:
		r.KeyUsageSent, r.KeyUsage = true, []string{"DigitalSignature"}
	case 4:
		r.KeyUsageSent, r.KeyUsage = true, []string{"digitalsignature", "KeyEncipherment", "DataEncipherment"}
	case 5:
		r.KeyUsageSent, r.KeyUsage = true, []string{"CertSign", "CRLSign"}
	}
	r.ExtKeyUsage = rapid.SampledFrom([][]string{nil, nil, {"CodeSigning"}, {"TimeStamping", "OCSPSigning"}, {"Any"}}).Draw(rt, "ext_key_usage")
	r.ServerFlag = vxChance(rt, "server_flag", 70)
	r.ClientFlag = vxChance(rt, "client_flag", 70)
	r.CodeSignFlag = vxChance(rt, "code_signing_flag", 15)
	r.EmailFlag = vxChance(rt, "email_protection_flag", 15)
	r.CNValidations = rapid.SampledFrom([][]string{nil, {"email", "hostname"}, {"email", "hostname"}, {"hostname"}, {"email"}, {"disabled"}}).Draw(rt, "cn_validations")
	r.UseCSRCN = vxChance(rt, "use_csr_common_name", 75)
	r.UseCSRSANs = vxChance(rt, "use_csr_sans", 75)
	r.RequireCN = vxChance(rt, "require_cn", 85)
	r.BasicConstraints = vxChance(rt, "basic_constraints_valid_for_non_ca", 20)
	r.NoStore = vxChance(rt, "no_store", 10)
	refs := []string{"default", "default", "root"}
	if _, ok := m.issuers["int"]; ok {
		refs = append(refs, "int", "int")
	}
	r.IssuerRef = rapid.SampledFrom(refs).Draw(rt, "issuer_ref")
	return r
}

// ---- request generator

type c15Name struct {
	S         string
	Class     string
	Derivable bool // produced by a derivation that some switch of the documentation could authorise
}

func c15Instantiate(rt *rapid.T, d string, benign bool) string {
	fills := []string{"g", "", "x1", "a.b", "-1", "evil.net.", "G"}
	if benign {
		fills = []string{"g", "x1", "a.b", "g-1"}
	}
	for strings.Contains(d, "*") {
		fill := rapid.SampledFrom(fills).Draw(rt, "globFill")
		d = strings.Replace(d, "*", fill, 1)
	}
	return d
}

var c15AllKinds = []string{"bare", "bare", "sub", "sub", "sub", "subsub", "lookalike", "lookalike", "suffixext", "wild", "wild", "wildsub",
	"partwild", "badwild", "upper", "dot", "idn", "email", "email", "localhost", "foreign", "nonhost", "literal", "globinst", "globinst"}

var c15HostileKinds = []string{"lookalike", "lookalike", "suffixext", "badwild", "foreign", "email-hostile", "nonhost", "localhost-hostile", "wild-foreign", "degenerate"}

// names that a careless suffix / wildcard comparison against an EMPTY allowed_domains entry would accept
var c15DegenerateNames = []string{"*", "www*", "login.evil.net.", "u@evil.net.", "evil.net.", "*.", "*w", "x."}

// c15LegitKinds lists the derivations that some enabled switch of the role is documented to authorise.
// The second result says which kind of allowed_domains entry (plain / glob) the derivation starts from.
func c15LegitKinds(r *c15Role) (kinds []string) {
	plain, glob := false, false
	for _, d := range r.AllowedDomains {
		if d == "" {
			continue
		}
		if strings.Contains(d, "*") {
			glob = true
		} else {
			plain = true
		}
	}
	if r.AllowAnyName {
		kinds = append(kinds, "bare", "sub", "foreign-plain", "upper")
		if r.wildcardAllowed() {
			kinds = append(kinds, "wild")
		}
	}
	if plain && r.AllowBare {
		kinds = append(kinds, "bare", "bare", "email-bare", "upper")
	}
	if plain && r.AllowSub {
		kinds = append(kinds, "sub", "sub", "subsub", "email-sub", "idn")
		if r.wildcardAllowed() {
			kinds = append(kinds, "wild", "wildsub", "partwild")
		}
	}
	if glob && r.AllowGlob {
		kinds = append(kinds, "globinst", "globinst")
	}
	if glob && r.AllowBare && r.wildcardAllowed() {
		kinds = append(kinds, "literal")
	}
	if r.AllowLocalhost {
		kinds = append(kinds, "localhost-plain")
	}
	return kinds
}

func c15DrawName(rt *rapid.T, r *c15Role, kinds []string) c15Name {
	kind := rapid.SampledFrom(kinds).Draw(rt, "nameKind")
	if len(kinds) == len(c15HostileKinds) {
		for _, d := range r.AllowedDomains {
			if d == "" && vxChance(rt, "degenerateForEmptyEntry", 60) {
				kind = "degenerate"
			}
		}
	}
	if kind == "degenerate" {
		return c15Name{rapid.SampledFrom(c15DegenerateNames).Draw(rt, "degenerate"), "degenerate", false}
	}
	var pool []string
	wantGlob := kind == "globinst" || kind == "literal"
	for _, d := range r.AllowedDomains {
		if d != "" && (strings.Contains(d, "*") == wantGlob || len(kinds) == len(c15AllKinds)) {
			pool = append(pool, d)
		}
	}
	var src string
	if len(pool) > 0 && vxChance(rt, "fromRole", 90) {
		src = rapid.SampledFrom(pool).Draw(rt, "srcDomain")
	} else {
		src = rapid.SampledFrom(c15BaseDomains).Draw(rt, "srcDomain")
	}
	lab := func() string { return rapid.SampledFrom(c15LabelPool).Draw(rt, "label") }
	isGlob := strings.Contains(src, "*")
	if kind == "literal" || (kind == "globinst" && !isGlob) {
		return c15Name{src, "literal", true}
	}
	d := src
	if isGlob {
		d = c15Instantiate(rt, src, len(kinds) != len(c15AllKinds))
	}
	switch kind {
	case "email-bare":
		return c15Name{"u@" + d, "email", true}
	case "email-sub":
		return c15Name{"first.last@" + lab() + "." + d, "email", true}
	case "foreign-plain":
		return c15Name{rapid.SampledFrom([]string{"evil.net", "www.evil.net", "host"}).Draw(rt, "foreign"), "foreign", false}
	case "localhost-plain":
		return c15Name{rapid.SampledFrom([]string{"localhost", "localdomain"}).Draw(rt, "lh"), "localhost-form", true}
	case "localhost-hostile":
		return c15Name{rapid.SampledFrom([]string{"localhost.evil.net", "notlocalhost", "foo.localhost", "*.localhost", "localhost"}).Draw(rt, "lh"), "localhost-form", false}
	case "wild-foreign":
		return c15Name{"*." + rapid.SampledFrom([]string{"evil.net", "com", "evil" + d}).Draw(rt, "wf"), "wildcard-foreign", false}
	case "email-hostile":
		switch rapid.IntRange(0, 3).Draw(rt, "emailKind") {
		case 0:
			return c15Name{"u@evil" + d, "email-lookalike", false}
		case 1:
			return c15Name{"u@*." + d, "email-wildcard", false}
		case 2:
			return c15Name{"a@b@" + d, "email-malformed", false}
		default:
			return c15Name{"u@evil.net", "email-foreign", false}
		}
	case "bare", "globinst":
		if isGlob {
			return c15Name{d, "glob-instance", true}
		}
		return c15Name{d, "bare", true}
	case "sub":
		return c15Name{lab() + "." + d, "subdomain", true}
	case "subsub":
		return c15Name{lab() + "." + lab() + "." + d, "subdomain", true}
	case "lookalike":
		return c15Name{rapid.SampledFrom([]string{"evil", "x", "www-"}).Draw(rt, "prefix") + d, "lookalike-suffix", false}
	case "suffixext":
		return c15Name{d + rapid.SampledFrom([]string{".evil.net", "evil.net", ".com"}).Draw(rt, "ext"), "allowed-as-prefix", false}
	case "wild":
		return c15Name{"*." + d, "wildcard", true}
	case "wildsub":
		return c15Name{"*." + lab() + "." + d, "wildcard", true}
	case "partwild":
		return c15Name{rapid.SampledFrom([]string{"f*o", "*x", "x*"}).Draw(rt, "wlabel") + "." + d, "partial-wildcard", true}
	case "badwild":
		return c15Name{rapid.SampledFrom([]string{"a.*.", "*.*.", "**.", "*", "a.b*."}).Draw(rt, "badw") + d, "malformed-wildcard", false}
	case "upper":
		if len(kinds) == len(c15AllKinds) && vxChance(rt, "upperSub", 50) {
			return c15Name{"WwW." + strings.ToUpper(d), "upper-case", true}
		}
		return c15Name{strings.ToUpper(d), "upper-case", true}
	case "dot":
		if vxChance(rt, "dotSub", 50) {
			return c15Name{lab() + "." + d + ".", "trailing-dot", true}
		}
		return c15Name{d + ".", "trailing-dot", true}
	case "idn":
		return c15Name{rapid.SampledFrom([]string{"bücher", "xn--bcher-kva", "пример", "ＷＷＷ", "faß"}).Draw(rt, "idnLabel") + "." + d, "idn", true}
	case "email":
		switch rapid.IntRange(0, 6).Draw(rt, "emailKind") {
		case 0, 1:
			return c15Name{"u@" + d, "email", true}
		case 2:
			return c15Name{"first.last@" + lab() + "." + d, "email", true}
		case 3:
			return c15Name{"u@evil" + d, "email-lookalike", false}
		case 4:
			return c15Name{"u@*." + d, "email-wildcard", false}
		case 5:
			return c15Name{"a@b@" + d, "email-malformed", false}
		default:
			return c15Name{"u@evil.net", "email-foreign", false}
		}
	case "localhost":
		s := rapid.SampledFrom([]string{"localhost", "localdomain", "foo.localhost", "*.localhost", "u@localhost", "localhost.evil.net", "notlocalhost", "foo.localdomain"}).Draw(rt, "lh")
		return c15Name{s, "localhost-form", s != "localhost.evil.net" && s != "notlocalhost"}
	case "foreign":
		return c15Name{rapid.SampledFrom([]string{"evil.net", "www.evil.net", "com", "evil.net.", "*.evil.net", "login.evil.net.", "*", "www*", "u@evil.net.", "*."}).Draw(rt, "foreign"), "foreign", false}
	default: // nonhost
		bad := rapid.SampledFrom([]string{"under_score", "sp ace", "-dash", "dash-", "a..b", strings.Repeat("l", 64), "semi;colon", "quo\"te", "sl/ash"}).Draw(rt, "badLabel")
		return c15Name{bad + "." + d, "not-a-hostname", true}
	}
}

type c15Req struct {
	Endpoint  string // issue sign verbatim | issuer-issue issuer-sign issuer-verbatim | sign-intermediate
	Mode      string // legit (every name derived through an enabled switch), mixed (one hostile name), hostile, any
	WithRole  bool   // verbatim endpoints: role given in the path
	PathRef   string // issuer-* endpoints
	Names     []c15Name
	CN        string
	Alts      []string
	IPs, URIs []string
	Others    []string
	CsrOthers []string // otherName entries of the CSR's SAN extension, in this order
	CsrCN     string
	CsrNames  []string // DNS names and e-mail addresses in the CSR
	CsrIPs    []string
	CsrURIs   []string
	CsrCA     bool // CSR asks for basicConstraints CA:TRUE
	CsrKU     bool // CSR carries keyUsage certSign + an EKU extension
	Key       int
	TTL       time.Duration
	NotAfter  string
	// NotAfterOff != 0: not_after is sent as (time of the request + offset); the offset is the generated value
	NotAfterOff time.Duration
	Window      string // directed ttl-limited class: below-clamped / in-clamp-window / above-unclamped / ""
	NotBefore   string
	ExcludeCN   bool
	KeyType     string
	KeyBits     int
	csrPEM      string
}

func (q *c15Req) usesCSR() bool {
	return q.Endpoint != "issue" && q.Endpoint != "issuer-issue"
}

func (q *c15Req) verbatim() bool { return q.Endpoint == "verbatim" || q.Endpoint == "issuer-verbatim" }

func c15DrawReq(rt *rapid.T, m *c15Mount, r *c15Role) *c15Req {
	q := &c15Req{}
	eps := []string{"issue", "issue", "issue", "sign", "sign", "sign", "verbatim", "issuer-issue", "issuer-sign", "issuer-verbatim"}
	if r.KeyType == "rsa" { // RSA key generation inside issue is the one expensive step: mostly sign
		eps = []string{"issue", "sign", "sign", "sign", "sign", "sign", "sign", "verbatim", "issuer-sign", "issuer-sign", "issuer-verbatim"}
	}
	q.Endpoint = rapid.SampledFrom(eps).Draw(rt, "endpoint")
	if vxChance(rt, "signIntermediate", 3) {
		q.Endpoint = "sign-intermediate"
	}
	if strings.HasPrefix(q.Endpoint, "issuer-") || q.Endpoint == "sign-intermediate" {
		refs := []string{"default", "root"}
		if _, ok := m.issuers["int"]; ok {
			refs = append(refs, "int", "int")
		}
		q.PathRef = rapid.SampledFrom(refs).Draw(rt, "pathIssuer")
	}
	if q.verbatim() {
		q.WithRole = rapid.Bool().Draw(rt, "verbatimWithRole")
	}
	n := rapid.IntRange(1, 4).Draw(rt, "nNames")
	legit := c15LegitKinds(r)
	mode := rapid.SampledFrom([]string{"legit", "legit", "legit", "mixed", "mixed", "hostile", "any"}).Draw(rt, "nameMode")
	if len(legit) == 0 && (mode == "legit" || mode == "mixed") {
		mode = "any"
	}
	q.Mode = mode
	hostileAt := -1
	if mode == "mixed" {
		hostileAt = rapid.IntRange(0, n-1).Draw(rt, "hostileAt")
	}
	for i := 0; i < n; i++ {
		switch {
		case mode == "any":
			q.Names = append(q.Names, c15DrawName(rt, r, c15AllKinds))
		case mode == "hostile" || i == hostileAt:
			q.Names = append(q.Names, c15DrawName(rt, r, c15HostileKinds))
		default:
			q.Names = append(q.Names, c15DrawName(rt, r, legit))
		}
	}
	cnDisabled, cnEmail, cnHost := r.cnMode()
	if mode == "legit" && !cnDisabled {
		// put a name first whose form (e-mail / host name) cn_validations admits as common name
		fit := -1
		for i, nm := range q.Names {
			if isMail := strings.Contains(nm.S, "@"); isMail && cnEmail || !isMail && cnHost {
				fit = i
				break
			}
		}
		switch {
		case fit > 0:
			q.Names[0], q.Names[fit] = q.Names[fit], q.Names[0]
		case fit < 0 && cnEmail:
			q.Names[0] = c15Name{"u@" + q.Names[0].S, "email", q.Names[0].Derivable}
		case fit < 0:
			q.Names[0] = c15Name{q.Names[0].S[strings.Index(q.Names[0].S, "@")+1:], "bare", q.Names[0].Derivable}
		}
	}
	var strs []string
	for _, nm := range q.Names {
		strs = append(strs, nm.S)
	}
	freeP, noCNP := 5, 4
	if cnDisabled {
		freeP = 40
	}
	if !r.RequireCN {
		noCNP = 30
	}
	if mode == "legit" && !cnDisabled {
		freeP = 0
	}
	if mode == "legit" && r.RequireCN {
		noCNP = 0
	}
	if vxChance(rt, "freeFormCN", freeP) {
		q.CN = rapid.SampledFrom([]string{"Some Human Name", "device 0001", "svc/backend"}).Draw(rt, "cnText")
		q.Alts = strs
		q.Names = append(q.Names, c15Name{q.CN, "free-form-cn", true})
	} else if vxChance(rt, "noCN", noCNP) {
		q.Alts = strs
	} else {
		q.CN, q.Alts = strs[0], strs[1:]
	}
	q.ExcludeCN = vxChance(rt, "exclude_cn_from_sans", 12)
	ipPool := []string{"10.1.2.3", "192.168.1.1", "8.8.8.8", "fd00::1", "2001:db8::1", "127.0.0.1"}
	uriPool := []string{"spiffe://example.com/svc", "spiffe://evil.net/svc", "https://www.example.com/x", "https://a.example.com.evil.net/x"}
	if mode == "legit" { // only SANs the role admits (constructed with the model's own rules)
		keep := func(pool []string, ok func(string) bool) (out []string) {
			for _, v := range pool {
				if ok(v) {
					out = append(out, v)
				}
			}
			return
		}
		ipPool = keep(ipPool, func(v string) bool { return c15IPAllowed(r, net.ParseIP(v)) })
		uriPool = keep(uriPool, func(v string) bool { return c15URIAllowed(r, v) })
	}
	if vxChance(rt, "withIP", 25) && len(ipPool) > 0 {
		q.IPs = rapid.SliceOfNDistinct(rapid.SampledFrom(ipPool), 1, min(2, len(ipPool)), rapid.ID[string]).Draw(rt, "ip_sans")
	}
	if vxChance(rt, "withURI", 10) && len(uriPool) > 0 {
		q.URIs = rapid.SliceOfNDistinct(rapid.SampledFrom(uriPool), 1, min(2, len(uriPool)), rapid.ID[string]).Draw(rt, "uri_sans")
	}
	// other SANs: independent of the name mode (a request whose host names are all fine may still carry an other
	// SAN value the role does not admit, anywhere among admitted ones)
	otherP := 6
	if len(r.OtherSANs) > 0 {
		otherP = 30
	}
	withOther := vxChance(rt, "withOther", otherP)
	otherHostile := withOther && vxChance(rt, "otherHostile", 40)
	otherInCSR := false
	if withOther {
		otherInCSR = q.Endpoint != "issue" && q.Endpoint != "issuer-issue" && vxChance(rt, "otherInCSR", 50)
		vals := c15DrawOthers(rt, r, mode == "legit", otherHostile, "other_sans")
		if otherInCSR {
			q.CsrOthers = vals
		} else {
			q.Others = vals
		}
	}
	lifetime := rapid.IntRange(0, 9).Draw(rt, "lifetime")
	if mode == "legit" && lifetime >= 8 && r.NotAfterBound != "" && r.NotAfterBound != "permit" && !q.verbatim() {
		lifetime = 4
	}
	// role TTL arithmetic of the documentation: ttl = role ttl or mount default, clamped to role max_ttl or mount max
	unclamped, ceiling := c15MountDefault, m.cfg.MountMax
	if r.TTL > 0 {
		unclamped = r.TTL
	}
	if r.MaxTTL > 0 {
		ceiling = r.MaxTTL
	}
	clamped := unclamped
	if clamped > ceiling {
		clamped = ceiling
	}
	directed := r.NotAfterBound == "ttl-limited" && !q.verbatim() && q.Endpoint != "sign-intermediate" && r.NotAfter == "" && vxChance(rt, "directedNotAfter", 60)
	switch {
	case directed:
		// not_after just below / just above now+clamped ttl and now+unclamped ttl, and in between
		offs := []time.Duration{clamped - 2*time.Minute, clamped + 2*time.Minute, (clamped + unclamped) / 2, unclamped - 2*time.Minute, unclamped + 2*time.Minute, clamped / 2}
		q.NotAfterOff = rapid.SampledFrom(offs).Draw(rt, "notAfterOffset")
		switch {
		case q.NotAfterOff <= clamped:
			q.Window = "below-clamped"
		case q.NotAfterOff <= unclamped:
			q.Window = "in-clamp-window"
		default:
			q.Window = "above-unclamped"
		}
	case lifetime <= 3:
	case lifetime <= 7:
		q.TTL = rapid.SampledFrom([]time.Duration{10 * time.Minute, 2 * time.Hour, 30 * time.Hour, 100 * time.Hour, 5000 * time.Hour}).Draw(rt, "reqTTL")
	case lifetime == 8:
		q.NotAfter = rapid.SampledFrom([]string{"2026-12-31T00:00:00Z", "2030-01-01T00:00:00Z", "9999-12-31T23:59:59Z", "2020-01-01T00:00:00Z"}).Draw(rt, "reqNotAfter")
	default:
		q.NotAfterOff = rapid.SampledFrom([]time.Duration{20 * time.Minute, 5 * time.Hour, 30 * time.Hour, 80 * time.Hour, 1000 * time.Hour}).Draw(rt, "notAfterOffset")
	}
	nbP := 8
	if mode == "legit" && r.NotBeforeBound == "forbid" {
		nbP = 0
	}
	if vxChance(rt, "withNotBefore", nbP) {
		q.NotBefore = rapid.SampledFrom([]string{"2020-01-01T00:00:00Z", "2026-01-01T00:00:00Z"}).Draw(rt, "reqNotBefore")
	}
	if !q.usesCSR() && r.KeyType == "any" {
		q.KeyType = rapid.SampledFrom([]string{"", "ec", "ec", "ed25519"}).Draw(rt, "reqKeyType")
		q.KeyBits = rapid.SampledFrom([]int{0, 0, 256, 384}).Draw(rt, "reqKeyBits")
	}
	if q.usesCSR() {
		keys := vxKeys()
		q.Key = rapid.IntRange(0, len(keys)-1).Draw(rt, "csrKey")
		matchP := 85
		if mode == "legit" {
			matchP = 100
		}
		if r.KeyType != "any" && vxChance(rt, "matchingKey", matchP) { // steer towards the role's key type
			for i, k := range keys {
				if k.typ == r.KeyType && (k.bits >= r.KeyBits) {
					q.Key = i
					break
				}
			}
		}
		if (r.KeyType == "rsa" || r.KeyType == "any") && vxChance(rt, "shortModulusKey", 12) {
			// an RSA key one bit below the size the role (or the engine's floor) asks for
			want := "rsa2047"
			if r.KeyBits == 3072 {
				want = "rsa3071"
			}
			for i, k := range keys {
				if k.name == want {
					q.Key = i
				}
			}
		}
		q.CsrCA = vxChance(rt, "csrCA", 15)
		q.CsrKU = vxChance(rt, "csrKeyUsage", 10)
		switch rapid.IntRange(0, 5).Draw(rt, "csrNames") {
		case 0: // API carries the names, CSR is bare
			q.CsrCN = ""
		case 1: // the CSR carries other names than the API
			ck := c15AllKinds
			if mode == "legit" {
				ck = legit
			}
			other := c15DrawName(rt, r, ck)
			extra := c15DrawName(rt, r, ck)
			q.Names = append(q.Names, other, extra)
			q.CsrCN = other.S
			q.CsrNames = []string{extra.S}
			if vxChance(rt, "csrIP", 30) && len(ipPool) > 0 {
				q.CsrIPs = []string{rapid.SampledFrom(ipPool).Draw(rt, "csrIPval")}
			}
			if vxChance(rt, "csrURI", 30) && len(uriPool) > 0 {
				q.CsrURIs = []string{rapid.SampledFrom(uriPool).Draw(rt, "csrURIval")}
			}
		default: // same names in both
			q.CsrCN, q.CsrNames, q.CsrIPs, q.CsrURIs = q.CN, q.Alts, q.IPs, q.URIs
			if vxChance(rt, "apiEmpty", 50) {
				q.CN, q.Alts, q.IPs, q.URIs = "", nil, nil, nil
			}
		}
	}
	return q
}

var (
	c15OIDBasicConstraints = asn1.ObjectIdentifier{2, 5, 29, 19}
	c15OIDKeyUsage         = asn1.ObjectIdentifier{2, 5, 29, 15}
	c15OIDExtKeyUsage      = asn1.ObjectIdentifier{2, 5, 29, 37}
)

func c15ASCII(s string) bool {
	for i := 0; i < len(s); i++ {
		if s[i] >= 0x80 {
			return false
		}
	}
	return true
}

// buildCSR renders the request's CSR. SAN strings must be IA5: internationalised names go in as punycode.
func (q *c15Req) buildCSR() error {
	k := vxKeys()[q.Key]
	tpl := &x509.CertificateRequest{Subject: pkix.Name{CommonName: q.CsrCN}}
	var kept []string
	for _, n := range q.CsrNames {
		if !c15ASCII(n) {
			a, err := idna.ToASCII(n)
			if err != nil || !c15ASCII(a) {
				continue
			}
			n = a
		}
		kept = append(kept, n)
		if strings.Contains(n, "@") {
			tpl.EmailAddresses = append(tpl.EmailAddresses, n)
		} else {
			tpl.DNSNames = append(tpl.DNSNames, n)
		}
	}
	q.CsrNames = kept
	for _, ip := range q.CsrIPs {
		tpl.IPAddresses = append(tpl.IPAddresses, net.ParseIP(ip))
	}
	for _, u := range q.CsrURIs {
		pu, err := url.Parse(u)
		if err != nil {
			return err
		}
		tpl.URIs = append(tpl.URIs, pu)
	}
	if len(q.CsrOthers) > 0 {
		ext, err := c15SANExtension(tpl, q.CsrOthers)
		if err != nil {
			return err
		}
		tpl.ExtraExtensions = append(tpl.ExtraExtensions, ext)
	}
	if q.CsrCA {
		tpl.ExtraExtensions = append(tpl.ExtraExtensions, pkix.Extension{Id: c15OIDBasicConstraints, Critical: true, Value: []byte{0x30, 0x03, 0x01, 0x01, 0xff}})
	}
	if q.CsrKU {
		// keyUsage: keyCertSign|cRLSign (bits 5,6) ; extKeyUsage: OCSPSigning
		tpl.ExtraExtensions = append(tpl.ExtraExtensions,
			pkix.Extension{Id: c15OIDKeyUsage, Critical: true, Value: []byte{0x03, 0x02, 0x01, 0x06}},
			pkix.Extension{Id: c15OIDExtKeyUsage, Value: []byte{0x30, 0x0a, 0x06, 0x08, 0x2b, 0x06, 0x01, 0x05, 0x05, 0x07, 0x03, 0x09}})
	}
	der, err := x509.CreateCertificateRequest(rand.Reader, tpl, k.signer)
	if err != nil {
		return err
	}
	q.csrPEM = string(pem.EncodeToMemory(&pem.Block{Type: "CERTIFICATE REQUEST", Bytes: der}))
	return nil
}

// c15SANExtension renders a subjectAltName extension (RFC 5280 4.2.1.6) with the template's DNS / e-mail / IP / URI
// names and, before them, otherName entries "<oid>;UTF8:<value>" in the order given (crypto/x509 has no field for them).
func c15SANExtension(tpl *x509.CertificateRequest, others []string) (pkix.Extension, error) {
	var names []asn1.RawValue
	for _, o := range others {
		p := strings.SplitN(o, ";", 2)
		var oid asn1.ObjectIdentifier
		for _, part := range strings.Split(p[0], ".") {
			n := 0
			fmt.Sscanf(part, "%d", &n)
			oid = append(oid, n)
		}
		oidDER, err := asn1.Marshal(oid)
		if err != nil {
			return pkix.Extension{}, err
		}
		strDER, err := asn1.Marshal(asn1.RawValue{Class: asn1.ClassUniversal, Tag: asn1.TagUTF8String, Bytes: []byte(strings.SplitN(p[1], ":", 2)[1])})
		if err != nil {
			return pkix.Extension{}, err
		}
		valDER, err := asn1.Marshal(asn1.RawValue{Class: asn1.ClassContextSpecific, Tag: 0, IsCompound: true, Bytes: strDER})
		if err != nil {
			return pkix.Extension{}, err
		}
		names = append(names, asn1.RawValue{Class: asn1.ClassContextSpecific, Tag: 0, IsCompound: true, Bytes: append(oidDER, valDER...)})
	}
	for _, e := range tpl.EmailAddresses {
		names = append(names, asn1.RawValue{Class: asn1.ClassContextSpecific, Tag: 1, Bytes: []byte(e)})
	}
	for _, d := range tpl.DNSNames {
		names = append(names, asn1.RawValue{Class: asn1.ClassContextSpecific, Tag: 2, Bytes: []byte(d)})
	}
	for _, u := range tpl.URIs {
		names = append(names, asn1.RawValue{Class: asn1.ClassContextSpecific, Tag: 6, Bytes: []byte(u.String())})
	}
	for _, ip := range tpl.IPAddresses {
		b := ip.To4()
		if b == nil {
			b = ip.To16()
		}
		names = append(names, asn1.RawValue{Class: asn1.ClassContextSpecific, Tag: 7, Bytes: b})
	}
	der, err := asn1.Marshal(names)
	if err != nil {
		return pkix.Extension{}, err
	}
	return pkix.Extension{Id: c15OIDSubjectAltName, Value: der}, nil
}

func (q *c15Req) path() string {
	role := "r"
	switch q.Endpoint {
	case "issue":
		return "issue/" + role
	case "sign":
		return "sign/" + role
	case "verbatim":
		if q.WithRole {
			return "sign-verbatim/" + role
		}
		return "sign-verbatim"
	case "issuer-issue":
		return "issuer/" + q.PathRef + "/issue/" + role
	case "issuer-sign":
		return "issuer/" + q.PathRef + "/sign/" + role
	case "issuer-verbatim":
		if q.WithRole {
			return "issuer/" + q.PathRef + "/sign-verbatim/" + role
		}
		return "issuer/" + q.PathRef + "/sign-verbatim"
	default:
		return "issuer/" + q.PathRef + "/sign-intermediate"
	}
}

func (q *c15Req) data() map[string]any {
	d := map[string]any{}
	if q.CN != "" {
		d["common_name"] = q.CN
	}
	if len(q.Alts) > 0 {
		d["alt_names"] = strings.Join(q.Alts, ",")
	}
	if len(q.IPs) > 0 {
		d["ip_sans"] = append([]string{}, q.IPs...)
	}
	if len(q.URIs) > 0 {
		d["uri_sans"] = append([]string{}, q.URIs...)
	}
	if len(q.Others) > 0 {
		d["other_sans"] = append([]string{}, q.Others...)
	}
	if q.TTL > 0 {
		d["ttl"] = int(q.TTL / time.Second)
	}
	if q.NotAfter != "" {
		d["not_after"] = q.NotAfter
	}
	if q.NotBefore != "" {
		d["not_before"] = q.NotBefore
	}
	if q.ExcludeCN {
		d["exclude_cn_from_sans"] = true
	}
	if q.KeyType != "" {
		d["key_type"] = q.KeyType
		if q.KeyBits != 0 {
			d["key_bits"] = q.KeyBits
		}
	}
	if q.usesCSR() {
		d["csr"] = q.csrPEM
	}
	return d
}

func c15PubKey(pub any) (typ string, bits int) {
	switch k := pub.(type) {
	case *rsa.PublicKey:
		return "rsa", k.N.BitLen()
	case *ecdsa.PublicKey:
		return "ec", k.Curve.Params().BitSize
	case ed25519.PublicKey:
		return "ed25519", 0
	}
	return fmt.Sprintf("%T", pub), 0
}

func c15RefusalClass(err error) string {
	s := err.Error()
	for _, p := range [][2]string{
		{"common name", "cn-not-allowed"}, {"subject alternate name", "dns-not-allowed"}, {"email address", "email-not-allowed"},
		{"IP Subject", "ip-not-allowed"}, {"IP address", "ip-not-allowed"}, {"URI Subject", "uri-not-allowed"}, {"other SAN", "othersan-not-allowed"},
		{"role requires", "key-mismatch"}, {"minimum of a", "key-mismatch"}, {"RSA keys <", "key-mismatch"}, {"role key type", "key-mismatch"},
		{"not_after_bound", "not-after-bound"}, {"not_before_bound", "not-before-bound"}, {"beyond the expiration of the CA", "beyond-issuer"},
		{"Either ttl or not_after", "ttl-and-not-after"}, {"is in the past", "in-the-past"}, {"Not Before", "not-before-after-not-after"},
		{"common_name field is required", "cn-required"}, {"idna", "idna-error"}, {"IA5String", "not-ia5-internal-error"},
	} {
		if strings.Contains(s, p[0]) {
			return p[1]
		}
	}
	return "other"
}

func TestVerif_C15_Issue(t *testing.T) {
	rec := verifx.NewRecorder("C15", "issue", "generated mount (1-2 issuers, EC/Ed25519/RSA keys, leaf_not_after_behavior err/truncate/permit, short/long issuer validity, mount max TTL) x generated role (all name/SAN/key/TTL/usage switches) x 1-5 requests to issue/sign/sign-verbatim (+issuer-scoped, rarely sign-intermediate) with names derived from the role's allowed_domains; every issued certificate is parsed and judged by a label-based reference model; one evaluation = one request; non-trivial = the request contained a name no switch could authorise (look-alike suffix, foreign, malformed wildcard/e-mail), or a ttl/not_after beyond a bound, or a CSR asking for CA/extra extensions")
	defer rec.Flush()
	vxKeys()
	start := time.Now()
	rapid.Check(t, func(rt *rapid.T) {
		cfg := c15DrawMount(rt)
		m, err := c15GetMount(cfg)
		if err != nil {
			rt.Fatalf("harness: building mount %+v: %v", cfg, err)
		}
		role0 := c15DrawRole(rt, m)
		// 0-2 PATCHes of generated fields; the model changes field by field, only where the patch says so
		role := role0.clone()
		var patches []*c15Patch
		if vxChance(rt, "patchRole", 55) {
			np := rapid.IntRange(1, 2).Draw(rt, "nPatches")
			for i := 0; i < np; i++ {
				p := c15DrawPatch(rt, role)
				p.apply(role)
				patches = append(patches, p)
			}
		}
		nreq := rapid.IntRange(1, 5).Draw(rt, "nRequests")
		reqs := make([]*c15Req, nreq)
		for i := range reqs {
			reqs[i] = c15DrawReq(rt, m, role)
		}
		if _, err := vxWrite(m.b, m.s, "roles/r", role0.data()); err != nil {
			rt.Fatalf("harness: role refused: %v\nrole=%+v", err, role0.data())
		}
		if len(role0.IPCIDRs) > 0 {
			rec.Class("role-created-with-ip-cidrs", 1)
		}
		c15ApplyPatches(rt, rec, m, role0, patches)
		if len(role.IPCIDRs) > 0 && role.AllowIPSANs {
			rec.Class("role-restricts-ip-sans-to-cidrs", 1)
		}
		for _, q := range reqs {
			c15RunOne(rt, rec, m, role, q)
		}
	})
	rec.Set("mounts_built", len(c15Mounts))
	rec.Set("wall_s_property", time.Since(start).Seconds())
}

func c15RunOne(rt *rapid.T, rec *verifx.Recorder, m *c15Mount, role *c15Role, q *c15Req) {
	if q.NotAfterOff != 0 {
		q.NotAfter = time.Now().Add(q.NotAfterOff).UTC().Truncate(time.Second).Format(time.RFC3339)
	}
	if q.usesCSR() {
		if err := q.buildCSR(); err != nil {
			rt.Fatalf("harness: CSR: %v (%+v)", err, q)
		}
	}
	data := q.data()
	path := q.path()
	verbatim := q.verbatim()
	caEndpoint := q.Endpoint == "sign-intermediate"

	// effective role of the call, per documentation
	var eff *c15Role
	switch {
	case caEndpoint:
		eff = nil
	case verbatim && q.WithRole:
		eff = role
	case verbatim:
		eff = nil
	default:
		eff = role
	}
	issuerName := ""
	switch {
	case q.PathRef != "":
		issuerName = m.resolve(q.PathRef)
	case verbatim && !q.WithRole:
		issuerName = m.def
	default:
		issuerName = m.resolve(role.IssuerRef)
	}
	issuer := m.issuers[issuerName]
	behav := m.behav[issuerName]

	// bounds from the model
	maxEff, ttlEff := m.cfg.MountMax, c15MountDefault
	if eff != nil {
		if eff.MaxTTL > 0 {
			maxEff = eff.MaxTTL
		}
		if eff.TTL > 0 {
			ttlEff = eff.TTL
		}
	}
	if ttlEff > maxEff {
		ttlEff = maxEff
	}
	ttlAbove := q.TTL > maxEff
	var reqNA time.Time
	if q.NotAfter != "" {
		reqNA, _ = time.Parse(time.RFC3339, q.NotAfter)
	}

	nontrivial := ttlAbove || q.CsrCA || q.CsrKU
	for _, n := range q.Names {
		if !n.Derivable {
			nontrivial = true
		}
	}
	if q.NotAfter != "" && reqNA.After(time.Now().Add(maxEff)) {
		nontrivial = true
	}

	ipOutOfRange := false
	if eff != nil && !verbatim && len(eff.IPCIDRs) > 0 && eff.AllowIPSANs {
		_, _, wantIPs, _ := c15Sources(eff, q)
		for _, ip := range wantIPs {
			if !c15IPAllowed(eff, net.ParseIP(ip)) {
				ipOutOfRange = true
			}
		}
	}
	if ipOutOfRange {
		nontrivial = true
		rec.Class("request-ip-san-outside-role-cidrs", 1)
	}
	if eff != nil && !verbatim {
		effOthers := append([]string{}, q.Others...)
		if q.usesCSR() && eff.UseCSRSANs {
			effOthers = append(effOthers, q.CsrOthers...)
		}
		if len(effOthers) > 1 {
			rec.Class("request-with-several-other-sans", 1)
		}
		nBad := 0
		for _, o := range effOthers {
			if !c15OtherSANValueAllowed(eff, o) {
				nBad++
			}
		}
		if nBad > 0 {
			nontrivial = true
			rec.Class("request-other-san-outside-role", 1)
			if nBad < len(effOthers) {
				rec.Class("request-other-san-outside-role-among-admitted-ones", 1)
			}
		}
	}

	t0 := time.Now()
	var resp *logical.Response
	var err error
	if p := verifx.Try(func() { resp, err = vxWrite(m.b, m.s, path, data) }); p != nil {
		rec.Violation(rt, "panic", map[string]any{"path": path, "request": data, "role": role.data()}, "%s panicked: %v", path, p)
		return
	}
	t1 := time.Now()

	sample := func() any {
		d2 := map[string]any{}
		for k, v := range data {
			if k == "csr" {
				v = fmt.Sprintf("<CSR key=%s cn=%q names=%v ips=%v uris=%v others=%v ca=%v ku=%v>", vxKeys()[q.Key].name, q.CsrCN, q.CsrNames, q.CsrIPs, q.CsrURIs, q.CsrOthers, q.CsrCA, q.CsrKU)
			}
			d2[k] = v
		}
		out := map[string]any{"mount": fmt.Sprintf("%+v", m.cfg), "role": role.data(), "path": path, "request": d2}
		if err != nil {
			out["refused"] = verifx.Trunc(err.Error(), 200)
		}
		return out
	}
	detail := func(cert *x509.Certificate) map[string]any {
		d := sample().(map[string]any)
		if cert != nil {
			d["certificate"] = vxCertPEM(cert)
		}
		return d
	}
	for _, n := range q.Names {
		rec.Class("name:"+n.Class, 1)
	}
	digestNA := q.NotAfter
	if q.NotAfterOff != 0 {
		digestNA = ""
	}
	digest := verifx.Digest(fmt.Sprintf("%+v", m.cfg), fmt.Sprint(role.data()), path, q.CN, q.Alts, q.IPs, q.URIs, q.Others, q.CsrOthers, q.CsrCN, q.CsrNames, q.CsrCA, q.CsrKU, q.TTL, digestNA, q.NotAfterOff, q.Key)

	if err != nil || resp == nil {
		if err == nil {
			rt.Fatalf("harness: nil response without error from %s", path)
		}
		if c15RefusalClass(err) == "other" {
			rec.Class("refused-unclassified", 1)
			rec.Note("unclassified refusal: %s | %s %v", verifx.Trunc(err.Error(), 300), path, sample().(map[string]any)["request"])
		}
		rec.Case(q.Endpoint+":refused", nontrivial, digest, sample)
		rec.Class("refused", 1)
		if q.Window != "" {
			rec.Class("ttl-limited:"+q.Window+":refused", 1)
		}
		rec.Class("mode:"+q.Mode+":refused", 1)
		if q.Mode == "legit" {
			rec.Class("legit-refusal:"+c15RefusalClass(err), 1)
		}
		rec.Class("refusal:"+c15RefusalClass(err), 1)
		// requests the reference authoriser accepts but the engine refuses are counted, not failed
		if eff != nil && !verbatim {
			all := true
			for _, n := range c15EffectiveNames(eff, q) {
				if ok, _ := c15NameAuthorised(eff, n, ""); !ok {
					all = false
				}
			}
			if all && strings.Contains(err.Error(), "not allowed by this role") {
				rec.Class("refused-though-model-authorises-all-names", 1)
			}
		}
		return
	}
	rec.Case(q.Endpoint+":issued", nontrivial, digest, sample)
	rec.Class("issued", 1)
	if q.Window != "" {
		rec.Class("ttl-limited:"+q.Window+":issued", 1)
	}
	rec.Class("mode:"+q.Mode+":issued", 1)
	if eff != nil && eff.AllowAnyName {
		rec.Class("issued-under-allow_any_name", 1)
	}

	cert, perr := vxParseCertPEM(vxStr(resp.Data, "certificate"))
	if perr != nil {
		rec.Violation(rt, "response-unparseable", detail(nil), "%s succeeded but the certificate does not parse: %v", path, perr)
		return
	}
	fail := func(sig, format string, args ...any) {
		raw := fmt.Sprintf("%s (role key_type=%s issuer=%s/%s): %s", path, role.KeyType, issuerName, behav, fmt.Sprintf(format, args...))
		d := detail(cert)
		d["message"] = raw
		rt.Logf("violation %s: %s", sig, raw)
		rec.Violation(rt, sig, d, "%s", vxStable(raw)) // stable text: rapid only shrinks failures whose message repeats exactly
	}

	// 1. signature and issuer
	if e := cert.CheckSignatureFrom(issuer); e != nil {
		fail("bad-signature", "certificate does not verify under issuer %q: %v", issuerName, e)
	}
	if !bytes.Equal(cert.RawIssuer, issuer.RawSubject) {
		fail("issuer-name-mismatch", "issuer field %q is not the subject of issuer %q", cert.Issuer.String(), issuerName)
	}
	// 2. serial never used before on this mount
	ser := cert.SerialNumber.String()
	if prev, dup := m.serials[ser]; dup {
		fail("serial-reused", "serial %s was already used on this mount by %s", ser, prev)
	}
	m.serials[ser] = path
	if sn := vxStr(resp.Data, "serial_number"); strings.ReplaceAll(sn, ":", "") != fmt.Sprintf("%0*x", len(strings.ReplaceAll(sn, ":", "")), cert.SerialNumber) {
		fail("serial-field-mismatch", "response serial_number %s is not the certificate's serial %x", sn, cert.SerialNumber)
	}
	// 3. CA flag
	if caEndpoint {
		if !cert.IsCA || !cert.BasicConstraintsValid {
			fail("not-ca-on-ca-endpoint", "sign-intermediate produced a certificate without CA basic constraints")
		}
		return
	}
	if cert.IsCA {
		fail("ca-flag-on-leaf", "leaf endpoint produced a certificate with CA:TRUE (CSR asked for CA: %v)", q.CsrCA)
	}
	// 4. lifetime
	const skew = 2 * time.Second
	if behav != "permit" && cert.NotAfter.After(issuer.NotAfter) {
		fail("notafter-beyond-issuer", "NotAfter %s is later than the issuer's %s although leaf_not_after_behavior=%s", cert.NotAfter.UTC().Format(time.RFC3339), issuer.NotAfter.UTC().Format(time.RFC3339), behav)
	}
	roleNA := ""
	naBound := ""
	if eff != nil && !verbatim {
		roleNA, naBound = eff.NotAfter, eff.NotAfterBound
	}
	switch {
	case roleNA != "":
		ts, _ := time.Parse(time.RFC3339, roleNA)
		if cert.NotAfter.After(ts) {
			fail("notafter-beyond-role-not_after", "NotAfter %s is later than the role's not_after %s", cert.NotAfter.UTC().Format(time.RFC3339), roleNA)
		}
	case q.NotAfter != "":
		if cert.NotAfter.After(reqNA) {
			fail("notafter-beyond-requested", "NotAfter %s is later than the requested not_after %s", cert.NotAfter.UTC().Format(time.RFC3339), q.NotAfter)
		}
		switch naBound {
		case "", "permit":
			// documented: not_after_bound=permit (the default) lets the request's not_after through; counted
			if cert.NotAfter.After(t1.Add(maxEff + skew)) {
				rec.Class("issued-beyond-max-ttl-via-request-not_after-under-permit", 1)
			}
		case "forbid":
			fail("notafter-forbidden", "not_after_bound=forbid but a request carrying not_after=%s was served", q.NotAfter)
		case "ttl-limited":
			if cert.NotAfter.After(t1.Add(ttlEff + skew)) {
				fail("notafter-beyond-ttl-limit", "not_after_bound=ttl-limited: effective ttl %s (role ttl %s, role max_ttl %s, mount default %s, mount max %s) but a request with not_after = now+%s got NotAfter %s from now", ttlEff, role.TTL, role.MaxTTL, c15MountDefault, m.cfg.MountMax, q.NotAfterOff, cert.NotAfter.Sub(t1).Round(time.Minute))
			}
		default:
			ts, _ := time.Parse(time.RFC3339, naBound)
			if cert.NotAfter.After(ts) {
				fail("notafter-beyond-bound", "NotAfter %s is later than not_after_bound %s", cert.NotAfter.UTC().Format(time.RFC3339), naBound)
			}
		}
	default:
		if cert.NotAfter.After(t1.Add(maxEff + skew)) {
			fail("notafter-beyond-max-ttl", "NotAfter is %s from now, beyond max TTL %s (role max_ttl %v, mount max %s, requested ttl %s)", cert.NotAfter.Sub(t1).Round(time.Minute), maxEff, role.MaxTTL, m.cfg.MountMax, q.TTL)
		}
		// Not asserted, only counted: a role max_ttl LARGER than the mount's max lease TTL is honoured by the
		// engine. The statement ("no later than the role or mount maximum") is satisfied by the role bound; the
		// set-up guide calls the mount value "the global maximum" that roles "can restrict".
		if cert.NotAfter.After(t1.Add(m.cfg.MountMax + skew)) {
			rec.Class("issued-beyond-mount-max-under-larger-role-max_ttl", 1)
			if rec.ClassCount("issued-beyond-mount-max-under-larger-role-max_ttl") <= 2 {
				rec.Note("not asserted: %s issued a certificate valid %s with role max_ttl=%s on a mount whose max lease TTL is %s (request ttl=%s)", path, cert.NotAfter.Sub(t1).Round(time.Minute), role.MaxTTL, m.cfg.MountMax, q.TTL)
			}
		}
		want := ttlEff
		if q.TTL > 0 {
			want = q.TTL
		}
		if cert.NotAfter.After(t1.Add(want + skew)) {
			fail("notafter-beyond-requested-ttl", "NotAfter is %s from now, beyond the requested/default ttl %s", cert.NotAfter.Sub(t1).Round(time.Minute), want)
		}
		if naBound != "" && naBound != "permit" && naBound != "forbid" && naBound != "ttl-limited" {
			ts, _ := time.Parse(time.RFC3339, naBound)
			if cert.NotAfter.After(ts) {
				fail("notafter-beyond-bound", "NotAfter %s is later than not_after_bound %s", cert.NotAfter.UTC().Format(time.RFC3339), naBound)
			}
		}
	}
	nbd := 30 * time.Second
	if eff != nil {
		nbd = eff.notBeforeDuration()
	}
	if cert.NotBefore.Before(t0.Add(-nbd - skew)) {
		explicit := false
		if q.NotBefore != "" && eff != nil && !verbatim && (eff.NotBeforeBound == "" || eff.NotBeforeBound == "permit") {
			ts, _ := time.Parse(time.RFC3339, q.NotBefore)
			explicit = cert.NotBefore.Equal(ts)
		}
		if !explicit {
			fail("notbefore-too-early", "NotBefore %s is more than not_before_duration %s before now", cert.NotBefore.UTC().Format(time.RFC3339), nbd)
		}
	}
	// 5. key
	typ, bits := c15PubKey(cert.PublicKey)
	if q.usesCSR() {
		k := vxKeys()[q.Key]
		if !c15SamePublicKey(k, cert.PublicKey) {
			fail("public-key-changed", "certificate public key is not the CSR's key (%s)", k.name)
		}
	}
	if verbatim {
		return // sign-verbatim: judged on signature, serial, CA flag and lifetime only
	}
	wantType, minBits := role.KeyType, role.KeyBits
	if role.KeyType == "any" && !q.usesCSR() && q.KeyType != "" {
		wantType, minBits = q.KeyType, q.KeyBits
	}
	if wantType != "any" && typ != wantType {
		fail("key-type", "certificate key type %s, role requires %s", typ, wantType)
	}
	if typ == "rsa" && bits < 2048 || typ == "ec" && bits < 224 {
		fail("key-bits", "certificate key %s/%d is below the documented minimum", typ, bits)
	}
	if wantType != "any" && typ != "ed25519" {
		if minBits == 0 {
			minBits = map[string]int{"rsa": 2048, "ec": 256}[wantType]
			if q.usesCSR() {
				minBits = map[string]int{"rsa": 2048, "ec": 224}[wantType] // most permissive reading for signing
			}
		}
		if q.usesCSR() && bits < minBits || !q.usesCSR() && bits != minBits {
			fail("key-bits", "certificate key %s/%d, role key_bits %d (issue: exact; sign: minimum)", typ, bits, minBits)
		}
	}
	// 6. usages
	if extra := cert.KeyUsage &^ role.allowedKeyUsage(); extra != 0 {
		fail("key-usage-widened", "key usage %09b contains bits %09b outside the role's key_usage %v", cert.KeyUsage, extra, role.KeyUsage)
	}
	allowedEKU := role.allowedEKUs()
	for _, e := range cert.ExtKeyUsage {
		if !allowedEKU[e] {
			fail("eku-widened", "extended key usage %v is not among the role's flags/ext_key_usage", e)
		}
	}
	if len(cert.UnknownExtKeyUsage) > 0 {
		fail("eku-widened", "unknown extended key usage OIDs %v on the certificate (role has no ext_key_usage_oids)", cert.UnknownExtKeyUsage)
	}
	// 7. names: authorised, and a subset of what was asked for
	for _, d := range cert.DNSNames {
		if ok, why := c15NameAuthorised(role, d, "dns"); !ok {
			fail("dns-name-unauthorised", "DNS SAN %q is not authorised by the role: %s", d, why)
		}
	}
	for _, e := range cert.EmailAddresses {
		if ok, why := c15NameAuthorised(role, e, "email"); !ok {
			fail("email-unauthorised", "e-mail SAN %q is not authorised by the role: %s", e, why)
		}
	}
	if ok, why := c15CNAuthorised(role, cert.Subject.CommonName); !ok {
		fail("cn-unauthorised", "common name %q is not authorised by the role: %s", cert.Subject.CommonName, why)
	}
	wantCN, wantSANs, wantIPs, wantURIs := c15Sources(role, q)
	if cert.Subject.CommonName != "" && !c15In(cert.Subject.CommonName, wantCN) && cert.Subject.CommonName != wantCN[0] {
		fail("cn-not-requested", "common name %q, requested %q", cert.Subject.CommonName, wantCN)
	}
	allowedNames := append([]string{}, wantSANs...)
	if !q.ExcludeCN {
		allowedNames = append(allowedNames, wantCN...)
	}
	anyRequested := append(append(append([]string{q.CN, q.CsrCN}, q.Alts...), q.CsrNames...), wantCN...)
	for _, d := range append(append([]string{}, cert.DNSNames...), cert.EmailAddresses...) {
		if !c15In(d, allowedNames) {
			if c15In(d, anyRequested) {
				fail("name-from-wrong-source", "SAN %q was taken from a source the documentation excludes (use_csr_common_name=%v use_csr_sans=%v exclude_cn_from_sans=%v); expected only %q", d, role.UseCSRCN, role.UseCSRSANs, q.ExcludeCN, allowedNames)
			} else {
				fail("name-not-requested", "SAN %q was never requested (requested %q)", d, anyRequested)
			}
		}
	}
	for _, ip := range cert.IPAddresses {
		found := false
		for _, w := range wantIPs {
			if net.ParseIP(w).Equal(ip) {
				found = true
			}
		}
		if !found {
			fail("ip-not-requested", "IP SAN %s was not requested (%v)", ip, wantIPs)
		}
		if !c15IPAllowed(role, ip) {
			fail("ip-not-allowed", "IP SAN %s although allow_ip_sans=%v allowed_ip_sans_cidr=%v", ip, role.AllowIPSANs, role.IPCIDRs)
		}
	}
	for _, u := range cert.URIs {
		found := false
		for _, w := range wantURIs {
			if w == u.String() {
				found = true
			}
		}
		if !found {
			fail("uri-not-requested", "URI SAN %s was not requested (%v)", u, wantURIs)
		}
		if !c15URIAllowed(role, u.String()) {
			fail("uri-not-allowed", "URI SAN %s does not match allowed_uri_sans %v", u, role.URISANs)
		}
	}
	others, oerr := c15OtherNames(cert)
	if oerr != nil {
		rt.Fatalf("harness: parsing SAN extension: %v", oerr)
	}
	for _, o := range others {
		if !c15OtherSANAllowed(role, o) {
			fail("othersan-not-allowed", "other SAN %s=%q does not match allowed_other_sans %v", o.OID, o.Value, role.OtherSANs)
		}
		// documented sources: the other_sans parameter; with use_csr_sans the CSR's (the engine takes both then)
		wantOthers := append([]string{}, q.Others...)
		if q.usesCSR() && role.UseCSRSANs {
			wantOthers = append(wantOthers, q.CsrOthers...)
		}
		found := false
		for _, w := range wantOthers {
			p := strings.SplitN(w, ";", 2)
			if p[0] == o.OID && strings.HasSuffix(p[1], ":"+o.Value) {
				found = true
			}
		}
		if !found {
			fail("othersan-not-requested", "other SAN %s=%q was not requested (other_sans %v, CSR %v, use_csr_sans=%v)", o.OID, o.Value, q.Others, q.CsrOthers, role.UseCSRSANs)
		}
	}
}

func c15SamePublicKey(k *vxKey, pub any) bool {
	switch p := k.signer.Public().(type) {
	case *rsa.PublicKey:
		return p.Equal(pub)
	case *ecdsa.PublicKey:
		return p.Equal(pub)
	case ed25519.PublicKey:
		return p.Equal(pub)
	}
	return false
}

// c15Sources: where the documentation says the names come from.
func c15Sources(r *c15Role, q *c15Req) (cn []string, sans, ips, uris []string) {
	if q.usesCSR() && r.UseCSRCN && q.CsrCN != "" {
		cn = []string{q.CsrCN}
	} else {
		cn = []string{q.CN}
	}
	if q.usesCSR() && r.UseCSRSANs {
		return cn, q.CsrNames, q.CsrIPs, q.CsrURIs
	}
	return cn, q.Alts, q.IPs, q.URIs
}

// c15EffectiveNames: all names the request asks to have certified (for the refused-though-authorised count).
func c15EffectiveNames(r *c15Role, q *c15Req) []string {
	cn, sans, _, _ := c15Sources(r, q)
	out := append([]string{}, sans...)
	if d, _, _ := r.cnMode(); !d && cn[0] != "" {
		out = append(out, cn[0])
	}
	sort.Strings(out)
	return out
}

// ---- role PATCH

type c15Patch struct {
	data  map[string]any
	apply func(*c15Role)
}

func (r *c15Role) clone() *c15Role {
	c := *r
	return &c
}

// c15DrawPatch draws one PATCH of 1-3 fields that is valid against the current model r (e.g. ttl <= max_ttl).
// apply changes exactly the fields named in the patch.
func c15DrawPatch(rt *rapid.T, r *c15Role) *c15Patch {
	p := &c15Patch{data: map[string]any{}}
	var steps []func(*c15Role)
	cur := r.clone() // constraints between fields of the same patch
	n := rapid.IntRange(1, 3).Draw(rt, "nPatchFields")
	fields := []string{"ttl", "allow_subdomains", "max_ttl", "key_usage", "allowed_domains", "allowed_ip_sans_cidr", "allow_bare_domains", "allow_glob_domains",
		"allow_wildcard_certificates", "allow_localhost", "enforce_hostnames", "allow_ip_sans", "allowed_uri_sans", "ext_key_usage", "server_flag", "client_flag",
		"not_after_bound", "not_before_duration", "cn_validations", "use_csr_sans", "require_cn", "key_type", "allowed_other_sans"}
	for i := 0; i < n; i++ {
		f := rapid.SampledFrom(fields).Draw(rt, "patchField")
		if _, dup := p.data[f]; dup {
			continue
		}
		boolField := func(set func(*c15Role, bool)) {
			v := rapid.Bool().Draw(rt, f)
			p.data[f] = v
			steps = append(steps, func(m *c15Role) { set(m, v) })
		}
		switch f {
		case "ttl":
			opts := []time.Duration{2 * time.Hour, 30 * time.Minute, 100 * time.Hour, 0}
			v := rapid.SampledFrom(opts).Draw(rt, f)
			if cur.MaxTTL > 0 && v > cur.MaxTTL {
				v = cur.MaxTTL
			}
			cur.TTL = v
			p.data[f] = int(v / time.Second)
			steps = append(steps, func(m *c15Role) { m.TTL = v })
		case "max_ttl":
			v := rapid.SampledFrom([]time.Duration{6 * time.Hour, time.Hour, 72 * time.Hour, 0}).Draw(rt, f)
			if v > 0 && cur.TTL > v {
				v = cur.TTL
			}
			cur.MaxTTL = v
			p.data[f] = int(v / time.Second)
			steps = append(steps, func(m *c15Role) { m.MaxTTL = v })
		case "allow_subdomains":
			boolField(func(m *c15Role, v bool) { m.AllowSub = v })
		case "allow_bare_domains":
			boolField(func(m *c15Role, v bool) { m.AllowBare = v })
		case "allow_glob_domains":
			boolField(func(m *c15Role, v bool) { m.AllowGlob = v })
		case "allow_localhost":
			boolField(func(m *c15Role, v bool) { m.AllowLocalhost = v })
		case "enforce_hostnames":
			boolField(func(m *c15Role, v bool) { m.EnforceHostnames = v })
		case "allow_ip_sans":
			boolField(func(m *c15Role, v bool) { m.AllowIPSANs = v })
		case "server_flag":
			boolField(func(m *c15Role, v bool) { m.ServerFlag = v })
		case "client_flag":
			boolField(func(m *c15Role, v bool) { m.ClientFlag = v })
		case "use_csr_sans":
			boolField(func(m *c15Role, v bool) { m.UseCSRSANs = v })
		case "require_cn":
			boolField(func(m *c15Role, v bool) { m.RequireCN = v })
		case "allow_wildcard_certificates":
			v := rapid.Bool().Draw(rt, f)
			p.data[f] = v
			steps = append(steps, func(m *c15Role) { b := v; m.AllowWildcard = &b })
		case "key_usage":
			v := rapid.SampledFrom([][]string{{"DigitalSignature"}, {}, {"DigitalSignature", "KeyEncipherment"}, {"CertSign"}}).Draw(rt, f)
			p.data[f] = append([]string{}, v...)
			steps = append(steps, func(m *c15Role) { m.KeyUsageSent, m.KeyUsage = true, v })
		case "ext_key_usage":
			v := rapid.SampledFrom([][]string{{}, {"CodeSigning"}, {"Any"}}).Draw(rt, f)
			p.data[f] = append([]string{}, v...)
			steps = append(steps, func(m *c15Role) { m.ExtKeyUsage = v })
		case "allowed_domains":
			nd := rapid.IntRange(1, 2).Draw(rt, "nPatchDomains")
			var v []string
			for j := 0; j < nd; j++ {
				if vxChance(rt, "globDomain", 35) {
					v = append(v, rapid.SampledFrom(c15GlobDomains).Draw(rt, "domain"))
				} else {
					v = append(v, rapid.SampledFrom(c15BaseDomains).Draw(rt, "domain"))
				}
			}
			p.data[f] = append([]string{}, v...)
			steps = append(steps, func(m *c15Role) { m.AllowedDomains = v })
		case "allowed_ip_sans_cidr":
			v := rapid.SampledFrom([][]string{{"10.0.0.0/8"}, {}, {"192.168.0.0/16", "fd00::/8"}}).Draw(rt, f)
			p.data[f] = append([]string{}, v...)
			steps = append(steps, func(m *c15Role) { m.IPCIDRs = v })
		case "allowed_uri_sans":
			v := rapid.SampledFrom([][]string{{"spiffe://example.com/*"}, {}, {"*"}}).Draw(rt, f)
			p.data[f] = append([]string{}, v...)
			steps = append(steps, func(m *c15Role) { m.URISANs = v })
		case "allowed_other_sans":
			v := rapid.SampledFrom([][]string{{"1.3.6.1.4.1.311.20.2.3;UTF8:*"}, {}, {"*"}}).Draw(rt, f)
			p.data[f] = append([]string{}, v...)
			steps = append(steps, func(m *c15Role) { m.OtherSANs = v })
		case "not_after_bound":
			v := rapid.SampledFrom([]string{"ttl-limited", "permit", "forbid", "2027-06-01T00:00:00Z"}).Draw(rt, f)
			p.data[f] = v
			steps = append(steps, func(m *c15Role) { m.NotAfterBound = v })
		case "not_before_duration":
			v := rapid.SampledFrom([]time.Duration{10 * time.Second, 5 * time.Minute, 2 * time.Hour}).Draw(rt, f)
			p.data[f] = int(v / time.Second)
			steps = append(steps, func(m *c15Role) { d := v; m.NotBeforeDur = &d })
		case "cn_validations":
			v := rapid.SampledFrom([][]string{{"email", "hostname"}, {"hostname"}, {"disabled"}}).Draw(rt, f)
			p.data[f] = append([]string{}, v...)
			steps = append(steps, func(m *c15Role) { m.CNValidations = v })
		case "key_type": // always together with key_bits: the stored bits of another key type would be refused
			kt := rapid.SampledFrom([]string{"ec", "ed25519", "any"}).Draw(rt, f)
			p.data["key_type"], p.data["key_bits"] = kt, 0
			steps = append(steps, func(m *c15Role) { m.KeyType, m.KeyBits = kt, 0 })
		}
	}
	p.apply = func(m *c15Role) {
		for _, st := range steps {
			st(m)
		}
	}
	return p
}

// c15ApplyPatches sends the PATCHes. Oracle: every field of the role as read back that the patch does not
// name is exactly what it was before the patch; every field it names reads back as the patched value.
func c15ApplyPatches(rt *rapid.T, rec *verifx.Recorder, m *c15Mount, role0 *c15Role, patches []*c15Patch) {
	if len(patches) == 0 {
		return
	}
	model := role0.clone()
	for _, p := range patches {
		before, err := vxRead(m.b, m.s, "roles/r")
		if err != nil || before == nil {
			rt.Fatalf("harness: reading role: %v", err)
		}
		if _, err := vxReq(m.b, m.s, logical.PatchOperation, "roles/r", p.data); err != nil {
			rt.Fatalf("harness: role PATCH %v refused: %v (role %v)", p.data, err, model.data())
		}
		after, err := vxRead(m.b, m.s, "roles/r")
		if err != nil || after == nil {
			rt.Fatalf("harness: reading role: %v", err)
		}
		rec.Class("role-patches", 1)
		_, touchesCIDR := p.data["allowed_ip_sans_cidr"]
		if len(model.IPCIDRs) > 0 && !touchesCIDR {
			rec.Class("role-patches-on-cidr-role-not-naming-the-cidrs", 1)
		}
		keys := make([]string, 0, len(before.Data))
		for k := range before.Data {
			keys = append(keys, k)
		}
		sort.Strings(keys)
		for _, k := range keys {
			pv, named := p.data[k]
			got := c15Canon(after.Data[k])
			if !named {
				if _, kt := p.data["key_type"]; kt && k == "signature_bits" {
					continue // stored as the default of the key type when it was left at 0: derived from key_type
				}
				if was := c15Canon(before.Data[k]); got != was {
					rec.Violation(rt, "role-field-changed-by-unrelated-patch", map[string]any{"role_before_patch": model.data(), "patch": p.data, "field": k, "before": was, "after": got},
						"PATCH roles/r %v changed field %s, which it does not name, from %s to %s", c15PatchKeys(p.data), k, was, got)
				}
				continue
			}
			if k == "key_bits" {
				continue // 0 is stored as the default size of the key type
			}
			if want := c15Canon(pv); got != want {
				rec.Violation(rt, "role-patch-not-applied", map[string]any{"role_before_patch": model.data(), "patch": p.data, "field": k, "want": want, "after": got},
					"PATCH roles/r set %s=%s but the role reads back %s", k, want, got)
			}
		}
		p.apply(model)
	}
}

func c15PatchKeys(d map[string]any) []string {
	ks := make([]string, 0, len(d))
	for k := range d {
		ks = append(ks, k)
	}
	sort.Strings(ks)
	return ks
}

// c15Canon renders a role field for comparison: lists as [a b], durations/ints as decimal seconds, *bool as bool.
func c15Canon(v any) string {
	switch x := v.(type) {
	case nil:
		return "<nil>"
	case *bool:
		if x == nil {
			return "<nil>"
		}
		return fmt.Sprint(*x)
	case *int:
		if x == nil {
			return "<nil>"
		}
		return fmt.Sprint(*x)
	case []string:
		return fmt.Sprint(append([]string{}, x...))
	default:
		return fmt.Sprint(v)
	}
}
