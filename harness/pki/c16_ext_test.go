//go:build verif

package pki

// C16 extension: delta CRLs, revoke-with-key, foreign / orphaned certificates, issuers sharing key and
// subject, tidy variants and auto-tidy, stability of the reported revocation time. Everything here hangs
// off the state machine of c16_revoke_test.go (same model, same check() oracle).
//
// What is asserted about delta CRLs, and where it comes from:
//
//   - docs/api/secret/pki.mdx "Read issuer CRL": "Endpoints with type `delta` contain incremental CRLs on top of the
//     last complete CRL, with any new certificates that have been revoked. [...] The delta CRL clears when the
//     next complete CRL is rebuilt."  =>  a delta CRL carries the delta-CRL-indicator extension (RFC 5280 5.2.4,
//     critical) whose base number is the number of the complete CRL served next to it (crl_util.go
//     buildAnyCRLsWithCerts: LastCompleteNumberMap; buildCRL: CreateDeltaCRLIndicatorExt), a complete CRL never
//     carries it, it is signed by the issuer, and complete and delta CRLs share one increasing number sequence
//     (crl_util.go "CRLs (regardless of complete vs delta) are incrementally numbered"; RFC 5280 5.2.3).
//   - "Set CRL configuration": `enable_delta` "Enables or disables building of delta CRLs with up-to-date
//     revocation information, augmenting the last complete CRL. This option requires auto_rebuild";
//     "Enabling automatic rebuilding of CRLs disables immediate regeneration on revocation"  =>  with
//     auto_rebuild on NOTHING is promised about any CRL at the moment a revoke call returns.
//   - "Rotate CRLs": "If a revocation occurs that must be immediately propagated, this endpoint can be used to
//     regenerate the CRL"  =>  after a successful crl/rotate the complete CRL lists every reported revocation
//     (already asserted by the existing oracle through `must`).
//   - "Rotate delta CRLs": "forces a rotation of all issuers' delta CRLs, when enabled. This can be used [...] to
//     force a rebuild of a delta CRL if high-profile revocations have occurred"; `delta_rebuild_interval`
//     "Interval to check for new revocations on, to regenerate the delta CRL"  =>  with enable_delta on, after a
//     successful crl/rotate-delta, and after a periodic tick for which the interval has elapsed, every serial
//     whose revocation was reported and which is unexpired is on the complete CRL or on the delta CRL that
//     can be combined with it (RFC 5280 5.2.4: base <= complete number < delta number).
//   - a serial that was once listed (complete or combinable delta) stays listed while unexpired: every
//     complete rebuild reads all of revoked/ (getLocalRevokedCertEntries) before the delta WAL is cleared.

import (
	"bytes"
	"context"
	"crypto"
	"crypto/ecdsa"
	"crypto/ed25519"
	"crypto/elliptic"
	"crypto/rand"
	"crypto/sha256"
	"crypto/x509"
	"crypto/x509/pkix"
	"encoding/asn1"
	"encoding/pem"
	"fmt"
	"math/big"
	"strings"
	"sync"
	"testing"
	"time"

	"github.com/openbao/openbao/sdk/v2/helper/verifx"
	"github.com/openbao/openbao/sdk/v2/logical"
	"pgregory.net/rapid"
)

const (
	// Two behaviours of the unchanged tree that concern only what DELTA CRLs list. The statement of C16 claims the
	// status API, OCSP and every COMPLETE CRL built afterwards, so these are counted as observations
	// (rec.Class("observation:<name>")), with the history in a note and in the case sample, not as violations:
	// a revoke call that failed after revoked/<serial> was written and before the delta WAL was, is answered
	// "revoked" on retry without the WAL entry, so the delta CRL built next does not carry the serial
	c16SigDeltaRetry = "delta-crl-misses-revocation-after-faulted-revoke"
	// tidy removed revoked/<serial> of an expired certificate whose delta-wal/<serial> entry is still there: delta
	// rebuilds fail until the next complete rebuild
	c16SigDeltaTidy = "delta-rebuild-fails-after-tidy-of-expired-revoked-cert"
	// of two issuers sharing key and subject one lacks crl-signing: the rebuild leaves out the revocations whose
	// entry names that issuer (either of the two is named, whichever the map iteration finds first)
	c16SigMixedUsage = "revoked-serial-missing-from-crl-equivalent-issuer-without-crl-signing"
	// same cause: the CRL id of the issuer without crl-signing is not consulted either, so when the other issuer of
	// the pair has no CRL id of its own (re-imported) the pair gets a new CRL id and its numbers restart at 1
	c16SigMixedNumber = "crl-number-restarts-equivalent-issuer-without-crl-signing"
)

var c16OidDeltaIndicator = asn1.ObjectIdentifier{2, 5, 29, 27}

type c16Ext struct {
	delta         bool   // enable_delta as configured
	deltaInterval string // delta_rebuild_interval as configured
	grace         string
	allowExpired  bool

	twin map[string]string // issuers sharing key and subject: name -> the other one

	// usages an issuer entry does NOT have (issuer/<ref> "usage"); empty = every usage
	dropped map[string]map[string]bool
	// crlFrozen[name]: step at which the issuers that serve this CRL lost crl-signing; 0 = they may sign
	rebuiltWhileFrozen, nUsage, nCRLDropped, nCRLRestored, nRestoredRebuilt, nOCSPDropped, nIssuingDropped int
	wasFrozen                                                                                              map[string]bool
	nMixedUsage, nMixedUsageHit                                                                            int

	dLastNum  map[string]*big.Int
	dLastRaw  map[string][]byte
	deltaRisk map[string]int // like numberRisk, for the delta CRL of an issuer

	// an expired certificate was revoked while delta CRLs were enabled (so it has a delta WAL entry) ...
	expiredInWAL     int
	expiredInWALStep int
	// ... and a tidy that removes revoked entries of expired certificates ran afterwards
	tidiedExpiredInWAL int
	autoTidyRevoked    bool
	autoTidyBuffer     time.Duration

	// coverage
	nRotateDelta, nRotateDeltaFault, nPeriodicElapsed, nDeltaCarried, nConfigDelta                            int
	nKeyOK, nKeyWrong, nForeign, nOrphan, nOrphanViaTwin, nExpiredRevoke, nTidyExt, nTidyUnexpired, nAutoTidy int
	nRevokeUnderDelta, nDeltaObserved, nTwinRevoked, nDeltaTidyHit, nDeltaRetryHit, nTidiedExpiredInWAL, nRenewedTwin int

	// lease revocations; cross-signed roots of other mounts
	nLeaseIssued, nLeaseRevoke, nLeaseRevokeAgain, nLeaseRevokeRestart, nLeaseRevokeRestartMust                                                                   int
	cross                                                                                                                                                         []*c16Cross
	nCrossRevoked, nCrossImported, nCrossImportedWhileRevoked, nCrossImportedLater, nCrossImportedMuchLater, nCrossImportedSignerAbsent, nCrossRevokeAgainRefused int
}

func (s *c16Sys) ext() *c16Ext {
	x := &s.x
	if x.twin == nil {
		x.twin, x.dLastNum, x.dLastRaw, x.deltaRisk = map[string]string{}, map[string]*big.Int{}, map[string][]byte{}, map[string]int{}
		x.dropped, x.wasFrozen = map[string]map[string]bool{}, map[string]bool{}
		x.deltaInterval, x.grace = "15m", "12h"
	}
	return x
}

// covers: the CRL of issuer `name` is the CRL for certificates issued by `issuer`
func (s *c16Sys) covers(name, issuer string) bool {
	return name == issuer || s.ext().twin[issuer] == name
}

// addTwin creates a second root with the key and the subject of i0 (root/generate/existing): documented in
// crl_util.go buildAnyCRLs "Any two issuers with the same keys _and_ subject should have the same CRL" and
// considerations.mdx "different issuers may have different CRLs (depending on subject and key material)".
func (s *c16Sys) addTwin() {
	r, err := s.read("issuer/i0")
	if err != nil || r == nil {
		s.rt.Fatalf("harness: reading issuer i0: %v", err)
	}
	keyID := fmt.Sprint(r.Data["key_id"])
	var c *x509.Certificate
	if rapid.Bool().Draw(s.rt, "twinRenewedElsewhere") {
		// the CA certificate was renewed by another tool with the same key and subject: RFC 5280 leaves the method
		// that derives the subject key identifier open, so the renewed certificate carries a different one
		c = s.renewedTwin(keyID)
	} else {
		resp := s.mustWrite("twin root", "root/generate/existing", map[string]any{"common_name": "verif root i0", "key_ref": keyID, "issuer_name": "i0x", "ttl": "8760h"})
		if c, err = vxParseCertPEM(vxStr(resp.Data, "certificate")); err != nil {
			s.rt.Fatalf("harness: %v", err)
		}
	}
	if !bytes.Equal(c.RawSubject, s.issuerCert["i0"].RawSubject) || !bytes.Equal(c.RawSubjectPublicKeyInfo, s.issuerCert["i0"].RawSubjectPublicKeyInfo) {
		s.rt.Fatalf("harness: the twin issuer does not share subject and key with i0")
	}
	s.issuers = append(s.issuers, "i0x")
	s.issuerCert["i0x"] = c
	x := s.ext()
	x.twin["i0"], x.twin["i0x"] = "i0x", "i0"
	s.logf("twin issuer i0x (same key and subject as i0)")
}

// renewedTwin signs, with the key of i0 taken from the mount's storage, a second self-signed certificate with the
// subject of i0 and a subject key identifier of its own, and imports it as issuer i0x.
func (s *c16Sys) renewedTwin(kid string) *x509.Certificate {
	ke, err := s.b.makeStorageContext(context.Background(), s.fs).fetchKeyById(keyID(kid))
	if err != nil || ke == nil {
		s.rt.Fatalf("harness: key of i0: %v", err)
	}
	blk, _ := pem.Decode([]byte(ke.PrivateKey))
	if blk == nil {
		s.rt.Fatalf("harness: key of i0 is not PEM")
	}
	var signer crypto.Signer
	if k, err := x509.ParsePKCS8PrivateKey(blk.Bytes); err == nil {
		signer, _ = k.(crypto.Signer)
	} else if k, err := x509.ParseECPrivateKey(blk.Bytes); err == nil {
		signer = k
	}
	if signer == nil {
		s.rt.Fatalf("harness: cannot parse the key of i0 (%s)", blk.Type)
	}
	old := s.issuerCert["i0"]
	skid := sha256.Sum256(old.RawSubjectPublicKeyInfo)
	tmpl := &x509.Certificate{
		SerialNumber:          new(big.Int).SetBytes(skid[8:24]),
		RawSubject:            old.RawSubject,
		NotBefore:             time.Now().Add(-time.Minute),
		NotAfter:              time.Now().Add(8760 * time.Hour),
		KeyUsage:              x509.KeyUsageCertSign | x509.KeyUsageCRLSign,
		BasicConstraintsValid: true,
		IsCA:                  true,
		SubjectKeyId:          skid[:20],
	}
	der, err := x509.CreateCertificate(rand.Reader, tmpl, tmpl, signer.Public(), signer)
	if err != nil {
		s.rt.Fatalf("harness: renewing i0: %v", err)
	}
	c, err := x509.ParseCertificate(der)
	if err != nil || bytes.Equal(c.SubjectKeyId, old.SubjectKeyId) {
		s.rt.Fatalf("harness: renewed certificate: %v", err)
	}
	resp := s.mustWrite("renewed twin", "issuers/import/cert", map[string]any{"pem_bundle": vxCertPEM(c)})
	ids, _ := resp.Data["imported_issuers"].([]string)
	if len(ids) != 1 {
		s.rt.Fatalf("harness: import of the renewed twin: %v", resp.Data)
	}
	s.mustWrite("renewed twin name", "issuer/"+ids[0], map[string]any{"issuer_name": "i0x"})
	if r, err := s.read("issuer/i0x"); err != nil || r == nil || fmt.Sprint(r.Data["key_id"]) != kid {
		s.rt.Fatalf("harness: the renewed twin is not bound to the key of i0 (err=%v)", err)
	}
	s.ext().nRenewedTwin++
	s.logf("i0 renewed elsewhere: same key and subject, other subject key identifier")
	return c
}

func (s *c16Sys) forgetDelta(name string) {
	x := s.ext()
	delete(x.dLastNum, name)
	delete(x.dLastRaw, name)
	x.deltaRisk[name] = 0
}

// ---- oracle parts

// checkEntry: one entry of a complete or delta CRL served for issuer name.
func (s *c16Sys) checkEntry(kind, name string, e x509.RevocationListEntry) {
	c := s.bySerial[e.SerialNumber.String()]
	switch {
	case c == nil:
		s.violation("unknown-serial-on-crl", "issuer %s: %s CRL lists serial %x which this history never issued", name, kind, e.SerialNumber)
	case !s.covers(name, c.issuer) && (s.absent[c.issuer] || s.deletedEver[c.issuer] && s.crlNewAt[name] < s.reimportedAt[c.issuer]):
		// documented: revoked certificates whose issuer is unknown to the mount are put on the default
		// issuer's CRL; a CRL built while the issuer was missing may still be the one served
		if !c.attempted {
			s.violation("unrevoked-serial-on-crl", "serial %s (issuer %s, deleted) is on the %s CRL of %s although no revocation was ever requested", c.serial, c.issuer, kind, name)
		}
	case !s.covers(name, c.issuer):
		s.violation("serial-on-wrong-issuer-crl", "serial %s was issued by %s but is listed on the %s CRL of %s", c.serial, c.issuer, kind, name)
	case !c.attempted:
		s.violation("unrevoked-serial-on-crl", "serial %s (issuer %s) is on the %s CRL although no revocation was ever requested", c.serial, name, kind)
	default:
		if c.crlTime.IsZero() {
			c.crlTime = e.RevocationTime
		} else if !c.crlTime.Equal(e.RevocationTime) {
			s.violation("revocation-time-changed", "serial %s: CRL revocation time changed from %s to %s", c.serial, c.crlTime, e.RevocationTime)
		}
		if c.revoked && e.RevocationTime.Unix() != c.revTime {
			s.violation("revocation-time-mismatch", "serial %s: CRL says revoked at %d, the revoke call said %d", c.serial, e.RevocationTime.Unix(), c.revTime)
		}
	}
}

func c16DeltaBase(crl *x509.RevocationList) (base *big.Int, critical, found bool, err error) {
	for _, e := range crl.Extensions {
		if e.Id.Equal(c16OidDeltaIndicator) {
			base = new(big.Int)
			if rest, uerr := asn1.Unmarshal(e.Value, &base); uerr != nil || len(rest) != 0 {
				return nil, e.Critical, true, fmt.Errorf("delta CRL indicator does not hold one INTEGER: %v", uerr)
			}
			return base, e.Critical, true, nil
		}
	}
	return nil, false, false, nil
}

// checkDelta fetches and checks the delta CRL of issuer name next to its complete CRL. It returns the serials
// listed on the delta CRL if it can be combined with the complete CRL (nil otherwise).
func (s *c16Sys) checkDelta(name string, complete *x509.RevocationList, now time.Time) map[string]bool {
	x := s.ext()
	if _, _, found, _ := c16DeltaBase(complete); found {
		s.violation("complete-crl-has-delta-indicator", "issuer %s: the complete CRL (number %s) carries a delta CRL indicator", name, complete.Number)
	}
	d, raw := s.fetchCRL("issuer/"+name+"/crl/delta", "crl")
	if d == nil {
		if x.delta && !s.disabled {
			s.violation("no-delta-crl-served", "issuer/%s/crl/delta serves nothing although delta CRLs are enabled", name)
		}
		return nil
	}
	x.nDeltaObserved++
	if name == s.def {
		_, raw2 := s.fetchCRL("cert/delta-crl", "certificate")
		if !bytes.Equal(raw, raw2) {
			s.violation("default-delta-crl-differs", "cert/delta-crl is not the delta CRL of the default issuer %s", name)
		}
	}
	if err := d.CheckSignatureFrom(s.issuerCert[name]); err != nil {
		s.violation("delta-crl-bad-signature", "delta CRL of %s does not verify under its issuer: %v", name, err)
	}
	if d.Number == nil {
		s.violation("delta-crl-without-number", "delta CRL of %s has no CRL number", name)
		return nil
	}
	base, critical, found, err := c16DeltaBase(d)
	switch {
	case !found:
		s.violation("delta-crl-without-indicator", "issuer %s: what crl/delta serves (number %s) has no delta CRL indicator extension", name, d.Number)
		return nil
	case err != nil:
		s.violation("delta-crl-indicator-malformed", "issuer %s: %v", name, err)
		return nil
	case !critical:
		s.violation("delta-crl-indicator-not-critical", "issuer %s: the delta CRL indicator of delta CRL %s is not critical", name, d.Number)
	}
	risk := x.deltaRisk[name] > 0 || s.numberRisk[name] > 0
	riskSig := func(sig string) string {
		if risk {
			s.nNumberReuse++
			return c16SigNumber
		}
		if s.mixedCRLSigning(name) {
			x.nMixedUsageHit++
			return c16SigMixedNumber
		}
		return sig
	}
	if x.dLastRaw[name] != nil && !bytes.Equal(raw, x.dLastRaw[name]) {
		if d.Number.Cmp(x.dLastNum[name]) <= 0 {
			s.violation(riskSig("delta-crl-number-not-increasing"), "issuer %s: a different delta CRL is served with number %s, the previous one had %s (rebuild interrupted by an injected fault before crls/config was stored: %v)", name, d.Number, x.dLastNum[name], risk)
		}
		if x.deltaRisk[name] > 0 && s.step > x.deltaRisk[name] {
			x.deltaRisk[name] = 0
		}
	}
	x.dLastRaw[name], x.dLastNum[name] = raw, d.Number
	switch base.Cmp(complete.Number) {
	case 1:
		s.violation(riskSig("delta-crl-base-ahead-of-complete"), "issuer %s: delta CRL %s names base %s but the complete CRL served is number %s", name, d.Number, base, complete.Number)
	case -1:
		// every complete rebuild is followed by a delta rebuild, every delta rebuild uses the number of the
		// last complete CRL: only an interrupted rebuild leaves an older delta next to a newer complete CRL
		if !risk {
			s.violation("delta-crl-base-not-current-complete", "issuer %s: delta CRL %s names base %s, the complete CRL served is number %s", name, d.Number, base, complete.Number)
		}
	}
	if d.Number.Cmp(base) <= 0 {
		s.violation(riskSig("delta-crl-number-not-above-base"), "issuer %s: delta CRL number %s is not above its base %s", name, d.Number, base)
	}
	if d.Number.Cmp(complete.Number) == 0 {
		s.violation(riskSig("delta-and-complete-crl-share-number"), "issuer %s: complete and delta CRL are both numbered %s", name, d.Number)
	}
	if d.ThisUpdate.After(now.Add(2*time.Second)) || d.NextUpdate.Before(now) {
		s.violation("delta-crl-validity-window", "issuer %s: delta CRL thisUpdate %s / nextUpdate %s do not bracket now %s", name, d.ThisUpdate, d.NextUpdate, now)
	}
	listed := map[string]bool{}
	for _, e := range d.RevokedCertificateEntries {
		key := e.SerialNumber.String()
		if listed[key] {
			s.violation("crl-duplicate-entry", "issuer %s: serial %x is listed twice on the delta CRL", name, e.SerialNumber)
		}
		listed[key] = true
		s.checkEntry("delta", name, e)
	}
	// RFC 5280 5.2.4: combinable iff base <= complete number < delta number
	if base.Cmp(complete.Number) <= 0 && complete.Number.Cmp(d.Number) < 0 {
		return listed
	}
	return nil
}

// checkUnion: obligations on "complete CRL or combinable delta CRL" for one certificate covered by issuer name.
func (s *c16Sys) checkUnion(name string, c *c16Cert, complete *x509.RevocationList, inComplete bool, delta map[string]bool) {
	x := s.ext()
	if x.wasFrozen[name] {
		// The issuers of this CRL have been without crl-signing and no complete CRL was built for them since. A
		// complete rebuild that had to skip them still cleared the delta WAL, so the delta CRL built next may
		// have lost what only it listed: nothing is demanded of the delta CRL until the complete CRL is back.
		return
	}
	inDelta := delta[c.cert.SerialNumber.String()]
	if inDelta && !inComplete {
		x.nDeltaCarried++
	}
	need, why := c.mustUnion, "a delta rebuild (crl/rotate-delta or periodic tick after delta_rebuild_interval) succeeded after the revocation was reported"
	if !need && c.seenUnion {
		need, why = true, "it was listed before"
	}
	if need && !inComplete && !inDelta {
		sig := "revoked-serial-missing-from-complete-and-delta-crl"
		switch {
		case c.faultAfterRecord && c.mustUnion:
			// outside the statement (delta CRL content): observation, not violation - whatever else is true of the
			// issuer (a twin without crl-signing included: the retry that found the record already written never
			// queued the serial for the delta CRL, which explains the gap by itself)
			x.nDeltaRetryHit++
			c.mustUnion = false
			s.observe(c16SigDeltaRetry, "serial %s (issuer %s) is neither on the complete CRL (number %s) nor on a combinable delta CRL served for %s although %s; the revoke call had failed after the revocation record was written and succeeded on retry", c.serial, c.issuer, complete.Number, name, why)
			return
		case s.mixedCRLSigning(c.issuer) || c.lostToMixed:
			sig = c16SigMixedUsage
			c.lostToMixed = true
			x.nMixedUsageHit++
		case !c.mustUnion:
			sig = "serial-disappeared-from-crl"
		case s.deletedEver[c.issuer]:
			sig = "revoked-serial-missing-from-complete-and-delta-crl-after-issuer-reimport"
		}
		c.mustUnion, c.seenUnion = false, false
		s.violation(sig, "serial %s (issuer %s, revocation reported=%v) is neither on the complete CRL (number %s) nor on a combinable delta CRL served for %s although %s; enable_delta=%v auto_rebuild=%v fault-after-record=%v",
			c.serial, c.issuer, c.revoked, complete.Number, name, why, x.delta, s.autoRebuild, c.faultAfterRecord)
		return
	}
	if inComplete || inDelta {
		c.seenUnion = true
	}
	if inComplete {
		c.lostToMixed = false
	}
}

// afterDeltaRebuild: a delta rebuild was requested and reported success.
func (s *c16Sys) afterDeltaRebuild() {
	if !s.ext().delta || s.disabled {
		return
	}
	now := time.Now()
	x := s.ext()
	for _, c := range s.certs {
		// a complete rebuild clears the delta WAL also of the issuers it had to skip for want of crl-signing: what
		// was revoked up to such an episode is owed by the first complete CRL built after it, not by a delta CRL
		if c.revoked && c.alive(now) && s.canSignCRL(c.issuer) && !x.wasFrozen[c.issuer] && !x.wasFrozen[x.twin[c.issuer]] {
			c.mustUnion = true
		}
	}
}

// observe counts a behaviour that is worth knowing about but outside the property statement.
func (s *c16Sys) observe(name, format string, args ...any) {
	msg := vxStable(fmt.Sprintf(format, args...))
	s.rec.Class("observation:"+name, 1)
	s.logf("OBSERVATION %s: %s", name, msg)
	if s.rec.ClassCount("observation:"+name) == 1 {
		s.rec.Note("observation %s: %s; history: %s", name, msg, strings.Join(c16Shape(s.history), " || "))
	}
}

// deltaFailure: a delta rebuild (crl/rotate-delta, periodic function) failed without an injected fault. If a tidy
// removed an expired revoked certificate that still has a delta WAL entry this is the known behaviour
// c16SigDeltaTidy (an observation); anything else is a violation with signature def.
func (s *c16Sys) deltaFailure(def, format string, args ...any) {
	x := s.ext()
	if x.tidiedExpiredInWAL > 0 && x.delta {
		x.nDeltaTidyHit++
		s.observe(c16SigDeltaTidy, format, args...)
		return
	}
	s.violation(def, format, args...)
}

// checkRFC: revocation_time_rfc3339 next to revocation_time on cert/<serial>.
func (s *c16Sys) checkRFC(c *c16Cert, data map[string]any) {
	rtime, _ := data["revocation_time"].(int64)
	rfc := vxStr(data, "revocation_time_rfc3339")
	if rtime == 0 {
		if rfc != "" {
			s.violation("status-rfc3339-without-time", "cert/%s: revocation_time is 0 but revocation_time_rfc3339 is %q", c.serial, rfc)
		}
		return
	}
	t, err := time.Parse(time.RFC3339Nano, rfc)
	if err != nil {
		s.violation("status-rfc3339-unparseable", "cert/%s: revocation_time_rfc3339 %q: %v", c.serial, rfc, err)
		return
	}
	if t.Unix() != rtime {
		s.violation("status-rfc3339-differs", "cert/%s: revocation_time %d and revocation_time_rfc3339 %s disagree", c.serial, rtime, rfc)
	}
	if c.revoked && c.revRFC != "" && rfc != c.revRFC {
		s.violation("status-revocation-time-changed", "cert/%s revocation_time_rfc3339 %s, the revoke call said %s", c.serial, rfc, c.revRFC)
	}
}

// ---- actions

func (s *c16Sys) waitTidy() {
	deadline := time.Now().Add(20 * time.Second)
	for s.b.tidyCASGuard.Load() {
		if time.Now().After(deadline) {
			s.rt.Fatalf("harness: tidy did not finish within 20 s")
		}
		time.Sleep(200 * time.Microsecond)
	}
}

// noteTidy: a tidy with these settings ran to completion.
func (s *c16Sys) noteTidy(revokedCerts bool, revokedBuffer time.Duration) {
	x := s.ext()
	now := time.Now()
	unexpired := 0
	for _, c := range s.certs {
		if c.revoked && c.alive(now) {
			unexpired++
		}
	}
	if unexpired > 0 {
		x.nTidyUnexpired++
	}
	if revokedCerts && revokedBuffer < 30*time.Minute && x.expiredInWAL > 0 {
		x.tidiedExpiredInWAL++
		x.nTidiedExpiredInWAL++
	}
}

var c16RotateDeltaTargets = []string{"put crls/", "put crls/config", "get revoked/", "list delta-wal/", "get delta-wal/", "put delta-wal/", "get crls/config", "get config/crl", "get config/issuer/", "get config/key/", "get config/issuers"}

func (s *c16Sys) actRotateDelta(withFault bool) {
	x := s.ext()
	var f c16Fault
	if withFault {
		f = c16DrawFault(s.rt, c16RotateDeltaTargets, 30)
		s.arm(f)
		x.nRotateDeltaFault++
	}
	_, err := s.read("crl/rotate-delta")
	ops, fired := s.fs.disarm()
	x.nRotateDelta++
	s.logf("crl/rotate-delta (enable_delta=%v) fault=%v %+v -> err=%v fired=%v failed-op=%q", x.delta, withFault, f, err, fired, c16FailedOp(ops))
	if err != nil && !fired {
		s.deltaFailure("rotate-delta-failed-without-fault", "crl/rotate-delta failed although no fault fired (tidy removed an expired revoked certificate that has a delta WAL entry: %v): %v", x.tidiedExpiredInWAL > 0, err)
		return
	}
	if fired {
		s.noteInterruptedRebuild(ops)
	}
	if withFault && f.Crash && fired {
		s.nCrash++
		s.restart("crash during crl/rotate-delta")
	}
	for try := 1; err != nil; try++ {
		_, err = s.read("crl/rotate-delta")
		s.logf("  retry %d -> err=%v", try, err)
		if err != nil && try == 3 {
			s.deltaFailure("rotate-delta-retry-fails", "crl/rotate-delta still fails on retry %d without any fault (tidy removed an expired revoked certificate that has a delta WAL entry: %v): %v", try, x.tidiedExpiredInWAL > 0, err)
			return
		}
	}
	s.afterDeltaRebuild()
}

// actPeriodicElapsed: a periodic tick for which delta_rebuild_interval has elapsed. The wall clock is not
// waited for: the builder's "last check" time is moved back instead.
func (s *c16Sys) actPeriodicElapsed() {
	x := s.ext()
	cb := s.b.crlBuilder
	cb._builder.Lock()
	cb.lastDeltaRebuildCheck = time.Now().Add(-48 * time.Hour)
	cb._builder.Unlock()
	err := s.b.periodicFunc(s.rt.Context(), &logical.Request{Storage: s.fs})
	s.waitTidy()
	s.afterPeriodic()
	x.nPeriodicElapsed++
	s.logf("periodic tick, delta_rebuild_interval elapsed (enable_delta=%v) -> err=%v", x.delta, err)
	if err != nil {
		s.deltaFailure("periodic-failed", "periodic function failed without a fault (tidy removed an expired revoked certificate that has a delta WAL entry: %v): %v", x.tidiedExpiredInWAL > 0, err)
		return
	}
	s.afterDeltaRebuild()
}

// afterPeriodic: bookkeeping for an auto-tidy that a periodic tick may have run.
func (s *c16Sys) afterPeriodic() {
	x := s.ext()
	if x.autoTidyRevoked {
		s.noteTidy(true, x.autoTidyBuffer)
	}
}

func (s *c16Sys) actConfigDelta() {
	x := s.ext()
	data := map[string]any{}
	switch rapid.IntRange(0, 3).Draw(s.rt, "deltaConfigKind") {
	case 0, 1:
		data["auto_rebuild"] = true
		data["enable_delta"] = true
		data["delta_rebuild_interval"] = rapid.SampledFrom([]string{"15m", "1s", "1h"}).Draw(s.rt, "delta_rebuild_interval")
	case 2:
		data["enable_delta"] = false
	default:
		// 23h59m58s is below every expiry the machine configures (24h, 72h, 1000h): with expiry 24h the complete CRL is
		// due for an automatic rebuild two seconds after it was built
		data["auto_rebuild_grace_period"] = rapid.SampledFrom([]string{"12h", "1h", "23h59m58s"}).Draw(s.rt, "auto_rebuild_grace_period")
	}
	_, err := s.write("config/crl", data)
	s.logf("config/crl %v -> err=%v", data, err)
	if err != nil {
		s.violation("config-crl-failed", "config/crl %v failed: %v", data, err)
		return
	}
	x.nConfigDelta++
	s.noteCRLConfig(data)
}

// noteCRLConfig tracks the delta-related part of a successful config/crl write.
func (s *c16Sys) noteCRLConfig(data map[string]any) {
	x := s.ext()
	if v, ok := data["auto_rebuild"].(bool); ok {
		s.autoRebuild = v
	}
	if v, ok := data["enable_delta"].(bool); ok {
		x.delta = v
	}
	if v, ok := data["delta_rebuild_interval"].(string); ok {
		x.deltaInterval = v
	}
	if v, ok := data["auto_rebuild_grace_period"].(string); ok {
		x.grace = v
	}
	if v, ok := data["allow_expired_cert_revocation"].(bool); ok {
		x.allowExpired = v
	}
}

// keys that belong to no certificate of the mount (crypto/rand; key material never enters a verdict)
type c16KeySet struct {
	ec, ca *ecdsa.PrivateKey
	ed     ed25519.PrivateKey
}

var (
	c16KeysOnce sync.Once
	c16KeysVal  c16KeySet
)

func c16Keys() *c16KeySet {
	c16KeysOnce.Do(func() {
		var err error
		if c16KeysVal.ec, err = ecdsa.GenerateKey(elliptic.P256(), rand.Reader); err != nil {
			panic("harness: " + err.Error())
		}
		if c16KeysVal.ca, err = ecdsa.GenerateKey(elliptic.P256(), rand.Reader); err != nil {
			panic("harness: " + err.Error())
		}
		if _, c16KeysVal.ed, err = ed25519.GenerateKey(rand.Reader); err != nil {
			panic("harness: " + err.Error())
		}
	})
	return &c16KeysVal
}

func c16KeyPEM(k any) string {
	der, err := x509.MarshalPKCS8PrivateKey(k)
	if err != nil {
		panic("harness: " + err.Error())
	}
	return string(pem.EncodeToMemory(&pem.Block{Type: "PRIVATE KEY", Bytes: der}))
}

// actRevokeWithKey: revoke-with-key with the certificate's own key (must revoke like revoke does) or with
// another key (must be refused and must leave no trace).
func (s *c16Sys) actRevokeWithKey() {
	x := s.ext()
	c := s.pick("cert", func(c *c16Cert) bool { return c.keyPEM != "" && !c.attempted })
	byCert := !c.stored || rapid.Bool().Draw(s.rt, "byCertificate")
	mode := rapid.SampledFrom([]string{"own", "own", "other-leaf", "fresh-ec", "fresh-ed25519"}).Draw(s.rt, "keyMode")
	key := c.keyPEM
	switch mode {
	case "other-leaf":
		key = ""
		for _, o := range s.certs {
			if o != c && o.keyPEM != "" {
				key = o.keyPEM
			}
		}
		if key == "" {
			s.rt.Skip("no other leaf key")
		}
	case "fresh-ec":
		key = c16KeyPEM(c16Keys().ec)
	case "fresh-ed25519":
		key = c16KeyPEM(c16Keys().ed)
	}
	data := map[string]any{"private_key": key}
	if byCert {
		data["certificate"] = vxCertPEM(c.cert)
	} else {
		data["serial_number"] = c.serial
	}
	if mode == "own" {
		c.attempted = true
	}
	resp, err := s.write("revoke-with-key", data)
	state := ""
	if resp != nil {
		state = vxStr(resp.Data, "state")
	}
	s.logf("revoke-with-key %s (issuer %s) byCert=%v key=%s -> state=%q err=%v", c.serial, c.issuer, byCert, mode, state, err)
	if mode != "own" {
		x.nKeyWrong++
		if err == nil {
			c.attempted = true
			s.violation("revoke-with-key-accepted-wrong-key", "revoke-with-key of %s with a key that is not the certificate's (%s) was not refused (state %q)", c.serial, mode, state)
		}
		// not attempted: any trace of a revocation of this serial is reported by check()
		return
	}
	if err != nil {
		s.violation("revoke-failed-without-fault", "revoke-with-key of %s with its own key failed although no fault was injected: %v", c.serial, err)
		return
	}
	if state != "revoked" {
		return // expired meanwhile
	}
	x.nKeyOK++
	c.viaKey = true
	how := "serial"
	if byCert {
		how = "cert"
	}
	s.noteSuccess(c, resp, how)
}

// c16Foreign makes a leaf certificate that no issuer of this mount signed: signed by a CA outside the mount
// (fakeIssuer == nil), or carrying the issuer name and key identifier of a mount issuer but signed by
// another key.
func c16Foreign(fakeIssuer *x509.Certificate, n int) (*x509.Certificate, string, error) {
	caKey := c16Keys().ca
	leafKey, err := ecdsa.GenerateKey(elliptic.P256(), rand.Reader)
	if err != nil {
		return nil, "", err
	}
	serial, err := rand.Int(rand.Reader, new(big.Int).Lsh(big.NewInt(1), 150))
	if err != nil {
		return nil, "", err
	}
	parent := &x509.Certificate{Subject: pkix.Name{CommonName: "verif foreign ca"}, SubjectKeyId: []byte{1, 2, 3, 4}}
	if fakeIssuer != nil {
		parent = &x509.Certificate{RawSubject: fakeIssuer.RawSubject, Subject: fakeIssuer.Subject, SubjectKeyId: fakeIssuer.SubjectKeyId}
	}
	tmpl := &x509.Certificate{SerialNumber: serial, Subject: pkix.Name{CommonName: fmt.Sprintf("foreign%d.example.com", n)},
		NotBefore: time.Now().Add(-time.Minute), NotAfter: time.Now().Add(time.Hour), KeyUsage: x509.KeyUsageDigitalSignature}
	der, err := x509.CreateCertificate(rand.Reader, tmpl, parent, &leafKey.PublicKey, caKey)
	if err != nil {
		return nil, "", err
	}
	c, err := x509.ParseCertificate(der)
	if err != nil {
		return nil, "", err
	}
	kder, err := x509.MarshalPKCS8PrivateKey(leafKey)
	if err != nil {
		return nil, "", err
	}
	return c, string(pem.EncodeToMemory(&pem.Block{Type: "PRIVATE KEY", Bytes: kder})), nil
}

// actRevokeForeign: "This certificate must have been signed by one of the issuers in this mount in order to be
// accepted for revocation."
func (s *c16Sys) actRevokeForeign() {
	x := s.ext()
	var fake *x509.Certificate
	kind := "outside CA"
	if rapid.Bool().Draw(s.rt, "forgedIssuerName") {
		n := rapid.SampledFrom(s.present()).Draw(s.rt, "forgedIssuer")
		fake, kind = s.issuerCert[n], "issuer name of "+n+", foreign signature"
	}
	c, keyPEM, err := c16Foreign(fake, x.nForeign)
	if err != nil {
		s.rt.Fatalf("harness: foreign certificate: %v", err)
	}
	withKey := rapid.Bool().Draw(s.rt, "withKey")
	path, data := "revoke", map[string]any{"certificate": vxCertPEM(c)}
	if withKey {
		path, data["private_key"] = "revoke-with-key", keyPEM
	}
	resp, err := s.write(path, data)
	x.nForeign++
	s.logf("%s of a certificate not issued by this mount (%s) -> err=%v", path, kind, err)
	if err == nil {
		s.violation("revoke-accepted-foreign-certificate", "%s accepted a certificate that no issuer of this mount signed (%s): %v", path, kind, resp)
	}
	// it must not have been imported either
	r, rerr := s.read("cert/" + serialFromCert(c))
	if rerr == nil && r != nil {
		s.violation("foreign-certificate-imported", "cert/<serial> of a refused foreign certificate (%s) returns an entry", kind)
	}
	// if it shows up on a CRL, check() reports unknown-serial-on-crl
}

// actRevokeOrphan: revoke, by certificate, an unstored certificate whose issuer was deleted. Documented:
// "certificates from previous CAs will need to have their issuing CA and key re-imported if revocation is
// necessary" - unless an issuer with the same key and subject is still there.
func (s *c16Sys) actRevokeOrphan() {
	x := s.ext()
	var cand []*c16Cert
	now := time.Now()
	for _, c := range s.certs {
		if !c.stored && !c.attempted && s.absent[c.issuer] && c.alive(now) {
			cand = append(cand, c)
		}
	}
	var c *c16Cert
	if len(cand) > 0 {
		c = rapid.SampledFrom(cand).Draw(s.rt, "orphan")
	} else {
		// make one: issue without storage, then delete the issuer
		pr := s.present()
		if len(pr) < 2 {
			s.rt.Skip("would remove the last issuer")
		}
		var can []string
		for _, n := range pr {
			if s.has(n, "issuing-certificates") {
				can = append(can, n)
			}
		}
		if len(can) == 0 {
			s.rt.Skip("no issuer may issue")
		}
		iss := rapid.SampledFrom(can).Draw(s.rt, "issuerToOrphan")
		resp, err := s.write("issuer/"+iss+"/issue/ns", map[string]any{"common_name": fmt.Sprintf("c%d.example.com", len(s.certs))})
		if err != nil {
			s.rt.Fatalf("harness: issue: %v", err)
		}
		pc, err := vxParseCertPEM(vxStr(resp.Data, "certificate"))
		if err != nil {
			s.rt.Fatalf("harness: %v", err)
		}
		c = &c16Cert{serial: vxStr(resp.Data, "serial_number"), cert: pc, issuer: iss, noStore: true, issuedAt: s.step, keyPEM: vxStr(resp.Data, "private_key")}
		s.certs = append(s.certs, c)
		s.bySerial[pc.SerialNumber.String()] = c
		s.logf("issue %s by %s role=ns", c.serial, iss)
		s.deleteIssuer(iss)
		if !s.absent[iss] {
			return // the deletion was reported as a violation
		}
		// the deletion rebuilt the CRLs: observe them now, so that they are not taken for CRLs built after the
		// revocation below
		s.check()
	}
	tw := x.twin[c.issuer]
	viaTwin := tw != "" && !s.absent[tw]
	if viaTwin {
		c.attempted = true
	}
	resp, err := s.write("revoke", map[string]any{"certificate": vxCertPEM(c.cert)})
	state := ""
	if resp != nil {
		state = vxStr(resp.Data, "state")
	}
	x.nOrphan++
	s.logf("revoke by certificate %s (unstored, issuer %s deleted, equivalent issuer present=%v) -> state=%q err=%v", c.serial, c.issuer, viaTwin, state, err)
	if !viaTwin {
		if err == nil {
			c.attempted = true
			s.violation("revoke-accepted-cert-of-absent-issuer", "revoke accepted the unstored certificate %s although its issuer %s is not in the mount (state %q)", c.serial, c.issuer, state)
		}
		return
	}
	x.nOrphanViaTwin++
	if err != nil {
		s.violation("revoke-failed-without-fault", "revoke of %s (issuer %s deleted, %s with the same key and subject present) failed: %v", c.serial, c.issuer, tw, err)
		return
	}
	if state == "revoked" {
		s.noteSuccess(c, resp, "cert")
	}
}

// actRevokeExpired: with allow_expired_cert_revocation a certificate that is already expired is revoked. The
// model has no obligation for it; it is the raw material of tidy_revoked_certs.
func (s *c16Sys) actRevokeExpired() {
	s.revokeExpired(rapid.SampledFrom(s.issuable()).Draw(s.rt, "issuer"))
}

func (s *c16Sys) revokeExpired(issuer string) {
	x := s.ext()
	if !x.allowExpired {
		data := map[string]any{"allow_expired_cert_revocation": true}
		if _, err := s.write("config/crl", data); err != nil {
			s.violation("config-crl-failed", "config/crl %v failed: %v", data, err)
			return
		}
		s.noteCRLConfig(data)
	}
	notAfter := time.Now().Add(-time.Hour).UTC().Format(time.RFC3339)
	resp, err := s.write("issuer/"+issuer+"/issue/old", map[string]any{"common_name": fmt.Sprintf("c%d.example.com", len(s.certs)), "not_after": notAfter})
	if err != nil {
		s.rt.Fatalf("harness: issuing an expired certificate: %v", err)
	}
	c, err := vxParseCertPEM(vxStr(resp.Data, "certificate"))
	if err != nil {
		s.rt.Fatalf("harness: %v", err)
	}
	if !c.NotAfter.Before(time.Now()) || !c.NotBefore.Before(c.NotAfter) {
		s.rt.Fatalf("harness: expected an expired certificate, got notBefore %s notAfter %s", c.NotBefore, c.NotAfter)
	}
	cc := &c16Cert{serial: vxStr(resp.Data, "serial_number"), cert: c, issuer: issuer, stored: true, issuedAt: s.step, expiredAtIssue: true}
	s.certs = append(s.certs, cc)
	s.bySerial[c.SerialNumber.String()] = cc
	ok, rresp, err := s.revokeCall(cc, false)
	s.logf("issue %s by %s already expired, revoke (allow_expired_cert_revocation, enable_delta=%v auto_rebuild=%v) -> ok=%v err=%v", cc.serial, issuer, x.delta, s.autoRebuild, ok, err)
	if err != nil {
		s.violation("revoke-failed-without-fault", "revoke of the expired certificate %s failed although no fault was injected: %v", cc.serial, err)
		return
	}
	if !ok {
		s.violation("expired-revocation-refused", "allow_expired_cert_revocation is set but revoking the expired certificate %s did not report state=revoked", cc.serial)
		return
	}
	s.noteSuccess(cc, rresp, "serial")
	x.nExpiredRevoke++
	if x.delta && s.autoRebuild {
		x.expiredInWAL++
		x.expiredInWALStep = s.step
	}
}

// noteCompleteRebuild: check() saw a complete CRL that an action of this step built. A complete rebuild clears
// the delta WAL (crl_util.go buildAnyCRLs), so expired certificates revoked in earlier steps have no WAL
// entry any more.
func (s *c16Sys) noteCompleteRebuild(name string) {
	x := s.ext()
	if x.wasFrozen[name] && s.canSignCRL(name) {
		x.wasFrozen[name] = false
		x.nRestoredRebuilt++
	}
	for _, n := range s.present() {
		if !s.canSignCRL(n) {
			x.rebuiltWhileFrozen++ // a rebuild ran while the issuers of another CRL may not sign
		}
	}
	if x.expiredInWAL > 0 && s.step > x.expiredInWALStep {
		x.expiredInWAL, x.tidiedExpiredInWAL = 0, 0
	}
}

// actTidyExt: tidy with any combination of the operations that touch certificates, revocation entries and
// issuers, and separate safety buffers. None of them may touch an unexpired certificate or issuer.
func (s *c16Sys) actTidyExt() {
	x := s.ext()
	data := map[string]any{}
	some := false
	for _, k := range []string{"tidy_revoked_certs", "tidy_cert_store", "tidy_revoked_cert_issuer_associations", "tidy_expired_issuers", "tidy_invalid_certs"} {
		v := rapid.Bool().Draw(s.rt, k)
		data[k] = v
		some = some || v
	}
	if !some {
		data["tidy_revoked_certs"] = true
	}
	buf := rapid.SampledFrom([]string{"1s", "2s", "72h"}).Draw(s.rt, "safety_buffer")
	data["safety_buffer"] = buf
	rbuf := rapid.SampledFrom([]string{"", "1s", "72h"}).Draw(s.rt, "revoked_safety_buffer")
	if rbuf != "" {
		data["revoked_safety_buffer"] = rbuf
	}
	data["issuer_safety_buffer"] = rapid.SampledFrom([]string{"1s", "8760h"}).Draw(s.rt, "issuer_safety_buffer")
	thenRotate := rapid.Bool().Draw(s.rt, "thenRotate")
	if _, err := s.write("tidy", data); err != nil {
		s.violation("tidy-failed", "tidy request %v failed: %v", data, err)
		return
	}
	s.waitTidy()
	st, _ := s.read("tidy-status")
	state := ""
	if st != nil {
		state = vxStr(st.Data, "state")
	}
	x.nTidyExt++
	s.nTidy++
	eff := buf
	if rbuf != "" {
		eff = rbuf
	}
	d, _ := time.ParseDuration(eff)
	s.noteTidy(data["tidy_revoked_certs"] == true, d)
	s.logf("tidy %v -> %s", data, state)
	if state == "Error" {
		s.violation("tidy-error", "tidy %v ended in state Error: %v", data, st.Data["error"])
	}
	// no issuer of this history is expired
	for _, n := range s.present() {
		if r, err := s.read("issuer/" + n); err != nil || r == nil {
			s.violation("tidy-removed-unexpired-issuer", "after tidy %v issuer %s can no longer be read: %v", data, n, err)
		}
	}
	if thenRotate {
		s.actRotate(false)
	}
}

// actAutoTidy: config/auto-tidy, then a periodic tick for which the interval has elapsed (the time of the
// last tidy is moved back instead of waiting).
func (s *c16Sys) actAutoTidy() {
	x := s.ext()
	rev := rapid.Bool().Draw(s.rt, "tidy_revoked_certs")
	buf := rapid.SampledFrom([]string{"1s", "72h"}).Draw(s.rt, "safety_buffer")
	data := map[string]any{"enabled": true, "interval_duration": "1h", "tidy_revoked_certs": rev, "tidy_cert_store": !rev || rapid.Bool().Draw(s.rt, "tidy_cert_store"),
		"tidy_revoked_cert_issuer_associations": rapid.Bool().Draw(s.rt, "tidy_revoked_cert_issuer_associations"), "safety_buffer": buf}
	if _, err := s.write("config/auto-tidy", data); err != nil {
		s.violation("auto-tidy-config-failed", "config/auto-tidy %v failed: %v", data, err)
		return
	}
	x.autoTidyRevoked = rev
	x.autoTidyBuffer, _ = time.ParseDuration(buf)
	s.b.tidyStatusLock.Lock()
	s.b.lastTidy = time.Now().Add(-2 * time.Hour)
	s.b.tidyStatusLock.Unlock()
	err := s.b.periodicFunc(s.rt.Context(), &logical.Request{Storage: s.fs})
	s.waitTidy()
	st, _ := s.read("tidy-status")
	state := ""
	if st != nil {
		state = vxStr(st.Data, "state")
	}
	x.nAutoTidy++
	s.nTidy++
	s.noteTidy(rev, x.autoTidyBuffer)
	s.logf("config/auto-tidy %v + periodic tick after the interval -> err=%v tidy state %s", data, err, state)
	if err != nil {
		s.deltaFailure("periodic-failed", "periodic function failed without a fault: %v", err)
	}
	if state == "Error" {
		s.violation("tidy-error", "auto-tidy %v ended in state Error: %v", data, st.Data["error"])
	}
}

// ---- revocation through the lease machinery
//
// A role with generate_lease=true attaches a secret to every certificate it issues. The expiration manager (lease
// expiry, sys/leases/revoke, revoke-prefix, revocation of the token that owns the lease) revokes such a
// certificate with a RevokeOperation that carries the secret (secret_certs.go secretCredsRevoke -> revokeCert).
// A nil error and a non-error response is "revocation reported successful": the lease is deleted for good.

// leaseRevokeCall sends the request the expiration manager sends.
func (s *c16Sys) leaseRevokeCall(c *c16Cert) (ok bool, resp *logical.Response, err error) {
	c.attempted = true
	resp, err = s.b.HandleRequest(context.Background(), &logical.Request{Operation: logical.RevokeOperation, Path: c.leasePath, Secret: c.secret,
		Storage: s.fs, MountPoint: "pki/", Data: map[string]any{}})
	if err == nil && resp != nil && resp.IsError() {
		err = resp.Error()
	}
	if err != nil {
		return false, resp, err
	}
	if resp == nil {
		// "treating as success": what secretCredsRevoke answers when certs/<serial> is gone. The lease is deleted, the
		// revocation counts as reported; the time it is reported with is then the one the status API gives.
		r, rerr := s.read("cert/" + c.serial)
		rtime := int64(0)
		if rerr == nil && r != nil {
			rtime, _ = r.Data["revocation_time"].(int64)
		}
		if rtime == 0 {
			s.violation("lease-revocation-reported-without-revoking", "the lease revocation of %s (stored, unexpired) returned neither an error nor a response, and cert/<serial> shows no revocation (read error: %v)", c.serial, rerr)
			return false, nil, nil
		}
		return true, &logical.Response{Data: map[string]any{"state": "revoked", "revocation_time": rtime, "revocation_time_rfc3339": vxStr(r.Data, "revocation_time_rfc3339")}}, nil
	}
	if vxStr(resp.Data, "state") != "revoked" {
		return false, resp, nil // "already expired; refusing to add to CRL": the lease ends with the certificate
	}
	return true, resp, nil
}

// leaseRevoke picks (or issues) a certificate that has a lease, revokes it through the lease and returns it if the
// revocation was reported successful.
func (s *c16Sys) leaseRevoke() *c16Cert {
	x := s.ext()
	var fresh, again []*c16Cert
	now := time.Now()
	for _, c := range s.certs {
		if c.secret == nil || !c.alive(now) {
			continue
		}
		if c.revoked {
			again = append(again, c) // the lease of a certificate that was revoked through the API ends later: "already revoked" branch
		} else if !c.attempted {
			fresh = append(fresh, c)
		}
	}
	var c *c16Cert
	switch {
	case len(again) > 0 && (len(fresh) == 0 && !s.canIssue() || vxChance(s.rt, "leaseOfRevokedCert", 20)):
		c = rapid.SampledFrom(again).Draw(s.rt, "leasedCert")
	case len(fresh) > 0:
		c = rapid.SampledFrom(fresh).Draw(s.rt, "leasedCert")
	default:
		s.issue("lease") // construction: no unrevoked certificate with a lease exists
		c = s.certs[len(s.certs)-1]
	}
	was := c.revoked
	ok, resp, err := s.leaseRevokeCall(c)
	x.nLeaseRevoke++
	s.logf("lease revocation (RevokeOperation %s) of %s (issuer %s) already-revoked=%v auto_rebuild=%v -> ok=%v err=%v", c.leasePath, c.serial, c.issuer, was, s.autoRebuild, ok, err)
	if err != nil {
		s.violation("revoke-failed-without-fault", "lease revocation of %s failed although no fault was injected: %v", c.serial, err)
		return nil
	}
	if !ok {
		return nil
	}
	if was {
		x.nLeaseRevokeAgain++
	}
	s.noteSuccess(c, resp, "serial")
	return c
}

// canIssue: issue() would not skip
func (s *c16Sys) canIssue() bool {
	for _, n := range s.present() {
		if s.has(n, "issuing-certificates") {
			return true
		}
	}
	return false
}

func (s *c16Sys) actLeaseRevoke() { s.leaseRevoke() }

// actLeaseRevokeRestart: the backend instance is replaced right after the lease revocation was reported, before any
// CRL is read and before a periodic tick: whatever the revocation left to be done later must not live in memory only.
func (s *c16Sys) actLeaseRevokeRestart() {
	x := s.ext()
	if c := s.leaseRevoke(); c != nil {
		x.nLeaseRevokeRestart++
		if c.must {
			x.nLeaseRevokeRestartMust++
		}
	}
	s.restart("after lease revocation")
}

// ---- a revoked certificate whose serial number is the serial number of a CA certificate that becomes an issuer later
//
// root/sign-self-issued (issuer/<ref>/sign-self-issued) re-signs the self-signed certificate it is given and keeps
// everything else, the serial number included. R1 of this mount cross-signs root R2 of another mount: certificate X
// has issuer R1 and the serial number of R2. X is revoked by presenting it (it is not stored here); later R2 is
// imported (certificate and key) as an additional issuer. X stays a revoked, unexpired certificate of R1.

type c16Cross struct {
	name             string // issuer name R2 gets when it is imported
	certPEM, keyPEM  string
	root             *x509.Certificate
	x                *c16Cert
	imported         bool
	revokedAtStep    int
	stepsUntilImport int // actions of the state machine between the revocation and the import (0: the combined action)
}

// serialIsIssuer: an issuer present in the mount has the serial number of c (and is another certificate)
func (s *c16Sys) serialIsIssuer(c *c16Cert) string {
	for _, n := range s.present() {
		if ic := s.issuerCert[n]; ic != nil && ic.SerialNumber.Cmp(c.cert.SerialNumber) == 0 && !bytes.Equal(ic.Raw, c.cert.Raw) {
			return n
		}
	}
	return ""
}

const c16MaxCross = 2 // every imported root is one more CRL (and delta CRL) to fetch and verify after every step

// crossRevoke: generate R2 elsewhere, cross-sign it here, revoke the cross-signed certificate here.
func (s *c16Sys) crossRevoke() *c16Cross {
	x := s.ext()
	if len(x.cross) >= c16MaxCross {
		s.rt.Skip("enough cross-signed roots in this case")
	}
	signer := rapid.SampledFrom(s.issuable()).Draw(s.rt, "crossSigner")
	// the other mount: a throw-away backend on its own storage
	st := &logical.InmemStorage{}
	b2, err := vxBackend(st, time.Hour, 24*time.Hour)
	if err != nil {
		s.rt.Fatalf("harness: second backend: %v", err)
	}
	defer vxClose(b2)
	name := fmt.Sprintf("x%d", len(x.cross))
	resp, err := vxWrite(b2, st, "root/generate/exported", map[string]any{"common_name": "verif other-mount root " + name, "key_type": "ec", "ttl": "12h"})
	if err != nil {
		s.rt.Fatalf("harness: root of the other mount: %v", err)
	}
	cr := &c16Cross{name: name, certPEM: vxStr(resp.Data, "certificate"), keyPEM: vxStr(resp.Data, "private_key"), revokedAtStep: s.step}
	if cr.root, err = vxParseCertPEM(cr.certPEM); err != nil || cr.keyPEM == "" {
		s.rt.Fatalf("harness: root of the other mount: %v (key %d bytes)", err, len(cr.keyPEM))
	}
	resp, err = s.write("issuer/"+signer+"/sign-self-issued", map[string]any{"certificate": cr.certPEM})
	if err != nil {
		s.rt.Fatalf("harness: sign-self-issued by %s: %v", signer, err)
	}
	xc, err := vxParseCertPEM(vxStr(resp.Data, "certificate"))
	if err != nil {
		s.rt.Fatalf("harness: %v", err)
	}
	if xc.SerialNumber.Cmp(cr.root.SerialNumber) != 0 || xc.CheckSignatureFrom(s.issuerCert[signer]) != nil || bytes.Equal(xc.Raw, cr.root.Raw) {
		s.rt.Fatalf("harness: sign-self-issued did not produce a certificate of %s with the serial number of the self-signed one", signer)
	}
	c := &c16Cert{serial: serialFromCert(xc), cert: xc, issuer: signer, noStore: true, issuedAt: s.step, cross: cr}
	cr.x = c
	s.certs = append(s.certs, c)
	s.bySerial[xc.SerialNumber.String()] = c
	x.cross = append(x.cross, cr)
	s.logf("root %s generated on another mount, cross-signed by %s: certificate %s (serial number of the root, not stored here)", name, signer, c.serial)
	ok, rresp, err := s.revokeCall(c, true)
	s.logf("revoke by certificate %s (issuer %s, cross-signed root) -> ok=%v err=%v", c.serial, signer, ok, err)
	if err != nil {
		s.violation("revoke-failed-without-fault", "revoke of the cross-signed certificate %s (issuer %s) failed although no fault was injected: %v", c.serial, signer, err)
		return cr
	}
	if ok {
		s.noteSuccess(c, rresp, "cert")
		x.nCrossRevoked++
	}
	return cr
}

// crossImport: R2 (certificate and key) becomes an issuer of this mount. It is a new issuer like any other from
// here on: it issues, has its own CRL, can become the default, be deleted and re-imported.
func (s *c16Sys) crossImport(cr *c16Cross, separate bool) {
	x := s.ext()
	viaConfigCA := rapid.Bool().Draw(s.rt, "importViaConfigCA")
	path := "issuers/import/bundle"
	if viaConfigCA {
		path = "config/ca"
	}
	resp, err := s.write(path, map[string]any{"pem_bundle": cr.certPEM + "\n" + cr.keyPEM + "\n"})
	if err != nil {
		s.violation("issuer-import-failed", "importing the root %s of another mount (certificate and key) through %s failed: %v", cr.name, path, err)
		return
	}
	ids, _ := resp.Data["imported_issuers"].([]string)
	if len(ids) != 1 {
		s.rt.Fatalf("harness: import of %s: imported_issuers=%v existing=%v", cr.name, resp.Data["imported_issuers"], resp.Data["existing_issuers"])
	}
	if _, err := s.write("issuer/"+ids[0], map[string]any{"issuer_name": cr.name}); err != nil {
		s.rt.Fatalf("harness: naming imported issuer: %v", err)
	}
	r, err := s.read("issuer/" + cr.name)
	if err != nil || r == nil || r.Data["key_id"] == nil || fmt.Sprint(r.Data["key_id"]) == "" {
		s.rt.Fatalf("harness: imported issuer %s has no key (err=%v)", cr.name, err)
	}
	cr.imported = true
	if separate {
		cr.stepsUntilImport = s.step - cr.revokedAtStep - 1
	}
	s.issuers = append(s.issuers, cr.name)
	s.issuerCert[cr.name] = cr.root
	s.fresh[cr.name], s.reimportedAt[cr.name] = true, s.step // whatever CRL it serves was built after the import
	s.resetUsage(cr.name)
	x.nCrossImported++
	live := cr.x.revoked && cr.x.alive(time.Now())
	if live {
		x.nCrossImportedWhileRevoked++
		if separate {
			x.nCrossImportedLater++
			if cr.stepsUntilImport > 0 {
				x.nCrossImportedMuchLater++
			}
		}
		if s.absent[cr.x.issuer] {
			x.nCrossImportedSignerAbsent++
		}
	}
	s.logf("import root %s (certificate and key, %s) as a new issuer; %s (issuer %s, same serial number) revoked and unexpired=%v, separate action=%v with %d actions in between", cr.name, path, cr.x.serial, cr.x.issuer, live, separate, cr.stepsUntilImport)
}

func (s *c16Sys) actCrossRevoke() { s.crossRevoke() }

func (s *c16Sys) pendingCross() []*c16Cross {
	var out []*c16Cross
	for _, cr := range s.ext().cross {
		if !cr.imported {
			out = append(out, cr)
		}
	}
	return out
}

// actCrossImport imports a root whose cross-signed certificate was revoked by an earlier action; if there is none
// it prepares one (cross-sign + revoke), so that a later draw of this action finds it with other actions in between.
func (s *c16Sys) actCrossImport() {
	if p := s.pendingCross(); len(p) > 0 {
		s.crossImport(rapid.SampledFrom(p).Draw(s.rt, "rootToImport"), true)
		return
	}
	s.crossRevoke()
}

func (s *c16Sys) actCrossRevokeImport() {
	cr := s.crossRevoke()
	s.check() // the CRLs the revocation built are not CRLs built after the import
	s.step++
	s.crossImport(cr, false)
}

// extClasses records the coverage of the extension for one case.
func (s *c16Sys) extClasses() {
	x := s.ext()
	rec := s.rec
	one := func(name string, n int) {
		if n > 0 {
			rec.Class("cases-with-"+name, 1)
		}
	}
	one("twin-issuer", len(x.twin))
	one("twin-issuer-renewed-with-other-skid", x.nRenewedTwin)
	one("twin-revocation", x.nTwinRevoked)
	one("delta-config", x.nConfigDelta)
	one("revocation-under-delta", x.nRevokeUnderDelta)
	one("rotate-delta", x.nRotateDelta)
	one("rotate-delta-fault", x.nRotateDeltaFault)
	one("periodic-delta-interval-elapsed", x.nPeriodicElapsed)
	one("serial-only-on-delta-crl", x.nDeltaCarried)
	one("revoke-with-key-own", x.nKeyOK)
	one("revoke-with-key-wrong", x.nKeyWrong)
	one("foreign-certificate-revoke", x.nForeign)
	one("orphan-revoke", x.nOrphan)
	one("orphan-revoke-via-twin", x.nOrphanViaTwin)
	one("expired-certificate-revoked", x.nExpiredRevoke)
	one("tidy-ext", x.nTidyExt)
	one("tidy-with-unexpired-revoked", x.nTidyUnexpired)
	one("auto-tidy", x.nAutoTidy)
	one("tidy-of-expired-revoked-in-delta-wal", x.nTidiedExpiredInWAL)
	one("issuer-usage-change", x.nUsage)
	one("crl-signing-dropped", x.nCRLDropped)
	one("rebuild-while-an-issuer-may-not-sign-crls", x.rebuiltWhileFrozen)
	one("crl-signing-restored", x.nCRLRestored)
	one("crl-rebuilt-after-crl-signing-restored", x.nRestoredRebuilt)
	one("ocsp-signing-dropped", x.nOCSPDropped)
	one("issuing-certificates-dropped", x.nIssuingDropped)
	one("equivalent-issuers-one-without-crl-signing", x.nMixedUsage)
	one("lease-revocation", x.nLeaseRevoke)
	one("lease-revocation-then-restart", x.nLeaseRevokeRestart)
	one("lease-revocation-then-restart-crl-owed-at-once", x.nLeaseRevokeRestartMust)
	one("cross-signed-root-revoked", x.nCrossRevoked)
	one("issuer-imported-with-serial-of-revoked-cert", x.nCrossImportedWhileRevoked)
	one("issuer-imported-with-serial-of-revoked-cert-by-a-later-action", x.nCrossImportedLater)
	one("issuer-imported-with-serial-of-revoked-cert-other-actions-in-between", x.nCrossImportedMuchLater)
	rec.Class("leased-certs-issued", int64(x.nLeaseIssued))
	rec.Class("lease-revocations", int64(x.nLeaseRevoke))
	rec.Class("lease-revocations-of-already-revoked", int64(x.nLeaseRevokeAgain))
	rec.Class("lease-revocations-then-restart", int64(x.nLeaseRevokeRestart))
	rec.Class("lease-revocations-then-restart-crl-owed-at-once", int64(x.nLeaseRevokeRestartMust))
	rec.Class("cross-signed-roots-revoked", int64(x.nCrossRevoked))
	rec.Class("cross-signed-roots-imported", int64(x.nCrossImported))
	rec.Class("issuers-imported-with-serial-of-revoked-unexpired-cert", int64(x.nCrossImportedWhileRevoked))
	rec.Class("issuers-imported-with-serial-of-revoked-unexpired-cert-by-a-later-action", int64(x.nCrossImportedLater))
	rec.Class("issuers-imported-with-serial-of-revoked-unexpired-cert-other-actions-in-between", int64(x.nCrossImportedMuchLater))
	rec.Class("issuers-imported-with-serial-of-revoked-cert-whose-issuer-is-deleted", int64(x.nCrossImportedSignerAbsent))
	if x.nMixedUsageHit > 0 {
		rec.Class("hit:"+c16SigMixedUsage, int64(x.nMixedUsageHit))
	}
	rec.Class("delta-crls-checked", int64(x.nDeltaObserved))
	rec.Class("observations-serial-only-on-delta-crl", int64(x.nDeltaCarried))
	rec.Class("rotate-deltas", int64(x.nRotateDelta))
	rec.Class("revocations-under-delta", int64(x.nRevokeUnderDelta))
	one("observation:"+c16SigDeltaRetry, x.nDeltaRetryHit)
	one("observation:"+c16SigDeltaTidy, x.nDeltaTidyHit)
}

// extNontrivial: the extension's part of the non-trivial rule.
func (s *c16Sys) extNontrivial() (bool, string) {
	x := s.ext()
	var tags []string
	if x.nDeltaCarried > 0 {
		tags = append(tags, "delta-carried") // a revocation after the last complete rebuild was seen on the delta CRL only
	}
	if x.nKeyOK > 0 || x.nKeyWrong > 0 {
		tags = append(tags, "with-key")
	}
	if x.nTidyUnexpired > 0 {
		tags = append(tags, "tidy-unexpired")
	}
	if x.nTwinRevoked > 0 {
		tags = append(tags, "twin-revocation")
	}
	if x.nLeaseRevoke > 0 {
		tags = append(tags, "lease-revocation")
	}
	if x.nCrossImportedWhileRevoked > 0 {
		tags = append(tags, "issuer-with-revoked-serial")
	}
	return len(tags) > 0, strings.Join(tags, "+")
}

// TestVerif_C16_DeltaTidy: directed scenario around tidy and the delta WAL. With auto_rebuild and delta CRLs on,
// some certificates are revoked (unexpired ones, and already expired ones through
// allow_expired_cert_revocation), a tidy (manual or auto, several flavours and buffers) runs, more
// certificates are revoked; then a delta rebuild (crl/rotate-delta or periodic tick) and finally crl/rotate.
// The usual oracle runs after every step: tidy must not touch unexpired entries, the delta rebuild must
// succeed and carry every reported unexpired revocation.
func TestVerif_C16_DeltaTidy(t *testing.T) {
	rec := verifx.NewRecorder("C16", "delta-tidy", "generated scenario: 1-3 issuers (optionally a twin of i0), auto_rebuild+delta on, k unexpired and m already-expired certificates revoked, optional complete rebuild / restart, one tidy (manual/auto, revoked/cert-store/associations, buffers 1s..72h), more revocations, delta rebuild via crl/rotate-delta or periodic tick, crl/rotate; full oracle after every step; non-trivial = an expired revoked certificate was tidied while unexpired revocations exist")
	defer rec.Flush()
	rapid.Check(t, func(rt *rapid.T) {
		nIss := rapid.IntRange(1, 3).Draw(rt, "nIssuers")
		s := c16Setup(rt, rec, nIss, true)
		defer s.close()
		if rapid.Bool().Draw(rt, "twinIssuer") {
			s.addTwin()
		}
		data := map[string]any{"auto_rebuild": true, "enable_delta": true}
		s.mustWrite("config/crl", "config/crl", data)
		s.noteCRLConfig(data)
		s.logf("config/crl %v", data)
		s.check()
		x := s.ext()
		do := func(f func()) { s.step++; f(); s.check() }
		nLive := rapid.IntRange(0, 2).Draw(rt, "unexpiredRevokedBefore")
		nOld := rapid.SampledFrom([]int{1, 2, 1, 0}).Draw(rt, "expiredRevoked")
		for i := 0; i < nLive; i++ {
			do(func() { s.issue("r") })
			do(func() { s.actRevoke(false) })
		}
		for i := 0; i < nOld; i++ {
			do(s.actRevokeExpired)
		}
		switch rapid.SampledFrom([]string{"none", "none", "rotate", "rotate-delta", "restart"}).Draw(rt, "between") {
		case "rotate":
			do(func() { s.actRotate(false) })
		case "rotate-delta":
			do(func() { s.actRotateDelta(false) })
		case "restart":
			do(func() { s.restart("requested") })
		}
		switch rapid.SampledFrom([]string{"tidy", "tidy-ext", "auto-tidy"}).Draw(rt, "tidyKind") {
		case "tidy":
			do(s.actTidy)
		case "tidy-ext":
			do(s.actTidyExt)
		default:
			do(s.actAutoTidy)
		}
		tidied := x.nTidiedExpiredInWAL > 0
		nAfter := rapid.IntRange(0, 2).Draw(rt, "unexpiredRevokedAfter")
		for i := 0; i < nAfter; i++ {
			do(func() { s.issue("r") })
			do(func() { s.actRevoke(false) })
		}
		if rapid.Bool().Draw(rt, "deltaByPeriodicTick") {
			do(s.actPeriodicElapsed)
		} else {
			do(func() { s.actRotateDelta(false) })
		}
		do(func() { s.actRotate(false) })
		do(func() { s.actRotateDelta(false) })
		cls := "no-expired-entry-tidied"
		if tidied {
			cls = "expired-entry-in-delta-wal-tidied"
		}
		rec.Case(cls, tidied && nLive+nAfter > 0, verifx.Digest(strings.Join(c16Shape(s.history), "|")), func() any {
			return map[string]any{"issuers": s.issuers, "unexpired_revoked_before": nLive, "expired_revoked": nOld, "unexpired_revoked_after": nAfter, "history": c16Shape(s.history)}
		})
		if x.nDeltaTidyHit > 0 {
			rec.Class("cases-with-observation:"+c16SigDeltaTidy, 1)
		}
		if x.nDeltaCarried > 0 {
			rec.Class("cases-with-serial-only-on-delta-crl", 1)
		}
	})
}

// ---- issuer usages (issuer/<ref> "usage": read-only, issuing-certificates, crl-signing, ocsp-signing)
//
// What unchanged OpenBao does (crl_util.go buildAnyCRLsWithCerts): a rebuild skips a set of equivalent issuers
// none of which has crl-signing ("refusing to rebuild CRL for this group of issuers", a warning); the set keeps
// its CRL id, its number counter and the CRL stored last, which issuer/<ref>/crl goes on serving. Asserted:
// while the issuers of a CRL may not sign, nothing new is demanded of that CRL (a revocation reported then
// becomes an obligation with the first CRL built after the usage is back), but it is still served, parses,
// verifies, and loses no serial it listed; the first CRL built afterwards has a number above every number
// served before for the issuer (the existing crl-number-not-increasing rule, lastNum is kept across the
// episode) and lists every reported unexpired revocation (the existing newBuild rule).

var c16AllUsages = []string{"read-only", "issuing-certificates", "crl-signing", "ocsp-signing"}

func (s *c16Sys) has(name, usage string) bool { return !s.ext().dropped[name][usage] }

func (s *c16Sys) resetUsage(name string) { delete(s.ext().dropped, name) }

// issuable: present issuers that may issue certificates
func (s *c16Sys) issuable() []string {
	var out []string
	for _, n := range s.present() {
		if s.has(n, "issuing-certificates") {
			out = append(out, n)
		}
	}
	if len(out) == 0 {
		s.rt.Skip("no issuer may issue certificates")
	}
	return out
}

// canSignCRL: some present issuer serving the CRL of `issuer` has crl-signing
func (s *c16Sys) canSignCRL(issuer string) bool {
	for _, n := range []string{issuer, s.ext().twin[issuer]} {
		if n != "" && !s.absent[n] && s.has(n, "crl-signing") {
			return true
		}
	}
	return false
}

// mixedCRLSigning: the issuers serving the CRL of `issuer` are two, both present, and exactly one may sign CRLs
func (s *c16Sys) mixedCRLSigning(issuer string) bool {
	tw := s.ext().twin[issuer]
	if tw == "" || s.absent[issuer] || s.absent[tw] {
		return false
	}
	return s.has(issuer, "crl-signing") != s.has(tw, "crl-signing")
}

// canSignOCSP: OCSP answers about certificates of `issuer` can be signed whichever issuer entry the code picks
// (the one named on the revocation entry, else any matching one; "unknown" answers by the default issuer)
func (s *c16Sys) canSignOCSP(issuer string) bool {
	for _, n := range []string{issuer, s.ext().twin[issuer], s.def} {
		if n != "" && !s.absent[n] && !s.has(n, "ocsp-signing") {
			return false
		}
	}
	return true
}

// noteFrozen marks the CRLs whose issuers may not sign at the moment (usage removed, or the one issuer of a
// pair that may sign was deleted); the mark stays until a complete CRL built afterwards is observed.
func (s *c16Sys) noteFrozen() {
	x := s.ext()
	for _, n := range s.present() {
		if !s.canSignCRL(n) {
			x.wasFrozen[n] = true
		}
	}
}

// dropFrozenObligations: the CRL was enabled again (forced rebuild) while some issuers may not sign: what
// they serve is whatever was built last, possibly the empty CRL of the disabled period.
func (s *c16Sys) dropFrozenObligations() {
	for _, c := range s.certs {
		if !s.canSignCRL(c.issuer) {
			c.must, c.mustUnion, c.seenUnion = false, false, false
		}
	}
}

func (s *c16Sys) actIssuerUsage() {
	x := s.ext()
	name := rapid.SampledFrom(s.present()).Draw(s.rt, "issuer")
	kind := rapid.SampledFrom([]string{"drop-crl-signing", "drop-crl-signing", "restore", "restore", "restore", "drop-ocsp-signing", "drop-issuing-certificates", "read-only"}).Draw(s.rt, "usageChange")
	patch := rapid.Bool().Draw(s.rt, "patch")
	drop := map[string]bool{}
	for k := range x.dropped[name] {
		drop[k] = true
	}
	switch kind {
	case "restore":
		drop = map[string]bool{}
	case "read-only":
		drop = map[string]bool{"issuing-certificates": true, "crl-signing": true, "ocsp-signing": true}
	default:
		drop[strings.TrimPrefix(kind, "drop-")] = true
	}
	var usage []string
	for _, u := range c16AllUsages {
		if !drop[u] {
			usage = append(usage, u)
		}
	}
	var err error
	if patch {
		_, err = vxReq(s.b, s.fs, logical.PatchOperation, "issuer/"+name, map[string]any{"usage": usage})
	} else {
		// POST replaces every field of the issuer entry
		_, err = s.write("issuer/"+name, map[string]any{"issuer_name": name, "usage": usage})
	}
	s.logf("issuer/%s usage=%v (%s, patch=%v) -> err=%v", name, usage, kind, patch, err)
	if err != nil {
		s.violation("issuer-update-failed", "setting the usage of issuer %s to %v failed: %v", name, usage, err)
		return
	}
	x.nUsage++
	hadCRL, hadOCSP, hadIssue := s.has(name, "crl-signing"), s.has(name, "ocsp-signing"), s.has(name, "issuing-certificates")
	x.dropped[name] = drop
	if hadCRL && drop["crl-signing"] {
		x.nCRLDropped++
	}
	if !hadCRL && !drop["crl-signing"] {
		x.nCRLRestored++
	}
	if hadOCSP && drop["ocsp-signing"] {
		x.nOCSPDropped++
	}
	if hadIssue && drop["issuing-certificates"] {
		x.nIssuingDropped++
	}
	s.noteFrozen()
	if s.mixedCRLSigning(name) {
		x.nMixedUsage++
	}
}

// ---- schedules: a revoke racing a request that rebuilds the CRLs
//
// "With CRL auto-rebuild off, the CRL served once the revoke call has returned already lists the serial": also
// when another request's CRL rebuild is in flight while the revoke runs. The two requests run as tasks of the
// storage-step scheduler (verifx.Sched) over a gateable physical backend; the harness owns the
// interleaving at storage-operation granularity. After BOTH have returned the usual oracle runs.

type c16Race struct {
	NIss      int
	Prior     []int  // issuers of earlier revocations
	Target    int    // issuer of the certificate that is revoked
	How       string // serial | cert | cert-nostore | with-key
	Other     string // the rebuild-causing request
	OtherIss  int    // issuer the other request is about (delete / usage)
	First     int    // 0: the revoke runs first (until preempted), 1: the other request does
	K         int    // single preemption: the first task is preempted after K storage operations; -1 = random walk
	schedDesc string
}

var c16RaceOthers = []string{"delete-issuer", "import-issuer", "generate-root", "config-enable", "tidy", "crl-rotate", "delete-issuer", "import-issuer"}

// c16RaceRun plays one scenario under one schedule. choose is called by the scheduler for every step. It returns
// the number of storage operations the first task performed, and whether the run was conclusive.
func c16RaceRun(rt *rapid.T, rec *verifx.Recorder, sc *c16Race, walk func(parked []int, cur int) int) (firstOps int, firstDoneBeforePreempt bool) {
	phys := verifx.NewRec(verifx.NewInmem(false))
	vr := verifx.RecOf(phys)
	s := c16SetupOn(rt, rec, sc.NIss, false, logical.NewLogicalStorage(phys))
	defer s.close()
	issueBy := func(iss int, role string) *c16Cert {
		resp := s.mustWrite("issue", fmt.Sprintf("issuer/i%d/issue/%s", iss, role), map[string]any{"common_name": fmt.Sprintf("c%d.example.com", len(s.certs))})
		c, err := vxParseCertPEM(vxStr(resp.Data, "certificate"))
		if err != nil {
			rt.Fatalf("harness: %v", err)
		}
		cc := &c16Cert{serial: vxStr(resp.Data, "serial_number"), cert: c, issuer: fmt.Sprintf("i%d", iss), noStore: role == "ns", stored: role != "ns", keyPEM: vxStr(resp.Data, "private_key")}
		s.certs = append(s.certs, cc)
		s.bySerial[c.SerialNumber.String()] = cc
		return cc
	}
	for _, pi := range sc.Prior {
		c := issueBy(pi, "r")
		ok, resp, err := s.revokeCall(c, false)
		if err != nil || !ok {
			rt.Fatalf("harness: preparatory revoke failed: %v", err)
		}
		s.noteSuccess(c, resp, "serial")
	}
	issueBy((sc.Target+1)%sc.NIss, "r") // a bystander that is never revoked
	role := "r"
	if sc.How == "cert-nostore" {
		role = "ns"
	}
	c := issueBy(sc.Target, role)
	other := fmt.Sprintf("i%d", sc.OtherIss)
	ctx := context.Background()
	var otherCall func() (*logical.Response, error)
	switch sc.Other {
	case "generate-root":
		otherCall = func() (*logical.Response, error) {
			return s.write("root/generate/internal", map[string]any{"common_name": "verif root n9", "key_type": "ec", "issuer_name": "n9", "ttl": "8760h"})
		}
	case "delete-issuer":
		otherCall = func() (*logical.Response, error) {
			return vxReq(s.b, s.fs, logical.DeleteOperation, "issuer/"+other, nil)
		}
	case "import-issuer":
		s.step++
		s.deleteIssuer(other)
		otherCall = func() (*logical.Response, error) {
			return s.write("issuers/import/bundle", map[string]any{"pem_bundle": vxCertPEM(s.issuerCert[other])})
		}
	case "config-enable":
		s.mustWrite("config/crl", "config/crl", map[string]any{"disable": true})
		s.disabled = true
		s.logf("config/crl disable=true")
		otherCall = func() (*logical.Response, error) { return s.write("config/crl", map[string]any{"disable": false}) }
	case "crl-rotate":
		otherCall = func() (*logical.Response, error) { return s.read("crl/rotate") }
	case "tidy":
		// the body of a tidy run (tidy_revoked_certs, buffer 1s) in the task's own goroutine: the real one runs in
		// a goroutine of its own, which the scheduler could not gate
		s.step++
		s.revokeExpired(other)
		buf := time.Second
		cfg := &tidyConfig{Enabled: true, RevokedCerts: true, SafetyBuffer: buf, RevokedSafetyBuffer: &buf, IssuerSafetyBuffer: 8760 * time.Hour, PageSize: 1000}
		otherCall = func() (*logical.Response, error) {
			req := &logical.Request{Storage: s.fs}
			rebuild, err := s.b.doTidyRevocationStore(ctx, req, s.b.Logger(), cfg, 0)
			if err == nil && rebuild {
				err = s.b.doTidyRebuildCRL(ctx, req, s.b.Logger(), cfg)
			}
			if err == nil && !rebuild {
				err = fmt.Errorf("harness: tidy found nothing to remove")
			}
			return nil, err
		}
	default:
		rt.Fatalf("harness: unknown request %q", sc.Other)
	}
	s.check()

	path, data := "revoke", map[string]any{"serial_number": c.serial}
	switch sc.How {
	case "cert", "cert-nostore":
		data = map[string]any{"certificate": vxCertPEM(c.cert)}
	case "with-key":
		path, data = "revoke-with-key", map[string]any{"serial_number": c.serial, "private_key": c.keyPEM}
	}
	var r1, r2 *logical.Response
	var e1, e2 error
	sched := verifx.NewSched(vr)
	defer func() {
		// rapid may abort the property from inside a draw: never leave a task parked
		sched.RunToEnd(20 * time.Second)
		vr.Gate, vr.TaskOf = nil, nil
	}()
	tRevoke := sched.Spawn("revoke", func() { r1, e1 = s.write(path, data) })
	tOther := sched.Spawn("other", func() { r2, e2 = otherCall() })
	tasks := []*verifx.Task{tRevoke, tOther}
	first, second := sc.First, 1-sc.First
	cur := -1
	preempted := false
	err := sched.Run(func(parked []int) int {
		has := func(i int) bool {
			for _, p := range parked {
				if p == i {
					return true
				}
			}
			return false
		}
		if walk != nil {
			cur = walk(parked, cur)
			return cur
		}
		// single preemption: first runs K operations, then second runs until it is done (or blocked on a lock
		// the first holds), then first goes on
		if !preempted && tasks[first].Ops < sc.K+1 && has(first) { // Ops counts the release from "start" too
			return first
		}
		if !preempted {
			preempted = true
			firstDoneBeforePreempt = tasks[first].Done
			firstOps = tasks[first].Ops
		}
		if has(second) {
			return second
		}
		return parked[0]
	})
	if !preempted {
		firstDoneBeforePreempt, firstOps = true, tasks[first].Ops
	}
	trace := sched.Trace
	if err != nil {
		sched.RunToEnd(10 * time.Second)
		rt.Fatalf("harness: %v", err)
	}
	vr.Gate, vr.TaskOf = nil, nil

	// ---- both requests have returned: bookkeeping (the other request first: it decides what is demanded)
	s.step++
	sc.schedDesc = c16TraceShape(trace)
	s.logf("CONCURRENT revoke(%s) of %s (issuer %s) || %s(%s); schedule: %s", sc.How, c.serial, c.issuer, sc.Other, other, sc.schedDesc)
	s.logf("  %s -> err=%v", sc.Other, e2)
	conclusive := true
	if e2 != nil {
		if strings.HasPrefix(e2.Error(), "harness:") {
			rt.Fatalf("%v", e2)
		}
		// not this property's business; the model cannot know what the failed request left behind
		rec.Class("other-request-failed:"+sc.Other, 1)
		conclusive = false
	} else {
		switch sc.Other {
		case "generate-root":
			nc, perr := vxParseCertPEM(vxStr(r2.Data, "certificate"))
			if perr != nil {
				rt.Fatalf("harness: %v", perr)
			}
			s.issuers = append(s.issuers, "n9")
			s.issuerCert["n9"] = nc
		case "delete-issuer":
			s.afterDelete(other)
		case "import-issuer":
			s.afterImport(other, r2, false)
		case "config-enable":
			s.disabled = false
		case "tidy":
			s.noteTidy(true, time.Second)
		}
	}
	c.attempted = true
	state := ""
	if r1 != nil {
		state = vxStr(r1.Data, "state")
	}
	s.logf("  revoke -> state=%q err=%v", state, e1)
	switch {
	case e1 != nil:
		// a revoke may fail when the set of issuers changes under it; only a reported success obliges
		rec.Class("revoke-failed-in-race:"+sc.Other, 1)
	case state == "revoked":
		how := "serial"
		if sc.How == "cert" || sc.How == "cert-nostore" {
			how = "cert"
		}
		s.noteSuccess(c, r1, how)
		rec.Class("revoke-succeeded-in-race:"+sc.Other, 1)
	}
	if conclusive {
		s.check()
		// a later complete rebuild lists everything, also after a restart
		s.step++
		s.actRotate(false)
		s.check()
		s.restart("final")
		s.check()
	}
	overlapped := false
	seen := map[string]bool{}
	for _, t := range trace {
		name := t[:strings.Index(t, ":")]
		if len(seen) == 1 && !seen[name] {
			overlapped = true // the second task started...
		}
		seen[name] = true
	}
	// ... before the first one finished: some later step belongs to the task that started first
	if overlapped {
		overlapped = false
		firstName := trace[0][:strings.Index(trace[0], ":")]
		started := false
		for _, t := range trace {
			name := t[:strings.Index(t, ":")]
			if name != firstName {
				started = true
			} else if started {
				overlapped = true
			}
		}
	}
	cls := sc.Other + "/sequential"
	if overlapped {
		cls = sc.Other + "/interleaved"
	}
	mode := "preempt"
	if walk != nil {
		mode = "walk"
	}
	rec.Case(cls, overlapped && e1 == nil && state == "revoked" && conclusive, verifx.Digest(sc.NIss, len(sc.Prior), sc.Target, sc.How, sc.Other, sc.OtherIss, sc.First, mode, sc.schedDesc), func() any {
		return map[string]any{"issuers": sc.NIss, "earlier_revocations": len(sc.Prior), "revoke_how": sc.How, "other": sc.Other, "first": sc.First, "k": sc.K, "schedule": sc.schedDesc, "revoke_error": fmt.Sprint(e1), "other_error": fmt.Sprint(e2)}
	})
	rec.Class("mode:"+mode, 1)
	if tRevoke.Blocked+tOther.Blocked > 0 {
		rec.Class("a-task-ran-into-a-lock-of-the-other", 1)
	}
	return firstOps, firstDoneBeforePreempt
}

// c16TraceShape renders a schedule as runs: "revoke x12 [put revoked/] | other x40 [put crls/] | revoke x9".
func c16TraceShape(trace []string) string {
	var out []string
	i := 0
	for i < len(trace) {
		name := trace[i][:strings.Index(trace[i], ":")]
		j := i
		for j < len(trace) && strings.HasPrefix(trace[j], name+":") {
			j++
		}
		last := trace[j-1][len(name)+1:]
		if f := strings.Fields(last); len(f) == 2 {
			key := f[1]
			if k := strings.Index(key, "/"); k >= 0 {
				key = key[:k+1]
			}
			last = f[0] + " " + key
		}
		out = append(out, fmt.Sprintf("%s x%d [%s]", name, j-i, last))
		i = j
	}
	return strings.Join(out, " | ")
}

func c16DrawRace(rt *rapid.T) *c16Race {
	sc := &c16Race{NIss: rapid.SampledFrom([]int{2, 3, 1}).Draw(rt, "nIssuers")}
	nPrev := rapid.IntRange(0, 2).Draw(rt, "earlierRevocations")
	for i := 0; i < nPrev; i++ {
		sc.Prior = append(sc.Prior, rapid.IntRange(0, sc.NIss-1).Draw(rt, "earlierIssuer"))
	}
	sc.Target = rapid.IntRange(0, sc.NIss-1).Draw(rt, "targetIssuer")
	sc.How = rapid.SampledFrom([]string{"serial", "cert", "cert-nostore", "with-key"}).Draw(rt, "revokeHow")
	oi := 0 // three fair coins: rapid's own choice among alternatives favours the first ones
	for i := 0; i < 3; i++ {
		if rapid.Bool().Draw(rt, "otherRequest") {
			oi |= 1 << i
		}
	}
	sc.Other = c16RaceOthers[oi]
	if sc.NIss == 1 && (sc.Other == "delete-issuer" || sc.Other == "import-issuer") {
		sc.Other = "generate-root" // the mount keeps at least one issuer
	}
	sc.OtherIss = rapid.IntRange(0, sc.NIss-1).Draw(rt, "otherIssuer")
	if (sc.Other == "delete-issuer" || sc.Other == "import-issuer") && sc.OtherIss == 0 && sc.NIss == 3 {
		sc.OtherIss = 1 // i2 is an intermediate of i0: keep its parent
	}
	if sc.Other == "import-issuer" && sc.OtherIss == sc.Target && sc.How == "cert-nostore" {
		sc.How = "cert" // an unstored certificate of an absent issuer cannot be issued in the set-up
	}
	sc.First = rapid.IntRange(0, 1).Draw(rt, "firstTask")
	return sc
}

// TestVerif_C16_Schedules: for a generated scenario either every single preemption (the first task is stopped
// after k = 0, 1, 2, ... storage operations, the other task runs until it is done or blocked, then the first
// goes on; fresh mount per k), or random stay-or-switch walks.
func TestVerif_C16_Schedules(t *testing.T) {
	rec := verifx.NewRecorder("C16", "schedules", "auto_rebuild off; 1-3 issuers, 0-2 earlier revocations; task A = revoke (by serial / certificate / unstored certificate / revoke-with-key), task B = one request that rebuilds the CRLs (root/generate, issuer delete, issuer import, config/crl disable=false, crl/rotate, the body of a tidy run) interleaved at storage-operation granularity by the storage-step scheduler: all single preemptions of either task (fresh mount per preemption point; quick tier: at most 24 evenly spread points per scenario) or random stay-or-switch walks; after both returned: full oracle (a reported revocation is on the CRL served), then crl/rotate, restart; non-trivial = the two requests really interleaved and the revoke reported success")
	defer rec.Flush()
	rapid.Check(t, func(rt *rapid.T) {
		sc := c16DrawRace(rt)
		if rapid.IntRange(0, 2).Draw(rt, "mode") == 0 {
			nWalks := rapid.IntRange(2, 4).Draw(rt, "walks")
			for i := 0; i < nWalks; i++ {
				sc.K = -1
				c16RaceRun(rt, rec, sc, func(parked []int, cur int) int {
					stay := false
					for _, p := range parked {
						if p == cur {
							stay = true
						}
					}
					if stay && rapid.IntRange(0, 9).Draw(rt, "step") < 7 {
						return cur
					}
					return parked[rapid.IntRange(0, len(parked)-1).Draw(rt, "pick")]
				})
			}
			return
		}
		// no preemption: the first task alone, then the second; tells how many preemption points there are
		sc.K = 1 << 30
		n, _ := c16RaceRun(rt, rec, sc, nil)
		// quick tier: at most ~24 preemption points per scenario, evenly spread from a drawn offset
		stride := (n + verifx.Scale(24, 1<<20) - 1) / verifx.Scale(24, 1<<20)
		if stride < 1 {
			stride = 1
		}
		off := rapid.IntRange(0, stride-1).Draw(rt, "preemptionOffset")
		for k := off; k < n; k += stride {
			sc.K = k
			if _, done := c16RaceRun(rt, rec, sc, nil); done {
				break // the first task finished before it could be preempted: no later preemption point exists
			}
		}
	})
}
