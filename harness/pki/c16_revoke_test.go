//go:build verif

package pki

// C16 — A revoked certificate is reported revoked everywhere until it expires.
//
// A rapid state machine drives one PKI mount (1-3 issuers, EC keys) through issue / revoke (by serial, by
// certificate) / revoke again / crl rotate / tidy / change of default issuer / CRL configuration / periodic
// tick / restart on the same storage, plus storage faults inside a revoke or a CRL rebuild (one failing
// operation, or a crash = every operation fails from the k-th on, followed by a restart) with a retry of
// the same call until it reports success. After every action the model below is compared with what the
// API serves: cert/<serial>, OCSP (GET and POST), issuer/<ref>/crl for every issuer and cert/crl.
//
// c16_ext_test.go adds to the same machine: delta CRLs (enable_delta, crl/rotate-delta, periodic delta rebuild,
// issuer/<ref>/crl/delta, cert/delta-crl), revoke-with-key (own key / other key), certificates that no issuer of
// the mount signed, unstored certificates of a deleted issuer, a second issuer with the key and subject of i0,
// revocation of already expired certificates, tidy variants and auto-tidy, revocation through the lease machinery
// (role with generate_lease, RevokeOperation with the secret, optionally followed at once by a restart), and a
// revoked cross-signed certificate whose serial number is that of a root imported as an issuer later.

import (
	"bytes"
	"crypto"
	"crypto/x509"
	"encoding/base64"
	"encoding/pem"
	"fmt"
	"io"
	"math/big"
	"net/http"
	"strings"
	"testing"
	"time"

	"github.com/openbao/openbao/sdk/v2/helper/verifx"
	"github.com/openbao/openbao/sdk/v2/logical"
	"golang.org/x/crypto/ocsp"
	"pgregory.net/rapid"
)

const (
	c16SigF5        = "revoke-retry-skips-crl-rebuild"
	c16SigNumber    = "crl-number-reused-after-failed-rebuild"
	c16SigOcspStale = "ocsp-unknown-for-revoked-after-issuer-reimport"
	c16ExpiryMargin = 3 * time.Second // obligations end this long before notAfter
)

type c16Cert struct {
	serial   string // colon-separated lower-case hex, as the API prints it
	cert     *x509.Certificate
	issuer   string
	noStore  bool
	stored   bool // certs/<serial> exists (issued with storage, or imported by a revoke-by-certificate)
	short    bool
	issuedAt int // action index

	attempted        bool  // a revoke call was made, whatever its outcome
	revoked          bool  // a revoke call reported state=revoked
	revTime          int64 // revocation_time of the first success
	faultAfterRecord bool  // a revoke call failed with an injected fault after revoked/<serial> had been written
	must             bool  // must be on every CRL of its issuer fetched from now on (until expiry)
	crlTime          time.Time

	// c16_ext_test.go
	keyPEM         string // private key as returned by issue
	revRFC         string // revocation_time_rfc3339 of the first success
	mustUnion      bool   // must be on the complete CRL or on the delta CRL that can be combined with it
	seenUnion      bool   // was observed there
	viaKey         bool   // revoked through revoke-with-key
	lostToMixed    bool   // left off a CRL built while one of two equivalent issuers lacked crl-signing, not seen listed since
	expiredAtIssue bool
	secret         *logical.Secret // issued through a role with generate_lease: the secret of the issue response
	leasePath      string          // the request path that created the secret
	cross          *c16Cross       // a self-signed root of another mount, cross-signed by an issuer of this mount (same serial as that root)
}

func (c *c16Cert) alive(now time.Time) bool { return now.Before(c.cert.NotAfter.Add(-c16ExpiryMargin)) }

type c16Sys struct {
	rt  *rapid.T
	rec *verifx.Recorder
	fs  *vxFaultStorage
	b   *backend

	issuers    []string
	issuerCert map[string]*x509.Certificate
	def        string
	certs      []*c16Cert
	bySerial   map[string]*c16Cert // key: big.Int decimal

	autoRebuild bool
	disabled    bool
	expiry      string

	lastNum map[string]*big.Int
	lastRaw map[string][]byte
	// numberRisk[issuer]: an injected fault interrupted a rebuild after at least one CRL had been stored but
	// before crls/config (which holds the CRL number counters) was stored; cleared at the next new CRL seen.
	numberRisk map[string]int // step of the interrupting fault; 0 = none

	// issuer removal / re-import: revocations belong to the issuer CERTIFICATE, not to the issuer id
	absent                                                                                   map[string]bool // issuer currently deleted
	deletedEver                                                                              map[string]bool
	reimportedAt                                                                             map[string]int  // step of the last re-import
	fresh                                                                                    map[string]bool // re-imported, no CRL of the new issuer entry observed yet
	crlNewAt                                                                                 map[string]int  // step at which a newly built CRL of this issuer was last observed
	nIssuerDeleted, nIssuerReimported, nRevokedBeforeDelete, nRevokedWhileAbsent, nOcspStale int

	step    int
	history []string

	x c16Ext // c16_ext_test.go

	// coverage of this case
	nFaultRevoke, nFaultAfterRecord, nCrash, nRestart, nRotate, nTidy, nF5, nNumberReuse, nInterruptedRebuild int
}

func (s *c16Sys) logf(format string, args ...any) {
	s.history = append(s.history, fmt.Sprintf("%02d ", s.step)+fmt.Sprintf(format, args...))
}

func (s *c16Sys) detail() map[string]any {
	h := s.history
	if len(h) > 80 {
		h = h[len(h)-80:]
	}
	return map[string]any{"issuers": s.issuers, "default": s.def, "auto_rebuild": s.autoRebuild, "enable_delta": s.x.delta, "crl_disabled": s.disabled, "history": h}
}

func (s *c16Sys) violation(sig, format string, args ...any) bool {
	raw := fmt.Sprintf(format, args...)
	d := s.detail()
	d["message"] = raw
	s.rt.Logf("violation %s: %s\nhistory:\n  %s", sig, raw, strings.Join(s.history, "\n  "))
	return s.rec.Violation(s.rt, sig, d, "%s", vxStable(raw))
}

func (s *c16Sys) write(path string, data map[string]any) (*logical.Response, error) {
	return vxReq(s.b, s.fs, logical.UpdateOperation, path, data)
}

func (s *c16Sys) read(path string) (*logical.Response, error) {
	return vxReq(s.b, s.fs, logical.ReadOperation, path, nil)
}

func (s *c16Sys) mustWrite(what, path string, data map[string]any) *logical.Response {
	resp, err := s.write(path, data)
	if err != nil {
		s.rt.Fatalf("harness: %s: %v", what, err)
	}
	return resp
}

// c16Setup builds the mount: nIssuers in 1..3; issuer 0 and 1 are roots, issuer 2 is an intermediate of issuer 0.
func c16Setup(rt *rapid.T, rec *verifx.Recorder, nIssuers int, autoRebuild bool) *c16Sys {
	return c16SetupOn(rt, rec, nIssuers, autoRebuild, &logical.InmemStorage{})
}

// c16SetupOn: the same over a caller-supplied storage (the schedules unit puts a gateable physical backend below).
func c16SetupOn(rt *rapid.T, rec *verifx.Recorder, nIssuers int, autoRebuild bool, storage logical.Storage) *c16Sys {
	s := &c16Sys{rt: rt, rec: rec, fs: &vxFaultStorage{Storage: storage}, issuerCert: map[string]*x509.Certificate{},
		bySerial: map[string]*c16Cert{}, lastNum: map[string]*big.Int{}, lastRaw: map[string][]byte{}, numberRisk: map[string]int{}, expiry: "72h",
		absent: map[string]bool{}, deletedEver: map[string]bool{}, reimportedAt: map[string]int{}, fresh: map[string]bool{}, crlNewAt: map[string]int{}}
	b, err := vxBackend(s.fs, time.Hour, 24*time.Hour)
	if err != nil {
		rt.Fatalf("harness: backend: %v", err)
	}
	s.b = b
	for i := 0; i < nIssuers && i < 2; i++ {
		name := fmt.Sprintf("i%d", i)
		resp := s.mustWrite("root "+name, "root/generate/internal", map[string]any{"common_name": "verif root " + name, "key_type": "ec", "issuer_name": name, "ttl": "8760h"})
		c, err := vxParseCertPEM(vxStr(resp.Data, "certificate"))
		if err != nil {
			rt.Fatalf("harness: %v", err)
		}
		s.issuers = append(s.issuers, name)
		s.issuerCert[name] = c
	}
	if nIssuers >= 3 {
		resp := s.mustWrite("intermediate csr", "intermediate/generate/internal", map[string]any{"common_name": "verif intermediate i2", "key_type": "ec"})
		resp = s.mustWrite("sign intermediate", "issuer/i0/sign-intermediate", map[string]any{"csr": vxStr(resp.Data, "csr"), "common_name": "verif intermediate i2", "ttl": "4380h"})
		c, err := vxParseCertPEM(vxStr(resp.Data, "certificate"))
		if err != nil {
			rt.Fatalf("harness: %v", err)
		}
		resp = s.mustWrite("set-signed", "intermediate/set-signed", map[string]any{"certificate": vxStr(resp.Data, "certificate")})
		ids, _ := resp.Data["imported_issuers"].([]string)
		if len(ids) != 1 {
			rt.Fatalf("harness: set-signed imported %v", resp.Data["imported_issuers"])
		}
		s.mustWrite("name intermediate", "issuer/"+ids[0], map[string]any{"issuer_name": "i2"})
		s.issuers = append(s.issuers, "i2")
		s.issuerCert["i2"] = c
	}
	s.def = "i0"
	for _, r := range []struct {
		name string
		data map[string]any
	}{
		{"r", map[string]any{"allow_any_name": true, "enforce_hostnames": false, "key_type": "ec", "ttl": "1h"}},
		{"ns", map[string]any{"allow_any_name": true, "enforce_hostnames": false, "key_type": "ec", "ttl": "1h", "no_store": true}},
		{"short", map[string]any{"allow_any_name": true, "enforce_hostnames": false, "key_type": "ec", "ttl": "8s"}},
		{"old", map[string]any{"allow_any_name": true, "enforce_hostnames": false, "key_type": "ec", "ttl": "1h", "not_before_duration": "3h"}},
		{"lease", map[string]any{"allow_any_name": true, "enforce_hostnames": false, "key_type": "ec", "ttl": "1h", "generate_lease": true}},
	} {
		s.mustWrite("role "+r.name, "roles/"+r.name, r.data)
	}
	if autoRebuild {
		s.mustWrite("config/crl", "config/crl", map[string]any{"auto_rebuild": true})
		s.autoRebuild = true
	}
	s.logf("setup issuers=%v default=%s auto_rebuild=%v", s.issuers, s.def, s.autoRebuild)
	return s
}

func (s *c16Sys) close() { vxClose(s.b) }

// ---- observation

func (s *c16Sys) fetchCRL(path, field string) (*x509.RevocationList, []byte) {
	resp, err := s.read(path)
	if err != nil {
		s.violation("crl-fetch-error", "reading %s failed: %v", path, err)
		return nil, nil
	}
	if resp == nil {
		return nil, nil
	}
	p := vxStr(resp.Data, field)
	blk, _ := pem.Decode([]byte(p))
	if blk == nil {
		return nil, nil
	}
	crl, err := x509.ParseRevocationList(blk.Bytes)
	if err != nil {
		s.violation("crl-unparseable", "%s serves a CRL that does not parse: %v", path, err)
		return nil, nil
	}
	return crl, blk.Bytes
}

func (s *c16Sys) ocspStatus(c *c16Cert, post bool, hash crypto.Hash) (int, error) {
	iss := s.issuerCert[c.issuer]
	der, err := ocsp.CreateRequest(c.cert, iss, &ocsp.RequestOptions{Hash: hash})
	if err != nil {
		return 0, fmt.Errorf("harness: ocsp request: %w", err)
	}
	var resp *logical.Response
	if post {
		req := &logical.Request{Operation: logical.UpdateOperation, Path: "ocsp", Storage: s.fs, MountPoint: "pki/", Data: map[string]any{},
			HTTPRequest: &http.Request{Method: "POST", Body: io.NopCloser(bytes.NewReader(der))}}
		resp, err = s.b.HandleRequest(s.rt.Context(), req)
	} else {
		resp, err = s.read("ocsp/" + base64.StdEncoding.EncodeToString(der))
	}
	if err != nil {
		return 0, err
	}
	body, _ := resp.Data[logical.HTTPRawBody].([]byte)
	// an "unknown" answer is signed by the mount's default issuer (documented), any other by the issuer asked about
	if loose, lerr := ocsp.ParseResponse(body, nil); lerr == nil && loose.Status == ocsp.Unknown && loose.Certificate == nil {
		if s.def != c.issuer {
			if loose.SerialNumber == nil || loose.SerialNumber.Cmp(c.cert.SerialNumber) != 0 {
				return 0, fmt.Errorf("OCSP response: unknown-status answer is about another serial")
			}
			if verr := loose.CheckSignatureFrom(s.issuerCert[s.def]); verr != nil {
				return 0, fmt.Errorf("OCSP response: unknown-status answer not signed by the default issuer: %w", verr)
			}
			return loose.Status, nil
		}
	}
	parsed, err := ocsp.ParseResponseForCert(body, c.cert, iss)
	if err != nil {
		return 0, fmt.Errorf("OCSP response: %w", err)
	}
	if parsed.Status == ocsp.Revoked && c.revoked && parsed.RevokedAt.Unix() != c.revTime {
		return 0, fmt.Errorf("OCSP response: revoked at %d, the revoke call said %d", parsed.RevokedAt.Unix(), c.revTime)
	}
	return parsed.Status, nil
}

func (s *c16Sys) present() []string {
	var out []string
	for _, n := range s.issuers {
		if !s.absent[n] {
			out = append(out, n)
		}
	}
	return out
}

// check compares everything the API serves with the model. It runs after every action.
func (s *c16Sys) check() {
	now := time.Now()
	// ---- CRLs
	s.noteFrozen()
	for _, name := range s.present() {
		crl, raw := s.fetchCRL("issuer/"+name+"/crl", "crl")
		if crl == nil {
			if s.fresh[name] {
				continue // re-imported and no CRL built for the new issuer entry yet
			}
			s.violation("no-crl-served", "issuer/%s/crl serves no CRL", name)
			continue
		}
		if name == s.def {
			_, raw2 := s.fetchCRL("cert/crl", "certificate")
			if !bytes.Equal(raw, raw2) {
				s.violation("default-crl-differs", "cert/crl is not the CRL of the default issuer %s", name)
			}
		}
		iss := s.issuerCert[name]
		if err := crl.CheckSignatureFrom(iss); err != nil {
			s.violation("crl-bad-signature", "CRL of %s does not verify under its issuer: %v", name, err)
		}
		if crl.Number == nil {
			s.violation("crl-without-number", "CRL of %s has no CRL number", name)
			continue
		}
		newBuild := false // the first observation of a CRL says nothing about when it was built
		if s.fresh[name] {
			// ... except after a delete + re-import: the old issuer entry's CRL was removed, so whatever is
			// served for the new entry was built after the re-import
			newBuild, s.fresh[name] = true, false
		}
		if s.lastRaw[name] != nil && !bytes.Equal(raw, s.lastRaw[name]) {
			newBuild = true
			if crl.Number.Cmp(s.lastNum[name]) <= 0 {
				sig := "crl-number-not-increasing"
				if s.numberRisk[name] > 0 {
					sig = c16SigNumber
					s.nNumberReuse++
				} else if s.mixedCRLSigning(name) {
					sig = c16SigMixedNumber
					s.x.nMixedUsageHit++
				}
				s.violation(sig, "issuer %s: a different CRL is served with number %s, the previous one had %s (a rebuild was interrupted by an injected fault after a CRL was stored and before crls/config was: %v; an equivalent issuer is present and exactly one of the two has crl-signing: %v)", name, crl.Number, s.lastNum[name], s.numberRisk[name] > 0, s.mixedCRLSigning(name))
			}
			if s.numberRisk[name] > 0 && s.step > s.numberRisk[name] {
				s.numberRisk[name] = 0 // first CRL built by a later action: from here on the counters are persisted again
			}
		}
		s.lastRaw[name], s.lastNum[name] = raw, crl.Number
		if newBuild {
			s.crlNewAt[name] = s.step
			s.noteCompleteRebuild(name)
		}
		if crl.ThisUpdate.After(now.Add(2*time.Second)) || crl.NextUpdate.Before(now) {
			s.violation("crl-validity-window", "issuer %s: thisUpdate %s / nextUpdate %s do not bracket now %s", name, crl.ThisUpdate, crl.NextUpdate, now)
		}
		listed := map[string]time.Time{}
		for _, e := range crl.RevokedCertificateEntries {
			key := e.SerialNumber.String()
			if _, dup := listed[key]; dup {
				s.violation("crl-duplicate-entry", "issuer %s: serial %x is listed twice", name, e.SerialNumber)
			}
			listed[key] = e.RevocationTime
			s.checkEntry("complete", name, e)
		}
		delta := s.checkDelta(name, crl, now)
		if s.disabled {
			continue
		}
		for _, c := range s.certs {
			if !s.covers(name, c.issuer) || !c.alive(now) {
				continue
			}
			if newBuild && c.revoked {
				c.must = true // a complete CRL built after the revocation was reported
			}
			_, inComplete := listed[c.cert.SerialNumber.String()]
			if !c.must {
				s.checkUnion(name, c, crl, inComplete, delta)
				continue
			}
			c.seenUnion = c.seenUnion || inComplete
			if inComplete {
				c.lostToMixed = false
			}
			if !inComplete {
				sig := "revoked-serial-missing-from-crl"
				if s.mixedCRLSigning(c.issuer) || c.lostToMixed {
					sig = c16SigMixedUsage
					c.lostToMixed = true
					s.x.nMixedUsageHit++
				} else if c.faultAfterRecord {
					sig = c16SigF5
					s.nF5++
				} else if s.deletedEver[c.issuer] {
					sig = "revoked-serial-missing-from-crl-after-issuer-reimport"
				}
				c.must = false // if the signature is a listed finding the search goes on; the obligation returns with the next rebuild
				c.mustUnion, c.seenUnion = false, false
				s.violation(sig, "serial %s (issuer %s) was reported revoked (auto_rebuild=%v) but the CRL served now for %s (number %s, %d entries) does not list it; fault-after-record=%v",
					c.serial, c.issuer, s.autoRebuild, name, crl.Number, len(listed), c.faultAfterRecord)
			}
		}
	}
	// ---- certificate status and OCSP
	for i, c := range s.certs {
		if !c.alive(now) {
			continue
		}
		if c.stored {
			resp, err := s.read("cert/" + c.serial)
			switch {
			case err != nil:
				s.violation("cert-read-error", "cert/%s: %v", c.serial, err)
			case resp == nil:
				s.violation("cert-vanished", "cert/%s returns nothing although the certificate is stored and unexpired", c.serial)
			default:
				rtime, _ := resp.Data["revocation_time"].(int64)
				if c.revoked && rtime == 0 {
					s.violation("status-not-revoked", "cert/%s shows no revocation time after a successful revoke", c.serial)
				}
				if c.revoked && rtime != 0 && rtime != c.revTime {
					s.violation("status-revocation-time-changed", "cert/%s revocation_time %d, the revoke call said %d", c.serial, rtime, c.revTime)
				}
				if !c.attempted && rtime != 0 {
					s.violation("status-revoked-without-revoke", "cert/%s shows revocation time %d although no revocation was requested", c.serial, rtime)
				}
				s.checkRFC(c, resp.Data)
			}
		} else if !c.attempted {
			// never stored, never revoked: a refused revoke-by-certificate must not have imported it
			if resp, err := s.read("cert/" + c.serial); err == nil && resp != nil {
				s.violation("unstored-certificate-imported", "cert/%s returns an entry although the certificate was issued with no_store and no revocation of it was accepted", c.serial)
			}
		}
		if !c.revoked && c.attempted {
			continue // a failed revoke may or may not have taken effect
		}
		if s.absent[c.issuer] || !s.canSignOCSP(c.issuer) {
			continue // no issuer in the mount can (or may: ocsp-signing usage) sign an OCSP response for this certificate
		}
		st, err := s.ocspStatus(c, (i+s.step)%2 == 0, []crypto.Hash{crypto.SHA1, crypto.SHA256}[(i+s.step/2)%2])
		if err != nil {
			if strings.HasPrefix(err.Error(), "harness:") {
				s.rt.Fatalf("%v", err)
			}
			s.violation("ocsp-error", "OCSP for %s: %v", c.serial, err)
			continue
		}
		if c.revoked && st == ocsp.Unknown && (s.deletedEver[c.issuer] || s.deletedEver[s.x.twin[c.issuer]]) {
			// the issuer certificate is present again (new issuer id); the revocation entry still names the old id.
			// Same with two issuers sharing key and subject: the entry names either of them, and the one it
			// names may be the one that was deleted.
			s.nOcspStale++
			s.violation(c16SigOcspStale, "OCSP status of %s (issuer %s, it or its equivalent issuer was deleted) is unknown after a successful revoke although the issuer is present with its key (crl disabled=%v, auto_rebuild=%v)", c.serial, c.issuer, s.disabled, s.autoRebuild)
			continue
		}
		if c.revoked && st != ocsp.Revoked {
			s.violation("ocsp-not-revoked", "OCSP status of %s is %d after a successful revoke (want revoked)", c.serial, st)
		}
		if !c.attempted && st != ocsp.Good {
			s.violation("ocsp-not-good", "OCSP status of %s is %d although no revocation was requested", c.serial, st)
		}
	}
}

// ---- actions

func (s *c16Sys) issue(role string) {
	issuer := rapid.SampledFrom(s.issuable()).Draw(s.rt, "issuer")
	path := "issuer/" + issuer + "/issue/" + role
	resp, err := s.write(path, map[string]any{"common_name": fmt.Sprintf("c%d.example.com", len(s.certs))})
	if err != nil {
		s.rt.Fatalf("harness: issue: %v", err)
	}
	c, err := vxParseCertPEM(vxStr(resp.Data, "certificate"))
	if err != nil {
		s.rt.Fatalf("harness: %v", err)
	}
	cc := &c16Cert{serial: vxStr(resp.Data, "serial_number"), cert: c, issuer: issuer, noStore: role == "ns", stored: role != "ns", short: role == "short", issuedAt: s.step,
		keyPEM: vxStr(resp.Data, "private_key")}
	if role == "lease" {
		if resp.Secret == nil || resp.Secret.InternalData["serial_number"] == nil {
			s.rt.Fatalf("harness: the role with generate_lease returned no secret: %+v", resp.Secret)
		}
		cc.secret, cc.leasePath = resp.Secret, path
		s.ext().nLeaseIssued++
	}
	s.certs = append(s.certs, cc)
	s.bySerial[c.SerialNumber.String()] = cc
	s.logf("issue %s by %s role=%s", cc.serial, issuer, role)
}

func (s *c16Sys) pick(label string, pred func(*c16Cert) bool) *c16Cert {
	var cand []*c16Cert
	now := time.Now()
	for _, c := range s.certs {
		if !c.stored && s.absent[c.issuer] {
			continue // documented: an unstored certificate of a removed issuer cannot be revoked until the CA is re-imported
		}
		if c.alive(now) && (pred == nil || pred(c)) {
			cand = append(cand, c)
		}
	}
	if len(cand) == 0 {
		s.rt.Skip("no candidate certificate")
	}
	return rapid.SampledFrom(cand).Draw(s.rt, label)
}

// revokeCall performs one revoke call and classifies the outcome.
func (s *c16Sys) revokeCall(c *c16Cert, byCert bool) (ok bool, resp *logical.Response, err error) {
	data := map[string]any{"serial_number": c.serial}
	if byCert {
		data = map[string]any{"certificate": vxCertPEM(c.cert)}
	}
	c.attempted = true
	resp, err = s.write("revoke", data)
	if err != nil {
		return false, resp, err
	}
	if resp == nil || vxStr(resp.Data, "state") != "revoked" {
		return false, resp, nil // e.g. "already expired" warning: not a reported revocation
	}
	return true, resp, nil
}

func (s *c16Sys) noteSuccess(c *c16Cert, resp *logical.Response, how string) {
	rtime, _ := resp.Data["revocation_time"].(int64)
	rfc := vxStr(resp.Data, "revocation_time_rfc3339")
	if c.revoked && rtime != c.revTime {
		s.violation("revoke-not-idempotent", "revoking %s again returned revocation_time %d, the first success returned %d", c.serial, rtime, c.revTime)
	}
	if c.revoked && rfc != c.revRFC {
		s.violation("revoke-not-idempotent", "revoking %s again returned revocation_time_rfc3339 %s, the first success returned %s", c.serial, rfc, c.revRFC)
	}
	if t, err := time.Parse(time.RFC3339Nano, rfc); err != nil || t.Unix() != rtime {
		s.violation("revoke-times-disagree", "revoke of %s returned revocation_time %d and revocation_time_rfc3339 %q (%v)", c.serial, rtime, rfc, err)
	}
	if !c.revoked {
		c.revoked, c.revTime, c.revRFC = true, rtime, rfc
		if s.absent[c.issuer] {
			s.nRevokedWhileAbsent++
		}
		if s.x.delta && s.autoRebuild {
			s.x.nRevokeUnderDelta++
		}
		if s.x.twin[c.issuer] != "" {
			s.x.nTwinRevoked++
		}
	}
	if how == "cert" {
		c.stored = true
	}
	if !s.autoRebuild && !s.disabled && s.canSignCRL(c.issuer) {
		c.must = true // "With CRL auto-rebuild off, the CRL served once the revoke call has returned already lists the serial."
	}
}

func (s *c16Sys) actRevoke(again bool) {
	c := s.pick("cert", func(c *c16Cert) bool { return c.revoked == again })
	byCert := c.noStore && !c.stored || rapid.Bool().Draw(s.rt, "byCertificate")
	ok, resp, err := s.revokeCall(c, byCert)
	s.logf("revoke %s (issuer %s) byCert=%v again=%v -> ok=%v err=%v", c.serial, c.issuer, byCert, again, ok, err)
	if err != nil {
		if n := s.serialIsIssuer(c); n != "" && again {
			// revokeCert refuses every serial number that an issuer of the mount has ("adding issuer to its own CRL is
			// not allowed"), also for another certificate whose revocation it accepted before that issuer arrived.
			// The certificate stays revoked (check() goes on demanding it everywhere): counted, not a violation.
			s.ext().nCrossRevokeAgainRefused++
			s.observe("revoke-again-refused-serial-of-later-issuer", "revoking %s (issuer %s) again is refused since issuer %s with the same serial number was imported: %v", c.serial, c.issuer, n, err)
			return
		}
		s.violation("revoke-failed-without-fault", "revoke of %s failed although no fault was injected: %v", c.serial, err)
		return
	}
	if ok {
		how := "serial"
		if byCert {
			how = "cert"
		}
		s.noteSuccess(c, resp, how)
	}
}

type c16Fault struct {
	Crash  bool   // fail every operation from the chosen one on, then restart
	K      int    // raw index of the failing operation (1-based) when Target == ""
	Target string // "kind prefix": the Nth operation of that kind whose key has that prefix
	N      int
}

func c16DrawFault(rt *rapid.T, targets []string, maxK int) c16Fault {
	f := c16Fault{Crash: rapid.IntRange(0, 3).Draw(rt, "crash") == 3}
	if rapid.Bool().Draw(rt, "targeted") {
		f.Target = rapid.SampledFrom(targets).Draw(rt, "faultTarget")
		f.N = rapid.IntRange(1, 3).Draw(rt, "faultNth")
	} else {
		f.K = rapid.IntRange(1, maxK).Draw(rt, "faultK")
	}
	return f
}

var c16RevokeTargets = []string{"put crls/", "put revoked/", "put crls/config", "get revoked/", "list revoked/", "get config/crl", "get crls/config", "list delta-wal/", "get certs/", "put certs/", "get config/issuer/", "get config/key/", "get config/issuers", "put delta-wal/", "put delta-wal/last"}

func (s *c16Sys) arm(f c16Fault) {
	s.fs.mu.Lock()
	s.fs.armed, s.fs.gid, s.fs.count, s.fs.fired, s.fs.log = true, verifx.GoID(), 0, false, nil
	s.fs.failAt, s.fs.target, s.fs.targetN, s.fs.seen, s.fs.crash = f.K, f.Target, f.N, 0, f.Crash
	s.fs.mu.Unlock()
}

func c16RecordWritten(ops []string, c *c16Cert) bool {
	key := "put revoked/" + strings.ReplaceAll(c.serial, ":", "-")
	for _, o := range ops {
		if o == key {
			return true
		}
		if strings.HasSuffix(o, " FAULT") {
			return false
		}
	}
	return false
}

func (s *c16Sys) restart(why string) {
	vxClose(s.b)
	b, err := vxBackend(s.fs, time.Hour, 24*time.Hour)
	if err != nil {
		s.violation("restart-failed", "re-initialising the backend on the same storage failed (%s): %v", why, err)
		s.rt.Fatalf("harness: cannot continue without a backend")
	}
	s.b = b
	s.nRestart++
	s.logf("restart (%s)", why)
}

func (s *c16Sys) actFaultRevoke() {
	c := s.pick("cert", func(c *c16Cert) bool { return !c.revoked && !c.attempted })
	byCert := c.noStore && !c.stored || rapid.IntRange(0, 3).Draw(s.rt, "byCertificate") == 0
	f := c16DrawFault(s.rt, c16RevokeTargets, 60)
	s.arm(f)
	ok, resp, err := s.revokeCall(c, byCert)
	ops, fired := s.fs.disarm()
	s.nFaultRevoke++
	written := c16RecordWritten(ops, c)
	s.logf("revoke %s (issuer %s) byCert=%v with fault %+v -> ok=%v err=%v fired=%v ops=%d record-written-before-fault=%v failed-op=%q", c.serial, c.issuer, byCert, f, ok, err, fired, len(ops), written, c16FailedOp(ops))
	if err != nil && !fired {
		s.violation("revoke-failed-without-fault", "revoke of %s failed although the fault did not fire: %v", c.serial, err)
		return
	}
	if fired {
		s.noteInterruptedRebuild(ops)
	}
	if fired && err != nil && written {
		c.faultAfterRecord = true
		s.nFaultAfterRecord++
	}
	if f.Crash && fired {
		s.nCrash++
		s.restart("crash during revoke")
	}
	if ok && byCert {
		c.stored = true
	}
	if err != nil || !ok {
		// retry the same revoke until it reports success
		for try := 1; ; try++ {
			ok, resp, err = s.revokeCall(c, byCert)
			s.logf("  retry %d -> ok=%v err=%v", try, ok, err)
			if err != nil {
				s.violation("revoke-retry-fails", "retry %d of revoking %s still fails without any fault: %v", try, c.serial, err)
				return
			}
			if ok {
				break
			}
			if try == 3 {
				return // e.g. expired meanwhile
			}
		}
	}
	how := "serial"
	if byCert {
		how = "cert"
	}
	s.noteSuccess(c, resp, how)
}

// noteInterruptedRebuild inspects the operations of a faulted call: a CRL stored, crls/config not yet stored.
func (s *c16Sys) noteInterruptedRebuild(ops []string) {
	crl := false
	for _, o := range ops {
		if strings.HasSuffix(o, " FAULT") {
			break
		}
		if o == "put crls/config" {
			crl = false
		} else if strings.HasPrefix(o, "put crls/") {
			crl = true
		}
	}
	if crl {
		s.nInterruptedRebuild++
		for _, n := range s.issuers {
			s.numberRisk[n] = s.step
			s.ext().deltaRisk[n] = s.step
		}
	}
}

func c16FailedOp(ops []string) string {
	for _, o := range ops {
		if strings.HasSuffix(o, " FAULT") {
			return o
		}
	}
	return ""
}

var c16RotateTargets = []string{"put crls/", "put crls/config", "get revoked/", "list revoked/", "get config/crl", "get crls/config", "list delta-wal/", "list config/issuer/", "get config/issuer/", "get config/key/", "get config/issuers"}

func (s *c16Sys) actRotate(withFault bool) {
	var f c16Fault
	if withFault {
		f = c16DrawFault(s.rt, c16RotateTargets, 40)
		s.arm(f)
	}
	_, err := s.read("crl/rotate")
	ops, fired := s.fs.disarm()
	s.nRotate++
	s.logf("crl/rotate fault=%v %+v -> err=%v fired=%v failed-op=%q", withFault, f, err, fired, c16FailedOp(ops))
	if err != nil && !fired {
		s.violation("rotate-failed-without-fault", "crl/rotate failed although no fault fired: %v", err)
		return
	}
	if fired {
		s.noteInterruptedRebuild(ops)
	}
	if withFault && f.Crash && fired {
		s.nCrash++
		s.restart("crash during crl/rotate")
	}
	for try := 1; err != nil; try++ {
		_, err = s.read("crl/rotate")
		s.logf("  retry %d -> err=%v", try, err)
		if err != nil && try == 3 {
			s.violation("rotate-retry-fails", "crl/rotate still fails on retry %d without any fault: %v", try, err)
			return
		}
	}
}

func (s *c16Sys) actTidy() {
	buf := rapid.SampledFrom([]string{"1s", "2s", "72h"}).Draw(s.rt, "safety_buffer")
	assoc := rapid.Bool().Draw(s.rt, "tidy_revoked_cert_issuer_associations")
	store := rapid.Bool().Draw(s.rt, "tidy_cert_store")
	_, err := s.write("tidy", map[string]any{"tidy_revoked_certs": true, "tidy_revoked_cert_issuer_associations": assoc, "tidy_cert_store": store, "safety_buffer": buf})
	if err != nil {
		s.violation("tidy-failed", "tidy request failed: %v", err)
		return
	}
	deadline := time.Now().Add(20 * time.Second)
	for s.b.tidyCASGuard.Load() {
		if time.Now().After(deadline) {
			s.rt.Fatalf("harness: tidy did not finish within 20 s")
		}
		time.Sleep(200 * time.Microsecond)
	}
	st, _ := s.read("tidy-status")
	state := ""
	if st != nil {
		state = vxStr(st.Data, "state")
	}
	s.nTidy++
	bufd, _ := time.ParseDuration(buf)
	s.noteTidy(true, bufd)
	s.logf("tidy safety_buffer=%s assoc=%v cert_store=%v -> %s", buf, assoc, store, state)
	if state == "Error" {
		s.violation("tidy-error", "tidy ended in state Error: %v", st.Data["error"])
	}
	// tidy_cert_store removes expired certificates from certs/: only certificates past notAfter + buffer, which
	// the model no longer looks at.
}

func (s *c16Sys) actDefault() {
	if len(s.present()) < 2 {
		s.rt.Skip("single issuer")
	}
	d := rapid.SampledFrom(s.present()).Draw(s.rt, "default")
	_, err := s.write("config/issuers", map[string]any{"default": d})
	s.logf("config/issuers default=%s -> err=%v", d, err)
	if err != nil {
		s.violation("config-issuers-failed", "setting the default issuer to %s failed: %v", d, err)
		return
	}
	s.def = d
}

// actDeleteIssuer removes an issuer entry (its key stays in the mount). At least one issuer stays; if the
// default is removed another present issuer is made the default.
func (s *c16Sys) actDeleteIssuer() {
	pr := s.present()
	if len(pr) < 2 {
		s.rt.Skip("would remove the last issuer")
	}
	s.deleteIssuer(rapid.SampledFrom(pr).Draw(s.rt, "issuerToDelete"))
}

func (s *c16Sys) deleteIssuer(x string) {
	_, err := vxReq(s.b, s.fs, logical.DeleteOperation, "issuer/"+x, nil)
	if err != nil {
		s.violation("issuer-delete-failed", "deleting issuer %s failed: %v", x, err)
		return
	}
	s.afterDelete(x)
}

// afterDelete: bookkeeping after DELETE issuer/x succeeded.
func (s *c16Sys) afterDelete(x string) {
	s.absent[x], s.deletedEver[x] = true, true
	delete(s.lastRaw, x)
	delete(s.lastNum, x)
	s.numberRisk[x] = 0
	s.forgetDelta(x)
	s.nIssuerDeleted++
	nrev := 0
	now := time.Now()
	for _, c := range s.certs {
		if c.issuer == x && c.revoked && c.alive(now) {
			nrev++
		}
	}
	s.nRevokedBeforeDelete += nrev
	s.logf("delete issuer %s (revoked unexpired certs of it: %d)", x, nrev)
	if s.def == x {
		d := s.present()[0]
		if _, err := s.write("config/issuers", map[string]any{"default": d}); err != nil {
			s.violation("config-issuers-failed", "setting the default issuer to %s failed: %v", d, err)
			return
		}
		s.def = d
		s.logf("  default was deleted -> default=%s", d)
	}
}

// actReimportIssuer imports the certificate of a deleted issuer again (the key is still in the mount): a
// new issuer id for the same certificate. From the first CRL built for it, every revocation of its
// certificates that was reported successful must be listed again.
func (s *c16Sys) actReimportIssuer() {
	var gone []string
	for _, n := range s.issuers {
		if s.absent[n] {
			gone = append(gone, n)
		}
	}
	if len(gone) == 0 {
		s.rt.Skip("no deleted issuer")
	}
	x := rapid.SampledFrom(gone).Draw(s.rt, "issuerToReimport")
	makeDefault := rapid.Bool().Draw(s.rt, "makeDefaultAgain")
	resp, err := s.write("issuers/import/bundle", map[string]any{"pem_bundle": vxCertPEM(s.issuerCert[x])})
	if err != nil {
		s.violation("issuer-import-failed", "importing the certificate of %s again failed: %v", x, err)
		return
	}
	s.afterImport(x, resp, makeDefault)
}

// afterImport: bookkeeping after issuers/import/bundle of the certificate of the deleted issuer x succeeded.
func (s *c16Sys) afterImport(x string, resp *logical.Response, makeDefault bool) {
	ids, _ := resp.Data["imported_issuers"].([]string)
	if len(ids) != 1 {
		s.rt.Fatalf("harness: re-import of %s: imported_issuers=%v existing=%v", x, resp.Data["imported_issuers"], resp.Data["existing_issuers"])
	}
	if _, err := s.write("issuer/"+ids[0], map[string]any{"issuer_name": x}); err != nil {
		s.rt.Fatalf("harness: naming re-imported issuer: %v", err)
	}
	r, err := s.read("issuer/" + x)
	if err != nil || r == nil || fmt.Sprint(r.Data["key_id"]) == "" || r.Data["key_id"] == nil {
		s.rt.Fatalf("harness: re-imported issuer %s has no key (err=%v)", x, err)
	}
	s.absent[x], s.fresh[x], s.reimportedAt[x] = false, true, s.step
	s.resetUsage(x) // a new issuer entry has every usage
	s.nIssuerReimported++
	now := time.Now()
	n := 0
	for _, c := range s.certs {
		if c.issuer == x && c.revoked && c.alive(now) {
			c.must = true // whatever CRL the re-imported issuer serves was built after the re-import
			n++
		}
	}
	s.logf("re-import issuer %s (new id; revoked unexpired certs of it: %d) makeDefault=%v", x, n, makeDefault)
	if makeDefault {
		if _, err := s.write("config/issuers", map[string]any{"default": x}); err != nil {
			s.violation("config-issuers-failed", "setting the default issuer to %s failed: %v", x, err)
			return
		}
		s.def = x
	}
}

// actConfigRefused sends a config/crl update that validation must refuse; a refused update changes nothing: the
// configuration read back is what it was, and revocations behave as before (the state machine's model is untouched).
func (s *c16Sys) actConfigRefused() {
	before, _ := s.read("config/crl")
	var data map[string]any
	switch rapid.IntRange(0, 3).Draw(s.rt, "refusedConfigKind") {
	case 0:
		data = map[string]any{"auto_rebuild": true, "auto_rebuild_grace_period": "5000h"} // not shorter than the expiry
	case 1:
		data = map[string]any{"auto_rebuild": !s.autoRebuild, "expiry": "not-a-duration"}
	case 2:
		if s.autoRebuild {
			data = map[string]any{"disable": !s.disabled, "ocsp_expiry": "-5h"}
		} else {
			data = map[string]any{"auto_rebuild": false, "enable_delta": true} // delta needs auto rebuild
		}
	default:
		data = map[string]any{"auto_rebuild": true, "enable_delta": true, "delta_rebuild_interval": "9000h"}
	}
	resp, err := s.write("config/crl", data)
	refused := err != nil || resp != nil && resp.IsError()
	s.logf("config/crl %v (invalid) -> refused=%v", data, refused)
	if !refused {
		s.violation("invalid-crl-config-accepted", "config/crl %v must be refused but was accepted", data)
		return
	}
	after, _ := s.read("config/crl")
	if before != nil && after != nil && fmt.Sprint(before.Data) != fmt.Sprint(after.Data) {
		s.violation("refused-crl-config-changed-configuration", "the refused config/crl update %v changed the configuration: before %v after %v", data, before.Data, after.Data)
	}
	s.rec.Class("refused-crl-config-update", 1)
}

func (s *c16Sys) actConfig() {
	data := map[string]any{}
	switch rapid.IntRange(0, 4).Draw(s.rt, "crlConfigKind") {
	case 0:
		v := !s.autoRebuild
		data["auto_rebuild"] = v
		if !v {
			data["enable_delta"] = false
		}
	case 1:
		data["disable"] = !s.disabled
	case 2:
		data["expiry"] = rapid.SampledFrom([]string{"24h", "72h", "1000h"}).Draw(s.rt, "expiry")
	case 3:
		if !s.autoRebuild {
			data["auto_rebuild"] = true
		}
		data["enable_delta"] = true
	default:
		data["auto_rebuild"] = s.autoRebuild // a write that changes nothing
	}
	_, err := s.write("config/crl", data)
	s.logf("config/crl %v -> err=%v", data, err)
	if err != nil {
		s.violation("config-crl-failed", "config/crl %v failed: %v", data, err)
		return
	}
	s.noteCRLConfig(data)
	if v, ok := data["disable"].(bool); ok {
		if s.disabled && !v {
			s.dropFrozenObligations()
		}
		s.disabled = v
	}
}

func (s *c16Sys) actPeriodic() {
	err := s.b.periodicFunc(s.rt.Context(), &logical.Request{Storage: s.fs})
	s.waitTidy() // auto-tidy, if configured and due
	s.afterPeriodic()
	s.logf("periodic tick -> err=%v", err)
	if err != nil {
		s.deltaFailure("periodic-failed", "periodic function failed without a fault: %v", err)
	}
}

func (s *c16Sys) classify() (class string, nontrivial bool) {
	revokedIssuers := map[string]bool{}
	nRev := 0
	for _, c := range s.certs {
		if c.revoked {
			nRev++
			revokedIssuers[c.issuer] = true
		}
	}
	nontrivial = nRev >= 2 && len(revokedIssuers) >= 2 || s.nFaultAfterRecord > 0
	class = fmt.Sprintf("issuers=%d", len(s.issuers))
	if nt, tags := s.extNontrivial(); nt {
		nontrivial = true
		s.rec.Class("nontrivial-by:"+tags, 1)
	}
	return
}

func c16Run(t *testing.T, rec *verifx.Recorder) {
	rapid.Check(t, func(rt *rapid.T) {
		nIss := rapid.SampledFrom([]int{2, 1, 3}).Draw(rt, "nIssuers")
		s := c16Setup(rt, rec, nIss, rapid.IntRange(0, 4).Draw(rt, "autoRebuildAtStart") == 4)
		defer s.close()
		if vxChance(rt, "twinIssuer", 30) {
			s.addTwin()
		}
		if vxChance(rt, "deltaAtStart", 30) {
			data := map[string]any{"auto_rebuild": true, "enable_delta": true}
			s.mustWrite("config/crl", "config/crl", data)
			s.noteCRLConfig(data)
			s.logf("config/crl %v", data)
		}
		// short-lived certificates and real waiting ("until it expires") only in a few cases: they cost seconds
		slow := vxChance(rt, "slowCase", verifx.Scale(4, 10))
		waits := 0
		defer func() {
			class, nt := s.classify()
			nRev := 0
			for _, c := range s.certs {
				if c.revoked {
					nRev++
				}
			}
			rec.Case(class, nt, verifx.Digest(strings.Join(c16Shape(s.history), "|")), func() any {
				return map[string]any{"issuers": s.issuers, "certs": len(s.certs), "revoked": nRev, "faulted_revokes": s.nFaultRevoke, "fault_after_record": s.nFaultAfterRecord,
					"crashes": s.nCrash, "restarts": s.nRestart, "history": c16Shape(s.history)}
			})
			rec.Class("steps", int64(s.step))
			rec.Class("certs-issued", int64(len(s.certs)))
			rec.Class("certs-revoked", int64(nRev))
			rec.Class("faulted-revoke-calls", int64(s.nFaultRevoke))
			rec.Class("fault-after-record", int64(s.nFaultAfterRecord))
			rec.Class("crash-restarts", int64(s.nCrash))
			rec.Class("rebuilds-interrupted-between-crl-and-counter", int64(s.nInterruptedRebuild))
			rec.Class("restarts", int64(s.nRestart))
			rec.Class("issuer-deleted", int64(s.nIssuerDeleted))
			rec.Class("issuer-reimported", int64(s.nIssuerReimported))
			rec.Class("revoked-before-delete", int64(s.nRevokedBeforeDelete))
			rec.Class("revoked-while-issuer-absent", int64(s.nRevokedWhileAbsent))
			rec.Class("rotates", int64(s.nRotate))
			rec.Class("tidies", int64(s.nTidy))
			if s.nFaultRevoke == 0 {
				rec.Class("cases-without-faulted-revoke", 1)
			}
			if slow {
				rec.Class("slow-cases", 1)
			}
			s.extClasses()
		}()
		step := func(f func()) func(*rapid.T) {
			return func(*rapid.T) { s.step++; f() }
		}
		actions := map[string]func(*rapid.T){
			"":                            func(*rapid.T) { s.check() },
			"a-issue":                     step(func() { s.issue("r") }),
			"a-issue2":                    step(func() { s.issue("r") }),
			"b-revoke":                    step(func() { s.actRevoke(false) }),
			"b-revoke2":                   step(func() { s.actRevoke(false) }),
			"c-revoke-fault":              step(s.actFaultRevoke),
			"c-revoke-fault2":             step(s.actFaultRevoke),
			"d-rotate":                    step(func() { s.actRotate(false) }),
			"e-issue-nostore":             step(func() { s.issue("ns") }),
			"f-revoke-again":              step(func() { s.actRevoke(true) }),
			"g-restart":                   step(func() { s.restart("requested") }),
			"h-rotate-fault":              step(func() { s.actRotate(true) }),
			"i-config-crl":                step(s.actConfig),
			"i-config-refused":            step(s.actConfigRefused),
			"j-tidy":                      step(s.actTidy),
			"k-default-issuer":            step(s.actDefault),
			"l-periodic":                  step(s.actPeriodic),
			"d-delete-issuer":             step(s.actDeleteIssuer),
			"d-reimport":                  step(s.actReimportIssuer),
			"d-reimport2":                 step(s.actReimportIssuer),
			"o-config-delta":              step(s.actConfigDelta),
			"o-rotate-delta":              step(func() { s.actRotateDelta(false) }),
			"o-rotate-delta-f":            step(func() { s.actRotateDelta(true) }),
			"o-periodic-delta":            step(s.actPeriodicElapsed),
			"p-revoke-key":                step(s.actRevokeWithKey),
			"p-revoke-foreign":            step(s.actRevokeForeign),
			"p-revoke-orphan":             step(s.actRevokeOrphan),
			"q-revoke-expired":            step(s.actRevokeExpired),
			"r-tidy-ext":                  step(s.actTidyExt),
			"r-auto-tidy":                 step(s.actAutoTidy),
			"s-issuer-usage":              step(s.actIssuerUsage),
			"s-issuer-usage2":             step(s.actIssuerUsage),
			"t-issue-lease":               step(func() { s.issue("lease") }),
			"t-lease-revoke":              step(s.actLeaseRevoke),
			"t-lease-revoke-then-restart": step(s.actLeaseRevokeRestart),
			"u-cross-revoke":              step(s.actCrossRevoke),
			"u-cross-import":              step(s.actCrossImport),
			"u-cross-import2":             step(s.actCrossImport),
			"u-cross-revoke-then-import":  step(s.actCrossRevokeImport),
			"m-issue-short": step(func() {
				if !slow {
					rt.Skip("not a slow case")
				}
				s.issue("short")
			}),
			"n-wait": step(func() {
				if !slow || waits >= 3 {
					rt.Skip("not a slow case")
				}
				waits++
				short := false
				for _, c := range s.certs {
					if c.short && time.Now().Before(c.cert.NotAfter.Add(3*time.Second)) {
						short = true
					}
				}
				if !short {
					s.rt.Skip("no short-lived certificate pending")
				}
				time.Sleep(1500 * time.Millisecond)
				s.logf("wait 1.5s")
			}),
		}
		rt.Repeat(actions)
	})
}

// c16Shape strips serial numbers and times from the history so that the digest identifies the shape of a case.
func c16Shape(h []string) []string {
	out := make([]string, 0, len(h))
	for _, l := range h {
		f := strings.Fields(l)
		var keep []string
		for _, w := range f {
			if strings.Count(w, ":") >= 5 || strings.Count(w, "-") >= 8 {
				w = "<serial>"
			}
			keep = append(keep, w)
		}
		out = append(out, verifx.Trunc(strings.Join(keep, " "), 160))
	}
	return out
}

func TestVerif_C16_History(t *testing.T) {
	rec := verifx.NewRecorder("C16", "history", "rapid state machine over one mount with 1-3 EC issuers: issue (stored / no_store / short-lived), revoke by serial or certificate, revoke again, crl/rotate, tidy, default-issuer change, config/crl (auto_rebuild, disable, expiry, delta, grace period, delta interval), periodic tick (also with the delta interval / auto-tidy interval elapsed), restart on the same storage, storage faults (one failing operation or crash-from-k + restart) inside revoke, crl/rotate and crl/rotate-delta followed by retries, revoke-with-key (own / other key), revoke of foreign, orphaned and already expired certificates, an optional second issuer with the key and subject of i0, tidy variants and auto-tidy, certificates issued through a role with generate_lease and revoked the way the expiration manager does (RevokeOperation carrying the secret; t-lease-revoke, and t-lease-revoke-then-restart = the backend is re-created on the same storage before any CRL is read), a root generated on another mount, cross-signed here with sign-self-issued (same serial number as the root) and revoked by presenting it (u-cross-revoke), that root imported later with its key as an additional issuer through issuers/import/bundle or config/ca (u-cross-import, u-cross-revoke-then-import), after which it issues, serves CRLs, can become default, be deleted and re-imported like any other issuer; after every action cert/<serial>, OCSP and every issuer's complete and delta CRL are compared with the model; non-trivial = >= 2 revoked serials on >= 2 issuers, or a fault between the revocation record and the CRL write, or a revocation carried by a delta CRL only, or a revoke-with-key, or a tidy while unexpired revoked certificates exist, or a revocation under twin issuers, or a lease revocation, or an issuer imported whose serial number is that of a revoked unexpired certificate")
	defer rec.Flush()
	c16Run(t, rec)
}

// TestVerif_C16_FaultAllK: for a generated small scenario, EVERY index k of the storage operations of one
// revoke call is failed once (fresh mount per k), the revoke is retried until it reports success, and the
// same oracle is applied; then the same with a crash at k followed by a restart.
func TestVerif_C16_FaultAllK(t *testing.T) {
	rec := verifx.NewRecorder("C16", "fault-all-k", "generated scenario (1-3 issuers, 0-3 earlier revocations, auto_rebuild off/on, delta CRLs off/on, revoke by serial/certificate); for every k = 1..(number of storage operations of the revoke): fresh mount, fail operation k (or crash from k and restart), retry the revoke until success, full oracle; non-trivial = the fault fell between the revocation record and the end of the CRL rebuild")
	defer rec.Flush()
	rapid.Check(t, func(rt *rapid.T) {
		nIss := rapid.SampledFrom([]int{2, 1, 3}).Draw(rt, "nIssuers")
		auto := rapid.IntRange(0, 3).Draw(rt, "autoRebuild") == 3
		delta := rapid.IntRange(0, 2).Draw(rt, "enableDelta") == 2
		auto = auto || delta // delta CRLs require auto_rebuild
		nPrev := rapid.IntRange(0, 3).Draw(rt, "earlierRevocations")
		prevIss := make([]int, nPrev)
		for i := range prevIss {
			prevIss[i] = rapid.IntRange(0, nIss-1).Draw(rt, "earlierIssuer")
		}
		target := rapid.IntRange(0, nIss-1).Draw(rt, "targetIssuer")
		byCert := rapid.Bool().Draw(rt, "byCertificate")
		noStore := byCert && rapid.Bool().Draw(rt, "noStore")
		crash := rapid.Bool().Draw(rt, "crash")
		for k := 1; k <= 200; k++ {
			fired := c16OneK(rt, rec, nIss, auto, delta, prevIss, target, byCert, noStore, crash, k)
			if !fired {
				break
			}
		}
	})
}

func c16OneK(rt *rapid.T, rec *verifx.Recorder, nIss int, auto, delta bool, prevIss []int, target int, byCert, noStore, crash bool, k int) bool {
	s := c16Setup(rt, rec, nIss, auto)
	defer s.close()
	if delta {
		data := map[string]any{"auto_rebuild": true, "enable_delta": true}
		s.mustWrite("config/crl", "config/crl", data)
		s.noteCRLConfig(data)
		s.logf("config/crl %v", data)
	}
	s.check()
	issueBy := func(iss int, role string) *c16Cert {
		resp := s.mustWrite("issue", fmt.Sprintf("issuer/i%d/issue/%s", iss, role), map[string]any{"common_name": fmt.Sprintf("c%d.example.com", len(s.certs))})
		c, err := vxParseCertPEM(vxStr(resp.Data, "certificate"))
		if err != nil {
			rt.Fatalf("harness: %v", err)
		}
		cc := &c16Cert{serial: vxStr(resp.Data, "serial_number"), cert: c, issuer: fmt.Sprintf("i%d", iss), noStore: role == "ns", stored: role != "ns"}
		s.certs = append(s.certs, cc)
		s.bySerial[c.SerialNumber.String()] = cc
		return cc
	}
	for _, pi := range prevIss {
		c := issueBy(pi, "r")
		ok, resp, err := s.revokeCall(c, false)
		if err != nil || !ok {
			rt.Fatalf("harness: preparatory revoke failed: %v", err)
		}
		s.noteSuccess(c, resp, "serial")
	}
	issueBy((target+1)%nIss, "r") // a bystander that is never revoked
	role := "r"
	if noStore {
		role = "ns"
	}
	c := issueBy(target, role)
	s.check()
	f := c16Fault{Crash: crash, K: k}
	s.step = k
	s.arm(f)
	ok, resp, err := s.revokeCall(c, byCert)
	ops, fired := s.fs.disarm()
	written := c16RecordWritten(ops, c)
	s.logf("revoke %s (issuer %s) byCert=%v noStore=%v fault %+v -> ok=%v err=%v fired=%v ops=%d record-written-before-fault=%v failed-op=%q", c.serial, c.issuer, byCert, noStore, f, ok, err, fired, len(ops), written, c16FailedOp(ops))
	if !fired {
		return false
	}
	s.noteInterruptedRebuild(ops)
	if err != nil && written {
		c.faultAfterRecord = true
	}
	if crash {
		s.restart("crash during revoke")
	}
	if ok && byCert {
		c.stored = true
	}
	for try := 1; err != nil || !ok; try++ {
		ok, resp, err = s.revokeCall(c, byCert)
		s.logf("  retry %d -> ok=%v err=%v", try, ok, err)
		if err != nil {
			s.violation("revoke-retry-fails", "retry %d of revoking %s still fails without any fault: %v", try, c.serial, err)
			break
		}
		if try == 3 {
			break
		}
	}
	if ok {
		how := "serial"
		if byCert {
			how = "cert"
		}
		s.noteSuccess(c, resp, how)
	}
	s.check()
	if delta {
		// a delta rebuild must carry whatever the complete CRL does not list yet
		s.step++
		s.actRotateDelta(false)
		s.check()
	}
	// a later complete rebuild must list everything
	s.step++
	s.actRotate(false)
	s.check()
	s.restart("final")
	s.check()
	op := c16FailedOp(ops)
	cls := "fault-before-record"
	if written {
		cls = "fault-after-record"
	}
	if delta {
		rec.Class("enable_delta", 1)
	}
	rec.Case(cls, written, verifx.Digest(nIss, auto, delta, len(prevIss), target, byCert, noStore, crash, k), func() any {
		return map[string]any{"issuers": nIss, "auto_rebuild": auto, "enable_delta": delta, "earlier_revocations": len(prevIss), "by_certificate": byCert, "no_store": noStore, "crash": crash, "k": k, "failed_op": op, "ops_in_call": len(ops), "history": c16Shape(s.history)}
	})
	fo := strings.Fields(op)
	if len(fo) >= 2 {
		key := fo[1]
		if i := strings.Index(key, "/"); i >= 0 {
			key = key[:i+1]
		}
		rec.Class("failed-op:"+fo[0]+" "+key, 1)
	}
	return true
}
