//go:build verif

package transit

// C17, unit "transit-api": the transit backend driven through logical.Request (the HTTP-like API) over
// in-memory storage. Same oracle as the keysutil unit: a model of the key ring (latest / minimum versions)
// and a table of every ciphertext, signature and HMAC the run produced.

import (
	"bytes"
	"context"
	"encoding/base64"
	"encoding/hex"
	"encoding/json"
	"errors"
	"fmt"
	"os"
	"sort"
	"strconv"
	"strings"
	"testing"

	"github.com/hashicorp/go-hclog"
	"github.com/openbao/openbao/sdk/v2/helper/keysutil"
	"github.com/openbao/openbao/sdk/v2/helper/verifx"
	"github.com/openbao/openbao/sdk/v2/logical"
	"pgregory.net/rapid"
)

const c17Key = "k"

var c17Ctx = context.Background()

type c17Kind struct {
	name      string
	enc       bool
	aead      bool
	sign      bool
	hashInput bool
	derive    bool
	rsaBits   int
	ecdsa     bool
}

var c17KindTable = map[string]c17Kind{
	"aes128-gcm96":       {name: "aes128-gcm96", enc: true, aead: true, derive: true},
	"aes256-gcm96":       {name: "aes256-gcm96", enc: true, aead: true, derive: true},
	"chacha20-poly1305":  {name: "chacha20-poly1305", enc: true, aead: true, derive: true},
	"xchacha20-poly1305": {name: "xchacha20-poly1305", enc: true, aead: true, derive: true},
	"ed25519":            {name: "ed25519", sign: true, derive: true},
	"ecdsa-p256":         {name: "ecdsa-p256", sign: true, hashInput: true, ecdsa: true},
	"ecdsa-p384":         {name: "ecdsa-p384", sign: true, hashInput: true, ecdsa: true},
	"ecdsa-p521":         {name: "ecdsa-p521", sign: true, hashInput: true, ecdsa: true},
	"rsa-2048":           {name: "rsa-2048", enc: true, sign: true, hashInput: true, rsaBits: 2048},
	"rsa-3072":           {name: "rsa-3072", enc: true, sign: true, hashInput: true, rsaBits: 3072},
	"hmac":               {name: "hmac"},
}

// rapid biases integer draws towards small values, so weighted choices use slot tables indexed by fair coin flips.
func c17Slots(slots int, pairs ...any) []string {
	var out []string
	for i := 0; i+1 < len(pairs); i += 2 {
		for n := 0; n < pairs[i+1].(int); n++ {
			out = append(out, pairs[i].(string))
		}
	}
	if len(out) > slots {
		panic(fmt.Sprintf("slot table overfull: %d > %d", len(out), slots))
	}
	for i := 0; len(out) < slots; i += 2 {
		out = append(out, pairs[i%len(pairs)].(string))
	}
	return out
}

func c17Slot(t *rapid.T, label string, table []string) string {
	n := 0
	for i := 0; 1<<uint(i) < len(table); i++ {
		if rapid.Bool().Draw(t, label) {
			n |= 1 << uint(i)
		}
	}
	return table[n]
}

var (
	c17KindsQuick = c17Slots(64, "aes256-gcm96", 9, "ed25519", 8, "chacha20-poly1305", 7, "ecdsa-p256", 6, "aes128-gcm96", 7, "xchacha20-poly1305", 7,
		"ecdsa-p384", 4, "hmac", 5, "ecdsa-p521", 4, "rsa-2048", 2)
	c17KindsThorough = c17Slots(128, "aes256-gcm96", 16, "ed25519", 15, "chacha20-poly1305", 14, "ecdsa-p256", 11, "aes128-gcm96", 14, "xchacha20-poly1305", 14,
		"ecdsa-p384", 8, "hmac", 10, "ecdsa-p521", 8, "rsa-2048", 7, "rsa-3072", 2)

	c17ActsEnc = c17Slots(32, "fault", 1, "fault-cycle", 1, "encrypt", 3, "encrypt-batch", 3, "decrypt", 3, "decrypt-batch", 4, "rewrap", 3, "rewrap-batch", 2, "rotate", 4, "config", 3, "trim", 1,
		"read", 1, "reload", 1, "hmac", 1, "hmac-verify", 1)
	c17ActsSign = c17Slots(32, "fault", 1, "fault-cycle", 1, "sign", 5, "verify", 5, "verify-mut", 5, "rotate", 4, "config", 4, "trim", 1, "read", 1, "reload", 1, "hmac", 2, "hmac-verify", 2)
	c17ActsBoth = c17Slots(32, "fault", 1, "fault-cycle", 1, "encrypt", 3, "encrypt-batch", 2, "decrypt", 2, "decrypt-batch", 3, "rewrap", 2, "rewrap-batch", 1, "sign", 3, "verify", 3, "verify-mut", 3,
		"rotate", 3, "config", 3, "trim", 1, "reload", 1)
	c17ActsHMAC = c17Slots(32, "fault", 1, "fault-cycle", 1, "hmac", 7, "hmac-verify", 9, "rotate", 5, "config", 5, "trim", 2, "read", 1, "reload", 1)
)

type c17Model struct {
	latest, minDec, minEnc, minAvail int
	deletionAllowed                  bool
}

type c17Entry struct {
	kind      string // ct, sig, hmac
	text      string
	ver       int
	ctx       []byte
	ad        []byte
	pt        []byte // plaintext / message
	hash      string
	marsh     string
	sigAlg    string
	salt      string
	rotAt     int
	cfgAt     int
	rewrapped bool
}

type c17API struct {
	rec        *verifx.Recorder
	b          *backend
	st         logical.Storage
	kind       c17Kind
	derived    bool
	convergent bool
	noCache    bool
	m          c17Model
	entries    []*c17Entry
	ctxPool    [][]byte
	adPool     [][]byte
	ptPool     [][]byte
	rotations  int
	cfgChanges int
	ntRot      bool
	ntCfg      bool
	ntMut      bool
	trace      []string

	inner     logical.Storage
	txn       bool // the mount's storage is transactional (no fault wrapper then: faults are the keysutil unit's subject)
	config    *logical.BackendConfig
	fs        *c17FaultStorage
	faultUsed bool
	faultTag  string
	dead      bool
}

type c17Stop struct{}

// c17FaultStorage passes everything through and fails one generated write while armed.
type c17FaultStorage struct {
	logical.Storage
	armed    bool
	mode     string // "kth", "policy", "archive"
	k        int
	writes   int
	fired    bool
	firedKey string
}

func (s *c17FaultStorage) hit(key string) bool {
	if !s.armed || s.fired {
		return false
	}
	s.writes++
	switch s.mode {
	case "kth":
		if s.writes != s.k {
			return false
		}
	case "policy":
		if !strings.HasPrefix(key, "policy/") {
			return false
		}
	case "archive":
		if !strings.HasPrefix(key, "archive/") {
			return false
		}
	}
	s.fired, s.firedKey = true, key
	return true
}

func (s *c17FaultStorage) Put(ctx context.Context, e *logical.StorageEntry) error {
	if s.hit(e.Key) {
		return errors.New("verif: injected storage write failure")
	}
	return s.Storage.Put(ctx, e)
}

func (s *c17FaultStorage) Delete(ctx context.Context, key string) error {
	if s.hit(key) {
		return errors.New("verif: injected storage delete failure")
	}
	return s.Storage.Delete(ctx, key)
}

func (a *c17API) guard(f func(*rapid.T)) func(*rapid.T) {
	return func(t *rapid.T) {
		if a.dead {
			return
		}
		defer func() {
			if r := recover(); r != nil {
				if _, ok := r.(c17Stop); ok {
					return
				}
				panic(r)
			}
		}()
		f(t)
	}
}

func b64(b []byte) string { return base64.StdEncoding.EncodeToString(b) }

func (a *c17API) step(format string, args ...any) {
	a.trace = append(a.trace, fmt.Sprintf(format, args...))
}

func (a *c17API) viol(t *rapid.T, sig string, format string, args ...any) {
	t.Helper()
	detail := map[string]any{
		"key_type": a.kind.name, "derived": a.derived, "convergent": a.convergent, "cache_disabled": a.noCache,
		"model": fmt.Sprintf("latest=%d minDec=%d minEnc=%d minAvail=%d", a.m.latest, a.m.minDec, a.m.minEnc, a.m.minAvail),
		"trace": append([]string(nil), a.trace...),
	}
	if a.faultTag != "" {
		// everything that goes wrong after an injected write failure is reported under one signature per
		// (operation, failed write); the underlying signature is kept in the message
		format = "(" + sig + ") " + format
		detail["underlying_signature"] = sig
		sig = a.faultTag
		for _, k := range strings.Split(os.Getenv("VERIF_C17_TOLERATE"), ",") {
			if k != "" && "after-fault:"+k == a.faultTag { // diagnostic knob, never set by the driver
				a.rec.Class("tolerated:"+a.faultTag, 1)
				a.dead = true
				panic(c17Stop{})
			}
		}
	}
	if !a.rec.Violation(t, sig, detail, "[%s derived=%v convergent=%v cache_disabled=%v] "+format+"; steps: %s",
		append(append([]any{a.kind.name, a.derived, a.convergent, a.noCache}, args...), strings.Join(a.trace, " | "))...) {
		a.dead = true
		panic(c17Stop{})
	}
}

// c17Res is a normalised response.
type c17Res struct {
	ok    bool
	err   string
	data  map[string]any
	batch []map[string]any
}

func (a *c17API) call(t *rapid.T, op logical.Operation, path string, data map[string]any) c17Res {
	t.Helper()
	var resp *logical.Response
	var err error
	if pn := verifx.Try(func() {
		resp, err = a.b.HandleRequest(c17Ctx, &logical.Request{Operation: op, Path: path, Storage: a.st, Data: data})
	}); pn != nil {
		a.viol(t, "request-panic", "%s %s panicked: %v", op, path, pn)
		return c17Res{}
	}
	r := c17Res{ok: err == nil}
	if err != nil {
		r.err = err.Error()
	}
	if resp == nil {
		return r
	}
	if resp.IsError() {
		r.ok = false
		if e, ok := resp.Data["error"].(string); ok {
			r.err = e
		}
	}
	r.data = resp.Data
	if raw, ok := resp.Data[logical.HTTPRawBody]; ok {
		// partial failure of a batch: the payload is a JSON body with a status code
		r.ok = false
		var body struct {
			Data map[string]any `json:"data"`
		}
		var bs []byte
		switch v := raw.(type) {
		case string:
			bs = []byte(v)
		case []byte:
			bs = v
		}
		if jerr := json.Unmarshal(bs, &body); jerr != nil {
			t.Fatalf("harness: cannot parse raw body %q: %v", bs, jerr)
		}
		r.data = body.Data
	}
	if br, ok := r.data["batch_results"]; ok && br != nil {
		bs, jerr := json.Marshal(br)
		if jerr != nil {
			t.Fatalf("harness: cannot marshal batch_results: %v", jerr)
		}
		if jerr := json.Unmarshal(bs, &r.batch); jerr != nil {
			t.Fatalf("harness: cannot parse batch_results %s: %v", bs, jerr)
		}
	}
	return r
}

func c17Str(m map[string]any, k string) string {
	s, _ := m[k].(string)
	return s
}

func c17Int(m map[string]any, k string) int {
	switch v := m[k].(type) {
	case int:
		return v
	case int64:
		return int(v)
	case float64:
		return int(v)
	case json.Number:
		n, _ := v.Int64()
		return int(n)
	}
	return -999
}

func c17Bytes(t *rapid.T, label string, min, max int) []byte {
	return rapid.SliceOfN(rapid.Byte(), min, max).Draw(t, label)
}

func c17Split(s string) (ver int, body string, ok bool) {
	if !strings.HasPrefix(s, "vault:v") {
		return 0, "", false
	}
	rest := strings.TrimPrefix(s, "vault:v")
	i := strings.IndexByte(rest, ':')
	if i < 0 {
		return 0, "", false
	}
	for _, ch := range rest[:i] {
		if ch < '0' || ch > '9' {
			return 0, "", false
		}
	}
	n, err := strconv.Atoi(rest[:i])
	if err != nil {
		return 0, "", false
	}
	return n, rest[i+1:], true
}

func (a *c17API) usable(ver int) bool { return ver >= a.m.minDec && ver <= a.m.latest }

func (a *c17API) noteUse(e *c17Entry) {
	if a.rotations-e.rotAt >= 2 {
		a.ntRot = true
	}
	if a.cfgChanges > e.cfgAt {
		a.ntCfg = true
	}
}

func (a *c17API) drawPlaintext(t *rapid.T) []byte {
	if a.kind.rsaBits > 0 {
		if rapid.Bool().Draw(t, "ptEmpty") && rapid.Bool().Draw(t, "ptEmpty2") {
			return []byte{}
		}
		return c17Bytes(t, "pt", 1, 48)
	}
	switch c17Slot(t, "ptClass", []string{"pool", "pool", "pool", "empty", "one", "fresh", "fresh", "big"}) {
	case "pool":
		return a.ptPool[rapid.IntRange(0, len(a.ptPool)-1).Draw(t, "ptIdx")]
	case "empty":
		return []byte{}
	case "one":
		return c17Bytes(t, "pt", 1, 1)
	case "big":
		if len(a.entries) < 10 && rapid.Bool().Draw(t, "reallyBig") {
			seed := c17Bytes(t, "ptSeed", 1, 16)
			return bytes.Repeat(seed, 65536/len(seed)+1)[:65536]
		}
	}
	return c17Bytes(t, "pt", 2, 80)
}

func (a *c17API) drawCtx(t *rapid.T) []byte {
	if !a.derived {
		return nil
	}
	return a.ctxPool[rapid.IntRange(0, len(a.ctxPool)-1).Draw(t, "ctxIdx")]
}

func (a *c17API) drawAD(t *rapid.T) []byte {
	if !a.kind.aead {
		return nil
	}
	if rapid.Bool().Draw(t, "noAD") {
		return nil
	}
	return a.adPool[rapid.IntRange(0, len(a.adPool)-1).Draw(t, "adIdx")]
}

// versionRefused says whether an explicit key_version must be refused for encrypt / sign / rewrap.
func (a *c17API) versionRefused(ver int) bool {
	m := a.m
	return ver < 0 || ver > m.latest || (ver != 0 && (ver < m.minEnc || ver < m.minDec))
}

func (a *c17API) wantVersion(ver int) int {
	if ver == 0 {
		return a.m.latest
	}
	return ver
}

func (a *c17API) pick(t *rapid.T, kind string) *c17Entry {
	var idx []int
	for i, e := range a.entries {
		if e.kind == kind {
			idx = append(idx, i)
		}
	}
	if len(idx) == 0 {
		return nil
	}
	i := rapid.IntRange(0, len(idx)-1).Draw(t, "entry")
	if rapid.Bool().Draw(t, "newestFirst") {
		i = len(idx) - 1 - i
	}
	return a.entries[idx[i]]
}

func (a *c17API) keep(e *c17Entry) {
	if len(a.entries) < 48 {
		a.entries = append(a.entries, e)
	}
}

// ---------------------------------------------------------------- key management

func (a *c17API) actRotate(t *rapid.T) {
	a.step("rotate(v%d)", a.m.latest+1)
	r := a.call(t, logical.UpdateOperation, "keys/"+c17Key+"/rotate", nil)
	if !r.ok {
		a.viol(t, "rotate-failed", "rotate failed: %s", r.err)
	}
	a.m.latest++
	a.rotations++
	if got := c17Int(r.data, "latest_version"); got != a.m.latest {
		a.viol(t, "rotate-wrong-version", "rotate reports latest_version=%d, expected %d", got, a.m.latest)
	}
}

func (a *c17API) actConfig(t *rapid.T) {
	m := a.m
	data := map[string]any{}
	nd, ne, del := m.minDec, m.minEnc, m.deletionAllowed
	reject := false
	what := c17Slot(t, "configWhat", []string{"dec", "dec", "enc", "enc", "both", "both", "both", "deletion"})
	drawV := func(label string) int {
		if rapid.Bool().Draw(t, label+"Wild") && rapid.Bool().Draw(t, label+"Wild2") {
			return rapid.SampledFrom([]int{-1, 0, m.latest + 1, m.latest + 3}).Draw(t, label+"Odd")
		}
		if label == "minEnc" && rapid.Bool().Draw(t, label+"Set") {
			return rapid.IntRange(m.minDec, m.latest).Draw(t, label+"AboveDec")
		}
		return rapid.IntRange(0, m.latest).Draw(t, label)
	}
	if what == "dec" || what == "both" {
		d := drawV("minDec")
		data["min_decryption_version"] = d
		switch {
		case d < 0:
			reject = true
		default:
			if d == 0 {
				d = 1
			}
			if d != m.minDec {
				if d > m.latest {
					reject = true
				}
				nd = d
			}
		}
	}
	if (what == "enc" || what == "both") && !reject {
		e := drawV("minEnc")
		data["min_encryption_version"] = e
		switch {
		case e < 0:
			reject = true
		case e != m.minEnc:
			if e > m.latest {
				reject = true
			}
			ne = e
		}
	} else if what == "enc" || what == "both" {
		data["min_encryption_version"] = drawV("minEnc")
	}
	if what == "deletion" {
		del = !del
		data["deletion_allowed"] = del
	}
	if !reject {
		if ne > 0 && ne < nd {
			reject = true
		}
		changed := nd != m.minDec || ne != m.minEnc || del != m.deletionAllowed
		if changed && (m.minAvail > nd || m.minAvail > ne) {
			reject = true
		}
	}
	a.step("config(%v reject=%v)", data, reject)
	r := a.call(t, logical.UpdateOperation, "keys/"+c17Key+"/config", data)
	if reject {
		a.rec.Class("config:rejected", 1)
		if r.ok {
			a.viol(t, "config-invalid-accepted", "config %v was accepted although latest=%d min_decryption_version=%d min_encryption_version=%d min_available_version=%d", data, m.latest, m.minDec, m.minEnc, m.minAvail)
		}
		return
	}
	a.rec.Class("config:accepted", 1)
	if !r.ok {
		a.viol(t, "config-valid-refused", "config %v was refused (latest=%d min_decryption_version=%d min_encryption_version=%d min_available_version=%d): %s", data, m.latest, m.minDec, m.minEnc, m.minAvail, r.err)
	}
	if nd != m.minDec || ne != m.minEnc {
		a.cfgChanges++
	}
	a.m.minDec, a.m.minEnc, a.m.deletionAllowed = nd, ne, del
}

func (a *c17API) actTrim(t *rapid.T) {
	m := a.m
	n := rapid.IntRange(-1, m.latest+1).Draw(t, "minAvail")
	if rapid.Bool().Draw(t, "trimValid") && m.minEnc > 0 {
		lo := m.minAvail
		if lo < 1 {
			lo = 1
		}
		hi := m.minDec
		if m.minEnc < hi {
			hi = m.minEnc
		}
		n = rapid.IntRange(lo, hi).Draw(t, "minAvailValid")
	}
	reject := n < m.minAvail || m.minEnc == 0 || n > m.minEnc || n > m.minDec || n <= 0
	a.step("trim(%d reject=%v)", n, reject)
	r := a.call(t, logical.UpdateOperation, "keys/"+c17Key+"/trim", map[string]any{"min_available_version": n})
	if reject {
		a.rec.Class("trim:rejected", 1)
		if r.ok {
			a.viol(t, "trim-invalid-accepted", "trim to %d was accepted although latest=%d min_decryption_version=%d min_encryption_version=%d min_available_version=%d", n, m.latest, m.minDec, m.minEnc, m.minAvail)
		}
		return
	}
	a.rec.Class("trim:accepted", 1)
	if !r.ok {
		a.viol(t, "trim-valid-refused", "trim to %d was refused (latest=%d min_decryption_version=%d min_encryption_version=%d min_available_version=%d): %s", n, m.latest, m.minDec, m.minEnc, m.minAvail, r.err)
	}
	a.m.minAvail = n
}

func (a *c17API) actReload(t *rapid.T) {
	if rapid.IntRange(0, 2).Draw(t, "remount") == 0 {
		// the mount is set up again on the same storage (restart, seal/unseal, leadership change): whatever was
		// acknowledged must be there
		a.step("remount()")
		b, err := Backend(c17Ctx, a.config)
		if err != nil || b == nil {
			t.Fatalf("harness: Backend: %v", err)
		}
		if err := b.Setup(c17Ctx, a.config); err != nil {
			t.Fatalf("harness: Setup: %v", err)
		}
		a.b.Cleanup(c17Ctx)
		a.b = b
		a.rec.Class("remount", 1)
		return
	}
	a.step("reload()")
	a.b.invalidate(c17Ctx, "policy/"+c17Key)
}

// checkRead reads the key through the API and compares it with the model; it runs after every step.
func (a *c17API) checkRead(t *rapid.T) {
	m := a.m
	r := a.call(t, logical.ReadOperation, "keys/"+c17Key, nil)
	if !r.ok || r.data == nil {
		a.viol(t, "key-unreadable", "reading the key failed: %s", r.err)
		return
	}
	got := c17Model{latest: c17Int(r.data, "latest_version"), minDec: c17Int(r.data, "min_decryption_version"), minEnc: c17Int(r.data, "min_encryption_version"),
		minAvail: c17Int(r.data, "min_available_version")}
	got.deletionAllowed, _ = r.data["deletion_allowed"].(bool)
	if got != m {
		a.viol(t, "key-state-diverges", "key read reports latest=%d minDec=%d minEnc=%d minAvail=%d deletion_allowed=%v, expected latest=%d minDec=%d minEnc=%d minAvail=%d deletion_allowed=%v",
			got.latest, got.minDec, got.minEnc, got.minAvail, got.deletionAllowed, m.latest, m.minDec, m.minEnc, m.minAvail, m.deletionAllowed)
	}
	var have []int
	switch ks := r.data["keys"].(type) {
	case map[string]int64:
		for k := range ks {
			v, _ := strconv.Atoi(k)
			have = append(have, v)
		}
	case map[string]map[string]any:
		for k := range ks {
			v, _ := strconv.Atoi(k)
			have = append(have, v)
		}
	default:
		return // hmac keys list nothing
	}
	sort.Ints(have)
	var want []int
	for v := m.minDec; v <= m.latest; v++ {
		want = append(want, v)
	}
	if fmt.Sprint(have) != fmt.Sprint(want) {
		a.viol(t, "key-versions-listed-wrong", "key read lists versions %v, expected %v (min_decryption_version..latest)", have, want)
	}
}

// ---------------------------------------------------------------- encrypt / decrypt / rewrap

type c17EncItem struct {
	pt, ctx, ad []byte
	ver         int
	badB64      bool
	adOnRSA     bool
}

func (a *c17API) drawEncItem(t *rapid.T, allowInvalid bool) c17EncItem {
	it := c17EncItem{pt: a.drawPlaintext(t), ctx: a.drawCtx(t), ad: a.drawAD(t)}
	if rapid.Bool().Draw(t, "explicitVersion") && rapid.Bool().Draw(t, "explicitVersion2") {
		it.ver = rapid.IntRange(-1, a.m.latest+1).Draw(t, "keyVersion")
		if rapid.Bool().Draw(t, "versionInRange") {
			it.ver = rapid.IntRange(1, a.m.latest).Draw(t, "keyVersionIn")
		}
	}
	if allowInvalid && rapid.Bool().Draw(t, "inv1") && rapid.Bool().Draw(t, "inv2") {
		if a.kind.rsaBits > 0 && rapid.Bool().Draw(t, "adOnRSA") {
			it.adOnRSA = true
			it.ad = []byte("aad")
		} else {
			it.badB64 = true
		}
	}
	return it
}

func (it c17EncItem) request() map[string]any {
	m := map[string]any{"plaintext": b64(it.pt)}
	if it.badB64 {
		m["plaintext"] = "!!" + b64(it.pt) + "*"
	}
	if it.ctx != nil {
		m["context"] = b64(it.ctx)
	}
	if it.ad != nil {
		m["associated_data"] = b64(it.ad)
	}
	if it.ver != 0 {
		m["key_version"] = it.ver
	}
	return m
}

func (it c17EncItem) String() string {
	return fmt.Sprintf("{ver=%d ctx=%x ad=%x pt=%s bad=%v/%v}", it.ver, it.ctx, it.ad, verifx.Trunc(hex.EncodeToString(it.pt), 16), it.badB64, it.adOnRSA)
}

// checkEncResult judges one encryption result (single response or batch item).
func (a *c17API) checkEncResult(t *rapid.T, where string, it c17EncItem, ct string, keyVersion int, errText string) {
	refused := it.badB64 || it.adOnRSA || a.versionRefused(it.ver)
	if refused {
		a.rec.Class("enc:refused", 1)
		if errText == "" && ct != "" {
			sig := "encrypt-invalid-accepted"
			if it.ver > 0 && it.ver < a.m.minEnc {
				sig = "encrypt-below-min-encryption-version"
			}
			a.viol(t, sig, "%s: item %v was encrypted (%s) although it must be refused (latest %d, min_encryption_version %d, min_decryption_version %d)", where, it, verifx.Trunc(ct, 40), a.m.latest, a.m.minEnc, a.m.minDec)
		}
		return
	}
	if errText != "" || ct == "" {
		a.viol(t, "encrypt-failed", "%s: valid item %v was refused: %q", where, it, errText)
		return
	}
	want := a.wantVersion(it.ver)
	gotVer, body, ok := c17Split(ct)
	if !ok {
		a.viol(t, "ciphertext-malformed", "%s: ciphertext %q has no vault:vN: prefix", where, verifx.Trunc(ct, 40))
	}
	if gotVer != want || keyVersion != want {
		sig := "encrypt-wrong-version"
		if gotVer < a.m.minEnc {
			sig = "encrypt-below-min-encryption-version"
		}
		a.viol(t, sig, "%s: item %v produced a version %d ciphertext (key_version field %d), expected version %d (min_encryption_version %d)", where, it, gotVer, keyVersion, want, a.m.minEnc)
	}
	if _, err := base64.StdEncoding.DecodeString(body); err != nil {
		a.viol(t, "ciphertext-malformed", "%s: ciphertext body is not base64: %v", where, err)
	}
	for _, x := range a.entries {
		if x.kind != "ct" {
			continue
		}
		same := x.ver == want && bytes.Equal(x.ctx, it.ctx) && bytes.Equal(x.ad, it.ad) && bytes.Equal(x.pt, it.pt)
		if a.convergent {
			if same && x.text != ct {
				a.viol(t, "convergent-not-deterministic", "%s: same version %d, context, associated data and plaintext gave two ciphertexts", where, want)
			}
			if !same && x.text == ct {
				a.viol(t, "convergent-collision", "%s: different inputs gave the same ciphertext %s", where, verifx.Trunc(ct, 40))
			}
			ns := 12
			if a.kind.name == "xchacha20-poly1305" {
				ns = 24
			}
			_, xbody, _ := c17Split(x.text)
			xraw, _ := base64.StdEncoding.DecodeString(xbody)
			raw, _ := base64.StdEncoding.DecodeString(body)
			if x.ver == want && !(bytes.Equal(x.ctx, it.ctx) && bytes.Equal(x.pt, it.pt)) && len(xraw) >= ns && len(raw) >= ns && bytes.Equal(xraw[:ns], raw[:ns]) {
				a.viol(t, "convergent-nonce-reuse", "%s: version %d: the same nonce %x was derived for different (context, plaintext): ctx %x/%x", where, want, raw[:ns], x.ctx, it.ctx)
			}
		} else if x.text == ct {
			a.viol(t, "ciphertext-repeated", "%s: randomised encryption returned a ciphertext seen before", where)
		}
	}
	a.rec.Class("enc:ok", 1)
	a.keep(&c17Entry{kind: "ct", text: ct, ver: want, ctx: it.ctx, ad: it.ad, pt: it.pt, rotAt: a.rotations, cfgAt: a.cfgChanges})
}

func (a *c17API) actEncrypt(t *rapid.T) {
	it := a.drawEncItem(t, true)
	a.step("encrypt%v", it)
	r := a.call(t, logical.UpdateOperation, "encrypt/"+c17Key, it.request())
	ct, kv, errText := "", 0, ""
	if r.ok {
		ct, kv = c17Str(r.data, "ciphertext"), c17Int(r.data, "key_version")
	} else {
		errText = r.err
		if errText == "" {
			errText = "request failed"
		}
	}
	a.checkEncResult(t, "encrypt", it, ct, kv, errText)
}

func (a *c17API) actEncryptBatch(t *rapid.T) {
	n := rapid.IntRange(2, 4).Draw(t, "batchSize")
	items := make([]c17EncItem, n)
	var in []any
	for i := range items {
		items[i] = a.drawEncItem(t, true)
		if a.derived {
			items[i].ctx = a.drawCtx(t)
		}
		req := items[i].request()
		req["reference"] = fmt.Sprintf("r%d", i)
		in = append(in, req)
	}
	a.step("encrypt-batch%v", items)
	r := a.call(t, logical.UpdateOperation, "encrypt/"+c17Key, map[string]any{"batch_input": in})
	if len(r.batch) != n {
		a.viol(t, "batch-results-missing", "encrypt batch of %d items returned %d results (ok=%v err=%q)", n, len(r.batch), r.ok, r.err)
		return
	}
	anyBad := false
	for i, res := range r.batch {
		if ref := c17Str(res, "reference"); ref != fmt.Sprintf("r%d", i) {
			a.viol(t, "batch-order", "encrypt batch result %d carries reference %q", i, ref)
		}
		if c17Str(res, "error") != "" {
			anyBad = true
		}
		a.checkEncResult(t, fmt.Sprintf("encrypt batch item %d", i), items[i], c17Str(res, "ciphertext"), c17Int(res, "key_version"), c17Str(res, "error"))
	}
	if anyBad {
		a.rec.Class("batch:mixed", 1)
	}
}

type c17DecItem struct {
	e        *c17Entry
	mk       string
	text     string
	ctx, ad  []byte
	mayEqual bool // may legitimately behave like the unmodified ciphertext
	sameAs   bool // must behave like the unmodified ciphertext
}

func (it c17RewrapItem) String() string { return fmt.Sprintf("{%v key_version=%d}", it.d, it.ver) }

func (it c17DecItem) String() string {
	return fmt.Sprintf("{%s of v%d -> %s ctx=%x ad=%x}", it.mk, it.e.ver, verifx.Trunc(it.text, 24), it.ctx, it.ad)
}

func (a *c17API) drawOtherVersion(t *rapid.T, v int) int {
	lo := a.m.minAvail
	if lo < 1 {
		lo = 1
	}
	var vs []int
	for w := lo; w <= a.m.latest; w++ {
		if w != v {
			vs = append(vs, w)
		}
	}
	if len(vs) == 0 {
		return 0
	}
	return vs[rapid.IntRange(0, len(vs)-1).Draw(t, "otherVersion")]
}

func (a *c17API) drawDecItem(t *rapid.T, e *c17Entry, forRewrap bool) c17DecItem {
	it := c17DecItem{e: e, mk: "none", text: e.text, ctx: e.ctx, ad: e.ad}
	if !rapid.Bool().Draw(t, "mutate") || (forRewrap && rapid.Bool().Draw(t, "mutateLess")) {
		return it
	}
	kinds := []string{"flipbit", "flipbit", "ver-other", "ver-other", "ver-missing", "ver-zero", "strip-prefix", "truncate"}
	if a.derived {
		kinds = append(kinds, "ctx-other", "ctx-other")
	}
	if a.kind.aead && !forRewrap {
		kinds = append(kinds, "ad-other", "ad-other")
	}
	it.mk = rapid.SampledFrom(kinds).Draw(t, "mutation")
	_, body, _ := c17Split(e.text)
	raw, _ := base64.StdEncoding.DecodeString(body)
	prefix := "vault:v" + strconv.Itoa(e.ver) + ":"
	switch it.mk {
	case "flipbit":
		i := rapid.IntRange(0, len(raw)-1).Draw(t, "byte")
		if rapid.Bool().Draw(t, "fromEnd") {
			i = len(raw) - 1 - i
		}
		nr := append([]byte(nil), raw...)
		nr[i] ^= 1 << uint(rapid.IntRange(0, 7).Draw(t, "bit"))
		it.text = prefix + b64(nr)
	case "truncate":
		it.text = prefix + b64(raw[:rapid.IntRange(0, len(raw)-1).Draw(t, "keep")])
	case "ver-other":
		w := a.drawOtherVersion(t, e.ver)
		if w == 0 {
			w = a.m.latest + 1
			it.mk = "ver-missing"
		}
		it.text = "vault:v" + strconv.Itoa(w) + ":" + body
	case "ver-missing":
		it.text = "vault:v" + rapid.SampledFrom([]string{strconv.Itoa(a.m.latest + 1), strconv.Itoa(a.m.latest + 9), "-1", "", "x"}).Draw(t, "missingVersion") + ":" + body
	case "ver-zero":
		it.text = "vault:v0:" + body // documented compatibility: version 0 means version 1
		if e.ver == 1 {
			it.mayEqual, it.sameAs = true, true
		}
	case "strip-prefix":
		it.text = rapid.SampledFrom([]string{body, "vault:" + body, "v" + strconv.Itoa(e.ver) + ":" + body, "bao:v" + strconv.Itoa(e.ver) + ":" + body}).Draw(t, "stripped")
	case "ctx-other":
		for _, x := range a.ctxPool {
			if !bytes.Equal(x, e.ctx) {
				it.ctx = x
			}
		}
		if rapid.Bool().Draw(t, "ctxFresh") || bytes.Equal(it.ctx, e.ctx) {
			it.ctx = append(append([]byte(nil), e.ctx...), byte(rapid.IntRange(0, 255).Draw(t, "ctxByte")))
		}
	case "ad-other":
		switch {
		case e.ad == nil:
			it.ad = c17Bytes(t, "newAD", 1, 8)
		case rapid.Bool().Draw(t, "dropAD"):
			it.ad = nil
		default:
			it.ad = append(append([]byte(nil), e.ad...), 0x01)
		}
	}
	a.ntMut = true
	a.rec.Class("mut:"+it.mk, 1)
	return it
}

func (it c17DecItem) request() map[string]any {
	m := map[string]any{"ciphertext": it.text}
	if it.ctx != nil {
		m["context"] = b64(it.ctx)
	}
	if it.ad != nil {
		m["associated_data"] = b64(it.ad)
	}
	return m
}

// checkDecResult judges one decryption result (single response or batch item).
func (a *c17API) checkDecResult(t *rapid.T, where string, it c17DecItem, ptB64 string, errText string) {
	e := it.e
	ok := a.usable(e.ver)
	a.noteUse(e)
	if errText == "" {
		if ptB64 != b64(e.pt) {
			a.viol(t, "decrypt-wrong-plaintext", "%s: %v decrypted to %s, the plaintext was %s", where, it, verifx.Trunc(ptB64, 40), verifx.Trunc(b64(e.pt), 40))
		}
		if it.mk != "none" && !it.mayEqual {
			a.viol(t, "mutation-accepted:"+it.mk, "%s: %v was accepted", where, it)
		}
		if !ok {
			sig := "decrypt-unusable-version-accepted"
			if e.ver < a.m.minDec {
				sig = "decrypt-below-min-decryption-version"
			}
			a.viol(t, sig, "%s: a version %d ciphertext was decrypted although latest=%d min_decryption_version=%d min_available_version=%d", where, e.ver, a.m.latest, a.m.minDec, a.m.minAvail)
		}
		a.rec.Class("dec:ok", 1)
		return
	}
	if ok && (it.mk == "none" || it.sameAs) {
		a.viol(t, "decrypt-refused-valid", "%s: a version %d ciphertext (latest %d, min_decryption_version %d, made %d rotations ago) is refused with the original context/associated data: %s",
			where, e.ver, a.m.latest, a.m.minDec, a.rotations-e.rotAt, errText)
	}
	if !ok && it.mk == "none" {
		a.rec.Class("dec:refused-too-old", 1)
	} else {
		a.rec.Class("dec:refused", 1)
	}
}

func (a *c17API) actDecrypt(t *rapid.T) {
	e := a.pick(t, "ct")
	it := a.drawDecItem(t, e, false)
	a.step("decrypt%v", it)
	r := a.call(t, logical.UpdateOperation, "decrypt/"+c17Key, it.request())
	pt, errText := "", ""
	if r.ok {
		pt = c17Str(r.data, "plaintext")
	} else {
		errText = r.err
		if errText == "" {
			errText = "request failed"
		}
	}
	a.checkDecResult(t, "decrypt", it, pt, errText)
}

func (a *c17API) actDecryptBatch(t *rapid.T) {
	n := rapid.IntRange(2, 4).Draw(t, "batchSize")
	items := make([]c17DecItem, n)
	var in []any
	for i := range items {
		items[i] = a.drawDecItem(t, a.pick(t, "ct"), false)
		req := items[i].request()
		req["reference"] = fmt.Sprintf("r%d", i)
		in = append(in, req)
	}
	a.step("decrypt-batch%v", items)
	r := a.call(t, logical.UpdateOperation, "decrypt/"+c17Key, map[string]any{"batch_input": in})
	if len(r.batch) != n {
		a.viol(t, "batch-results-missing", "decrypt batch of %d items returned %d results (ok=%v err=%q)", n, len(r.batch), r.ok, r.err)
		return
	}
	good, bad := 0, 0
	for i, res := range r.batch {
		if ref := c17Str(res, "reference"); ref != fmt.Sprintf("r%d", i) {
			a.viol(t, "batch-order", "decrypt batch result %d carries reference %q", i, ref)
		}
		if c17Str(res, "error") != "" {
			bad++
		} else {
			good++
		}
		a.checkDecResult(t, fmt.Sprintf("decrypt batch item %d", i), items[i], c17Str(res, "plaintext"), c17Str(res, "error"))
	}
	if good > 0 && bad > 0 {
		a.rec.Class("batch:mixed", 1)
	}
}

type c17RewrapItem struct {
	d   c17DecItem
	ver int
}

func (a *c17API) drawRewrapItem(t *rapid.T) c17RewrapItem {
	e := a.pick(t, "ct")
	if e.ad != nil {
		// rewrap cannot pass associated data: mostly choose a source that does not need it
		for _, x := range a.entries {
			if x.kind == "ct" && x.ad == nil && rapid.Bool().Draw(t, "preferNoAD") {
				e = x
				break
			}
		}
	}
	it := c17RewrapItem{d: a.drawDecItem(t, e, true)}
	if rapid.Bool().Draw(t, "explicitVersion") && rapid.Bool().Draw(t, "explicitVersion2") {
		it.ver = rapid.IntRange(-1, a.m.latest+1).Draw(t, "keyVersion")
	}
	return it
}

func (it c17RewrapItem) request() map[string]any {
	m := map[string]any{"ciphertext": it.d.text}
	if it.d.ctx != nil {
		m["context"] = b64(it.d.ctx)
	}
	if it.ver != 0 {
		m["key_version"] = it.ver
	}
	return m
}

// checkRewrapResult judges one rewrap result and, when it succeeded, decrypts the new ciphertext through the API.
func (a *c17API) checkRewrapResult(t *rapid.T, where string, it c17RewrapItem, ct string, keyVersion int, errText string) {
	e := it.d.e
	a.noteUse(e)
	// the source must decrypt without associated data (rewrap has no such parameter) and the target version must be allowed
	srcOK := a.usable(e.ver) && e.ad == nil && (it.d.mk == "none" || it.d.sameAs)
	expectOK := srcOK && !a.versionRefused(it.ver)
	if errText != "" || ct == "" {
		if expectOK {
			a.viol(t, "rewrap-refused-valid", "%s: rewrap of a usable version %d ciphertext (latest %d, min_decryption_version %d, key_version %d) failed: %q", where, e.ver, a.m.latest, a.m.minDec, it.ver, errText)
		}
		a.rec.Class("rewrap:refused", 1)
		return
	}
	if !expectOK {
		sig := "rewrap-invalid-accepted"
		switch {
		case e.ver < a.m.minDec:
			sig = "rewrap-below-min-decryption-version"
		case it.ver > 0 && it.ver < a.m.minEnc:
			sig = "rewrap-below-min-encryption-version"
		case it.d.mk != "none":
			sig = "mutation-accepted:" + it.d.mk
		}
		a.viol(t, sig, "%s: rewrap of %v (associated data %x) with key_version=%d succeeded (%s) although it must be refused (latest %d, min_decryption_version %d, min_encryption_version %d)", where, it.d, e.ad, it.ver, verifx.Trunc(ct, 40), a.m.latest, a.m.minDec, a.m.minEnc)
	}
	want := a.wantVersion(it.ver)
	gotVer, _, ok := c17Split(ct)
	if !ok || gotVer != want || keyVersion != want {
		sig := "rewrap-wrong-version"
		if it.ver == 0 {
			sig = "rewrap-not-latest"
		}
		a.viol(t, sig, "%s: rewrap (key_version=%d) returned a version %d ciphertext (key_version field %d), expected %d (latest %d)", where, it.ver, gotVer, keyVersion, want, a.m.latest)
	}
	// the new ciphertext must decrypt to the original plaintext
	req := map[string]any{"ciphertext": ct}
	if e.ctx != nil {
		req["context"] = b64(e.ctx)
	}
	r := a.call(t, logical.UpdateOperation, "decrypt/"+c17Key, req)
	if !r.ok {
		a.viol(t, "rewrap-result-undecryptable", "%s: the rewrapped ciphertext (version %d) cannot be decrypted: %s", where, gotVer, r.err)
	}
	if got := c17Str(r.data, "plaintext"); got != b64(e.pt) {
		a.viol(t, "decrypt-wrong-plaintext", "%s: the rewrapped ciphertext decrypts to %s, the plaintext was %s", where, verifx.Trunc(got, 40), verifx.Trunc(b64(e.pt), 40))
	}
	a.rec.Class("rewrap:ok", 1)
	a.keep(&c17Entry{kind: "ct", text: ct, ver: want, ctx: e.ctx, pt: e.pt, rotAt: a.rotations, cfgAt: a.cfgChanges, rewrapped: true})
}

func (a *c17API) actRewrap(t *rapid.T) {
	it := a.drawRewrapItem(t)
	a.step("rewrap%v", it)
	r := a.call(t, logical.UpdateOperation, "rewrap/"+c17Key, it.request())
	ct, kv, errText := "", 0, ""
	if r.ok {
		ct, kv = c17Str(r.data, "ciphertext"), c17Int(r.data, "key_version")
	} else {
		errText = r.err
		if errText == "" {
			errText = "request failed"
		}
	}
	a.checkRewrapResult(t, "rewrap", it, ct, kv, errText)
}

func (a *c17API) actRewrapBatch(t *rapid.T) {
	n := rapid.IntRange(2, 4).Draw(t, "batchSize")
	items := make([]c17RewrapItem, n)
	var in []any
	for i := range items {
		items[i] = a.drawRewrapItem(t)
		req := items[i].request()
		req["reference"] = fmt.Sprintf("r%d", i)
		in = append(in, req)
	}
	a.step("rewrap-batch%v", items)
	r := a.call(t, logical.UpdateOperation, "rewrap/"+c17Key, map[string]any{"batch_input": in})
	if len(r.batch) == 0 && !r.ok {
		// rewrap aborts the whole batch when an item fails with a non-user error (e.g. a corrupted RSA ciphertext):
		// tolerated here as long as some item really had to fail; nothing was rewrapped, so nothing else to check
		for _, it := range items {
			e := it.d.e
			a.noteUse(e)
			if !(a.usable(e.ver) && e.ad == nil && (it.d.mk == "none" || it.d.sameAs)) || a.versionRefused(it.ver) {
				a.rec.Class("batch:aborted", 1)
				return
			}
		}
		a.viol(t, "rewrap-refused-valid", "rewrap batch of %d valid items failed as a whole: %q", n, r.err)
		return
	}
	if len(r.batch) != n {
		a.viol(t, "batch-results-missing", "rewrap batch of %d items returned %d results (ok=%v err=%q)", n, len(r.batch), r.ok, r.err)
		return
	}
	good, bad := 0, 0
	for i, res := range r.batch {
		if ref := c17Str(res, "reference"); ref != fmt.Sprintf("r%d", i) {
			a.viol(t, "batch-order", "rewrap batch result %d carries reference %q", i, ref)
		}
		if c17Str(res, "error") != "" {
			bad++
		} else {
			good++
		}
		a.checkRewrapResult(t, fmt.Sprintf("rewrap batch item %d", i), items[i], c17Str(res, "ciphertext"), c17Int(res, "key_version"), c17Str(res, "error"))
	}
	if good > 0 && bad > 0 {
		a.rec.Class("batch:mixed", 1)
	}
}

// ---------------------------------------------------------------- sign / verify

var c17HashNames = []string{"sha2-256", "sha2-384", "sha2-512", "sha2-224", "sha1", "sha3-256", "sha3-384", "sha3-512", "sha3-224"}

func c17Digest(name string, msg []byte) []byte {
	hf := keysutil.HashFuncMap[keysutil.HashTypeMap[name]]()
	hf.Write(msg)
	return hf.Sum(nil)
}

func (a *c17API) drawHashName(t *rapid.T, label string, not string) string {
	names := c17HashNames
	if a.kind.rsaBits > 0 {
		names = c17HashNames[:5]
	}
	var cand []string
	for _, n := range names {
		if n != not {
			cand = append(cand, n)
		}
	}
	return cand[rapid.IntRange(0, len(cand)-1).Draw(t, label)]
}

func (a *c17API) drawMsg(t *rapid.T) []byte {
	if rapid.Bool().Draw(t, "msgPool") {
		return a.ptPool[rapid.IntRange(0, len(a.ptPool)-1).Draw(t, "msgIdx")]
	}
	return c17Bytes(t, "msg", 0, 64)
}

// signRequest builds the sign/verify parameters for message msg; with prehashed the digest is computed here.
func (a *c17API) sigParams(msg []byte, ctx []byte, hash, marsh, sigAlg, salt string, prehashed bool) map[string]any {
	m := map[string]any{"hash_algorithm": hash, "marshaling_algorithm": marsh}
	in := msg
	if prehashed {
		m["prehashed"] = true
		if a.kind.hashInput {
			in = c17Digest(hash, msg)
		}
	}
	m["input"] = b64(in)
	if ctx != nil {
		m["context"] = b64(ctx)
	}
	if sigAlg != "" {
		m["signature_algorithm"] = sigAlg
	}
	if salt != "" {
		m["salt_length"] = salt
	}
	return m
}

func (a *c17API) actSign(t *rapid.T) {
	m := a.m
	ver := 0
	if rapid.Bool().Draw(t, "explicitVersion") {
		ver = rapid.IntRange(-1, m.latest+1).Draw(t, "keyVersion")
	}
	ctx, msg := a.drawCtx(t), a.drawMsg(t)
	hash := a.drawHashName(t, "hash", "")
	marsh := "asn1"
	if rapid.Bool().Draw(t, "jws") && rapid.Bool().Draw(t, "jws2") {
		marsh = "jws"
	}
	sigAlg, salt := "", ""
	if a.kind.rsaBits > 0 {
		sigAlg = rapid.SampledFrom([]string{"pss", "pkcs1v15", ""}).Draw(t, "sigAlg")
		salt = rapid.SampledFrom([]string{"", "auto", "hash"}).Draw(t, "salt")
	}
	prehashed := rapid.Bool().Draw(t, "prehashed")
	req := a.sigParams(msg, ctx, hash, marsh, sigAlg, salt, prehashed)
	if ver != 0 {
		req["key_version"] = ver
	}
	a.step("sign(ver=%d hash=%s marsh=%s alg=%q salt=%q prehashed=%v ctx=%x msg=%x)", ver, hash, marsh, sigAlg, salt, prehashed, ctx, msg)
	r := a.call(t, logical.UpdateOperation, "sign/"+c17Key, req)
	if a.versionRefused(ver) {
		a.rec.Class("sign:refused-version", 1)
		if r.ok {
			sig := "sign-version-not-refused"
			if ver > 0 && ver < m.minEnc {
				sig = "sign-below-min-encryption-version"
			}
			a.viol(t, sig, "signing with key_version=%d succeeded (latest %d, min_encryption_version %d, min_decryption_version %d)", ver, m.latest, m.minEnc, m.minDec)
		}
		return
	}
	if !r.ok {
		a.viol(t, "sign-failed", "signing with valid parameters failed: %s", r.err)
	}
	want := a.wantVersion(ver)
	sig := c17Str(r.data, "signature")
	if gotVer, _, ok := c17Split(sig); !ok || gotVer != want || c17Int(r.data, "key_version") != want {
		a.viol(t, "sign-wrong-version", "signature %q / key_version %d do not carry version %d", verifx.Trunc(sig, 40), c17Int(r.data, "key_version"), want)
	}
	if sigAlg == "" {
		sigAlg = "pss"
	}
	if salt == "" {
		salt = "auto"
	}
	a.rec.Class("sign:ok", 1)
	a.keep(&c17Entry{kind: "sig", text: sig, ver: want, ctx: ctx, pt: msg, hash: hash, marsh: marsh, sigAlg: sigAlg, salt: salt, rotAt: a.rotations, cfgAt: a.cfgChanges})
}

func c17SigDecode(marsh, body string) ([]byte, error) {
	if marsh == "jws" {
		return base64.RawURLEncoding.DecodeString(body)
	}
	return base64.StdEncoding.DecodeString(body)
}

func c17SigEncode(marsh string, raw []byte) string {
	if marsh == "jws" {
		return base64.RawURLEncoding.EncodeToString(raw)
	}
	return base64.StdEncoding.EncodeToString(raw)
}

func (a *c17API) actVerify(t *rapid.T, mutate bool) {
	e := a.pick(t, "sig")
	_, body, _ := c17Split(e.text)
	raw, _ := c17SigDecode(e.marsh, body)
	text, ctx, msg, hash, marsh, sigAlg, salt := e.text, e.ctx, e.pt, e.hash, e.marsh, e.sigAlg, e.salt
	usable := a.usable(e.ver)
	expect := usable
	mk := "none"
	prehashed := rapid.Bool().Draw(t, "prehashed") // equivalent ways of presenting the same message
	if mutate {
		kinds := []string{"msg", "msg", "flipbit", "flipbit", "ver-other", "ver-missing", "strip-prefix", "hash", "marsh"}
		if a.kind.rsaBits > 0 {
			kinds = append(kinds, "sigalg", "sigalg", "salt", "salt")
		}
		if a.derived {
			kinds = append(kinds, "ctx-other", "ctx-other")
		}
		mk = rapid.SampledFrom(kinds).Draw(t, "mutation")
		prefix := "vault:v" + strconv.Itoa(e.ver) + ":"
		expect = false
		switch mk {
		case "msg":
			if rapid.Bool().Draw(t, "msgAppend") || len(msg) == 0 {
				msg = append(append([]byte(nil), msg...), byte(rapid.IntRange(0, 255).Draw(t, "msgByte")))
			} else {
				msg = append([]byte(nil), msg...)
				msg[rapid.IntRange(0, len(msg)-1).Draw(t, "msgPos")] ^= 1 << uint(rapid.IntRange(0, 7).Draw(t, "msgBit"))
			}
		case "flipbit":
			nr := append([]byte(nil), raw...)
			pos := rapid.IntRange(0, len(nr)-1).Draw(t, "byte")
			if rapid.Bool().Draw(t, "fromEnd") {
				pos = len(nr) - 1 - pos
			}
			nr[pos] ^= 1 << uint(rapid.IntRange(0, 7).Draw(t, "bit"))
			text = prefix + c17SigEncode(e.marsh, nr)
		case "ver-other":
			w := a.drawOtherVersion(t, e.ver)
			if w == 0 {
				w = a.m.latest + 1
				mk = "ver-missing"
			}
			text = "vault:v" + strconv.Itoa(w) + ":" + body
		case "ver-missing":
			text = "vault:v" + rapid.SampledFrom([]string{strconv.Itoa(a.m.latest + 1), "0", "-1", "", "x"}).Draw(t, "missingVersion") + ":" + body
		case "strip-prefix":
			text = rapid.SampledFrom([]string{body, "vault:" + body, "v" + strconv.Itoa(e.ver) + ":" + body}).Draw(t, "stripped")
		case "hash":
			hash = a.drawHashName(t, "otherHash", e.hash)
			if !a.kind.hashInput {
				expect = usable // not used by this key type
			}
		case "marsh":
			marsh = "jws"
			if e.marsh == "jws" {
				marsh = "asn1"
			}
			if !a.kind.ecdsa {
				if dec, err := c17SigDecode(marsh, body); err == nil && bytes.Equal(dec, raw) {
					expect = usable
				}
			}
		case "sigalg":
			if sigAlg == "pss" {
				sigAlg = "pkcs1v15"
			} else {
				sigAlg = "pss"
			}
		case "salt":
			switch {
			case e.sigAlg != "pss":
				sigAlg, mk = "pss", "sigalg"
			case salt == "auto":
				salt = "hash"
			default:
				salt = "auto" // auto-detection accepts any salt length
				expect = usable
			}
		case "ctx-other":
			for _, x := range a.ctxPool {
				if !bytes.Equal(x, e.ctx) {
					ctx = x
				}
			}
			if rapid.Bool().Draw(t, "ctxFresh") || bytes.Equal(ctx, e.ctx) {
				ctx = append(append([]byte(nil), e.ctx...), byte(rapid.IntRange(0, 255).Draw(t, "ctxByte")))
			}
		}
		a.ntMut = true
		a.rec.Class("vmut:"+mk, 1)
	}
	a.noteUse(e)
	req := a.sigParams(msg, ctx, hash, marsh, sigAlg, salt, prehashed)
	req["signature"] = text
	a.step("verify(%s on v%d usable=%v expect=%v prehashed=%v)", mk, e.ver, usable, expect, prehashed)
	r := a.call(t, logical.UpdateOperation, "verify/"+c17Key, req)
	valid, _ := r.data["valid"].(bool)
	valid = valid && r.ok
	switch {
	case expect && !valid:
		a.viol(t, "verify-rejects-valid", "a version %d signature (latest %d, min_decryption_version %d, made %d rotations ago, variation %s, prehashed=%v) is rejected: %q", e.ver, a.m.latest, a.m.minDec, a.rotations-e.rotAt, mk, prehashed, r.err)
	case !expect && valid:
		sig := "verify-accepts-invalid:" + mk
		if mk == "none" && e.ver < a.m.minDec {
			sig = "verify-below-min-decryption-version"
		}
		a.viol(t, sig, "verification accepted a signature it must not accept (variation %s, version %d, latest %d, min_decryption_version %d)", mk, e.ver, a.m.latest, a.m.minDec)
	}
	if expect {
		a.rec.Class("verify:true", 1)
	} else {
		a.rec.Class("verify:false", 1)
	}
}

// ---------------------------------------------------------------- HMAC

func (a *c17API) actHMAC(t *rapid.T) {
	m := a.m
	ver := 0
	if rapid.Bool().Draw(t, "explicitVersion") {
		ver = rapid.IntRange(-1, m.latest+1).Draw(t, "keyVersion")
	}
	msg := a.drawMsg(t)
	alg := c17HashNames[rapid.IntRange(0, 3).Draw(t, "alg")]
	req := map[string]any{"input": b64(msg), "algorithm": alg}
	if ver != 0 {
		req["key_version"] = ver
	}
	a.step("hmac(ver=%d alg=%s msg=%x)", ver, alg, msg)
	r := a.call(t, logical.UpdateOperation, "hmac/"+c17Key, req)
	if a.versionRefused(ver) {
		a.rec.Class("hmac:refused-version", 1)
		if r.ok {
			sig := "hmac-version-not-refused"
			if ver > 0 && ver < m.minEnc {
				sig = "hmac-below-min-encryption-version"
			}
			a.viol(t, sig, "HMAC with key_version=%d succeeded (latest %d, min_encryption_version %d, min_decryption_version %d)", ver, m.latest, m.minEnc, m.minDec)
		}
		return
	}
	if !r.ok {
		a.viol(t, "hmac-failed", "HMAC with valid parameters failed: %s", r.err)
	}
	want := a.wantVersion(ver)
	h := c17Str(r.data, "hmac")
	if gotVer, _, ok := c17Split(h); !ok || gotVer != want {
		a.viol(t, "hmac-wrong-version", "HMAC %q does not carry version %d", verifx.Trunc(h, 40), want)
	}
	for _, x := range a.entries {
		if x.kind != "hmac" {
			continue
		}
		same := x.ver == want && x.hash == alg && bytes.Equal(x.pt, msg)
		if same && x.text != h {
			a.viol(t, "hmac-not-deterministic", "the HMAC of the same input under version %d changed during the run: %s / %s", want, x.text, h)
		}
		if !same && x.text == h {
			a.viol(t, "hmac-collision", "different (version, algorithm, input) gave the same HMAC %s", h)
		}
	}
	a.rec.Class("hmac:ok", 1)
	a.keep(&c17Entry{kind: "hmac", text: h, ver: want, pt: msg, hash: alg, rotAt: a.rotations, cfgAt: a.cfgChanges})
}

func (a *c17API) actHMACVerify(t *rapid.T) {
	e := a.pick(t, "hmac")
	_, body, _ := c17Split(e.text)
	raw, _ := base64.StdEncoding.DecodeString(body)
	text, msg, alg := e.text, e.pt, e.hash
	usable := a.usable(e.ver)
	expect := usable
	mk := "none"
	if rapid.Bool().Draw(t, "mutate") {
		mk = rapid.SampledFrom([]string{"msg", "msg", "flipbit", "flipbit", "ver-other", "ver-missing", "alg", "truncate"}).Draw(t, "mutation")
		expect = false
		prefix := "vault:v" + strconv.Itoa(e.ver) + ":"
		switch mk {
		case "msg":
			msg = append(append([]byte(nil), msg...), byte(rapid.IntRange(0, 255).Draw(t, "msgByte")))
		case "flipbit":
			nr := append([]byte(nil), raw...)
			nr[rapid.IntRange(0, len(nr)-1).Draw(t, "byte")] ^= 1 << uint(rapid.IntRange(0, 7).Draw(t, "bit"))
			text = prefix + b64(nr)
		case "truncate":
			text = prefix + b64(raw[:rapid.IntRange(0, len(raw)-1).Draw(t, "keep")])
		case "ver-other":
			w := a.drawOtherVersion(t, e.ver)
			if w == 0 {
				w = a.m.latest + 1
				mk = "ver-missing"
			}
			text = "vault:v" + strconv.Itoa(w) + ":" + body
		case "ver-missing":
			text = "vault:v" + rapid.SampledFrom([]string{strconv.Itoa(a.m.latest + 1), "0", "-1", "x"}).Draw(t, "missingVersion") + ":" + body
		case "alg":
			for _, n := range c17HashNames[:4] {
				if n != e.hash {
					alg = n
				}
			}
		}
		a.ntMut = true
		a.rec.Class("hmut:"+mk, 1)
	}
	a.noteUse(e)
	a.step("hmac-verify(%s on v%d usable=%v expect=%v)", mk, e.ver, usable, expect)
	r := a.call(t, logical.UpdateOperation, "verify/"+c17Key, map[string]any{"input": b64(msg), "hmac": text, "hash_algorithm": alg})
	valid, _ := r.data["valid"].(bool)
	valid = valid && r.ok
	switch {
	case expect && !valid:
		a.viol(t, "hmac-verify-rejects-valid", "a version %d HMAC (latest %d, min_decryption_version %d, made %d rotations ago) is rejected: %q", e.ver, a.m.latest, a.m.minDec, a.rotations-e.rotAt, r.err)
	case !expect && valid:
		sig := "hmac-verify-accepts-invalid:" + mk
		if mk == "none" && e.ver < a.m.minDec {
			sig = "hmac-verify-below-min-decryption-version"
		}
		a.viol(t, sig, "HMAC verification accepted what it must not accept (variation %s, version %d, latest %d, min_decryption_version %d)", mk, e.ver, a.m.latest, a.m.minDec)
	}
	if expect {
		a.rec.Class("hmac-verify:true", 1)
	} else {
		a.rec.Class("hmac-verify:false", 1)
	}
}

// ---------------------------------------------------------------- storage faults

// faulted sends one valid mutating request with one generated write failure armed and then finds out from
// storage whether the key ring is unchanged or fully changed (next is the model the request aims at).
func (a *c17API) faulted(t *rapid.T, op, mode string, k int, path string, data map[string]any, next c17Model) {
	a.faultUsed = true
	*a.fs = c17FaultStorage{Storage: a.inner, armed: true, mode: mode, k: k}
	a.step("fault(%s %v,%s,k=%d)", op, data, mode, k)
	r := a.call(t, logical.UpdateOperation, path, data)
	a.fs.armed = false
	a.rec.Class("fault:op:"+op, 1)
	commit := func() {
		if next.latest != a.m.latest {
			a.rotations++
		}
		if next.minDec != a.m.minDec || next.minEnc != a.m.minEnc {
			a.cfgChanges++
		}
		a.m = next
	}
	if !a.fs.fired {
		a.rec.Class("fault:not-reached", 1)
		if !r.ok {
			a.viol(t, op+"-failed", "%s failed although no write failed: %s", op, r.err)
		}
		commit()
		return
	}
	target := "policy"
	if strings.HasPrefix(a.fs.firedKey, "archive/") {
		target = "archive"
	}
	a.faultTag = "after-fault:" + op + "-" + target
	a.rec.Class("fault:fired:"+op+"-"+target, 1)
	a.step("fault-fired(%s write %d, ok=%v)", a.fs.firedKey, a.fs.writes, r.ok)
	stored, err := keysutil.LoadPolicy(c17Ctx, a.inner, "policy/"+c17Key)
	if err != nil || stored == nil {
		a.viol(t, "policy-unloadable", "after the failed %s the stored policy cannot be loaded: %v", op, err)
		return
	}
	obs := c17Model{latest: stored.LatestVersion, minDec: stored.MinDecryptionVersion, minEnc: stored.MinEncryptionVersion, minAvail: stored.MinAvailableVersion, deletionAllowed: stored.DeletionAllowed}
	switch obs {
	case a.m:
		a.rec.Class("fault:rolled-back", 1)
		if r.ok {
			a.viol(t, "success-not-persisted", "%s reported success although its write failed and storage is unchanged", op)
		}
	case next:
		a.rec.Class("fault:applied-despite-error", 1)
		commit()
	default:
		a.viol(t, "partial-state", "after the failed %s the stored policy (latest=%d minDec=%d minEnc=%d minAvail=%d) is neither the old nor the intended key ring", op, obs.latest, obs.minDec, obs.minEnc, obs.minAvail)
	}
}

func (a *c17API) drawFault(t *rapid.T, table []string) (string, int) {
	mode := c17Slot(t, "faultMode", table)
	k := 0
	if mode == "kth" {
		k = rapid.IntRange(1, 4).Draw(t, "faultK")
	}
	return mode, k
}

func (a *c17API) rotateCapped() bool { return a.kind.rsaBits > 0 && a.m.latest >= 4 }

func (a *c17API) actFault(t *rapid.T) {
	if a.txn {
		a.actConfig(t)
		return
	}
	m := a.m
	op := c17Slot(t, "faultOp", []string{"rotate", "rotate", "config", "config", "trim", "trim", "config", "rotate"})
	if op == "trim" && m.minEnc == 0 {
		op = "config"
	}
	if op == "rotate" && a.rotateCapped() {
		op = "config"
	}
	mode, k := a.drawFault(t, []string{"kth", "kth", "kth", "kth", "policy", "policy", "archive", "archive"})
	lo := m.minAvail
	if lo < 1 {
		lo = 1
	}
	next := m
	switch op {
	case "rotate":
		next.latest++
		a.faulted(t, op, mode, k, "keys/"+c17Key+"/rotate", nil, next)
	case "config":
		next.minDec = rapid.IntRange(lo, m.latest).Draw(t, "minDec")
		next.minEnc = rapid.IntRange(next.minDec, m.latest).Draw(t, "minEnc")
		a.faulted(t, op, mode, k, "keys/"+c17Key+"/config", map[string]any{"min_decryption_version": next.minDec, "min_encryption_version": next.minEnc}, next)
	case "trim":
		hi := m.minDec
		if m.minEnc < hi {
			hi = m.minEnc
		}
		next.minAvail = rapid.IntRange(lo, hi).Draw(t, "minAvail")
		a.faulted(t, op, mode, k, "keys/"+c17Key+"/trim", map[string]any{"min_available_version": next.minAvail}, next)
	}
}

func (a *c17API) mustConfig(t *rapid.T, dec, enc int) {
	a.step("config(minDec=%d,minEnc=%d)", dec, enc)
	if r := a.call(t, logical.UpdateOperation, "keys/"+c17Key+"/config", map[string]any{"min_decryption_version": dec, "min_encryption_version": enc}); !r.ok {
		a.viol(t, "config-valid-refused", "config min_decryption_version=%d min_encryption_version=%d was refused (latest %d, min_available_version %d): %s", dec, enc, a.m.latest, a.m.minAvail, r.err)
	}
	if dec != a.m.minDec || enc != a.m.minEnc {
		a.cfgChanges++
	}
	a.m.minDec, a.m.minEnc = dec, enc
}

// actFaultCycle: rotation hit by a write failure, retry, material under the new version, one more rotation,
// min_decryption_version raised above that version and lowered again, reload, then the material must still work.
func (a *c17API) actFaultCycle(t *rapid.T) {
	if a.txn || a.rotateCapped() {
		a.actConfig(t)
		return
	}
	mode, k := a.drawFault(t, []string{"policy", "policy", "policy", "policy", "kth", "kth", "archive", "policy"})
	before := a.m.latest
	next := a.m
	next.latest++
	a.faulted(t, "rotate", mode, k, "keys/"+c17Key+"/rotate", nil, next)
	if a.m.latest == before {
		a.actRotate(t)
	}
	n1 := a.m.latest
	oldDec, oldEnc := a.m.minDec, a.m.minEnc
	first := len(a.entries)
	if a.kind.enc {
		it := c17EncItem{pt: a.drawPlaintext(t), ctx: a.drawCtx(t), ad: a.drawAD(t)}
		a.step("encrypt%v", it)
		r := a.call(t, logical.UpdateOperation, "encrypt/"+c17Key, it.request())
		errText := r.err
		if !r.ok && errText == "" {
			errText = "request failed"
		}
		a.checkEncResult(t, "encrypt", it, c17Str(r.data, "ciphertext"), c17Int(r.data, "key_version"), errText)
	}
	{
		msg := a.drawMsg(t)
		a.step("hmac(latest msg=%x)", msg)
		r := a.call(t, logical.UpdateOperation, "hmac/"+c17Key, map[string]any{"input": b64(msg), "algorithm": "sha2-256"})
		if !r.ok {
			a.viol(t, "hmac-failed", "HMAC with valid parameters failed: %s", r.err)
		}
		a.entries = append(a.entries, &c17Entry{kind: "hmac", text: c17Str(r.data, "hmac"), ver: n1, pt: msg, hash: "sha2-256", rotAt: a.rotations, cfgAt: a.cfgChanges})
	}
	a.actRotate(t)
	raisedEnc := oldEnc
	if raisedEnc != 0 && raisedEnc < n1+1 {
		raisedEnc = n1 + 1
	}
	a.mustConfig(t, n1+1, raisedEnc)
	a.mustConfig(t, oldDec, oldEnc)
	a.actReload(t)
	for _, e := range a.entries[first:] {
		if e.ver != n1 {
			continue
		}
		switch e.kind {
		case "ct":
			it := c17DecItem{e: e, mk: "none", text: e.text, ctx: e.ctx, ad: e.ad}
			a.step("decrypt%v", it)
			r := a.call(t, logical.UpdateOperation, "decrypt/"+c17Key, it.request())
			errText := r.err
			if !r.ok && errText == "" {
				errText = "request failed"
			}
			a.checkDecResult(t, "decrypt", it, c17Str(r.data, "plaintext"), errText)
		case "hmac":
			a.step("hmac-verify(none on v%d)", e.ver)
			r := a.call(t, logical.UpdateOperation, "verify/"+c17Key, map[string]any{"input": b64(e.pt), "hmac": e.text, "hash_algorithm": e.hash})
			if valid, _ := r.data["valid"].(bool); !valid || !r.ok {
				a.viol(t, "hmac-verify-rejects-valid", "a version %d HMAC (latest %d, min_decryption_version %d) is rejected: %q", e.ver, a.m.latest, a.m.minDec, r.err)
			}
		}
	}
	a.rec.Class("fault:cycle-completed", 1)
	if a.fs.fired {
		a.rec.Class("fault:cycle-completed-after-fired-fault", 1)
	}
}

// ---------------------------------------------------------------- dispatcher and test

func (a *c17API) stepAction(t *rapid.T) {
	table := c17ActsHMAC
	switch {
	case a.kind.enc && a.kind.sign:
		table = c17ActsBoth
	case a.kind.enc:
		table = c17ActsEnc
	case a.kind.sign:
		table = c17ActsSign
	}
	name := c17Slot(t, "do", table)
	has := func(kind string) bool {
		for _, e := range a.entries {
			if e.kind == kind {
				return true
			}
		}
		return false
	}
	switch name {
	case "fault", "fault-cycle":
		if a.faultUsed {
			name = "rotate"
			if a.rotateCapped() {
				name = "config"
			}
		}
	case "decrypt", "decrypt-batch", "rewrap", "rewrap-batch":
		if !has("ct") {
			name = "encrypt-batch"
		}
	case "verify", "verify-mut":
		if !has("sig") {
			name = "sign"
		}
	case "hmac-verify":
		if !has("hmac") {
			name = "hmac"
		}
	case "rotate":
		if a.kind.rsaBits > 0 && a.m.latest >= 4 {
			name = "config"
		}
	}
	switch name {
	case "fault":
		a.actFault(t)
	case "fault-cycle":
		a.actFaultCycle(t)
	case "encrypt":
		a.actEncrypt(t)
	case "encrypt-batch":
		a.actEncryptBatch(t)
	case "decrypt":
		a.actDecrypt(t)
	case "decrypt-batch":
		a.actDecryptBatch(t)
	case "rewrap":
		a.actRewrap(t)
	case "rewrap-batch":
		a.actRewrapBatch(t)
	case "sign":
		a.actSign(t)
	case "verify":
		a.actVerify(t, false)
	case "verify-mut":
		a.actVerify(t, true)
	case "hmac":
		a.actHMAC(t)
	case "hmac-verify":
		a.actHMACVerify(t)
	case "rotate":
		a.actRotate(t)
	case "config":
		a.actConfig(t)
	case "trim":
		a.actTrim(t)
	case "read":
		a.step("read()")
	case "reload":
		a.actReload(t)
	default:
		t.Fatalf("harness: unknown action %q", name)
	}
}

func TestVerif_C17_API(t *testing.T) {
	rec := verifx.NewRecorder("C17", "transit-api", "rapid state machine (t.Repeat) through the transit backend's request API on in-memory storage: key type (AES128/256-GCM96, ChaCha20/XChaCha20-Poly1305, ED25519, ECDSA P-256/384/521, HMAC, RSA-2048 rarely; RSA-3072 thorough only) x derived/convergent/neither x policy cache on/off; requests: create, rotate, config (valid and invalid min versions, deletion_allowed), trim (valid and invalid), reload, encrypt / decrypt / rewrap single and batch_input with mixed valid, invalid and mutated items, sign/verify (hash, marshaling, prehashed, pss/pkcs1v15, salt), hmac/verify; key read compared with the model after every step; non-trivial = a decrypt/rewrap/verify of material produced >= 2 rotations earlier, or after a min-version change, or of a mutated input")
	defer rec.Flush()
	kinds := c17KindsQuick
	if verifx.Thorough() {
		kinds = c17KindsThorough
	}
	rapid.Check(t, func(rt *rapid.T) {
		a := &c17API{rec: rec}
		a.kind = c17KindTable[c17Slot(rt, "keyType", kinds)]
		mode := "plain"
		switch {
		case a.kind.aead:
			mode = c17Slot(rt, "mode", []string{"plain", "derived", "convergent", "convergent"})
		case a.kind.derive:
			mode = c17Slot(rt, "mode", []string{"plain", "derived"})
		}
		a.derived = mode != "plain"
		a.convergent = mode == "convergent"
		a.noCache = rapid.Bool().Draw(rt, "cacheDisabled")
		nctx := rapid.IntRange(2, 3).Draw(rt, "nctx")
		for i := 0; i < nctx; i++ {
			a.ctxPool = append(a.ctxPool, c17Bytes(rt, "ctx", 1, 12))
		}
		for i := 1; i < len(a.ctxPool); i++ {
			for j := 0; j < i; j++ {
				if bytes.Equal(a.ctxPool[i], a.ctxPool[j]) {
					a.ctxPool[i] = append(append([]byte(nil), a.ctxPool[i]...), byte(i))
				}
			}
		}
		a.adPool = [][]byte{c17Bytes(rt, "ad", 1, 12), c17Bytes(rt, "ad", 1, 40)}
		a.ptPool = [][]byte{c17Bytes(rt, "pt", 1, 24), c17Bytes(rt, "pt", 1, 24), c17Bytes(rt, "pt", 0, 40)}

		config := logical.TestBackendConfig()
		config.Logger = hclog.NewNullLogger()
		a.inner = &logical.InmemStorage{}
		a.fs = &c17FaultStorage{Storage: a.inner}
		a.st = a.fs
		a.txn = rapid.IntRange(0, 2).Draw(rt, "transactionalStorage") == 0
		if a.txn {
			// what the server hands a mount on raft and on every other transactional backend
			a.inner = logical.NewLogicalStorage(verifx.NewInmem(true))
			a.st = a.inner
			a.rec.Class("transactional-storage", 1)
		}
		config.StorageView = a.inner
		a.config = config
		if a.noCache {
			sv := logical.TestSystemView()
			sv.CachingDisabledVal = true
			config.System = sv
		}
		b, err := Backend(c17Ctx, config)
		if err != nil || b == nil {
			rt.Fatalf("harness: Backend: %v", err)
		}
		if err := b.Setup(c17Ctx, config); err != nil {
			rt.Fatalf("harness: Setup: %v", err)
		}
		defer func() { a.b.Cleanup(c17Ctx) }()
		a.b = b

		create := map[string]any{"type": a.kind.name, "derived": a.derived, "convergent_encryption": a.convergent}
		if a.kind.name == "hmac" {
			create["key_size"] = rapid.SampledFrom([]int{32, 33, 64, 512}).Draw(rt, "keySize")
		}
		a.step("create(%s,%s,cache_disabled=%v)", a.kind.name, mode, a.noCache)
		if r := a.call(rt, logical.UpdateOperation, "keys/"+c17Key, create); !r.ok {
			a.viol(rt, "create-failed", "creating the key failed: %s", r.err)
			return
		}
		a.m = c17Model{latest: 1, minDec: 1}

		rt.Repeat(map[string]func(*rapid.T){"": a.guard(a.checkRead), "step": a.guard(a.stepAction)})
		if a.dead {
			rec.Class("known-finding-case", 1)
			return
		}

		if a.ntRot {
			rec.Class("nt:two-rotations-earlier", 1)
		}
		if a.ntCfg {
			rec.Class("nt:after-min-version-change", 1)
		}
		if a.ntMut {
			rec.Class("nt:mutated-input", 1)
		}
		rec.Class(fmt.Sprintf("rotations:%d", min(a.rotations, 6)), 1)
		rec.Class("steps", int64(len(a.trace)-1))
		for _, s := range a.trace[1:] {
			name := s
			if i := strings.IndexAny(s, "({["); i > 0 {
				name = s[:i]
			}
			rec.Class("act:"+name, 1)
		}
		rec.Case(a.kind.name+"/"+mode, a.ntRot || a.ntCfg || a.ntMut, verifx.Digest(strings.Join(a.trace, "|")), func() any {
			tr := a.trace
			if len(tr) > 40 {
				tr = tr[:40]
			}
			return map[string]any{"key_type": a.kind.name, "mode": mode, "cache_disabled": a.noCache, "rotations": a.rotations, "min_version_changes": a.cfgChanges,
				"table_rows": len(a.entries), "steps": tr}
		})
	})
}
