//go:build verif

package raft

// C09, large snapshot: a replica initialised from a snapshot of a store large enough to be written in several bolt
// transactions holds byte for byte what the replica that applied the log holds.

import (
	"bytes"
	"crypto/sha256"
	"fmt"
	"os"
	"testing"

	log "github.com/hashicorp/go-hclog"
	"github.com/hashicorp/raft"
	"github.com/openbao/openbao/sdk/v2/helper/verifx"
	bolt "go.etcd.io/bbolt"
	"google.golang.org/protobuf/proto"
	"pgregory.net/rapid"
)

func c09DataDigest(f *FSM) (n int, sum string, first string, err error) {
	h := sha256.New()
	err = f.db.View(func(tx *bolt.Tx) error {
		cu := tx.Bucket(dataBucketName).Cursor()
		for k, v := cu.First(); k != nil; k, v = cu.Next() {
			n++
			h.Write(k)
			h.Write([]byte{0})
			h.Write(v)
			h.Write([]byte{0})
		}
		return nil
	})
	return n, fmt.Sprintf("%x", h.Sum(nil)), first, err
}

func TestVerif_C09_SnapshotLarge(t *testing.T) {
	rec := verifx.NewRecorder("C09", "snapshot-large", "an FSM applies a log of N puts (N generated around the snapshot writer's batch size of 50000 entries: 49990..50040, sometimes 100010; values 8-40 bytes, a few of 70 KiB), a second FSM is initialised from its snapshot through the real snapshot store (Create / write / Close / Open / Restore), then both apply the same short tail of puts and deletes; oracle: number of keys and a digest of all keys and values are identical on both, and equal to the model (every put key present); non-trivial = every case")
	defer rec.Flush()
	rapid.Check(t, func(rt *rapid.T) {
		n := rapid.SampledFrom([]int{49990, 49999, 50000, 50001, 50002, 50040, 100010}).Draw(rt, "entries")
		dirA, err := os.MkdirTemp("", "verif-c09-big-a")
		if err != nil {
			rt.Fatalf("harness: %v", err)
		}
		defer os.RemoveAll(dirA)
		dirB, err := os.MkdirTemp("", "verif-c09-big-b")
		if err != nil {
			rt.Fatalf("harness: %v", err)
		}
		defer os.RemoveAll(dirB)
		a, err := NewFSM(dirA, "a", log.NewNullLogger())
		if err != nil {
			rt.Fatalf("harness: %v", err)
		}
		defer a.Close()
		b, err := NewFSM(dirB, "b", log.NewNullLogger())
		if err != nil {
			rt.Fatalf("harness: %v", err)
		}
		defer b.Close()
		big := rapid.IntRange(0, n-1).Draw(rt, "bigValueAt")
		idx := uint64(0)
		mk := func(op uint32, key string, val []byte) *raft.Log {
			idx++
			raw, err := proto.Marshal(&LogData{Operations: []*LogOperation{{OpType: op, Key: key, Value: val}}})
			if err != nil {
				rt.Fatalf("harness: %v", err)
			}
			return &raft.Log{Index: idx, Term: 1, Type: raft.LogCommand, Data: raw}
		}
		apply := func(f *FSM, logs []*raft.Log) {
			for _, r := range f.ApplyBatch(logs) {
				if e, ok := r.(*FSMApplyResponse); ok && !e.Success {
					rt.Fatalf("harness: apply failed")
				}
			}
		}
		var batch []*raft.Log
		for i := 0; i < n; i++ {
			val := []byte(fmt.Sprintf("value-%08d", i))
			if i == big {
				val = bytes.Repeat([]byte{byte(i)}, 70<<10)
			}
			batch = append(batch, mk(putOp, fmt.Sprintf("app/key-%06d", i), val))
			if len(batch) == 2000 || i == n-1 {
				apply(a, batch)
				batch = batch[:0]
			}
		}
		if err := c09InstallSnapshot(a, dirA, b, dirB); err != nil {
			rec.Violation(rt, "snapshot-install-failed", map[string]any{"entries": n}, "installing a snapshot of %d entries failed: %v", n, err)
			return
		}
		// a short common tail
		tail := []*raft.Log{mk(putOp, "app/tail-1", []byte("t1")), mk(deleteOp, "app/key-000003", nil), mk(putOp, fmt.Sprintf("app/key-%06d", n/2), []byte("rewritten"))}
		apply(a, tail)
		for _, l := range tail {
			apply(b, []*raft.Log{l})
		}
		na, da, _, err1 := c09DataDigest(a)
		nb, db, _, err2 := c09DataDigest(b)
		if err1 != nil || err2 != nil {
			rt.Fatalf("harness: digest: %v %v", err1, err2)
		}
		rec.Case(fmt.Sprintf("entries=%d", n), true, verifx.Digest(n, big), func() any { return map[string]any{"entries": n, "keys_on_log_replica": na, "keys_on_snapshot_replica": nb} })
		if na != n || na != nb || da != db {
			var missing []string
			for i := 0; i < n && len(missing) < 5; i++ {
				k := fmt.Sprintf("app/key-%06d", i)
				if i == 3 {
					continue
				}
				if e, _ := b.Get(rt.Context(), k); e == nil {
					missing = append(missing, k)
				}
			}
			rec.Violation(rt, "snapshot-replica-differs-from-log-replica", map[string]any{"entries": n, "keys_on_log_replica": na, "keys_on_snapshot_replica": nb, "missing_on_snapshot_replica": missing},
				"after %d puts the replica that applied the log holds %d keys (digest %s), the replica initialised from its snapshot %d keys (digest %s); missing there e.g. %v", n, na, da[:12], nb, db[:12], missing)
		}
	})
}
