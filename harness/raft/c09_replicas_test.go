//go:build verif

package raft

// C09 - Raft replicas applying the same log reach the same state and verdicts.
//
// A simulated leader produces a log (plain puts/deletes and transactions with realistic stale
// reads). Four independently driven FSM values apply it: R0 one entry per batch, R1 random
// batches, R2 random batches with a Close/NewFSM reopen at a generated position, R3 a (possibly
// lagging) replica that installs a snapshot streamed out of R0 through the package's real
// snapshot store / sink / installer / FSM.Restore path and is then fed the suffix.
// Oracle: every replica equals a replay model written from the documentation (per-entry verdict,
// data after every batch, final latest index).

import (
	"context"
	"bytes"
	"encoding/json"
	"fmt"
	"hash/crc32"
	"io"
	"os"
	"path/filepath"
	"sort"
	"strings"
	"testing"
	"time"

	log "github.com/hashicorp/go-hclog"
	"github.com/hashicorp/go-raftchunking"
	"github.com/hashicorp/raft"
	"github.com/openbao/openbao/sdk/v2/helper/verifx"
	bolt "go.etcd.io/bbolt"
	"google.golang.org/protobuf/proto"
	"pgregory.net/rapid"
)

var (
	c09Keys     = []string{"a/k1", "a/k2", "a/s/k3", "b/k1", "b/s/k4", "top"}
	c09Values   = [][]byte{[]byte("v0"), []byte("v1"), []byte("v2"), {}}
	c09Prefixes = []string{"", "a/", "b/", "a/s/"}
	c09Afters   = []string{"", "", "k1", "k1x", "s/", "a/", "b/"}
	c09Limits   = []int{-1, 0, 1, 2, 3}
)

type c09Verify struct {
	IsList bool
	Key    string // key, or the JSON list parameters
	Prefix string
	After  string
	Limit  int
	Hash   []byte
	Forged bool
}

type c09Write struct {
	Del   bool
	Key   string
	Value []byte
}

type c09Entry struct {
	Pos   int
	Index uint64
	Kind  string // put | del | txn
	Key   string
	Value []byte
	// transaction
	StartPos   int
	StartIndex uint64
	Verifies   []c09Verify
	Writes     []c09Write
	Forged     bool // at least one verification hash was not computed from the state at the start index
	LAI        *uint64
	// model
	ModelCommit bool // verdict of the reference replay
	Stale       bool // some verified key/listing was written between start and position
	// chunking: an entry whose command exceeds raftchunking.ChunkSize occupies NumChunks log slots; Pos is the
	// slot of its final chunk (where it is applied), FirstPos the slot of its first chunk. The other slots hold
	// entries of Kind "chunk" that point to it.
	NumChunks int
	FirstPos  int
	Owner     *c09Entry
	ChunkSeq  int
}

var c09Castagnoli = crc32.MakeTable(crc32.Castagnoli)

func c09ShowVal(v []byte) string {
	if len(v) > 64 {
		return fmt.Sprintf("<%d bytes crc32c %08x>", len(v), crc32.Checksum(v, c09Castagnoli))
	}
	return fmt.Sprintf("%q", v)
}

func (e *c09Entry) String() string {
	if e.Kind == "chunk" {
		return fmt.Sprintf("#%d@%d chunk %d/%d of #%d", e.Pos, e.Index, e.ChunkSeq+1, e.Owner.NumChunks, e.Owner.Pos)
	}
	s := e.describe()
	if e.NumChunks > 1 {
		s += fmt.Sprintf(" [final chunk %d/%d, first chunk #%d]", e.NumChunks, e.NumChunks, e.FirstPos)
	}
	return s
}

func (e *c09Entry) describe() string {
	lai := "nil"
	if e.LAI != nil {
		lai = fmt.Sprintf("@%d", *e.LAI)
	}
	switch e.Kind {
	case "put":
		return fmt.Sprintf("#%d@%d put %s=%s lai=%s", e.Pos, e.Index, e.Key, c09ShowVal(e.Value), lai)
	case "del":
		return fmt.Sprintf("#%d@%d del %s lai=%s", e.Pos, e.Index, e.Key, lai)
	}
	var sb strings.Builder
	fmt.Fprintf(&sb, "#%d@%d txn(start=#%d@%d", e.Pos, e.Index, e.StartPos, e.StartIndex)
	for _, v := range e.Verifies {
		f := ""
		if v.Forged {
			f = "!forged"
		}
		if v.IsList {
			fmt.Fprintf(&sb, " vlist(%q,%q,%d)%s", v.Prefix, v.After, v.Limit, f)
		} else {
			fmt.Fprintf(&sb, " vread(%s)%s", v.Key, f)
		}
	}
	for _, w := range e.Writes {
		if w.Del {
			fmt.Fprintf(&sb, " del %s", w.Key)
		} else {
			fmt.Fprintf(&sb, " put %s=%s", w.Key, c09ShowVal(w.Value))
		}
	}
	fmt.Fprintf(&sb, ") lai=%s model=%s stale=%v", lai, c09VerdictName(e.ModelCommit), e.Stale)
	return sb.String()
}

func c09VerdictName(commit bool) string {
	if commit {
		return "commit"
	}
	return "conflict"
}

type c09State map[string][]byte

func (s c09State) clone() c09State {
	n := make(c09State, len(s))
	for k, v := range s {
		n[k] = v
	}
	return n
}

func (s c09State) dump() []string {
	out := make([]string, 0, len(s))
	for k, v := range s {
		out = append(out, k+"="+c09ShowVal(v))
	}
	sort.Strings(out)
	return out
}

// c09ModelList is the documented listing contract: the entries directly below prefix (files, and
// sub-directories once, with a trailing slash), in key order, only those greater than after, at most
// limit of them when limit > 0.
func c09ModelList(s c09State, prefix, after string, limit int) []string {
	keys := make([]string, 0, len(s))
	for k := range s {
		if strings.HasPrefix(k, prefix) {
			keys = append(keys, k)
		}
	}
	sort.Strings(keys)
	var out []string
	for _, k := range keys {
		rest := k[len(prefix):]
		entry := rest
		if i := strings.Index(rest, "/"); i >= 0 {
			entry = rest[:i+1]
		}
		if len(out) > 0 && out[len(out)-1] == entry {
			continue
		}
		if after != "" && entry <= after {
			continue
		}
		if limit > 0 && len(out) >= limit {
			break
		}
		out = append(out, entry)
	}
	return out
}

func c09HashRead(key string, s c09State) []byte {
	v, ok := s[key]
	if !ok {
		v = nil
	}
	h, err := createVerificationEntry(key, v)
	if err != nil {
		panic(err)
	}
	return h
}

func c09HashList(prefix, after string, limit int, s c09State) (string, []byte) {
	repr, h, err := createListVerificationEntry(prefix, after, limit, c09ModelList(s, prefix, after, limit))
	if err != nil {
		panic(err)
	}
	return repr, h
}

// c09Touches: does a write to key fall into the read set of v (the key itself, or anything below the listed prefix)?
func c09Touches(v *c09Verify, key string) bool {
	if !v.IsList {
		return v.Key == key
	}
	if v.Prefix == "" || v.Prefix == "/" {
		return true
	}
	p := v.Prefix
	if !strings.HasSuffix(p, "/") {
		p += "/"
	}
	return strings.HasPrefix(key, p)
}

func c09Matches(v *c09Verify, s c09State) bool {
	if v.IsList {
		_, h := c09HashList(v.Prefix, v.After, v.Limit, s)
		return bytes.Equal(h, v.Hash)
	}
	return bytes.Equal(c09HashRead(v.Key, s), v.Hash)
}

type c09Case struct {
	N       int         // number of log slots (raft log entries)
	Entries []*c09Entry // 1-based, Entries[0] == nil; one per slot (Kind "chunk" for the non-final chunks of an entry)
	States  []c09State  // States[p] = model state after slot p
	Idx     []uint64    // Idx[p] = raft index of slot p, Idx[0] == 0
	Data    [][]byte    // raft.Log.Data of slot p
	Ext     [][]byte    // raft.Log.Extensions of slot p (chunk info; nil for an unchunked entry)
	// Scrub (optional) makes a text independent of the process history (key prefix and absolute raft indexes of a
	// log taken from a live backend): rapid only shrinks a failure whose message it can reproduce literally.
	Scrub func(string) string
	// Origin (optional): how the log came about (the leader's schedule trace), copied into the detail of a violation
	Origin any
}

// visible: does the log of slot p reach FSM.ApplyBatch (everything but a non-final chunk)?
func (c *c09Case) visible(p int) bool { return p >= 1 && c.Entries[p].Kind != "chunk" }

// lastVisible returns the last slot <= p whose log reaches the FSM (0 if none): the FSM's latest index after slot p
// is the index of that slot.
func (c *c09Case) lastVisible(p int) int {
	for ; p >= 1; p-- {
		if c.visible(p) {
			return p
		}
	}
	return 0
}

// inflight counts the chunks stored after slot p for entries whose final chunk comes later.
func (c *c09Case) inflight(p int) int {
	n := 0
	for q := 1; q <= p; q++ {
		if e := c.Entries[q]; e.Kind == "chunk" && e.Owner.Pos > p {
			n++
		}
	}
	return n
}

// writesAt returns the keys the model says slot p wrote (nothing for a conflicting transaction or a chunk).
func (c *c09Case) writesAt(p int) []string {
	e := c.Entries[p]
	switch e.Kind {
	case "put", "del":
		return []string{e.Key}
	case "chunk":
		return nil
	}
	if !e.ModelCommit {
		return nil
	}
	var ks []string
	for _, w := range e.Writes {
		ks = append(ks, w.Key)
	}
	return ks
}

// c09Spec is the state-independent description of one log entry; the log is a slice of them so that
// rapid can shrink by deleting entries.
type c09Spec struct {
	Kind         int // 0 put, 1 delete, 2 transaction
	Gap          int
	Key, Val     int
	StartBack    int // transaction: start index = this many entries back (0 = the entry right before)
	Reads        []int
	VerifyWrites bool
	Writes       []c09WSpec
	Lists        []c09LSpec
	ForgeRead    int // index into the verified keys (-1 none)
	ForgeVal     int
	LaiDie       int
	LaiSlack     int
	Big          int // 0: small command; 1, 2: one value so large that the command needs 2 or 3 chunks
	Interleave   int // chunked entry: this many following (small) entries are logged between its first and second chunk
}

type c09WSpec struct {
	Key, Val int
	Del      bool
}

type c09LSpec struct {
	Prefix, After, Limit int
	ForgeFrom            int // -1 honest, else hash computed at the state this many entries back from the position
}

func c09SpecGen(txnPct int) *rapid.Generator[c09Spec] {
	return rapid.Custom(func(t *rapid.T) c09Spec {
		var s c09Spec
		die := rapid.IntRange(0, 99).Draw(t, "kind")
		switch {
		case die < (100-txnPct)*3/4:
			s.Kind = 0
		case die < 100-txnPct:
			s.Kind = 1
		default:
			s.Kind = 2
		}
		if rapid.IntRange(0, 9).Draw(t, "gapDie") == 9 {
			s.Gap = rapid.IntRange(1, 2).Draw(t, "gap")
		}
		s.LaiDie = rapid.IntRange(0, 19).Draw(t, "laiDie")
		if s.LaiDie >= 17 && s.LaiDie < 19 {
			s.LaiSlack = rapid.IntRange(0, 3).Draw(t, "laiSlack")
		}
		if rapid.IntRange(0, 99).Draw(t, "bigDie") == 50 { // (a value in the middle: rapid favours the ends of a range)
			s.Big = 1
			if rapid.IntRange(0, 9).Draw(t, "threeChunks") == 5 {
				s.Big = 2
			}
			s.Interleave = rapid.IntRange(0, 2).Draw(t, "interleave")
		}
		if s.Kind != 2 {
			s.Key = rapid.IntRange(0, len(c09Keys)-1).Draw(t, "key")
			s.Val = rapid.IntRange(0, 19).Draw(t, "val")
			return s
		}
		if rapid.IntRange(0, 9).Draw(t, "fresh") >= 2 {
			s.StartBack = rapid.IntRange(0, 5).Draw(t, "startBack")
		}
		s.Reads = rapid.SliceOfNDistinct(rapid.IntRange(0, len(c09Keys)-1), 0, 3, rapid.ID[int]).Draw(t, "reads")
		s.Writes = rapid.SliceOfNDistinct(rapid.Custom(func(t *rapid.T) c09WSpec {
			return c09WSpec{Key: rapid.IntRange(0, len(c09Keys)-1).Draw(t, "wkey"), Val: rapid.IntRange(0, 19).Draw(t, "wval"), Del: rapid.IntRange(0, 3).Draw(t, "wdel") == 3}
		}), 0, 3, func(w c09WSpec) int { return w.Key }).Draw(t, "writes")
		s.VerifyWrites = rapid.IntRange(0, 9).Draw(t, "verifyWrites") < 8
		s.Lists = rapid.SliceOfN(rapid.Custom(func(t *rapid.T) c09LSpec {
			l := c09LSpec{Prefix: rapid.IntRange(0, len(c09Prefixes)-1).Draw(t, "prefix"), After: rapid.IntRange(0, len(c09Afters)-1).Draw(t, "after"),
				Limit: rapid.IntRange(0, len(c09Limits)-1).Draw(t, "limit"), ForgeFrom: -1}
			if rapid.IntRange(0, 11).Draw(t, "forgeList") == 11 {
				l.ForgeFrom = rapid.IntRange(0, 8).Draw(t, "forgeFrom")
			}
			return l
		}), 0, 2).Draw(t, "lists")
		s.ForgeRead = -1
		if rapid.IntRange(0, 7).Draw(t, "forgeRead") == 7 {
			s.ForgeRead = rapid.IntRange(0, 5).Draw(t, "forgeWhich")
			s.ForgeVal = rapid.IntRange(0, len(c09Values)).Draw(t, "forgeVal")
		}
		return s
	})
}

func c09Value(j int) []byte {
	if j == 19 {
		return c09Values[3]
	}
	return c09Values[j%3]
}

// c09BigValue builds a value that pushes the marshalled command over chunks*ChunkSize... (a function of the
// arguments only).
func c09BigValue(chunks, salt int) []byte {
	v := make([]byte, (chunks-1)*raftchunking.ChunkSize+1+(salt*977)%3000)
	for i := range v {
		v[i] = byte(i*31 + salt)
	}
	return v
}

type c09NoFuture struct{}

func (c09NoFuture) Error() error  { return nil }
func (c09NoFuture) Response() any { return nil }
func (c09NoFuture) Index() uint64 { return 0 }

func c09GenLog(rt *rapid.T) *c09Case {
	txnPct := rapid.SampledFrom([]int{25, 40, 60}).Draw(rt, "txnPct")
	// rapid's slices average min+5 elements; concatenating a generated number of chunks gives long logs that
	// still shrink by deleting entries.
	nChunks := rapid.IntRange(1, 8).Draw(rt, "chunks")
	var specs []c09Spec
	for i := 0; i < nChunks; i++ {
		lo := 0
		if i == 0 {
			lo = 1
		}
		specs = append(specs, rapid.SliceOfN(c09SpecGen(txnPct), lo, 10).Draw(rt, "log")...)
	}
	if len(specs) > 40 {
		specs = specs[:40]
	}

	// ---- layout: which log slot carries which (chunk of which) entry. A big entry occupies 2 or 3 slots; up to
	// Interleave following small entries are logged between its first and second chunk (concurrent appliers).
	type slot struct{ spec, seq, of int }
	canBeBig := func(sp c09Spec) bool {
		if sp.Big == 0 {
			return false
		}
		if sp.Kind == 0 {
			return true
		}
		if sp.Kind == 2 {
			for _, w := range sp.Writes {
				if !w.Del {
					return true
				}
			}
		}
		return false
	}
	var slots []slot
	bigs := 0
	for i := 0; i < len(specs); i++ {
		if !canBeBig(specs[i]) || bigs >= 2 {
			specs[i].Big = 0
			slots = append(slots, slot{i, 0, 1})
			continue
		}
		bigs++
		of := specs[i].Big + 1
		slots = append(slots, slot{i, 0, of})
		j := i + 1
		for ; j < len(specs) && j <= i+specs[i].Interleave && !canBeBig(specs[j]); j++ {
			specs[j].Big = 0
			slots = append(slots, slot{j, 0, 1})
		}
		for q := 1; q < of; q++ {
			slots = append(slots, slot{i, q, of})
		}
		i = j - 1
	}

	n := len(slots)
	c := &c09Case{N: n, Entries: make([]*c09Entry, n+1), States: make([]c09State, n+1), Idx: make([]uint64, n+1),
		Data: make([][]byte, n+1), Ext: make([][]byte, n+1)}
	c.States[0] = c09State{}
	firstPos := map[int]int{}     // spec -> slot of its first chunk
	chunkSlots := map[int][]int{} // spec -> slots of its non-final chunks
	specOf := make([]int, n+1)    // slot -> spec (final / only slot of an entry)
	for p := 1; p <= n; p++ {
		sl := slots[p-1]
		sp := specs[sl.spec]
		gap := 0
		if sl.seq == 0 {
			gap = sp.Gap // gaps: no-op / barrier entries never reach the FSM
		}
		c.Idx[p] = c.Idx[p-1] + 1 + uint64(gap)
		if sl.seq == 0 {
			firstPos[sl.spec] = p
		}
		if sl.seq < sl.of-1 {
			c.Entries[p] = &c09Entry{Pos: p, Index: c.Idx[p], Kind: "chunk", ChunkSeq: sl.seq}
			chunkSlots[sl.spec] = append(chunkSlots[sl.spec], p)
			c.States[p] = c.States[p-1]
			continue
		}
		specOf[p] = sl.spec
		e := &c09Entry{Pos: p, Index: c.Idx[p], NumChunks: sl.of, FirstPos: firstPos[sl.spec]}
		for _, q := range chunkSlots[sl.spec] {
			c.Entries[q].Owner = e
		}
		cur := c.States[p-1]
		next := cur.clone()
		switch sp.Kind {
		case 0:
			e.Kind = "put"
			e.Key = c09Keys[sp.Key]
			e.Value = c09Value(sp.Val)
			if sl.of > 1 {
				e.Value = c09BigValue(sl.of, sp.Val)
			}
			next[e.Key] = e.Value
		case 1:
			e.Kind = "del"
			e.Key = c09Keys[sp.Key]
			delete(next, e.Key)
		default:
			e.Kind = "txn"
			// the start index is an index the leader's FSM had before the entry was proposed (before its first
			// chunk): that of a slot which reaches the FSM, StartBack such slots back (or 0)
			e.StartPos = 0
			back := sp.StartBack
			for q := e.FirstPos - 1; q >= 1; q-- {
				if !c.visible(q) {
					continue
				}
				if back == 0 {
					e.StartPos = q
					break
				}
				back--
			}
			e.StartIndex = c.Idx[e.StartPos]
			at := c.States[e.StartPos]
			// was the read set of v written by a committed entry strictly between the start and this position?
			touched := func(v *c09Verify) bool {
				for q := e.StartPos + 1; q < p; q++ {
					for _, k := range c.writesAt(q) {
						if c09Touches(v, k) {
							return true
						}
					}
				}
				return false
			}
			readKeys := map[string]bool{}
			for _, k := range sp.Reads {
				readKeys[c09Keys[k]] = true
			}
			bigDone := sl.of == 1
			for _, ws := range sp.Writes {
				w := c09Write{Key: c09Keys[ws.Key], Del: ws.Del}
				if !w.Del {
					w.Value = c09Value(ws.Val)
					if !bigDone {
						w.Value = c09BigValue(sl.of, ws.Val)
						bigDone = true
					}
				}
				e.Writes = append(e.Writes, w)
				if sp.VerifyWrites {
					readKeys[w.Key] = true
				}
			}
			for _, k := range c09Keys { // fixed order
				if !readKeys[k] {
					continue
				}
				v := c09Verify{Key: k, Hash: c09HashRead(k, at)}
				if sp.ForgeRead == len(e.Verifies) && touched(&v) {
					// a hash that does not describe the state at the start index (another pool value, or absence).
					// Only where the key was written in the window: there every replica has to verify it. A wrong
					// hash on an untouched key is outside the input domain (the fast path trusts the leader).
					alt := c09State{}
					if sp.ForgeVal < len(c09Values) {
						alt[k] = c09Values[sp.ForgeVal]
					}
					if h := c09HashRead(k, alt); !bytes.Equal(h, v.Hash) {
						v.Hash, v.Forged, e.Forged = h, true, true
					}
				}
				e.Verifies = append(e.Verifies, v)
			}
			for _, ls := range sp.Lists {
				v := c09Verify{IsList: true, Prefix: c09Prefixes[ls.Prefix], After: c09Afters[ls.After], Limit: c09Limits[ls.Limit]}
				v.Key, v.Hash = c09HashList(v.Prefix, v.After, v.Limit, at)
				if ls.ForgeFrom >= 0 && touched(&v) {
					o := p - 1 - ls.ForgeFrom
					if o < 0 {
						o = 0
					}
					if _, h := c09HashList(v.Prefix, v.After, v.Limit, c.States[o]); !bytes.Equal(h, v.Hash) {
						v.Hash, v.Forged, e.Forged = h, true, true
					}
				}
				e.Verifies = append(e.Verifies, v)
			}
			// reference verdict, always-verify: commit iff every hash matches the state at this position.
			alwaysVerify := true
			for i := range e.Verifies {
				v := &e.Verifies[i]
				tch := touched(v)
				if tch {
					e.Stale = true
				}
				if !c09Matches(v, cur) {
					alwaysVerify = false
					if !tch {
						rt.Fatalf("harness: transaction %v: verification %d does not match although its read set is untouched", e, i)
					}
				}
			}
			e.ModelCommit = alwaysVerify
			if e.ModelCommit {
				for _, w := range e.Writes {
					if w.Del {
						delete(next, w.Key)
					} else {
						next[w.Key] = w.Value
					}
				}
			}
		}
		c.Entries[p] = e
		c.States[p] = next
	}
	// LowestActiveIndex as a correct leader ships it when it proposes the entry (before its first chunk): the
	// lowest start index among the transactions open then (a transaction stays open until its final chunk is
	// applied), capped by the index its FSM has applied.
	for p := 1; p <= n; p++ {
		e := c.Entries[p]
		if e.Kind == "chunk" {
			continue
		}
		sp := specs[specOf[p]]
		l := c.Idx[c.lastVisible(e.FirstPos-1)]
		for q := 1; q <= n; q++ {
			if t := c.Entries[q]; t != e && t.Kind == "txn" && t.StartPos < e.FirstPos && e.FirstPos < t.Pos && t.StartIndex < l {
				l = t.StartIndex
			}
		}
		switch {
		case sp.LaiDie == 19:
			// entry written by a leader that does not ship the field
		case sp.LaiDie >= 17:
			// a transaction that was open then and later rolled back keeps the value lower
			s := uint64(sp.LaiSlack)
			if s > l {
				s = l
			}
			e.LAI = new(l - s)
		default:
			e.LAI = new(l)
		}
		cmd := c09Marshal(rt, e)
		if e.NumChunks == 1 {
			if len(cmd) > raftchunking.ChunkSize {
				rt.Fatalf("harness: small command of %d bytes", len(cmd))
			}
			c.Data[p] = cmd
			continue
		}
		// the chunk logs exactly as the leader produces them (RaftBackend.applyLog -> raftchunking.ChunkingApply)
		var parts []raft.Log
		raftchunking.ChunkingApply(cmd, nil, 0, func(l raft.Log, _ time.Duration) raft.ApplyFuture {
			parts = append(parts, l)
			return c09NoFuture{}
		})
		if len(parts) != e.NumChunks {
			rt.Fatalf("harness: command of %d bytes gave %d chunks, layout expects %d", len(cmd), len(parts), e.NumChunks)
		}
		own := append(append([]int(nil), chunkSlots[specOf[p]]...), p)
		for i, q := range own {
			c.Data[q], c.Ext[q] = parts[i].Data, parts[i].Extensions
		}
	}
	return c
}

func c09Marshal(rt *rapid.T, e *c09Entry) []byte {
	ld := &LogData{LowestActiveIndex: e.LAI}
	switch e.Kind {
	case "put":
		ld.Operations = []*LogOperation{{OpType: putOp, Key: e.Key, Value: e.Value}}
	case "del":
		ld.Operations = []*LogOperation{{OpType: deleteOp, Key: e.Key}}
	case "txn":
		begin, err := createBeginTxOpValue(e.StartIndex)
		if err != nil {
			rt.Fatalf("harness: %v", err)
		}
		ld.Operations = append(ld.Operations, &LogOperation{OpType: beginTxOp, Value: begin})
		for _, v := range e.Verifies {
			op := verifyReadOp
			if v.IsList {
				op = verifyListOp
			}
			ld.Operations = append(ld.Operations, &LogOperation{OpType: op, Key: v.Key, Value: v.Hash})
		}
		for _, w := range e.Writes {
			if w.Del {
				ld.Operations = append(ld.Operations, &LogOperation{OpType: deleteOp, Key: w.Key})
			} else {
				ld.Operations = append(ld.Operations, &LogOperation{OpType: putOp, Key: w.Key, Value: w.Value})
			}
		}
		ld.Operations = append(ld.Operations, &LogOperation{OpType: commitTxOp})
	}
	b, err := proto.Marshal(ld)
	if err != nil {
		rt.Fatalf("harness: marshal: %v", err)
	}
	return b
}

// c09Batches cuts positions lo+1..hi into consecutive batches of generated sizes (the generated sizes are reused
// cyclically; none = single entries).
func c09Batches(rt *rapid.T, label string, lo, hi int) [][2]int {
	var out [][2]int
	if hi <= lo {
		return out
	}
	maxB := rapid.SampledFrom([]int{1, 2, 4, 8, 64}).Draw(rt, label+"MaxBatch")
	sizes := rapid.SliceOfN(rapid.IntRange(1, maxB), 0, 12).Draw(rt, label+"Batches")
	for i := 0; lo < hi; i++ {
		sz := 1
		if len(sizes) > 0 {
			sz = sizes[i%len(sizes)]
		}
		if lo+sz > hi {
			sz = hi - lo
		}
		out = append(out, [2]int{lo + 1, lo + sz})
		lo += sz
	}
	return out
}

type c09Divergence struct {
	Replica string
	Pos     int
	Kind    string // verdict | state | index | panic | response | reopen-index | snapshot | chunk-lost | chunk-keys
	Got     string
	Want    string
	Why     string // the replica's own message for a conflict
	BatchLo int // the batch in which it showed
	BatchHi int
}

type c09Replica struct {
	name       string
	dir        string
	fsm        *FSM
	restartPos int // position after which the in-memory state of the FSM was lost (reopen / snapshot install); -1 = never
	resume     int // first slot fed after the restart (restartPos+1, or earlier when the trailing chunk logs are replayed)
	restarted  bool
	replay     bool // continues after the index its FSM persisted (plain restart) rather than with the next log
	verdicts   map[int]bool
	applied    int // highest position applied (or covered by the installed snapshot)
	div        *c09Divergence
}

func c09NewFSM(rt *rapid.T, dir string) *FSM {
	f, err := NewFSM(dir, "verif", log.NewNullLogger())
	if err != nil {
		rt.Fatalf("harness: NewFSM(%s): %v", dir, err)
	}
	return f
}

// c09Dump returns the user-visible content of the data bucket and the number of stored chunks (keys below
// "raftchunking/").
func c09Dump(f *FSM) (user []string, chunks int, err error) {
	err = f.db.View(func(tx *bolt.Tx) error {
		return tx.Bucket(dataBucketName).ForEach(func(k, v []byte) error {
			if bytes.HasPrefix(k, []byte(chunkingPrefix)) {
				chunks++
				return nil
			}
			user = append(user, string(k)+"="+c09ShowVal(v))
			return nil
		})
	})
	return user, chunks, err
}

// apply feeds slots lo..hi as one batch, through the chunking wrapper hashicorp/raft is given, and compares
// responses, verdicts, data and index with the model.
func (r *c09Replica) apply(rt *rapid.T, c *c09Case, lo, hi int) {
	if r.div != nil {
		return
	}
	defer func() {
		if r.div != nil && r.div.BatchHi == 0 {
			r.div.BatchLo, r.div.BatchHi = lo, hi
		}
	}()
	logs := make([]*raft.Log, 0, hi-lo+1)
	for p := lo; p <= hi; p++ {
		logs = append(logs, &raft.Log{Index: c.Idx[p], Term: 1, Type: raft.LogCommand, Data: c.Data[p], Extensions: c.Ext[p]})
	}
	var resp []any
	if pv := verifx.Try(func() { resp = r.fsm.chunker.ApplyBatch(logs) }); pv != nil {
		r.div = &c09Divergence{Replica: r.name, Pos: hi, Kind: "panic", Got: fmt.Sprint(pv), Want: "no panic"}
		return
	}
	if len(resp) != len(logs) {
		r.div = &c09Divergence{Replica: r.name, Pos: hi, Kind: "response", Got: fmt.Sprintf("%d responses", len(resp)), Want: fmt.Sprint(len(logs))}
		return
	}
	if hi > r.applied {
		r.applied = hi
	}
	for i, raw := range resp {
		p := lo + i
		e := c.Entries[p]
		if e.Kind == "chunk" {
			if raw != nil {
				r.div = &c09Divergence{Replica: r.name, Pos: p, Kind: "response", Got: fmt.Sprintf("%#v", raw), Want: "nil for a non-final chunk"}
				return
			}
			continue
		}
		if e.NumChunks > 1 {
			if raw == nil {
				r.div = &c09Divergence{Replica: r.name, Pos: p, Kind: "chunk-lost", Got: "nil response to the final chunk (entry not applied)", Want: "ChunkingSuccess"}
				return
			}
			cs, ok := raw.(raftchunking.ChunkingSuccess)
			if !ok {
				r.div = &c09Divergence{Replica: r.name, Pos: p, Kind: "response", Got: fmt.Sprintf("%#v", raw), Want: "raftchunking.ChunkingSuccess for a final chunk"}
				return
			}
			raw = cs.Response
		}
		ar, ok := raw.(*FSMApplyResponse)
		if !ok || !ar.Success {
			r.div = &c09Divergence{Replica: r.name, Pos: p, Kind: "response", Got: fmt.Sprintf("%#v", raw), Want: "*FSMApplyResponse{Success:true}"}
			return
		}
		conflict := len(ar.EntrySlice) == 1 && ar.EntrySlice[0].IsTxError()
		if len(ar.EntrySlice) > 1 || (len(ar.EntrySlice) == 1 && !conflict) || (conflict && e.Kind != "txn") {
			r.div = &c09Divergence{Replica: r.name, Pos: p, Kind: "response", Got: fmt.Sprint(ar.EntrySlice), Want: "no entries, or one transaction-error entry for a transaction"}
			return
		}
		if e.Kind == "txn" {
			r.verdicts[p] = !conflict
			if !conflict != e.ModelCommit && r.div == nil {
				r.div = &c09Divergence{Replica: r.name, Pos: p, Kind: "verdict", Got: c09VerdictName(!conflict), Want: c09VerdictName(e.ModelCommit)}
				if conflict {
					r.div.Why = string(ar.EntrySlice[0].Value) + c09WhyConflict(r.fsm, c.Data[p])
				}
			}
		}
	}
	if r.div == nil {
		r.checkState(c, hi)
	}
	if r.div != nil && r.div.BatchHi == 0 {
		r.div.BatchLo, r.div.BatchHi = lo, hi
	}
}

func (r *c09Replica) checkState(c *c09Case, p int) {
	got, chunks, err := c09Dump(r.fsm)
	if err != nil {
		r.div = &c09Divergence{Replica: r.name, Pos: p, Kind: "state", Got: "dump error " + err.Error()}
		return
	}
	want := c.States[p].dump()
	if strings.Join(got, "\n") != strings.Join(want, "\n") {
		r.div = &c09Divergence{Replica: r.name, Pos: p, Kind: "state", Got: fmt.Sprint(got), Want: fmt.Sprint(want)}
		return
	}
	// (while trailing chunk logs are fed a second time the number of stored chunks depends on whether the chunking
	// wrapper still has them; it is compared again from the first new log on)
	if w := c.inflight(p); chunks != w && !(r.restarted && p <= r.restartPos) {
		r.div = &c09Divergence{Replica: r.name, Pos: p, Kind: "chunk-keys", Got: fmt.Sprintf("%d keys under %s", chunks, chunkingPrefix), Want: fmt.Sprintf("%d (chunks of entries still incomplete)", w)}
		return
	}
	// the FSM's latest index is that of the last log that reached it (a non-final chunk does not)
	if li, _ := r.fsm.LatestState(); li.Index != c.Idx[c.lastVisible(p)] {
		r.div = &c09Divergence{Replica: r.name, Pos: p, Kind: "index", Got: fmt.Sprintf("@%d", li.Index), Want: fmt.Sprintf("@%d", c.Idx[c.lastVisible(p)])}
	}
}

// c09InstallSnapshot moves the state of src into dst the way hashicorp/raft does it between a leader and a
// follower: leader: SnapshotStore.Open(id) (streams FSM.writeTo); follower: SnapshotStore.Create, io.Copy
// into the sink, sink.Close, SnapshotStore.Open(sink.ID()) -> installer, FSM.Restore(installer).
func c09InstallSnapshot(src *FSM, srcDir string, dst *FSM, dstDir string) error {
	lg := log.NewNullLogger()
	srcStore, err := NewBoltSnapshotStore(srcDir, lg, src)
	if err != nil {
		return fmt.Errorf("leader snapshot store: %w", err)
	}
	metas, err := srcStore.List()
	if err != nil || len(metas) != 1 {
		return fmt.Errorf("leader snapshot list: %v %v", metas, err)
	}
	meta, rc, err := srcStore.Open(metas[0].ID)
	if err != nil {
		return fmt.Errorf("leader snapshot open: %w", err)
	}
	defer rc.Close()
	dstStore, err := NewBoltSnapshotStore(dstDir, lg, dst)
	if err != nil {
		return fmt.Errorf("follower snapshot store: %w", err)
	}
	sink, err := dstStore.Create(meta.Version, meta.Index, meta.Term, meta.Configuration, meta.ConfigurationIndex, nil)
	if err != nil {
		return fmt.Errorf("follower sink create: %w", err)
	}
	nbytes, err := io.Copy(sink, rc)
	if err != nil {
		sink.Cancel()
		return fmt.Errorf("copy into sink: %w", err)
	}
	if nbytes != meta.Size {
		sink.Cancel()
		return fmt.Errorf("snapshot size %d, metadata says %d", nbytes, meta.Size)
	}
	if err := sink.Close(); err != nil {
		return fmt.Errorf("sink close: %w", err)
	}
	_, installer, err := dstStore.Open(sink.ID())
	if err != nil {
		return fmt.Errorf("follower open %q: %w", sink.ID(), err)
	}
	defer installer.Close()
	if err := dst.Restore(installer); err != nil {
		return fmt.Errorf("restore: %w", err)
	}
	return nil
}

// c09RootListWithChunks: transaction e verifies a listing of the root prefix, and when the replica verified it the
// data bucket held chunks: of an entry still incomplete, or of a chunk log later in the same batch (the chunking
// wrapper stores all chunks of a batch before it hands the other logs to the FSM).
func c09RootListWithChunks(c *c09Case, e *c09Entry, d *c09Divergence) bool {
	root := false
	for _, v := range e.Verifies {
		if v.IsList && (v.Prefix == "" || v.Prefix == "/") {
			root = true
		}
	}
	if !root {
		return false
	}
	if c.inflight(e.Pos-1) > 0 {
		return true
	}
	for q := e.Pos + 1; q <= d.BatchHi; q++ {
		if c.Entries[q].Kind == "chunk" {
			return true
		}
	}
	return false
}

func c09TempRoot(rt *rapid.T, pattern string) string {
	base := ""
	if st, err := os.Stat("/dev/shm"); err == nil && st.IsDir() {
		base = "/dev/shm"
	}
	if d := os.Getenv("VERIF_SCRATCH"); d != "" { // the driver's per-run directory, removed when the run ends
		base = d
	}
	d, err := os.MkdirTemp(base, pattern)
	if err != nil {
		rt.Fatalf("harness: tempdir: %v", err)
	}
	return d
}

// c09PickPos draws a restart position. inside: positions strictly inside the window of a transaction with a
// modified read set; outside: positions inside no transaction window.
func c09PickPos(rt *rapid.T, label string, cands []int) int {
	return cands[rapid.IntRange(0, len(cands)-1).Draw(rt, label)]
}

func TestVerif_C09_Replicas(t *testing.T) {
	rec := verifx.NewRecorder("C09", "replicas",
		"log of 1..40 entries from a simulated leader (puts/deletes over 6 keys in 2 directories, 3 values + empty; transactions started up to 6 entries back with verifyRead/verifyList hashes computed by the package's helpers on the model state at the start index, ~5% of hashes of modified keys/listings forged; raft index gaps; LowestActiveIndex of a correct leader; in ~20% of the logs 1-2 entries whose command exceeds raftchunking.ChunkSize, cut into 2-3 chunk logs by raftchunking.ChunkingApply, optionally with other entries logged between the chunks) applied through FSM.chunker.ApplyBatch to R0 (1 log per batch), R1 (random batches), R2 (random batches + Close/NewFSM at a generated position, continuing with the next log or replaying the trailing chunk logs the FSM index does not cover), R3 (optional lagging prefix, then snapshot of R0 through BoltSnapshotStore/BoltSnapshotSink/boltSnapshotInstaller/FSM.Restore at a generated position, then the suffix); non-trivial = the log has a transaction whose read set was written between its start index and its position AND a reopen or snapshot install of a replica lies strictly between that start and that position, or a reopen / snapshot install lies between the chunks of an entry")
	defer rec.Flush()
	rapid.Check(t, func(rt *rapid.T) {
		c := c09GenLog(rt)
		c09RunReplicas(rt, rec, c, "the reference replay")
	})
}

// c09RunReplicas applies the log of c to the four replicas under generated batchings, a generated reopen position
// and a generated snapshot-install position, and compares each of them with c's verdicts and states. ref names
// where those come from (the always-verify replay of a generated log, or the verdicts a live leader reported).
func c09RunReplicas(rt *rapid.T, rec *verifx.Recorder, c *c09Case, ref string) {
	n := c.N
	viol := func(sig string, det map[string]any, format string, a ...any) {
		msg := fmt.Sprintf(format, a...)
		if c.Scrub != nil {
			msg = c.Scrub(msg)
			for k, v := range det {
				switch x := v.(type) {
				case string:
					det[k] = c.Scrub(x)
				case []string:
					y := make([]string, len(x))
					for i := range x {
						y[i] = c.Scrub(x[i])
					}
					det[k] = y
				}
			}
		}
		rec.Violation(rt, sig, det, "%s", msg)
	}
	allowInside := rapid.IntRange(0, 9).Draw(rt, "allowRestartInsideTxnWindow") < 6

	// candidate restart positions
	insideAny := make([]bool, n+1)   // strictly inside some transaction window, or between the chunks of an entry
	insideStale := make([]bool, n+1) // strictly inside the window of a transaction with a modified read set
	inChunks := make([]bool, n+1)    // between the chunks of an entry
	for p := 1; p <= n; p++ {
		e := c.Entries[p]
		if e.Kind == "txn" {
			for r := e.StartPos + 1; r < p; r++ {
				insideAny[r] = true
				if e.Stale {
					insideStale[r] = true
				}
			}
		}
		if e.Kind != "chunk" && e.NumChunks > 1 {
			for r := e.FirstPos; r < p; r++ {
				insideAny[r], inChunks[r] = true, true
			}
		}
	}
	var all, outside, stale, chunky []int
	for r := 0; r <= n; r++ {
		all = append(all, r)
		if !insideAny[r] {
			outside = append(outside, r)
		}
		if insideStale[r] {
			stale = append(stale, r)
		}
		if inChunks[r] {
			chunky = append(chunky, r)
		}
	}
	nonEmpty := func(in []int) []int {
		var out []int
		for _, r := range in {
			// a snapshot of an empty store has no file to install; position 0 has nothing to snapshot
			if r >= 1 && len(c.States[r]) > 0 {
				out = append(out, r)
			}
		}
		return out
	}
	pick := func(label string, snap bool) int {
		f := func(x []int) []int {
			if snap {
				return nonEmpty(x)
			}
			return x
		}
		if !allowInside {
			if cs := f(outside); len(cs) > 0 {
				return c09PickPos(rt, label, cs)
			}
			return -1
		}
		if cs := f(chunky); len(cs) > 0 && rapid.IntRange(0, 9).Draw(rt, label+"BetweenChunks") < 6 {
			return c09PickPos(rt, label, cs)
		}
		if cs := f(stale); len(cs) > 0 && rapid.IntRange(0, 9).Draw(rt, label+"Target") < 8 {
			return c09PickPos(rt, label, cs)
		}
		if cs := f(all); len(cs) > 0 {
			return c09PickPos(rt, label, cs)
		}
		return -1
	}
	r2pos := pick("r2pos", false)
	r3pos := pick("r3pos", true)
	// After the reopen / install the replica continues with the next log (a raft snapshot was taken at that
	// position), or - replayTrailing - with the first log after the index its FSM persisted, which is what raft
	// replays after a plain restart: the chunk logs that trail the last log that reached the FSM are fed again.
	r2replay := rapid.Bool().Draw(rt, "r2replayTrailing")
	r3replay := rapid.Bool().Draw(rt, "r3replayTrailing")
	r2resume, r3resume := r2pos+1, r3pos+1
	if r2replay {
		r2resume = c.lastVisible(r2pos) + 1
	}
	if r3replay && r3pos > 0 {
		r3resume = c.lastVisible(r3pos) + 1
	}
	r3lag := 0
	if r3pos > 0 && rapid.IntRange(0, 9).Draw(rt, "r3lagDie") < 3 {
		r3lag = rapid.IntRange(0, r3pos-1).Draw(rt, "r3lag")
	}
	r1b := c09Batches(rt, "r1", 0, n)
	r2a := c09Batches(rt, "r2a", 0, r2pos)
	r2b := c09Batches(rt, "r2b", r2resume-1, n)
	var r3a, r3b [][2]int
	if r3pos > 0 {
		r3a = c09Batches(rt, "r3a", 0, r3lag)
		r3b = c09Batches(rt, "r3b", r3resume-1, n)
	}

	root := c09TempRoot(rt, "verif-c09-")
	var open []*FSM
	defer func() {
		for _, f := range open {
			if f != nil && f.db != nil {
				_ = f.Close()
			}
		}
		_ = os.RemoveAll(root)
	}()
	mk := func(name string, restart, resume int) *c09Replica {
		d := filepath.Join(root, name)
		if err := os.MkdirAll(d, 0o700); err != nil {
			rt.Fatalf("harness: %v", err)
		}
		r := &c09Replica{name: name, dir: d, fsm: c09NewFSM(rt, d), restartPos: restart, resume: resume, verdicts: map[int]bool{}}
		open = append(open, r.fsm)
		return r
	}
	r0, r1, r2 := mk("R0", -1, 0), mk("R1", -1, 0), mk("R2", r2pos, r2resume)
	r2.replay = r2replay
	var r3 *c09Replica
	if r3pos > 0 {
		r3 = mk("R3", r3pos, r3resume)
		r3.replay = r3replay
		for _, b := range r3a {
			r3.apply(rt, c, b[0], b[1])
		}
	}

	// R0: one log per batch; snapshot for R3 taken at r3pos
	for p := 1; p <= n; p++ {
		r0.apply(rt, c, p, p)
		if r3 != nil && p == r3pos && r0.div == nil && r3.div == nil {
			if err := c09InstallSnapshot(r0.fsm, r0.dir, r3.fsm, r3.dir); err != nil {
				r3.div = &c09Divergence{Replica: "R3", Pos: p, Kind: "snapshot", Got: err.Error(), Want: "snapshot installed"}
			} else {
				r3.applied = p
				r3.checkState(c, p)
				r3.restarted = true
			}
		}
	}
	for _, b := range r1b {
		r1.apply(rt, c, b[0], b[1])
	}
	for _, b := range r2a {
		r2.apply(rt, c, b[0], b[1])
	}
	if r2.div == nil {
		if err := r2.fsm.Close(); err != nil {
			rt.Fatalf("harness: close R2: %v", err)
		}
		for i, f := range open {
			if f == r2.fsm {
				open[i] = nil
			}
		}
		r2.fsm = c09NewFSM(rt, r2.dir)
		open = append(open, r2.fsm)
		if li, _ := r2.fsm.LatestState(); li.Index != c.Idx[c.lastVisible(r2pos)] {
			r2.div = &c09Divergence{Replica: "R2", Pos: r2pos, Kind: "reopen-index", Got: fmt.Sprintf("@%d", li.Index), Want: fmt.Sprintf("@%d", c.Idx[c.lastVisible(r2pos)])}
		} else {
			r2.checkState(c, r2pos)
		}
		r2.restarted = true
	}
	for _, b := range r2b {
		r2.apply(rt, c, b[0], b[1])
	}
	if r3 != nil {
		if r0.div != nil && r0.div.Pos <= r3pos {
			r3 = nil // the source of the snapshot already left the model; R0's divergence is reported
		} else {
			for _, b := range r3b {
				r3.apply(rt, c, b[0], b[1])
			}
		}
	}
	reps := []*c09Replica{r0, r1, r2}
	if r3 != nil {
		reps = append(reps, r3)
	}
	byName := func(name string) *c09Replica {
		for _, x := range reps {
			if x.name == name {
				return x
			}
		}
		return nil
	}
	// straddles: some chunk of e was logged before the replica's resume point and is not fed again, the final chunk
	// comes after it
	straddles := func(r *c09Replica, e *c09Entry) bool {
		return r.restartPos >= 0 && e.Kind != "chunk" && e.NumChunks > 1 && e.FirstPos < r.resume && r.resume <= e.Pos
	}

	// ---- coverage
	nTxn, nStale, nConflict, nForged, nChunked := 0, 0, 0, 0, 0
	windowHit, chunkHit, chunkReplayHit, chunkPlainHit := false, false, false, false
	for p := 1; p <= n; p++ {
		e := c.Entries[p]
		if e.Kind != "chunk" && e.NumChunks > 1 {
			nChunked++
			for _, r := range reps {
				if straddles(r, e) {
					chunkHit = true
					if r.replay {
						chunkPlainHit = true // a log that reached the FSM lies between the chunks, so the replay starts behind the first chunk
					}
				} else if r.restartPos >= e.FirstPos && r.restartPos < e.Pos {
					chunkReplayHit = true
				}
			}
		}
		if e.Kind != "txn" {
			continue
		}
		nTxn++
		if e.Forged {
			nForged++
		}
		if !e.ModelCommit {
			nConflict++
		}
		if e.Stale {
			nStale++
			for _, r := range reps {
				if r.restartPos > e.StartPos && r.restartPos < p {
					windowHit = true
				}
			}
		}
	}
	class := fmt.Sprintf("restartInsideWindowAllowed=%v staleTxn=%v", allowInside, nStale > 0)
	render := func() map[string]any {
		lines := make([]string, 0, n)
		for p := 1; p <= n; p++ {
			lines = append(lines, c.Entries[p].String())
		}
		vs := map[string]string{}
		for _, r := range reps {
			var sb strings.Builder
			for p := 1; p <= n; p++ {
				if v, ok := r.verdicts[p]; ok {
					fmt.Fprintf(&sb, "#%d:%s ", p, c09VerdictName(v))
				}
			}
			vs[r.name] = sb.String()
		}
		return map[string]any{"log": lines, "r1_batches": fmt.Sprint(r1b), "r2_reopen_after": r2pos, "r2_resumes_at": r2resume, "r2_batches": fmt.Sprint(r2a, r2b),
			"r3_snapshot_at": r3pos, "r3_resumes_at": r3resume, "r3_lag_prefix": r3lag, "r3_batches": fmt.Sprint(r3a, r3b), "verdicts": vs,
			"allowRestartInsideTxnWindow": allowInside, "final_model_state": c.States[n].dump()}
	}
	dg := verifx.Digest("c09", fmt.Sprint(render()))
	rec.Case(class, windowHit || chunkHit || chunkReplayHit, dg, func() any { return render() })
	if nTxn > 0 {
		rec.Class("logs-with-txn", 1)
	}
	if nConflict > 0 {
		rec.Class("logs-with-model-conflict", 1)
	}
	if nForged > 0 {
		rec.Class("logs-with-forged-hash", 1)
	}
	if nChunked > 0 {
		rec.Class("logs-with-chunked-entry", 1)
	}
	if chunkHit {
		rec.Class("restart-between-chunks:earlier-chunk-not-fed-again", 1)
	}
	if chunkPlainHit {
		rec.Class("restart-between-chunks:earlier-chunk-not-fed-again:plain-restart-behind-an-interleaved-entry", 1)
	}
	if chunkReplayHit {
		rec.Class("restart-between-chunks:all-chunks-fed-again", 1)
	}
	if r3 == nil {
		rec.Class("r3-not-run", 1)
	} else if r3lag > 0 {
		rec.Class("r3-lagging-prefix", 1)
	}
	if (windowHit || chunkHit || chunkReplayHit) && !allowInside {
		rt.Fatalf("harness: restart inside a transaction window or between chunks although not allowed")
	}

	// ---- verdict
	var divs []*c09Divergence
	for _, r := range reps {
		if r.div != nil {
			divs = append(divs, r.div)
		}
	}
	// every replica that followed to the end: no chunk may be left, and they agree with each other
	var base *c09Replica
	for _, r := range reps {
		if r.div != nil {
			continue
		}
		got, chunks, err := c09Dump(r.fsm)
		if err != nil {
			rt.Fatalf("harness: dump: %v", err)
		}
		if chunks != 0 {
			viol("chunk-keys-left-behind", render(), "%s ends with %d keys under %s", r.name, chunks, chunkingPrefix)
		}
		if base == nil {
			base = r
			continue
		}
		bgot, _, _ := c09Dump(base.fsm)
		gi, _ := r.fsm.LatestState()
		bi, _ := base.fsm.LatestState()
		if strings.Join(got, "\n") != strings.Join(bgot, "\n") || gi.Index != bi.Index {
			viol("replicas-end-state-differs", render(), "%s ends with %v @%d, %s with %v @%d", r.name, got, gi.Index, base.name, bgot, bi.Index)
		}
	}
	if len(divs) == 0 {
		return
	}
	rec.Class("cases-with-divergence", 1)
	sort.SliceStable(divs, func(i, j int) bool { return divs[i].Pos < divs[j].Pos })
	isF1 := func(d *c09Divergence) bool {
		if d.Kind != "verdict" || d.Got != "commit" || d.Want != "conflict" {
			return false
		}
		r := byName(d.Replica)
		e := c.Entries[d.Pos]
		if r == nil || r.restartPos < 0 || !(r.restartPos > e.StartPos && r.restartPos < d.Pos) {
			return false
		}
		// the continuous replicas agreed with the reference up to and including this entry
		for _, x := range []*c09Replica{r0, r1} {
			if x.div != nil && x.div.Pos <= d.Pos {
				return false
			}
			if v, ok := x.verdicts[d.Pos]; !ok || v != e.ModelCommit {
				return false
			}
		}
		return true
	}
	detail := func(d *c09Divergence) map[string]any {
		m := render()
		m["divergence"] = map[string]any{"replica": d.Replica, "position": d.Pos, "kind": d.Kind, "got": d.Got, "reference": d.Want, "entry": c.Entries[d.Pos].String()}
		b, _ := json.Marshal(divs)
		m["all_divergences"] = string(b)
		if c.Origin != nil {
			m["origin"] = c.Origin
		}
		return m
	}
	// Every divergence is reported; a signature listed as a known finding makes rec.Violation return false, the
	// replica concerned has already stopped at its divergence and the others were compared to the end.
	for _, d := range divs {
		e := c.Entries[d.Pos]
		r := byName(d.Replica)
		switch {
		case isF1(d):
			viol("restart-loses-fastpath-tracker", detail(d),
				"replica %s lost its in-memory state after entry #%d and then committed transaction #%d (start #%d, read set written in between) that the continuous replicas and %s reject: %s",
				d.Replica, r.restartPos, d.Pos, e.StartPos, ref, e.String())
		case (d.Kind == "chunk-lost" || d.Kind == "chunk-keys") && r != nil && (straddles(r, e) || (e.Kind == "chunk" && straddles(r, e.Owner))):
			// (with three chunks the loss already shows at the middle chunk: the chunks stored before are gone)
			if e.Kind == "chunk" {
				e = e.Owner
			}
			how := "restart-between-chunks"
			what := fmt.Sprintf("was reopened after log #%d", r.restartPos)
			if r.name == "R3" {
				how = "snapshot-install-between-chunks"
				what = fmt.Sprintf("installed a snapshot taken after log #%d", r.restartPos)
			}
			viol("chunked-op-lost:"+how, detail(d),
				"replica %s %s and continued with log #%d, between the chunks (first #%d, final #%d) of entry %s: the chunks stored before are dropped when the next chunk arrives, the final chunk is answered with nil and the entry is never applied, while the continuous replicas apply it",
				d.Replica, what, r.resume, e.FirstPos, e.Pos, e.String())
		case d.Kind == "verdict" && d.Got == "conflict" && d.Want == "commit" && c09RootListWithChunks(c, e, d):
			viol("chunk-keys-visible-to-root-list-verification", detail(d),
				"replica %s rejects transaction %s, %s commits it: it verifies a listing of the root prefix while chunks of another entry are stored under %q in the data bucket (stored before the batch #%d..#%d is applied, or left from earlier logs), so the listing shows %q and the verdict depends on how the logs are batched",
				d.Replica, e.String(), ref, chunkingPrefix, d.BatchLo, d.BatchHi, chunkingPrefix)
		default:
			sig := "replica-differs-from-model:" + d.Kind
			switch d.Kind {
			case "verdict":
				// who else disagrees at this entry?
				agree := 0
				for _, x := range reps {
					if v, ok := x.verdicts[d.Pos]; ok && v == e.ModelCommit {
						agree++
					}
				}
				who := "replicas-disagree"
				if agree == 0 {
					who = "all-replicas-differ-from-model"
				}
				sig = fmt.Sprintf("%s:%s-where-model-says-%s", who, d.Got, d.Want)
			case "panic":
				sig = "fsm-apply-panics"
			case "reopen-index":
				sig = "reopen-loses-latest-index"
			case "snapshot":
				sig = "snapshot-install-fails"
			}
			viol(sig, detail(d), "replica %s at entry #%d (%s): %s: got %s, %s says %s", d.Replica, d.Pos, e.String(), d.Kind, d.Got, ref, d.Want)
		}
	}
}


// c09WhyConflict re-evaluates the verification operations of a refused transaction entry on the replica's own store
// (the refused entry changed nothing) and names the ones that do not match; diagnostics for the replay file only.
func c09WhyConflict(f *FSM, raw []byte) string {
	ld := &LogData{}
	if err := proto.Unmarshal(raw, ld); err != nil {
		return ""
	}
	var out []string
	_ = f.db.View(func(tx *bolt.Tx) error {
		b := tx.Bucket(dataBucketName)
		for _, op := range ld.Operations {
			switch op.OpType {
			case verifyReadOp:
				val := b.Get([]byte(op.Key))
				if err := doVerifyEntry(op.Key, val, op.Value); err != nil {
					out = append(out, fmt.Sprintf("read %s: stored now %q, hash type %d does not match", op.Key, val, op.Value[0]))
				}
			case verifyListOp:
				params, err := parseListVerifyParams(op.Key)
				if err != nil {
					continue
				}
				keys, err := listPageInner(context.Background(), tx, params.Prefix, params.After, params.Limit)
				if err == nil {
					err = doVerifyList(op.Key, keys, op.Value)
				}
				if err != nil {
					out = append(out, fmt.Sprintf("list %s: now %q does not match (%v)", op.Key, keys, err))
				}
			}
		}
		return nil
	})
	if len(out) == 0 {
		return "; re-evaluated on the replica's store every verification matches"
	}
	return "; failing verifications: " + strings.Join(out, " | ")
}
