//go:build verif

package raft

// C09, long window: a write transaction that stays open while hundreds or thousands of other entries are applied.
// The other units keep a transaction's window below seven entries (replicas) or a few dozen (leader-log); whatever
// bounds, trims or forgets the in-memory bookkeeping of "what was written since index X" only shows with windows far
// longer than that. The verdict on the transaction's entry must not depend on how long ago its reads were
// invalidated, nor on whether the replica kept its in-memory state over the whole window.

import (
	"fmt"
	"os"
	"path/filepath"
	"testing"

	log "github.com/hashicorp/go-hclog"
	"github.com/hashicorp/raft"
	"github.com/openbao/openbao/sdk/v2/helper/verifx"
	"google.golang.org/protobuf/proto"
	"pgregory.net/rapid"
)

var c09LongWindows = []int{0, 3, 60, 700, 2040, 2049, 2500, 4090, 4097, 4600, 6500, 9000}

func TestVerif_C09_LongWindow(t *testing.T) {
	rec := verifx.NewRecorder("C09", "long-window",
		"log: a few set-up puts, then a write transaction that starts at index S and whose entry is logged W entries later (W from 0 to 9000, dense around 2048 and 4096), every entry of the window carrying LowestActiveIndex = S as a correct leader ships it; the window consists of plain puts to other keys and - at a generated place: first, early, middle, late, last entry, or nowhere - one write that invalidates what the transaction verifies (a read of a key, or a listing of a folder; hashes computed by the package's helpers on the state at S); replica R0 applies the log in generated batch sizes without interruption, R1 is closed and reopened at a generated position of the window (or before it), R2 applies one entry per batch (50 for windows above 700); oracle: the transaction's verdict on every replica equals the reference (commit iff nothing it verified was written in the window), responses are well-formed, and all replicas hold the same keys and values at the end; non-trivial = window of 1000 entries or more with an invalidating write")
	defer rec.Flush()
	base := os.Getenv("VERIF_SCRATCH")
	if base == "" {
		if st, err := os.Stat("/dev/shm"); err == nil && st.IsDir() {
			base = "/dev/shm"
		}
	}
	rapid.Check(t, func(rt *rapid.T) {
		w := c09LongWindows[rapid.IntRange(0, len(c09LongWindows)-1).Draw(rt, "window")]
		if rapid.IntRange(0, 3).Draw(rt, "windowJitter") == 0 && w > 10 {
			w += rapid.IntRange(-5, 5).Draw(rt, "jitter")
		}
		list := rapid.Bool().Draw(rt, "verifiesListing")
		place := rapid.SampledFrom([]string{"none", "first", "early", "middle", "late", "last"}).Draw(rt, "invalidatingWrite")
		if w == 0 {
			place = "none"
		}
		confAt := -1 // offset in the window (0-based)
		switch place {
		case "first":
			confAt = 0
		case "early":
			confAt = rapid.IntRange(0, w/8).Draw(rt, "earlyAt")
		case "middle":
			confAt = w / 2
		case "late":
			confAt = w - 1 - rapid.IntRange(0, w/8).Draw(rt, "lateAt")
		case "last":
			confAt = w - 1
		}
		batch := rapid.SampledFrom([]int{1, 7, 64, 256, 1000}).Draw(rt, "batchSize")
		reopenAt := -2 // R1: position of the reopen relative to the window start (-1 = before the window), -2 never
		if rapid.IntRange(0, 3).Draw(rt, "r1Reopens") > 0 {
			reopenAt = rapid.IntRange(-1, w-1).Draw(rt, "r1ReopenAt")
		}
		gapEvery := rapid.SampledFrom([]int{0, 0, 5, 97}).Draw(rt, "raftIndexGapEvery") // raft's own entries take indexes too

		idx := uint64(0)
		var logs []*raft.Log
		state := c09State{}
		entry := func(ld *LogData) {
			idx++
			if gapEvery > 0 && int(idx)%gapEvery == 0 {
				idx++
			}
			raw, err := proto.Marshal(ld)
			if err != nil {
				rt.Fatalf("harness: %v", err)
			}
			logs = append(logs, &raft.Log{Index: idx, Term: 1, Type: raft.LogCommand, Data: raw})
		}
		put := func(k, v string, lai *uint64) {
			entry(&LogData{Operations: []*LogOperation{{OpType: putOp, Key: k, Value: []byte(v)}}, LowestActiveIndex: lai})
			state[k] = []byte(v)
		}
		put("t/k", "v0", nil)
		put("t/dir/a", "x", nil)
		put("t/dir/sub/b", "y", nil)
		start := idx
		atStart := c09State{}
		for k, v := range state {
			atStart[k] = v
		}
		lai := new(uint64)
		*lai = start
		windowFirst := len(logs) // position (0-based in logs) of the first entry of the window
		for i := 0; i < w; i++ {
			if i == confAt {
				if list {
					if rapid.Bool().Draw(rt, "listInvalidatedByDelete") {
						entry(&LogData{Operations: []*LogOperation{{OpType: deleteOp, Key: "t/dir/a"}}, LowestActiveIndex: lai})
						delete(state, "t/dir/a")
					} else {
						put("t/dir/c", "z", lai)
					}
				} else {
					put("t/k", "v1", lai)
				}
				continue
			}
			put(fmt.Sprintf("f/%05d", i%1500), fmt.Sprintf("fill-%d", i), lai)
		}
		begin, err := createBeginTxOpValue(start)
		if err != nil {
			rt.Fatalf("harness: %v", err)
		}
		ops := []*LogOperation{{OpType: beginTxOp, Value: begin}}
		if list {
			repr, h := c09HashList("t/dir/", "", -1, atStart)
			ops = append(ops, &LogOperation{OpType: verifyListOp, Key: repr, Value: h})
		} else {
			ops = append(ops, &LogOperation{OpType: verifyReadOp, Key: "t/k", Value: c09HashRead("t/k", atStart)})
		}
		ops = append(ops, &LogOperation{OpType: putOp, Key: "t/out", Value: []byte("derived")}, &LogOperation{OpType: commitTxOp})
		entry(&LogData{Operations: ops, LowestActiveIndex: lai})
		txnPos := len(logs) - 1
		wantCommit := confAt < 0
		if wantCommit {
			state["t/out"] = []byte("derived")
		}
		// a trailing plain entry
		put("t/after", "w", nil)

		root, err := os.MkdirTemp(base, "verif-c09-long-")
		if err != nil {
			rt.Fatalf("harness: %v", err)
		}
		defer os.RemoveAll(root)
		type rep struct {
			name    string
			f       *FSM
			dir     string
			verdict string
		}
		mk := func(name string) *rep {
			d := filepath.Join(root, name)
			_ = os.MkdirAll(d, 0o700)
			f, err := NewFSM(d, name, log.NewNullLogger())
			if err != nil {
				rt.Fatalf("harness: %v", err)
			}
			return &rep{name: name, f: f, dir: d}
		}
		detail := func(extra map[string]any) map[string]any {
			m := map[string]any{"window_entries": w, "transaction_start_index": start, "transaction_entry_index": logs[txnPos].Index, "verifies": map[bool]string{true: "listing of t/dir/", false: "read of t/k"}[list],
				"invalidating_write": place, "invalidating_write_offset_in_window": confAt, "batch_size": batch, "r1_reopened_at_window_offset": reopenAt, "raft_index_gap_every": gapEvery}
			for k, v := range extra {
				m[k] = v
			}
			return m
		}
		bad := ""
		apply := func(r *rep, from, to int) { // logs[from:to]
			if from >= to || bad != "" {
				return
			}
			res := r.f.ApplyBatch(logs[from:to])
			if len(res) != to-from {
				bad = fmt.Sprintf("%s: %d responses for %d logs", r.name, len(res), to-from)
				return
			}
			for i, raw := range res {
				ar, ok := raw.(*FSMApplyResponse)
				if !ok || !ar.Success {
					bad = fmt.Sprintf("%s: response %#v for the entry at index %d", r.name, raw, logs[from+i].Index)
					return
				}
				conflict := len(ar.EntrySlice) == 1 && ar.EntrySlice[0].IsTxError()
				if len(ar.EntrySlice) > 1 || (len(ar.EntrySlice) == 1 && !conflict) || (conflict && from+i != txnPos) {
					bad = fmt.Sprintf("%s: entries %v reported for the entry at index %d", r.name, ar.EntrySlice, logs[from+i].Index)
					return
				}
				if from+i == txnPos {
					r.verdict = c09VerdictName(!conflict)
				}
			}
		}
		run := func(r *rep, bs int, reopen int) {
			stop := -1
			if reopen >= -1 {
				stop = windowFirst + reopen + 1 // number of logs applied before the reopen
			}
			for p := 0; p < len(logs); {
				q := p + bs
				if q > len(logs) {
					q = len(logs)
				}
				if stop > p && stop < q {
					q = stop
				}
				apply(r, p, q)
				p = q
				if p == stop && bad == "" {
					if err := r.f.Close(); err != nil {
						rt.Fatalf("harness: close: %v", err)
					}
					f, err := NewFSM(r.dir, r.name, log.NewNullLogger())
					if err != nil {
						rt.Fatalf("harness: reopen: %v", err)
					}
					r.f = f
				}
			}
		}
		r0, r1, r2 := mk("R0"), mk("R1"), mk("R2")
		defer func() { r0.f.Close(); r1.f.Close(); r2.f.Close() }()
		run(r0, batch, -2)
		run(r1, batch, reopenAt)
		r2bs := 1
		if w > 700 {
			r2bs = 50 // thousands of single-entry bolt transactions per case would cost seconds
		}
		run(r2, r2bs, -2)
		nontrivial := w >= 1000 && confAt >= 0
		rec.Case(fmt.Sprintf("window>=1000:%v invalidated:%v", w >= 1000, confAt >= 0), nontrivial, verifx.Digest(w, list, place, confAt, batch, reopenAt, gapEvery), func() any { return detail(nil) })
		if bad != "" {
			rec.Violation(rt, "replica-differs-from-model:response", detail(nil), "%s", bad)
			return
		}
		want := c09VerdictName(wantCommit)
		for _, r := range []*rep{r0, r1, r2} {
			if r.verdict != want {
				how := "continuous replica"
				if r == r1 && reopenAt >= -1 {
					how = "replica reopened inside or before the window"
				}
				sig := "replicas-disagree:commit-where-model-says-conflict:long-window"
				if wantCommit {
					sig = "replicas-disagree:conflict-where-model-says-commit:long-window"
				}
				rec.Violation(rt, sig, detail(map[string]any{"verdicts": map[string]string{"R0": r0.verdict, "R1": r1.verdict, "R2": r2.verdict}, "reference": want}),
					"%s (%s) reached the verdict %s on the transaction logged %d entries after its start, the reference says %s (R0 %s, R1 %s, R2 %s)", r.name, how, r.verdict, w, want, r0.verdict, r1.verdict, r2.verdict)
				return
			}
		}
		var dumps [3]map[string]string
		for i, r := range []*rep{r0, r1, r2} {
			d, err := c09BusyDump(r.f)
			if err != nil {
				rt.Fatalf("harness: dump: %v", err)
			}
			dumps[i] = d
			if len(d) != len(state) {
				rec.Violation(rt, "replica-differs-from-model:state:long-window", detail(nil), "%s holds %d keys, the reference %d", r.name, len(d), len(state))
				return
			}
			for k, v := range state {
				if d[k] != string(v) {
					rec.Violation(rt, "replica-differs-from-model:state:long-window", detail(nil), "%s holds %q for %q, the reference %q", r.name, d[k], k, v)
					return
				}
			}
		}
	})
}
