//go:build verif

package raft

// C08, raft-large unit: the same statement on the live Raft backend when a transaction's commit entry does not fit into
// one Raft log entry (it is shipped in 512 KiB chunks and reassembled before the state machine sees it), and when plain
// writes between begin and commit are chunked themselves. The raft-live unit owns the FSM schedule but keeps every entry
// small; this unit is sequential (the FSM is always caught up) and varies sizes instead.

import (
	"context"
	"errors"
	"fmt"
	"sort"
	"strings"
	"testing"

	"github.com/openbao/openbao/sdk/v2/helper/verifx"
	"github.com/openbao/openbao/sdk/v2/physical"
	"pgregory.net/rapid"
)

var c08LargeSizes = []int{2, 2, 2, 300 << 10, 520 << 10, 600 << 10, 200 << 10, 900 << 10}
var c08LargeTxSizes = []int{600 << 10, 2, 520 << 10, 300 << 10, 900 << 10, 2, 300 << 10}

const c08LargeCap = 960 << 10 // keeps a commit entry below the default max_entry_size of 1 MiB

func c08LargeVal(tag byte, size int) string {
	if size < 2 {
		size = 2
	}
	return string([]byte{'V', tag}) + strings.Repeat("x", size-2)
}

func c08LargeShow(v string) string {
	if len(v) <= 8 {
		return fmt.Sprintf("%q", v)
	}
	return fmt.Sprintf("%q+%dB", v[:2], len(v)-2)
}

type c08LargeTxn struct {
	id      int
	tx      physical.Transaction
	begin   c08State
	overlay map[string]*string
	obsGet  map[string]bool
	obsList [][3]any // prefix, after, limit
	bytes   int
	open    bool
	writesSinceBegin int
}

func TestVerif_C08_RaftLarge(t *testing.T) {
	rec := verifx.NewRecorder(c08ID(), "raft-large",
		"one live single-node RaftBackend per process; per case a fresh key prefix with 4 keys in 2 directories, up to 2 overlapping read-write transactions and plain writes between their begin and commit; values are 2 B or 200/300/520/600/900 KiB (a commit entry or a plain put above 512 KiB travels through raft in chunks), a transaction's writes stay below the 1 MiB entry limit; sequential schedule (the FSM is caught up before every step); oracle per commit: for a transaction with writes, an observation (get of a key it did not write first, list page) whose answer differs between the transaction's begin state and the state at commit => Commit must fail with the commit-conflict error and nothing of it is visible; no write at all since its begin, or no write of its own => Commit must succeed; otherwise either answer, judged by the state: after every commit all keys are read back (get and list) and must equal the model with the transaction's writes applied iff Commit returned nil; reads inside a transaction = begin state + own writes; non-trivial = a commit whose written values exceed 512 KiB")
	defer rec.Flush()
	env := c08NewEnv(t)
	ctx := context.Background()
	caseNo := 0
	rapid.Check(t, func(rt *rapid.T) {
		caseNo++
		// every case leaves megabytes in the raft log store, which lives in memory (/dev/shm); a fresh backend every
		// 256 MiB keeps a long run's footprint flat (seen: 2.4 GB per shard x 16 shards in the thorough tier)
		if env.written > 256<<20 {
			env.shut()
			env = c08NewEnv(t)
		}
		b := env.b
		prefix := fmt.Sprintf("L%d-%d/", caseNo, rapid.IntRange(0, 1<<30).Draw(rt, "salt"))
		keys := []string{"a/k0", "a/k1", "b/k2", "k3"}
		model := c08State{}
		var trace []string
		tr := func(f string, a ...any) { trace = append(trace, fmt.Sprintf(f, a...)) }
		detail := func() any { return map[string]any{"trace": trace} }
		tag := byte('a')
		nextVal := func(size int) string { tag++; if tag > 'z' { tag = 'a' }; return c08LargeVal(tag, size) }
		var open []*c08LargeTxn
		chunkedCommits, chunkedConflicts, commits, conflicts := 0, 0, 0, 0
		defer func() {
			for _, x := range open {
				if x.open {
					_ = x.tx.Rollback(ctx)
				}
			}
			for _, k := range keys {
				_ = b.Delete(ctx, prefix+k)
			}
		}()
		modelList := func(s c08State, dir, after string, limit int) []string {
			pm := c08State{}
			for k, v := range s {
				pm[prefix+k] = v
			}
			return c08ModelList(pm, prefix+dir, after, limit)
		}
		checkState := func(when string) {
			for _, k := range keys {
				e, err := b.Get(ctx, prefix+k)
				if err != nil {
					rt.Fatalf("harness: get: %v", err)
				}
				want, ok := model[k]
				if (e != nil) != ok || (e != nil && string(e.Value) != want) {
					got := "nothing"
					if e != nil {
						got = c08LargeShow(string(e.Value))
					}
					w := "nothing"
					if ok {
						w = c08LargeShow(want)
					}
					rec.Violation(rt, "committed-state-mismatch", detail(), "%s: key %s holds %s, the committed history gives %s", when, k, got, w)
				}
			}
			for _, dir := range []string{"", "a/", "b/"} {
				got, err := b.List(ctx, prefix+dir)
				if err != nil {
					rt.Fatalf("harness: list: %v", err)
				}
				want := modelList(model, dir, "", 0)
				sort.Strings(got)
				if fmt.Sprint(got) != fmt.Sprint(want) {
					rec.Violation(rt, "committed-state-mismatch", detail(), "%s: list(%q) = %v, the committed history gives %v", when, dir, got, want)
				}
			}
		}
		noteWrite := func() {
			for _, x := range open {
				if x.open {
					x.writesSinceBegin++
				}
			}
		}
		steps := rapid.IntRange(3, 20).Draw(rt, "steps")
		nextID := 0
		for s := 0; s < steps; s++ {
			var live []*c08LargeTxn
			for _, x := range open {
				if x.open {
					live = append(live, x)
				}
			}
			kinds := []string{"put", "begin", "delete"}
			if len(live) > 0 {
				kinds = []string{"txput", "txget", "commit", "put", "txput", "txlist", "commit", "txdelete", "delete", "begin", "rollback"}
			}
			if len(live) >= 2 {
				kinds = kinds[:len(kinds)-2]
				kinds = append(kinds, "rollback")
			}
			kind := kinds[rapid.IntRange(0, len(kinds)-1).Draw(rt, "kind")]
			var x *c08LargeTxn
			if len(live) > 0 {
				x = live[rapid.IntRange(0, len(live)-1).Draw(rt, "slot")]
			}
			k := keys[rapid.IntRange(0, len(keys)-1).Draw(rt, "key")]
			switch kind {
			case "put":
				v := nextVal(c08LargeSizes[rapid.IntRange(0, len(c08LargeSizes)-1).Draw(rt, "size")])
				env.written += int64(len(v))
				if err := b.Put(ctx, &physical.Entry{Key: prefix + k, Value: []byte(v)}); err != nil {
					rec.Violation(rt, "plain-write-error", detail(), "put %s=%s: %v", k, c08LargeShow(v), err)
				}
				model[k] = v
				noteWrite()
				tr("put %s=%s", k, c08LargeShow(v))
			case "delete":
				if err := b.Delete(ctx, prefix+k); err != nil {
					rec.Violation(rt, "plain-write-error", detail(), "delete %s: %v", k, err)
				}
				delete(model, k)
				noteWrite()
				tr("delete %s", k)
			case "begin":
				tx, err := b.BeginTx(ctx)
				if err != nil {
					rt.Fatalf("harness: begin: %v", err)
				}
				nextID++
				open = append(open, &c08LargeTxn{id: nextID, tx: tx, begin: model.clone(), overlay: map[string]*string{}, obsGet: map[string]bool{}, open: true})
				tr("T%d begin", nextID)
			case "txput":
				size := c08LargeTxSizes[rapid.IntRange(0, len(c08LargeTxSizes)-1).Draw(rt, "size")]
				if x.bytes+size > c08LargeCap {
					size = 2
				}
				v := nextVal(size)
				if err := x.tx.Put(ctx, &physical.Entry{Key: prefix + k, Value: []byte(v)}); err != nil {
					rec.Violation(rt, "txn-write-error", detail(), "T%d put %s=%s: %v", x.id, k, c08LargeShow(v), err)
				}
				x.overlay[k] = &v
				x.bytes += size
				tr("T%d put %s=%s", x.id, k, c08LargeShow(v))
			case "txdelete":
				if err := x.tx.Delete(ctx, prefix+k); err != nil {
					rec.Violation(rt, "txn-write-error", detail(), "T%d delete %s: %v", x.id, k, err)
				}
				x.overlay[k] = nil
				tr("T%d delete %s", x.id, k)
			case "txget":
				e, err := x.tx.Get(ctx, prefix+k)
				if err != nil {
					rec.Violation(rt, "txn-get-error", detail(), "T%d get %s: %v", x.id, k, err)
				}
				view := c08Overlay(x.begin.clone(), x.overlay)
				want, ok := view[k]
				got := "nothing"
				if e != nil {
					got = c08LargeShow(string(e.Value))
				}
				tr("T%d get %s -> %s", x.id, k, got)
				if (e != nil) != ok || (e != nil && string(e.Value) != want) {
					rec.Violation(rt, "txn-read-differs-from-start-snapshot", detail(), "T%d get %s returned %s; its begin state with its own writes holds %v/%s", x.id, k, got, ok, c08LargeShow(want))
				}
				if _, own := x.overlay[k]; !own {
					x.obsGet[k] = true
				}
			case "txlist":
				dir := []string{"", "a/", "b/"}[rapid.IntRange(0, 2).Draw(rt, "dir")]
				got, err := x.tx.List(ctx, prefix+dir)
				if err != nil {
					rec.Violation(rt, "txn-list-error", detail(), "T%d list %q: %v", x.id, dir, err)
				}
				sort.Strings(got)
				want := modelList(c08Overlay(x.begin.clone(), x.overlay), dir, "", 0)
				tr("T%d list %q -> %v", x.id, dir, got)
				if fmt.Sprint(got) != fmt.Sprint(want) {
					rec.Violation(rt, "txn-read-differs-from-start-snapshot", detail(), "T%d list %q = %v; its begin state with its own writes gives %v", x.id, dir, got, want)
				}
				x.obsList = append(x.obsList, [3]any{dir, "", 0})
			case "rollback":
				if err := x.tx.Rollback(ctx); err != nil {
					rec.Violation(rt, "rollback-error", detail(), "T%d rollback: %v", x.id, err)
				}
				x.open = false
				tr("T%d rollback", x.id)
				checkState(fmt.Sprintf("after T%d rollback", x.id))
			case "commit":
				mustFail, why := false, ""
				for ok := range x.obsGet {
					bv, bok := x.begin[ok]
					cv, cok := model[ok]
					if bok != cok || bv != cv {
						mustFail, why = true, "get "+ok
					}
				}
				for _, l := range x.obsList {
					dir := l[0].(string)
					if fmt.Sprint(modelList(x.begin, dir, "", 0)) != fmt.Sprint(modelList(model, dir, "", 0)) {
						mustFail, why = true, fmt.Sprintf("list %q", dir)
					}
				}
				if len(x.overlay) == 0 {
					// a write-free transaction is serialisable at its begin whatever happened since; it has no entry to verify
					mustFail = false
				}
				mustSucceed := x.writesSinceBegin == 0 || len(x.overlay) == 0
				env.written += int64(x.bytes)
				err := x.tx.Commit(ctx)
				x.open = false
				chunked := x.bytes > 512<<10
				tr("T%d commit (%d KiB written) -> %v", x.id, x.bytes>>10, err)
				if err == nil {
					commits++
					if chunked {
						chunkedCommits++
					}
					if mustFail {
						rec.Violation(rt, "commit-accepted-although-observation-changed", detail(), "T%d observed %s, which has changed since its begin, and wrote %d KiB; Commit returned nil", x.id, why, x.bytes>>10)
					}
					if len(x.overlay) > 0 {
						for wk, wv := range x.overlay {
							if wv == nil {
								delete(model, wk)
							} else {
								model[wk] = *wv
							}
						}
						noteWrite()
					}
				} else {
					conflicts++
					if chunked {
						chunkedConflicts++
					}
					if !errors.Is(err, physical.ErrTransactionCommitFailure) {
						rec.Violation(rt, "commit-error-not-a-conflict", detail(), "T%d Commit returned %v, which is not the commit-conflict error", x.id, err)
					}
					if mustSucceed {
						rec.Violation(rt, "conflict-without-concurrent-write", detail(), "T%d: nothing was written since its begin, Commit returned %v", x.id, err)
					}
				}
				checkState(fmt.Sprintf("after T%d commit -> %v", x.id, err))
			}
		}
		checkState("end of case")
		rec.Case(fmt.Sprintf("commits=%d conflicts=%d", min(commits, 2), min(conflicts, 2)), chunkedCommits+chunkedConflicts > 0, verifx.Digest(trace), detail)
		if chunkedCommits > 0 {
			rec.Class("chunked-commit-accepted", 1)
		}
		if chunkedConflicts > 0 {
			rec.Class("chunked-commit-refused", 1)
		}
	})
}
