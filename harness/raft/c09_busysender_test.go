//go:build verif

package raft

// C09, busy sender: a replica is initialised from a snapshot that is opened on a sender whose state machine keeps
// applying committed entries (a leader does not stop serving writes because a follower needs a snapshot), and is then
// sent every log entry after the index the snapshot was announced with, as the leader's replication does. The other
// snapshot units take their snapshots from an idle sender.
//
// The schedule "an ApplyBatch completes on the sender while the snapshot is being opened" is reached without a hook:
// the harness goroutine that applies the concurrent entries waits until bolt reports an open read transaction on the
// sender's database (the snapshot's view) and then applies; whether it got there in time is measured per case
// (class "applied-inside-open") and only such cases count as non-trivial.

import (
	"fmt"
	"io"
	"os"
	"path/filepath"
	"runtime"
	"sort"
	"sync/atomic"
	"testing"
	"time"

	log "github.com/hashicorp/go-hclog"
	"github.com/hashicorp/raft"
	"github.com/openbao/openbao/sdk/v2/helper/verifx"
	bolt "go.etcd.io/bbolt"
	"google.golang.org/protobuf/proto"
	"pgregory.net/rapid"
)

type c09BusyOp struct {
	Del bool
	Key string
	Val string
}

func c09BusyDump(f *FSM) (map[string]string, error) {
	out := map[string]string{}
	err := f.db.View(func(tx *bolt.Tx) error {
		return tx.Bucket(dataBucketName).ForEach(func(k, v []byte) error {
			out[string(k)] = string(v)
			return nil
		})
	})
	return out, err
}

func TestVerif_C09_BusySender(t *testing.T) {
	rec := verifx.NewRecorder("C09", "snapshot-busy-sender",
		"one sender FSM per process holding 12000-40000 keys (so that scanning it takes a measurable time) and a model of its contents; per case: 1-6 generated plain entries (puts of new keys, overwrites, deletes of existing keys) in 1-3 batches are applied to the sender by a second goroutine as soon as bolt reports the snapshot's read transaction open, while the test goroutine opens the sender's snapshot (BoltSnapshotStore.Open), ships it into a fresh follower (Create / Write / Close / Open / FSM.Restore) and then applies to the follower every entry after the index the snapshot was announced with; oracle: the follower's latest index equals the announced index after the install, and after the catch-up follower, sender and model hold the same keys and values at the same index; non-trivial = the sender's index moved between the start and the return of Open (an entry was applied inside the window)")
	defer rec.Flush()
	base := os.Getenv("VERIF_SCRATCH")
	if base == "" {
		if st, err := os.Stat("/dev/shm"); err == nil && st.IsDir() {
			base = "/dev/shm"
		}
	}
	root, err := os.MkdirTemp(base, "verif-c09-busy-")
	if err != nil {
		t.Fatalf("harness: %v", err)
	}
	defer os.RemoveAll(root)
	lg := log.NewNullLogger()
	dirA := filepath.Join(root, "a")
	_ = os.MkdirAll(dirA, 0o700)
	a, err := NewFSM(dirA, "a", lg)
	if err != nil {
		t.Fatalf("harness: %v", err)
	}
	defer a.Close()
	storeA, err := NewBoltSnapshotStore(dirA, lg, a)
	if err != nil {
		t.Fatalf("harness: %v", err)
	}
	idx := uint64(0)
	var logs []*raft.Log // the committed log (only the entries after the fill are kept)
	mk := func(op c09BusyOp) *raft.Log {
		idx++
		o := &LogOperation{OpType: putOp, Key: op.Key, Value: []byte(op.Val)}
		if op.Del {
			o = &LogOperation{OpType: deleteOp, Key: op.Key}
		}
		raw, err := proto.Marshal(&LogData{Operations: []*LogOperation{o}})
		if err != nil {
			t.Fatalf("harness: %v", err)
		}
		return &raft.Log{Index: idx, Term: 1, Type: raft.LogCommand, Data: raw}
	}
	applyTo := func(f *FSM, ls []*raft.Log) bool {
		for _, r := range f.ApplyBatch(ls) {
			if e, ok := r.(*FSMApplyResponse); ok && !e.Success {
				return false
			}
		}
		return true
	}
	model := map[string]string{}
	nfill := 12000
	if os.Getenv("VERIF_TIER") == "thorough" {
		nfill = 40000
	}
	filler := fmt.Sprintf("%0200d", 7)
	var batch []*raft.Log
	for i := 0; i < nfill; i++ {
		op := c09BusyOp{Key: fmt.Sprintf("app/key-%06d", i), Val: fmt.Sprintf("v%d-%s", i, filler)}
		model[op.Key] = op.Val
		batch = append(batch, mk(op))
		if len(batch) == 500 || i == nfill-1 {
			if !applyTo(a, batch) {
				t.Fatalf("harness: fill failed")
			}
			batch = batch[:0]
		}
	}
	fresh := 0
	caseNo := 0
	rapid.Check(t, func(rt *rapid.T) {
		caseNo++
		n := rapid.IntRange(1, 6).Draw(rt, "entries")
		var ops []c09BusyOp
		for i := 0; i < n; i++ {
			switch rapid.IntRange(0, 3).Draw(rt, "kind") {
			case 0, 1:
				fresh++
				// new keys sort before, inside and after the filled range
				pfx := []string{"aaa/", "app/key-0050", "zzz/"}[rapid.IntRange(0, 2).Draw(rt, "where")]
				ops = append(ops, c09BusyOp{Key: fmt.Sprintf("%sn%d", pfx, fresh), Val: fmt.Sprintf("live-%d", fresh)})
			case 2:
				fresh++
				ops = append(ops, c09BusyOp{Key: fmt.Sprintf("app/key-%06d", rapid.IntRange(0, nfill-1).Draw(rt, "overwritten")), Val: fmt.Sprintf("rewritten-%d", fresh)})
			default:
				ops = append(ops, c09BusyOp{Del: true, Key: fmt.Sprintf("app/key-%06d", rapid.IntRange(0, nfill-1).Draw(rt, "deleted"))})
			}
		}
		nb := rapid.IntRange(1, 3).Draw(rt, "batches")
		followerHasPrefix := rapid.Bool().Draw(rt, "followerAppliedSomethingBefore")
		var these []*raft.Log
		for _, op := range ops {
			these = append(these, mk(op))
		}
		logs = append(logs, these...)
		before, _ := a.LatestState()

		dirB := filepath.Join(root, fmt.Sprintf("b%d", caseNo))
		_ = os.MkdirAll(dirB, 0o700)
		defer os.RemoveAll(dirB)
		b, err := NewFSM(dirB, "b", lg)
		if err != nil {
			rt.Fatalf("harness: %v", err)
		}
		defer b.Close()
		if followerHasPrefix {
			raw, _ := proto.Marshal(&LogData{Operations: []*LogOperation{{OpType: putOp, Key: "app/key-000000", Value: []byte("old")}}})
			applyTo(b, []*raft.Log{{Index: 1, Term: 1, Type: raft.LogCommand, Data: raw}})
		}
		storeB, err := NewBoltSnapshotStore(dirB, lg, b)
		if err != nil {
			rt.Fatalf("harness: %v", err)
		}

		var sawOpen atomic.Bool
		applied := make(chan bool, 1)
		go func() {
			deadline := time.Now().Add(20 * time.Second)
			for a.db.Stats().OpenTxN < 1 && time.Now().Before(deadline) {
				runtime.Gosched()
			}
			sawOpen.Store(a.db.Stats().OpenTxN >= 1)
			ok := true
			per := (len(these) + nb - 1) / nb
			for i := 0; i < len(these); i += per {
				j := i + per
				if j > len(these) {
					j = len(these)
				}
				ok = applyTo(a, these[i:j]) && ok
			}
			applied <- ok
		}()
		meta, stream, err := storeA.Open(boltSnapshotID)
		atReturn, _ := a.LatestState()
		if err != nil {
			<-applied
			rt.Fatalf("harness: open snapshot: %v", err)
		}
		detail := func(extra map[string]any) map[string]any {
			m := map[string]any{"case": caseNo, "entries_applied_during_the_snapshot": fmt.Sprint(ops), "batches": nb, "sender_index_before_open": before.Index,
				"sender_index_when_open_returned": atReturn.Index, "announced_index": meta.Index}
			for k, v := range extra {
				m[k] = v
			}
			return m
		}
		sink, err := storeB.Create(raft.SnapshotVersionMax, meta.Index, meta.Term, meta.Configuration, meta.ConfigurationIndex, nil)
		if err != nil {
			stream.Close()
			<-applied
			rt.Fatalf("harness: sink: %v", err)
		}
		nbytes, err := io.Copy(sink, stream)
		stream.Close()
		okApplied := <-applied
		if !okApplied {
			rt.Fatalf("harness: concurrent apply failed")
		}
		for _, op := range ops {
			if op.Del {
				delete(model, op.Key)
			} else {
				model[op.Key] = op.Val
			}
		}
		inside := atReturn.Index > before.Index
		cls := "applied-after-open-returned"
		if inside {
			cls = "applied-inside-open"
		}
		rec.Case(cls, inside, verifx.Digest(fmt.Sprint(ops), nb, followerHasPrefix), func() any { return detail(nil) })
		if err != nil || nbytes != meta.Size {
			sink.Cancel()
			rec.Violation(rt, "snapshot-stream-broken", detail(nil), "snapshot stream: %d bytes of %d, error %v", nbytes, meta.Size, err)
			return
		}
		if err := sink.Close(); err != nil {
			rt.Fatalf("harness: sink close: %v", err)
		}
		_, installer, err := storeB.Open(sink.ID())
		if err != nil {
			rt.Fatalf("harness: follower open: %v", err)
		}
		err = b.Restore(installer)
		installer.Close()
		if err != nil {
			rec.Violation(rt, "snapshot-install-failed", detail(nil), "FSM.Restore: %v", err)
			return
		}
		if li, _ := b.LatestState(); li.Index != meta.Index {
			rec.Violation(rt, "follower-index-differs-from-announced-index", detail(map[string]any{"follower_index": li.Index}), "after the install the follower is at index %d, the snapshot was announced at %d", li.Index, meta.Index)
			return
		}
		if meta.Index < before.Index || meta.Index > idx {
			rec.Violation(rt, "announced-index-outside-the-log", detail(nil), "announced index %d, sender was at %d when Open started and the log ends at %d", meta.Index, before.Index, idx)
			return
		}
		var catchUp []*raft.Log
		for _, l := range logs {
			if l.Index > meta.Index {
				catchUp = append(catchUp, l)
			}
		}
		if len(catchUp) > 0 && !applyTo(b, catchUp) {
			rt.Fatalf("harness: catch-up failed")
		}
		la, _ := a.LatestState()
		lb, _ := b.LatestState()
		sa, err1 := c09BusyDump(a)
		sb, err2 := c09BusyDump(b)
		if err1 != nil || err2 != nil {
			rt.Fatalf("harness: dump: %v %v", err1, err2)
		}
		diff := func(x, y map[string]string, nx, ny string) []string {
			var out []string
			for k, v := range x {
				if w, ok := y[k]; !ok {
					out = append(out, fmt.Sprintf("%q: %s has %.24q, %s has nothing", k, nx, v, ny))
				} else if w != v {
					out = append(out, fmt.Sprintf("%q: %s has %.24q, %s has %.24q", k, nx, v, ny, w))
				}
			}
			for k, w := range y {
				if _, ok := x[k]; !ok {
					out = append(out, fmt.Sprintf("%q: %s has nothing, %s has %.24q", k, nx, ny, w))
				}
			}
			sort.Strings(out)
			if len(out) > 8 {
				out = out[:8]
			}
			return out
		}
		if d := diff(model, sa, "the log", "the sender"); len(d) > 0 || la.Index != idx {
			rec.Violation(rt, "sender-differs-from-its-log", detail(map[string]any{"differences": d}), "the sender (index %d, log ends at %d) differs from what its log says: %v", la.Index, idx, d)
			return
		}
		if d := diff(sa, sb, "the replica that applied the log", "the replica initialised from its snapshot"); len(d) > 0 || lb.Index != la.Index {
			rec.Violation(rt, "snapshot-replica-differs-from-log-replica:busy-sender", detail(map[string]any{"differences": d, "caught_up_with": len(catchUp), "follower_index": lb.Index, "applied_inside_open": inside, "goroutine_saw_read_transaction": sawOpen.Load()}),
				"both replicas are at index %d / %d (the follower from a snapshot announced at index %d plus the %d later entries); they differ: %v", la.Index, lb.Index, meta.Index, len(catchUp), d)
		}
		// keep the kept log short: entries below every index a later snapshot can announce are never needed again
		if len(logs) > 64 {
			logs = append([]*raft.Log(nil), logs[len(logs)-16:]...)
		}
	})
}
