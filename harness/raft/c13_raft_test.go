//go:build verif

package raft

// C13b — RaftBackend / RaftTransaction listings against the sorted-map listing model.
//
// One live single-node RaftBackend per test process. Every case wipes the store, then runs a generated sequence:
// committed puts/deletes (through the raft log), transactions (read-write with pending puts/deletes, or
// read-only), List/ListPage/Get inside the transaction — expected result = model(committed snapshot at begin
// overlaid with the transaction's own pending writes) — and plain List/ListPage — expected = model(committed).
// Transactions end by rollback or commit (no concurrent writer exists, so a commit must succeed and the
// committed state must become snapshot+pending writes).

import (
	"bytes"
	"context"
	"errors"
	"fmt"
	"os"
	"path/filepath"
	"sort"
	"strings"
	"testing"
	"time"

	"github.com/hashicorp/go-hclog"
	"github.com/openbao/openbao/sdk/v2/helper/verifx"
	"github.com/openbao/openbao/sdk/v2/physical"
	"pgregory.net/rapid"
)

// ---- reference listing model (same definition as harness/storagex/model_test.go; written from the interface documentation)

func c13Entries(keys []string, prefix string) []string {
	set := map[string]struct{}{}
	for _, k := range keys {
		if len(k) < len(prefix) || k[:len(prefix)] != prefix {
			continue
		}
		rest := k[len(prefix):]
		child := rest
		for i := 0; i < len(rest); i++ {
			if rest[i] == '/' {
				child = rest[:i+1]
				break
			}
		}
		set[child] = struct{}{}
	}
	out := make([]string, 0, len(set))
	for c := range set {
		out = append(out, c)
	}
	sort.Strings(out)
	return out
}

func c13ListPage(keys []string, prefix, after string, limit int) []string {
	var res []string
	for _, e := range c13Entries(keys, prefix) {
		if after == "" || e > after {
			res = append(res, e)
		}
	}
	if limit > 0 && len(res) > limit {
		res = res[:limit]
	}
	return res
}

func c13EqList(a, b []string) bool {
	if len(a) != len(b) {
		return false
	}
	for i := range a {
		if a[i] != b[i] {
			return false
		}
	}
	return true
}

func c13Keys(m map[string][]byte) []string {
	ks := make([]string, 0, len(m))
	for k := range m {
		ks = append(ks, k)
	}
	sort.Strings(ks)
	return ks
}

func c13QL(l []string) string {
	parts := make([]string, len(l))
	for i, s := range l {
		if len(s) > 48 {
			parts[i] = fmt.Sprintf("%q..(%d bytes)", s[:24], len(s))
		} else {
			parts[i] = fmt.Sprintf("%q", s)
		}
	}
	return "[" + strings.Join(parts, " ") + "]"
}

// c13AfterCleaned: does filepath.Join(prefix, after) — the position both raft listings seek to — differ from
// prefix+after by more than a dropped trailing slash (which only moves the seek position backwards)?
func c13AfterCleaned(prefix, after string) bool {
	if after == "" {
		return false
	}
	raw := prefix + after
	return filepath.Clean(raw) != strings.TrimSuffix(raw, "/")
}

// ---- live backend

func c13StartRaft(t *testing.T) (*RaftBackend, func()) {
	dir, err := os.MkdirTemp("", "verif-c13raft-")
	if err != nil {
		t.Fatalf("harness: %v", err)
	}
	conf := map[string]string{
		"path": dir, "trailing_logs": "100", "node_id": "c13-node", "performance_multiplier": "1",
		"doNotStoreLatestState": "",
	}
	raw, err := NewRaftBackend(conf, hclog.NewNullLogger())
	if err != nil {
		os.RemoveAll(dir)
		t.Fatalf("harness: NewRaftBackend: %v", err)
	}
	b := raw.(*RaftBackend)
	stop := func() {
		_ = b.TeardownCluster(nil)
		_ = b.Close()
		os.RemoveAll(dir)
	}
	if err := b.Bootstrap([]Peer{{ID: b.NodeID(), Address: b.NodeID()}}); err != nil {
		stop()
		t.Fatalf("harness: bootstrap: %v", err)
	}
	if err := b.SetupCluster(context.Background(), SetupOpts{}); err != nil {
		stop()
		t.Fatalf("harness: SetupCluster: %v", err)
	}
	deadline := time.Now().Add(60 * time.Second)
	for b.raft.AppliedIndex() < 2 {
		if time.Now().After(deadline) {
			stop()
			t.Fatalf("harness: single-node raft did not become leader within 60s")
		}
		time.Sleep(5 * time.Millisecond)
	}
	b.DisableAutopilot()
	return b, stop
}

func c13DumpBackend(ctx context.Context, b physical.Backend) (map[string][]byte, error) {
	out := map[string][]byte{}
	var walk func(prefix string, depth int) error
	walk = func(prefix string, depth int) error {
		if depth > 40 {
			return fmt.Errorf("recursion too deep at %q", prefix)
		}
		ks, err := b.List(ctx, prefix)
		if err != nil {
			return err
		}
		for _, k := range ks {
			if strings.HasSuffix(k, "/") {
				if err := walk(prefix+k, depth+1); err != nil {
					return err
				}
				continue
			}
			e, err := b.Get(ctx, prefix+k)
			if err != nil {
				return err
			}
			if e == nil {
				return fmt.Errorf("listed entry %q of %q has no value", k, prefix)
			}
			out[prefix+k] = e.Value
		}
		return nil
	}
	return out, walk("", 0)
}

// ---- generator

var (
	c13CoreSegs   = []string{"a", "b", "a-", "a.", "a0", "ab", "é", "x0", "y"}
	c13ExoticSegs = []string{" ", "A", "~", "日本語", "a..b", ".a", "_a", "-", "0", "..", ".", "n\x00u", "😀", strings.Repeat("M", 300), "foo", "foo-bar", "foo0"}
	c13FixedAfter = []string{".", "..", "a/", "a/b", "x/../y", "a/..", "./a", "a//b", "/", "~", "\xff", "a\x00", "a/./b", "../a", "0"}
)

func c13GenSeg(rt *rapid.T) string {
	if rapid.IntRange(0, 7).Draw(rt, "segKind") == 7 {
		return rapid.SampledFrom(c13ExoticSegs).Draw(rt, "xseg")
	}
	return rapid.SampledFrom(c13CoreSegs).Draw(rt, "seg")
}

func c13GenFresh(rt *rapid.T) string {
	n := rapid.IntRange(1, 3).Draw(rt, "depth")
	parts := make([]string, n)
	for i := range parts {
		parts[i] = c13GenSeg(rt)
	}
	return strings.Join(parts, "/")
}

func c13GenKey(rt *rapid.T, keys []string) string {
	mode := rapid.IntRange(0, 11).Draw(rt, "keyMode")
	if len(keys) == 0 && mode < 6 {
		mode = 7
	}
	pick := func() string { return keys[rapid.IntRange(0, len(keys)-1).Draw(rt, "k")] }
	switch {
	case mode <= 2:
		return pick()
	case mode == 3: // child of an existing key
		return strings.TrimSuffix(pick(), "/") + "/" + c13GenSeg(rt)
	case mode == 4: // ancestor directory of an existing key as a key
		k := strings.TrimSuffix(pick(), "/")
		if i := strings.LastIndex(k, "/"); i > 0 {
			return k[:i]
		}
		return k
	case mode == 5: // sibling
		k := strings.TrimSuffix(pick(), "/")
		if i := strings.LastIndex(k, "/"); i >= 0 {
			return k[:i+1] + c13GenSeg(rt)
		}
		return c13GenSeg(rt)
	case mode == 6: // trailing-slash key
		if rapid.IntRange(0, 3).Draw(rt, "ts") == 0 {
			return c13GenFresh(rt) + "/"
		}
		return c13GenFresh(rt)
	default:
		return c13GenFresh(rt)
	}
}

func c13GenPrefix(rt *rapid.T, keys []string) string {
	mode := rapid.IntRange(0, 9).Draw(rt, "prefixMode")
	switch {
	case mode <= 2:
		return ""
	case mode <= 7 && len(keys) > 0:
		k := keys[rapid.IntRange(0, len(keys)-1).Draw(rt, "pk")]
		var cuts []int
		for i := 0; i < len(k); i++ {
			if k[i] == '/' {
				cuts = append(cuts, i+1)
			}
		}
		c := rapid.IntRange(0, len(cuts)).Draw(rt, "cut")
		if c == len(cuts) {
			if strings.HasSuffix(k, "/") {
				return k
			}
			return k + "/"
		}
		return k[:cuts[c]]
	default:
		return c13GenFresh(rt) + "/"
	}
}

func c13GenAfter(rt *rapid.T, entries []string) string {
	mode := rapid.IntRange(0, 9).Draw(rt, "afterMode")
	switch {
	case mode == 0:
		return ""
	case mode <= 4 && len(entries) > 0:
		e := entries[rapid.IntRange(0, len(entries)-1).Draw(rt, "ae")]
		switch rapid.IntRange(0, 5).Draw(rt, "aeVar") {
		case 0:
			return strings.TrimSuffix(e, "/")
		case 1:
			if len(e) > 1 {
				return e[:len(e)-1]
			}
			return e
		case 2:
			return e + "\x00"
		case 3:
			return e + "/"
		default:
			return e
		}
	case mode <= 6:
		return rapid.SampledFrom(c13FixedAfter).Draw(rt, "fixedAfter")
	case mode == 7:
		j := rapid.SampledFrom([]string{"/../", "/./", "//", "/"}).Draw(rt, "joiner")
		return c13GenSeg(rt) + j + c13GenSeg(rt)
	default:
		return c13GenSeg(rt)
	}
}

type c13Txn struct {
	tx       physical.Transaction
	ro       bool
	snapshot map[string][]byte // committed state at begin
	overlay  map[string][]byte // pending writes; nil value = pending delete
}

// view = snapshot overlaid with the pending writes.
func (x *c13Txn) view() map[string][]byte {
	m := make(map[string][]byte, len(x.snapshot)+len(x.overlay))
	for k, v := range x.snapshot {
		m[k] = v
	}
	for k, v := range x.overlay {
		if v == nil {
			delete(m, k)
		} else {
			m[k] = v
		}
	}
	return m
}

func TestVerif_C13_RaftListing(t *testing.T) {
	rec := verifx.NewRecorder("C13", "raft-listing",
		"live single-node RaftBackend, wiped per case; generated sequences of committed puts/deletes, read-write transactions with pending puts/deletes "+
			"(and read-only ones), List/ListPage/Get inside the transaction vs model(snapshot+pending writes), plain List/ListPage vs model(committed), "+
			"commit/rollback; keys nested/shared prefixes/key-is-prefix/trailing slash/unicode/NUL/high bytes/300 bytes; after in {\"\", existing entry and near misses, "+
			"\".\", \"..\", \"a/\", \"a/b\", \"x/../y\", seg+{/../,/./,//,/}+seg, ...}, limit in {<0,0,1,2,3,2^30}; non-trivial = a listing inside a transaction with at least one "+
			"pending write under the listed prefix and (after!=\"\" or limit>0)")
	defer rec.Flush()
	b, stop := c13StartRaft(t)
	defer stop()
	ctx := context.Background()

	rapid.Check(t, func(rt *rapid.T) {
		// wipe what the previous case left
		old, err := c13DumpBackend(ctx, b)
		if err != nil {
			rt.Fatalf("harness: dump before case: %v", err)
		}
		for k := range old {
			if err := b.Delete(ctx, k); err != nil {
				rt.Fatalf("harness: wipe %q: %v", k, err)
			}
		}
		committed := map[string][]byte{}
		var open *c13Txn
		defer func() {
			if open != nil {
				_ = open.tx.Rollback(ctx)
			}
		}()
		var hist []string
		logf := func(f string, a ...any) { hist = append(hist, fmt.Sprintf(f, a...)) }
		detail := func() any {
			h := hist
			if len(h) > 60 {
				h = h[len(h)-60:]
			}
			return map[string]any{"history": h, "committed": c13QL(c13Keys(committed))}
		}
		nontrivial := false
		feats := map[string]bool{}
		genVal := func() []byte {
			if rapid.IntRange(0, 9).Draw(rt, "emptyVal") == 0 {
				return []byte{}
			}
			return rapid.SliceOfN(rapid.Byte(), 1, 6).Draw(rt, "val")
		}
		basePut := func(rt *rapid.T) {
			if open != nil {
				rt.Skip("transaction open")
			}
			k := c13GenKey(rt, c13Keys(committed))
			v := genVal()
			err := b.Put(ctx, &physical.Entry{Key: k, Value: v})
			logf("put %q=%x -> %v", k, v, err)
			if err != nil {
				rec.Violation(rt, "raft-put-error", detail(), "Put(%q) failed: %v", k, err)
				return
			}
			committed[k] = v
		}
		for i, n := 0, rapid.IntRange(0, 6).Draw(rt, "initialPuts"); i < n; i++ {
			basePut(rt)
		}
		checkList := func(where string, keys []string, p, after string, limit int, got []string, inTxn bool) {
			want := c13ListPage(keys, p, after, limit)
			if c13EqList(got, want) {
				return
			}
			cleaned := c13AfterCleaned(p, after)
			sig := "raft-listing-mismatch-" + where
			if cleaned {
				// both raft listings seek to filepath.Join(prefix, after); when Join rewrites the string (".", "..", "//", "/./",
				// "x/../y") the seek position is no longer prefix+after (DESIGN F4)
				if inTxn {
					sig = "raft-listpage-after-cleaned-txn"
				} else {
					sig = "raft-listpage-after-cleaned-fsm"
				}
			}
			if inTxn && !cleaned && open != nil && open.overlay[p] != nil && p != "" {
				// a pending put of the key that equals the listed prefix (a trailing-slash key) must show up as entry "";
				// is the listing exactly what the model gives without that pending key?
				var without []string
				for _, k := range keys {
					if k != p {
						without = append(without, k)
					}
				}
				if _, wasCommitted := open.snapshot[p]; !wasCommitted && c13EqList(got, c13ListPage(without, p, after, limit)) {
					sig = "raft-txn-list-misses-pending-empty-entry"
				}
			}
			rec.Violation(rt, sig, detail(), "%s ListPage(%q, after=%q, limit=%d) = %s, model %s (keys %s)", where, p, after, limit, c13QL(got), c13QL(want), c13QL(keys))
		}
		acts := map[string]func(*rapid.T){
			"basePut":  basePut,
			"basePut2": basePut,
			"baseDelete": func(rt *rapid.T) {
				if open != nil {
					rt.Skip("transaction open")
				}
				k := c13GenKey(rt, c13Keys(committed))
				err := b.Delete(ctx, k)
				logf("delete %q -> %v", k, err)
				if err != nil {
					rec.Violation(rt, "raft-delete-error", detail(), "Delete(%q) failed: %v", k, err)
					return
				}
				delete(committed, k)
			},
			"begin": func(rt *rapid.T) {
				if open != nil {
					rt.Skip("transaction open")
				}
				ro := rapid.IntRange(0, 4).Draw(rt, "readOnly") == 0
				var tx physical.Transaction
				var err error
				if ro {
					tx, err = b.BeginReadOnlyTx(ctx)
				} else {
					tx, err = b.BeginTx(ctx)
				}
				if err != nil {
					rt.Fatalf("harness: begin: %v", err)
				}
				snap := make(map[string][]byte, len(committed))
				for k, v := range committed {
					snap[k] = v
				}
				open = &c13Txn{tx: tx, ro: ro, snapshot: snap, overlay: map[string][]byte{}}
				logf("begin ro=%v", ro)
			},
			"txPut": func(rt *rapid.T) {
				if open == nil {
					rt.Skip("no transaction")
				}
				k := c13GenKey(rt, c13Keys(open.view()))
				v := genVal()
				err := open.tx.Put(ctx, &physical.Entry{Key: k, Value: v})
				logf("tx put %q=%x -> %v", k, v, err)
				if open.ro {
					if !errors.Is(err, physical.ErrTransactionReadOnly) {
						rec.Violation(rt, "raft-ro-txn-accepts-write", detail(), "Put in a read-only transaction returned %v", err)
					}
					return
				}
				if err != nil {
					rec.Violation(rt, "raft-txn-put-error", detail(), "transaction Put(%q) failed: %v", k, err)
					return
				}
				open.overlay[k] = v
			},
			"txDelete": func(rt *rapid.T) {
				if open == nil {
					rt.Skip("no transaction")
				}
				k := c13GenKey(rt, c13Keys(open.view()))
				err := open.tx.Delete(ctx, k)
				logf("tx delete %q -> %v", k, err)
				if open.ro {
					if !errors.Is(err, physical.ErrTransactionReadOnly) {
						rec.Violation(rt, "raft-ro-txn-accepts-write", detail(), "Delete in a read-only transaction returned %v", err)
					}
					return
				}
				if err != nil {
					rec.Violation(rt, "raft-txn-delete-error", detail(), "transaction Delete(%q) failed: %v", k, err)
					return
				}
				open.overlay[k] = nil
			},
			"txGet": func(rt *rapid.T) {
				if open == nil {
					rt.Skip("no transaction")
				}
				view := open.view()
				k := c13GenKey(rt, c13Keys(view))
				e, err := open.tx.Get(ctx, k)
				logf("tx get %q -> %v %v", k, e != nil, err)
				if err != nil {
					rec.Violation(rt, "raft-txn-get-error", detail(), "transaction Get(%q) failed: %v", k, err)
					return
				}
				want, ok := view[k]
				if ok != (e != nil) || (ok && (!bytes.Equal(e.Value, want) || e.Key != k)) {
					rec.Violation(rt, "raft-txn-get-mismatch", detail(), "transaction Get(%q) = %v, snapshot+pending writes hold (%x, present=%v)", k, e, want, ok)
				}
			},
			"txList": func(rt *rapid.T) {
				if open == nil {
					rt.Skip("no transaction")
				}
				keys := c13Keys(open.view())
				p := c13GenPrefix(rt, keys)
				whole := rapid.IntRange(0, 3).Draw(rt, "wholeList") == 0
				after, limit := "", -1
				if !whole {
					after = c13GenAfter(rt, c13Entries(keys, p))
					limit = rapid.SampledFrom([]int{-1, -7, 0, 1, 1, 2, 3, 1 << 30}).Draw(rt, "limit")
				}
				var got []string
				var err error
				if whole {
					got, err = open.tx.List(ctx, p)
				} else {
					got, err = open.tx.ListPage(ctx, p, after, limit)
				}
				logf("tx listpage %q after=%q limit=%d -> %s %v", p, after, limit, c13QL(got), err)
				if err != nil {
					rec.Violation(rt, "raft-txn-list-error", detail(), "transaction ListPage(%q,%q,%d) failed: %v", p, after, limit, err)
					return
				}
				pending := false
				for k := range open.overlay {
					if strings.HasPrefix(k, p) {
						pending = true
					}
				}
				if pending {
					feats["list-with-pending-writes"] = true
					if after != "" || limit > 0 {
						nontrivial = true
					}
				}
				if c13AfterCleaned(p, after) {
					feats["after-cleaned-by-join"] = true
				}
				checkList("transaction", keys, p, after, limit, got, true)
			},
			"plainList": func(rt *rapid.T) {
				keys := c13Keys(committed)
				p := c13GenPrefix(rt, keys)
				after := c13GenAfter(rt, c13Entries(keys, p))
				limit := rapid.SampledFrom([]int{-1, -7, 0, 1, 1, 2, 3, 1 << 30}).Draw(rt, "limit")
				got, err := b.ListPage(ctx, p, after, limit)
				logf("plain listpage %q after=%q limit=%d -> %s %v", p, after, limit, c13QL(got), err)
				if err != nil {
					rec.Violation(rt, "raft-list-error", detail(), "ListPage(%q,%q,%d) failed: %v", p, after, limit, err)
					return
				}
				checkList("plain", keys, p, after, limit, got, false)
			},
			"finish": func(rt *rapid.T) {
				if open == nil {
					rt.Skip("no transaction")
				}
				x := open
				commit := rapid.Bool().Draw(rt, "commit")
				var err error
				if commit {
					err = x.tx.Commit(ctx)
				} else {
					err = x.tx.Rollback(ctx)
				}
				open = nil
				logf("finish commit=%v -> %v", commit, err)
				if err != nil {
					rec.Violation(rt, "raft-txn-finish-error", detail(), "commit=%v of a transaction with no concurrent writer failed: %v", commit, err)
					return
				}
				if commit && !x.ro {
					committed = x.view()
					feats["commit"] = true
				}
				if _, err := x.tx.Get(ctx, "a"); !errors.Is(err, physical.ErrTransactionAlreadyCommitted) {
					rec.Violation(rt, "raft-txn-use-after-finish", detail(), "Get on a finished transaction returned %v", err)
				}
			},
			"": func(rt *rapid.T) {
				if open != nil {
					return
				}
				got, err := c13DumpBackend(ctx, b)
				if err != nil {
					rec.Violation(rt, "raft-scan-error", detail(), "full scan failed: %v", err)
					return
				}
				bad := len(got) != len(committed)
				for k, v := range committed {
					if g, ok := got[k]; !ok || !bytes.Equal(g, v) {
						bad = true
					}
				}
				if bad {
					rec.Violation(rt, "raft-state-mismatch", detail(), "full scan holds %s, model %s", c13QL(c13Keys(got)), c13QL(c13Keys(committed)))
				}
			},
		}
		acts["txPut2"], acts["txList2"], acts["txList3"] = acts["txPut"], acts["txList"], acts["txList"]
		rt.Repeat(acts)
		for f := range feats {
			rec.Class("case-with-"+f, 1)
		}
		class := "no-pending-listing"
		if nontrivial {
			class = "listing-with-pending-writes"
		}
		rec.Case(class, nontrivial, verifx.Digest(strings.Join(hist, "\n")), func() any {
			h := hist
			if len(h) > 25 {
				h = h[:25]
			}
			return map[string]any{"ops": h}
		})
	})
}
