//go:build verif

package raft

// C08b - storage transactions on a live single-node RaftBackend are serializable.
//
// One RaftBackend per process. Plain writes and Commit calls are goroutines (they block until the FSM has
// applied their entry); the harness owns the schedule through the FSM apply gate (SetFSMApplyCallback): every
// FSM.ApplyBatch parks until the harness releases it. A single started write is waited for until raft has committed
// it and handed it to the FSM queue (log order = action order, one entry per batch); a "burst" starts 2..4 writes /
// commits behind a held log store so that raft group-commits them into ONE multi-entry FSM batch (their order
// is read back from the log store).
// Oracle: after quiescence the raft log store is read front to back, every LogData is decoded and replayed on
// a map (always-verify semantics); see c08Judge.

import (
	"bytes"
	"context"
	"errors"
	"fmt"
	"os"
	"regexp"
	"runtime"
	"sort"
	"strconv"
	"strings"
	"sync"
	"sync/atomic"
	"testing"
	"time"

	log "github.com/hashicorp/go-hclog"
	"github.com/hashicorp/raft"
	"github.com/openbao/openbao/sdk/v2/helper/verifx"
	"github.com/openbao/openbao/sdk/v2/physical"
	bolt "go.etcd.io/bbolt"
	"google.golang.org/protobuf/proto"
	"pgregory.net/rapid"
)

const c08Wait = 20 * time.Second

var (
	c08Keys     = []string{"a/k1", "a/k2", "a/s/k3", "b/k1", "top"}
	c08Values   = []string{"v0", "v1", "v2"}
	c08Prefixes = []string{"", "a/", "b/", "a/s/"}
	c08Afters   = []string{"", "", "k1", "k1x", "s/", "a/"}
	c08Limits   = []int{-1, -1, 1, 2}
)

// ---- gate

type c08Gate struct {
	open   atomic.Bool
	parked atomic.Int32
	tokens chan struct{}
}

func (g *c08Gate) callback() {
	if g.open.Load() {
		return
	}
	g.parked.Add(1)
	<-g.tokens
	g.parked.Add(-1)
}

// ---- log store gate: a slow disk. While it holds, raft's leader loop sits in StoreLogs and the writes
// started meanwhile pile up in raft's apply channel; on release raft group-commits them and hands them to the
// FSM as ONE batch.

type c08GatedLogStore struct {
	raft.LogStore
	hold    atomic.Bool
	waiting atomic.Int32
	release chan struct{}
}

func (s *c08GatedLogStore) StoreLog(l *raft.Log) error { return s.StoreLogs([]*raft.Log{l}) }

func (s *c08GatedLogStore) StoreLogs(logs []*raft.Log) error {
	if s.hold.Load() {
		s.waiting.Add(1)
		<-s.release
		s.waiting.Add(-1)
	}
	return s.LogStore.StoreLogs(logs)
}

func (s *c08GatedLogStore) letGo() {
	s.hold.Store(false)
	for s.waiting.Load() > 0 {
		select {
		case s.release <- struct{}{}:
		default:
		}
		c08Spin(20 * time.Microsecond)
	}
}

// ---- backend

type c08Env struct {
	b      *RaftBackend
	gate   *c08Gate
	store  *c08GatedLogStore
	caseNo int
	// shut tears the backend down and removes its directory (idempotent; also registered as a test cleanup)
	shut    func()
	written int64 // bytes handed to raft by units that recycle the backend (raft-large)
}

func c08NewEnv(t *testing.T) *c08Env {
	base := ""
	if st, err := os.Stat("/dev/shm"); err == nil && st.IsDir() {
		base = "/dev/shm"
	}
	if d := os.Getenv("VERIF_SCRATCH"); d != "" { // the driver's per-run directory, removed when the run ends
		base = d
	}
	dir, err := os.MkdirTemp(base, "verif-c08-")
	if err != nil {
		t.Fatalf("harness: %v", err)
	}
	t.Cleanup(func() { _ = os.RemoveAll(dir) })
	conf := map[string]string{
		"path": dir, "node_id": "verif-c08", "performance_multiplier": "1",
		"snapshot_threshold": "100000000", "trailing_logs": "1000000",
	}
	raw, err := NewRaftBackend(conf, log.NewNullLogger())
	if err != nil {
		t.Fatalf("harness: NewRaftBackend: %v", err)
	}
	b := raw.(*RaftBackend)
	store := &c08GatedLogStore{LogStore: b.logStore, release: make(chan struct{})}
	b.logStore = store
	if err := b.Bootstrap([]Peer{{ID: b.NodeID(), Address: b.NodeID()}}); err != nil {
		t.Fatalf("harness: bootstrap: %v", err)
	}
	ctx, cancel := context.WithTimeout(context.Background(), 60*time.Second)
	defer cancel()
	if err := b.SetupCluster(ctx, SetupOpts{StartAsLeader: true}); err != nil {
		t.Fatalf("harness: SetupCluster: %v", err)
	}
	b.DisableAutopilot()
	g := &c08Gate{tokens: make(chan struct{}, 1024)}
	g.open.Store(true)
	b.SetFSMApplyCallback(g.callback)
	var once sync.Once
	shut := func() {
		once.Do(func() {
			store.letGo()
			g.open.Store(true)
			for i := 0; i < 64; i++ {
				select {
				case g.tokens <- struct{}{}:
				default:
				}
			}
			_ = b.TeardownCluster(nil)
			_ = b.Close()
			_ = os.RemoveAll(dir)
		})
	}
	t.Cleanup(shut)
	e := &c08Env{b: b, gate: g, store: store, shut: shut}
	if !c08Until(func() bool { return b.raft.AppliedIndex() >= 2 }) {
		t.Fatalf("harness: raft did not come up")
	}
	// warm-up write; afterwards the FSM index (which skips raft's no-op entries) equals raft's applied index
	if err := b.Put(context.Background(), &physical.Entry{Key: "warmup", Value: []byte("x")}); err != nil {
		t.Fatalf("harness: warm-up put: %v", err)
	}
	if !c08Until(func() bool { return b.AppliedIndex() == b.raft.AppliedIndex() }) {
		t.Fatalf("harness: FSM index %d, raft applied index %d after warm-up", b.AppliedIndex(), b.raft.AppliedIndex())
	}
	return e
}

func c08Until(f func() bool) bool {
	dl := time.Now().Add(c08Wait)
	for i := 0; ; i++ {
		if f() {
			return true
		}
		if time.Now().After(dl) {
			return false
		}
		if i < 200 {
			time.Sleep(20 * time.Microsecond)
		} else {
			time.Sleep(time.Millisecond)
		}
	}
}

// ---- action specs (state independent, so that rapid can delete actions when shrinking)

type c08Action struct {
	BehindWriter bool // Kind 2: begin while a writer of the backend's RW lock is waiting behind an in-flight write
	Kind  int // 0 start put, 1 start delete, 2 begin, 3 tx get, 4 tx put, 5 tx delete, 6 tx list, 7 start commit, 8 release one batch, 9 quiesce, 10 rollback, 11 use finished txn, 12 next step of a transaction's script, 13 burst (group commit: several entries in one FSM batch)
	Key   int
	Val   int
	Slot  int
	RO    bool
	Pfx   int
	After int
	Limit int
	// begin only: the transaction's script
	Script      []c08Action
	EndRollback bool
	// burst only: 2..4 plain writes / commits started back to back behind a held log store
	Items []c08Action
}

var c08KindNames = []string{"put", "delete", "begin", "tx-get", "tx-put", "tx-delete", "tx-list", "commit", "release", "quiesce", "rollback", "use-finished", "step", "burst"}

func c08TxOpGen() *rapid.Generator[c08Action] {
	kinds := []int{3, 6, 3, 4, 3, 5, 6, 4}
	return rapid.Custom(func(t *rapid.T) c08Action {
		a := c08Action{Kind: kinds[rapid.IntRange(0, len(kinds)-1).Draw(t, "txop")]}
		if a.Kind == 6 {
			a.Pfx = rapid.IntRange(0, len(c08Prefixes)-1).Draw(t, "prefix")
			a.After = rapid.IntRange(0, len(c08Afters)-1).Draw(t, "after")
			a.Limit = rapid.IntRange(0, len(c08Limits)-1).Draw(t, "limit")
		} else {
			a.Key = rapid.IntRange(0, len(c08Keys)-1).Draw(t, "key")
			a.Val = rapid.IntRange(0, len(c08Values)-1).Draw(t, "val")
		}
		return a
	})
}

func c08ActionGen() *rapid.Generator[c08Action] {
	// weights
	// rapid draws small indexes more often: most wanted first
	kinds := []int{2, 12, 0, 13, 12, 2, 0, 12, 8, 13, 12, 0, 2, 12, 13, 0, 12, 8, 2, 12, 0, 12, 8, 13, 0, 12, 1, 3, 4, 6, 7, 9, 10, 11}
	return rapid.Custom(func(t *rapid.T) c08Action {
		a := c08Action{Kind: kinds[rapid.IntRange(0, len(kinds)-1).Draw(t, "kind")]}
		switch a.Kind {
		case 0, 1:
			a.Key = rapid.IntRange(0, len(c08Keys)-1).Draw(t, "key")
			a.Val = rapid.IntRange(0, len(c08Values)-1).Draw(t, "val")
		case 2:
			a.Slot = rapid.IntRange(0, 2).Draw(t, "slot")
			a.RO = rapid.IntRange(0, 11).Draw(t, "ro") == 11
			a.Script = rapid.SliceOfN(c08TxOpGen(), 1, 3).Draw(t, "script")
			if rapid.IntRange(0, 9).Draw(t, "noFinalWrite") < 8 {
				// most transactions end with a write, so that their commit goes through the log
				a.Script = append(a.Script, c08Action{Kind: 4, Key: rapid.IntRange(0, len(c08Keys)-1).Draw(t, "key"), Val: rapid.IntRange(0, len(c08Values)-1).Draw(t, "val")})
			}
			a.EndRollback = rapid.IntRange(0, 9).Draw(t, "endRollback") == 9
			a.BehindWriter = rapid.IntRange(0, 3).Draw(t, "beginBehindLockWriter") == 0
		case 3, 4, 5:
			a.Slot = rapid.IntRange(0, 2).Draw(t, "slot")
			a.Key = rapid.IntRange(0, len(c08Keys)-1).Draw(t, "key")
			a.Val = rapid.IntRange(0, len(c08Values)-1).Draw(t, "val")
		case 6:
			a.Slot = rapid.IntRange(0, 2).Draw(t, "slot")
			a.Pfx = rapid.IntRange(0, len(c08Prefixes)-1).Draw(t, "prefix")
			a.After = rapid.IntRange(0, len(c08Afters)-1).Draw(t, "after")
			a.Limit = rapid.IntRange(0, len(c08Limits)-1).Draw(t, "limit")
		case 7, 10, 11, 12:
			a.Slot = rapid.IntRange(0, 2).Draw(t, "slot")
		case 13:
			a.Items = rapid.SliceOfN(rapid.Custom(func(t *rapid.T) c08Action {
				it := c08Action{Kind: []int{0, 7, 0, 7, 1}[rapid.IntRange(0, 4).Draw(t, "item")]}
				if it.Kind == 7 {
					it.Slot = rapid.IntRange(0, 2).Draw(t, "slot")
				} else {
					it.Key = rapid.IntRange(0, len(c08Keys)-1).Draw(t, "key")
					it.Val = rapid.IntRange(0, len(c08Values)-1).Draw(t, "val")
				}
				return it
			}), 2, 4).Draw(t, "burst")
		}
		return a
	})
}

// ---- run-time records

type c08Op struct {
	Seq    int
	Kind   string // put | delete | commit
	Key    string
	Val    []byte
	Txn    *c08Txn
	Index  uint64 // raft index the entry received
	done   chan struct{}
	err    error
	joined bool
}

type c08Obs struct {
	Kind    string // get | list
	Key     string
	Prefix  string
	After   string
	Limit   int
	Overlay map[string]*string // the transaction's own writes when the operation ran (nil = deleted)
	GotNil  bool
	GotVal  string
	GotList []string
}

func (o *c08Obs) String() string {
	if o.Kind == "get" {
		if o.GotNil {
			return fmt.Sprintf("get(%s)=<absent>", o.Key)
		}
		return fmt.Sprintf("get(%s)=%q", o.Key, o.GotVal)
	}
	return fmt.Sprintf("list(%q,%q,%d)=%v", o.Prefix, o.After, o.Limit, o.GotList)
}

type c08Txn struct {
	ID          int
	RO          bool
	tx          physical.Transaction
	Start       uint64 // FSM index the transaction captured
	RaftApplied uint64 // raft's applied index when it began
	Lag         uint64
	Obs         []*c08Obs
	overlay     map[string]*string
	Wrote       bool
	State       int // 0 open, 1 committing, 2 finished
	Finish      string
	commit      *c08Op
	CommitErr   error
	Committed   bool        // Commit was called (with or without a log entry)
	Script      []c08Action // operations the "step" action executes in order, followed by commit / rollback
	EndRollback bool
	pc          int
}

func c08CopyOverlay(m map[string]*string) map[string]*string {
	n := make(map[string]*string, len(m))
	for k, v := range m {
		n[k] = v
	}
	return n
}

// ---- reference model

type c08State map[string]string

func (s c08State) clone() c08State {
	n := make(c08State, len(s))
	for k, v := range s {
		n[k] = v
	}
	return n
}

func (s c08State) dump() []string {
	out := make([]string, 0, len(s))
	for k, v := range s {
		out = append(out, fmt.Sprintf("%s=%q", k, v))
	}
	sort.Strings(out)
	return out
}

func c08Overlay(s c08State, ov map[string]*string) c08State {
	if len(ov) == 0 {
		return s
	}
	n := s.clone()
	for k, v := range ov {
		if v == nil {
			delete(n, k)
		} else {
			n[k] = *v
		}
	}
	return n
}

// c08ModelList: the documented listing contract (entries directly below prefix, directories once with a
// trailing slash, key order, greater than after, at most limit when limit > 0).
func c08ModelList(s c08State, prefix, after string, limit int) []string {
	keys := make([]string, 0, len(s))
	for k := range s {
		if strings.HasPrefix(k, prefix) {
			keys = append(keys, k)
		}
	}
	sort.Strings(keys)
	var out []string
	for _, k := range keys {
		rest := k[len(prefix):]
		entry := rest
		if i := strings.Index(rest, "/"); i >= 0 {
			entry = rest[:i+1]
		}
		if len(out) > 0 && out[len(out)-1] == entry {
			continue
		}
		if after != "" && entry <= after {
			continue
		}
		if limit > 0 && len(out) >= limit {
			break
		}
		out = append(out, entry)
	}
	return out
}

// c08Expect evaluates an observation on a storage state, under the own writes the transaction had made.
func c08Expect(o *c08Obs, s c08State) string {
	m := c08Overlay(s, o.Overlay)
	if o.Kind == "get" {
		v, ok := m[o.Key]
		if !ok {
			return "<absent>"
		}
		return fmt.Sprintf("%q", v)
	}
	return fmt.Sprint(c08ModelList(m, o.Prefix, o.After, o.Limit))
}

func (o *c08Obs) got() string {
	if o.Kind == "get" {
		if o.GotNil {
			return "<absent>"
		}
		return fmt.Sprintf("%q", o.GotVal)
	}
	return fmt.Sprint(o.GotList)
}

// c08AlwaysVerify: does every verifyRead / verifyList hash of the entry match the state?
func c08AlwaysVerify(ld *LogData, s c08State) (bool, string) {
	for _, op := range ld.Operations {
		switch op.OpType {
		case verifyReadOp:
			var val []byte
			if v, ok := s[op.Key]; ok {
				val = []byte(v)
			}
			if len(op.Value) < 1 {
				return false, "truncated hash for " + op.Key
			}
			h, err := createVerificationEntryOfType(op.Value[0], op.Key, val)
			if err != nil || !bytes.Equal(h, op.Value) {
				return false, "verifyRead " + op.Key
			}
		case verifyListOp:
			params, err := parseListVerifyParams(op.Key)
			if err != nil || len(op.Value) < 1 {
				return false, "bad verifyList " + op.Key
			}
			items := c08ModelList(s, params.Prefix, params.After, params.Limit)
			h, err := createVerificationEntryOfType(op.Value[0], op.Key, []byte(strings.Join(items, "\n")))
			if err != nil || !bytes.Equal(h, op.Value) {
				return false, "verifyList " + op.Key
			}
		}
	}
	return true, ""
}

// ---- one case

type c08Run struct {
	behindWriter int // transactions begun behind a pending writer of the backend's lock
	rt           *rapid.T
	env          *c08Env
	b            *RaftBackend
	prefix       string
	ops          []*c08Op // logged operations in start order
	pending      []*c08Op // started, not yet applied by the FSM
	slots        [3]*c08Txn
	txns         []*c08Txn
	trace        []string
	wg           sync.WaitGroup
	caughtUpOnly bool
	failed       string
	base         uint64 // raft's last index when the case began
	batches      []c08Batch
}

// c08Batch is one FSM.ApplyBatch call as observed through the FSM's latest index: it covered the command
// entries with Lo < index <= Hi.
type c08Batch struct {
	Lo, Hi uint64
	N      int
}

// fsmIndex is RaftBackend.AppliedIndex without the backend's lock (a pending writer of that lock must not stall the harness).
func (r *c08Run) fsmIndex() uint64 {
	i, _ := r.b.fsm.LatestState()
	return i.Index
}

func (r *c08Run) tracef(format string, a ...any) {
	r.trace = append(r.trace, fmt.Sprintf(format, a...))
}

// startLogged runs f in a goroutine and waits until raft has committed its entry and queued it for the FSM.
func (r *c08Run) startLogged(op *c08Op, f func() error) bool {
	before := r.b.raft.AppliedIndex()
	op.done = make(chan struct{})
	op.Seq = len(r.ops)
	r.wg.Add(1)
	go func() {
		defer r.wg.Done()
		defer close(op.done)
		op.err = f()
	}()
	ok := c08Until(func() bool {
		select {
		case <-op.done:
			return true // returned without waiting for the FSM (error before the log)
		default:
		}
		return r.b.raft.AppliedIndex() > before
	})
	if !ok {
		r.failed = fmt.Sprintf("timeout waiting for raft to commit %s %s", op.Kind, op.Key)
		return false
	}
	select {
	case <-op.done:
		if r.b.raft.AppliedIndex() == before {
			// no log entry was produced
			op.Index = 0
			op.joined = true
			return true
		}
	default:
	}
	op.Index = r.b.raft.AppliedIndex()
	r.ops = append(r.ops, op)
	r.pending = append(r.pending, op)
	return true
}

// settle pops every pending op the FSM has applied and joins its goroutine.
func (r *c08Run) settle() (popped int, ok bool) {
	fi := r.fsmIndex()
	for len(r.pending) > 0 && r.pending[0].Index <= fi {
		popped++
		op := r.pending[0]
		r.pending = r.pending[1:]
		select {
		case <-op.done:
		case <-time.After(c08Wait):
			r.failed = fmt.Sprintf("timeout: %s %s @%d applied by the FSM but the caller did not return", op.Kind, op.Key, op.Index)
			return popped, false
		}
		op.joined = true
		if op.Txn != nil {
			op.Txn.State = 2
			op.Txn.CommitErr = op.err
		}
	}
	return popped, true
}

func (r *c08Run) releaseOne() bool {
	if len(r.pending) == 0 {
		return true
	}
	target := r.pending[0].Index
	lo := r.fsmIndex()
	if !c08Until(func() bool { return r.env.gate.parked.Load() > 0 || r.fsmIndex() >= target }) {
		r.failed = "timeout waiting for the FSM to reach the gate"
		return false
	}
	if r.fsmIndex() < target {
		r.env.gate.tokens <- struct{}{}
	}
	if !c08Until(func() bool { return r.fsmIndex() >= target }) {
		r.failed = fmt.Sprintf("timeout waiting for the FSM to apply @%d", target)
		return false
	}
	n, ok := r.settle()
	r.batches = append(r.batches, c08Batch{Lo: lo, Hi: r.fsmIndex(), N: n})
	return ok
}

// c08Spin waits a short time without time.Sleep (whose granularity is about a millisecond).
func c08Spin(d time.Duration) {
	for t0 := time.Now(); time.Since(t0) < d; {
		runtime.Gosched()
	}
}

var c08StackBuf = make([]byte, 2<<20)

// c08WaitParked waits until the goroutine that published its id in gid is parked in a select or channel receive (for the
// operations started here: waiting for the raft apply future; the enqueue into raft's buffered apply channel never parks), or has finished.
func c08WaitParked(gid *atomic.Int64, done chan struct{}) bool {
	return c08Until(func() bool {
		select {
		case <-done:
			return true
		default:
		}
		id := gid.Load()
		if id == 0 {
			return false
		}
		n := runtime.Stack(c08StackBuf, true)
		needle := []byte(fmt.Sprintf("goroutine %d [", id))
		buf := c08StackBuf[:n]
		i := bytes.Index(buf, needle)
		for i > 0 && buf[i-1] != '\n' {
			j := bytes.Index(buf[i+1:], needle)
			if j < 0 {
				return false
			}
			i += 1 + j
		}
		if i < 0 {
			return false
		}
		rest := buf[i+len(needle):]
		return bytes.HasPrefix(rest, []byte("select")) || bytes.HasPrefix(rest, []byte("chan receive"))
	})
}

func c08OverlayKey(start uint64, ov map[string]*string) string {
	ks := make([]string, 0, len(ov))
	for k, v := range ov {
		if v == nil {
			ks = append(ks, k+"=<del>")
		} else {
			ks = append(ks, k+"="+*v)
		}
	}
	sort.Strings(ks)
	return fmt.Sprint(start, ks)
}

// burst starts several writes / commits back to back while the log store holds raft's leader loop (inside the
// StoreLogs of a raft barrier entry, which never reaches the FSM), lets go, and waits until raft has committed all
// of them: raft group-commits what piled up and the FSM receives it as one batch. The order inside the burst is
// whatever raft made of it: it is read back from the log store.
func (r *c08Run) burst(ai int, items []c08Action) {
	b, ctx := r.b, context.Background()
	type planned struct {
		op *c08Op
		f  func() error
	}
	var plan []planned
	seen := map[string]bool{}
	for _, it := range items {
		switch it.Kind {
		case 0, 1:
			op := &c08Op{Kind: "put", Key: r.prefix + c08Keys[it.Key], Val: []byte(c08Values[it.Val])}
			if it.Kind == 1 {
				op.Kind, op.Val = "delete", nil
			}
			// identical writes could not be told apart when the burst is read back from the log
			k := fmt.Sprintf("%s %s=%q", op.Kind, op.Key, op.Val)
			if seen[k] {
				continue
			}
			seen[k] = true
			plan = append(plan, planned{op, func() error {
				if op.Kind == "put" {
					return b.Put(ctx, &physical.Entry{Key: op.Key, Value: op.Val})
				}
				return b.Delete(ctx, op.Key)
			}})
		case 7:
			var cands []*c08Txn
			for _, x := range r.slots {
				if x != nil && x.State == 0 && !x.RO && x.Wrote {
					cands = append(cands, x)
				}
			}
			if len(cands) == 0 {
				continue
			}
			t := cands[it.Slot%len(cands)]
			// two commit entries of one burst must be tellable apart when they are read back from the log
			k := c08OverlayKey(t.Start, t.overlay)
			if seen[k] {
				continue
			}
			seen[k] = true
			op := &c08Op{Kind: "commit", Txn: t, Key: fmt.Sprintf("T%d", t.ID)}
			t.Committed, t.Finish, t.State, t.commit = true, "commit", 1, op
			plan = append(plan, planned{op, func() error { return t.tx.Commit(ctx) }})
		}
	}
	if len(plan) == 0 {
		return
	}
	st := r.env.store
	before := b.raft.AppliedIndex()
	st.hold.Store(true)
	bf := b.raft.Barrier(0)
	r.wg.Add(1)
	go func() { defer r.wg.Done(); _ = bf.Error() }()
	if !c08Until(func() bool { return st.waiting.Load() > 0 }) {
		st.letGo()
		r.failed = "timeout waiting for raft to reach the held log store"
		return
	}
	for _, pl := range plan {
		op, f := pl.op, pl.f
		op.done = make(chan struct{})
		var gid atomic.Int64
		r.wg.Add(1)
		go func() {
			defer r.wg.Done()
			defer close(op.done)
			gid.Store(verifx.GoID())
			op.err = f()
		}()
		// The next one starts only when this one waits for its apply future, i.e. sits in raft's apply channel:
		// the order inside the burst and the batch raft forms are then the same in every run of the same case.
		if !c08WaitParked(&gid, op.done) {
			st.letGo()
			r.failed = fmt.Sprintf("timeout waiting for %s %s to reach raft's apply channel", op.Kind, op.Key)
			return
		}
	}
	st.letGo()
	want := before + 1 + uint64(len(plan))
	if !c08Until(func() bool { return b.raft.AppliedIndex() >= want }) {
		r.failed = fmt.Sprintf("timeout waiting for raft to commit a burst of %d", len(plan))
		return
	}
	// read the burst back
	for idx := before + 1; idx <= want; idx++ {
		var l raft.Log
		if err := b.logStore.GetLog(idx, &l); err != nil {
			r.failed = fmt.Sprintf("GetLog(@%d): %v", idx, err)
			return
		}
		if l.Type != raft.LogCommand {
			continue
		}
		ld := &LogData{}
		if err := proto.Unmarshal(l.Data, ld); err != nil || len(ld.Operations) == 0 {
			r.failed = fmt.Sprintf("decode @%d: %v", idx, err)
			return
		}
		ops := ld.Operations
		var hit *c08Op
		for _, pl := range plan {
			op := pl.op
			if op.Index != 0 {
				continue
			}
			if ops[0].OpType == beginTxOp {
				if op.Kind != "commit" {
					continue
				}
				bp, err := parseBeginTxOpValue(ops[0].Value)
				if err != nil || bp.Index != op.Txn.Start {
					continue
				}
				got := map[string]*string{}
				for _, o := range ops {
					switch o.OpType {
					case putOp:
						v := string(o.Value)
						got[o.Key] = &v
					case deleteOp:
						got[o.Key] = nil
					}
				}
				if c08OverlayKey(bp.Index, got) == c08OverlayKey(op.Txn.Start, op.Txn.overlay) {
					hit = op
				}
			} else if len(ops) == 1 && ops[0].Key == op.Key &&
				((op.Kind == "put" && ops[0].OpType == putOp && bytes.Equal(ops[0].Value, op.Val)) || (op.Kind == "delete" && ops[0].OpType == deleteOp)) {
				hit = op
			}
			if hit != nil {
				break
			}
		}
		if hit == nil {
			r.failed = fmt.Sprintf("burst entry @%d matches no started operation", idx)
			return
		}
		hit.Index = idx
	}
	sort.SliceStable(plan, func(i, j int) bool { return plan[i].op.Index < plan[j].op.Index })
	var desc []string
	for _, pl := range plan {
		if pl.op.Index == 0 {
			r.failed = fmt.Sprintf("burst operation %s %s has no log entry", pl.op.Kind, pl.op.Key)
			return
		}
		pl.op.Seq = len(r.ops)
		r.ops = append(r.ops, pl.op)
		r.pending = append(r.pending, pl.op)
		desc = append(desc, fmt.Sprintf("%s %s=%q -> @%d", pl.op.Kind, pl.op.Key, pl.op.Val, pl.op.Index))
	}
	r.tracef("%d: burst behind barrier @%d: %s (fsm@%d)", ai, before+1, strings.Join(desc, "; "), b.AppliedIndex())
}

func (r *c08Run) drain() bool {
	for len(r.pending) > 0 {
		if !r.releaseOne() {
			return false
		}
	}
	return true
}

func (r *c08Run) cleanup() {
	// runs on every exit path, including a rapid panic out of a draw
	g := r.env.gate
	r.env.store.letGo()
	g.open.Store(true)
	dl := time.Now().Add(c08Wait)
	for {
		if g.parked.Load() > 0 {
			select {
			case g.tokens <- struct{}{}:
			default:
			}
		}
		done := make(chan struct{})
		go func() { r.wg.Wait(); close(done) }()
		select {
		case <-done:
		case <-time.After(2 * time.Millisecond):
			if time.Now().Before(dl) {
				continue
			}
		}
		break
	}
	for _, t := range r.txns {
		if t.State == 0 {
			_ = t.tx.Rollback(context.Background())
			t.State = 2
		}
	}
	c08Until(func() bool { return g.parked.Load() == 0 })
	// drop stale tokens, close the gate again for the next case
	for {
		select {
		case <-g.tokens:
			continue
		default:
		}
		break
	}
}

func c08ID() string {
	if id := os.Getenv("VERIF_ID"); strings.HasPrefix(id, "C08") {
		return id
	}
	return "C08"
}

func TestVerif_C08_RaftLive(t *testing.T) {
	rec := verifx.NewRecorder(c08ID(), "raft-live",
		"one live single-node RaftBackend per process; per case <= 30 actions over 5 keys in 2 directories under a fresh key prefix: start async put/delete, begin (read-write or read-only) transaction in one of 3 slots, transaction get/put/delete/list-page, start async commit, rollback, burst (2..4 puts/deletes/commits started behind a held log store so that raft hands them to the FSM as one multi-entry batch), release one FSM batch, quiesce; the FSM apply gate parks every batch so the FSM lags raft's applied index by the generated number of batches; class caught-up = transactions begin only after the queue was drained; oracle = replay of the raft log store; non-trivial = a transaction began while the FSM was >= 1 batch behind raft's applied index and its commit entry follows >= 1 write to something it observed, or a commit entry reached the FSM in one batch behind a write to something the transaction observed")
	defer rec.Flush()
	env := c08NewEnv(t)
	rapid.Check(t, func(rt *rapid.T) {
		c08RunCase(rt, rec, env, func(r *c08Run, caseStart uint64, caughtUpOnly bool, maxLagAtBegin uint64, digest uint64) {
			c08Judge(rt, rec, r, caseStart, caughtUpOnly, maxLagAtBegin, digest)
		})
	})
}

// c08RunCase generates one schedule, runs it on the live backend of env up to quiescence and hands the run to
// judge (still inside the case: the clean-up runs afterwards, also when rapid aborts the case).
func c08RunCase(rt *rapid.T, rec *verifx.Recorder, env *c08Env, judge func(r *c08Run, caseStart uint64, caughtUpOnly bool, maxLagAtBegin uint64, digest uint64)) {
	ctx := context.Background()
	{
		caughtUpOnly := rapid.IntRange(0, 9).Draw(rt, "beginOnlyWhenFSMCaughtUp") >= 7
		// rapid's slices average min+5 elements; concatenated chunks give long schedules that still shrink by deletion
		var actions []c08Action
		for i, n := 0, rapid.SampledFrom([]int{6, 5, 4, 3, 2, 1}).Draw(rt, "chunks"); i < n; i++ {
			lo := 0
			if i == 0 {
				lo = 1
			}
			actions = append(actions, rapid.SliceOfN(c08ActionGen(), lo, 10).Draw(rt, "actions")...)
		}
		if len(actions) > 30 {
			actions = actions[:30]
		}
		if rapid.IntRange(0, 5).Draw(rt, "directedReadOnlySibling") == 0 {
			// a directed opening: a write transaction W and a read-only transaction R begin at the same applied index; W
			// reads a key; a conflicting plain write and one more entry are applied; R finishes while W is still open;
			// then W writes and commits (its verdict must be the one every replica reaches). The random schedule follows.
			k0 := rapid.IntRange(0, len(c08Keys)-1).Draw(rt, "dKey")
			k1 := rapid.IntRange(0, len(c08Keys)-1).Draw(rt, "dOut")
			endR := c08Action{Kind: 10, Slot: 1}
			if rapid.Bool().Draw(rt, "dReadOnlyCommits") {
				endR.Kind = 7
			}
			pre := []c08Action{
				{Kind: 2, Slot: 0, Script: []c08Action{{Kind: 3, Key: k0}, {Kind: 4, Key: k1, Val: 1}}},
				{Kind: 2, Slot: 1, RO: true, Script: []c08Action{{Kind: 3, Key: k0}}},
				{Kind: 12, Slot: 0},
				{Kind: 0, Key: k0, Val: 2},
				{Kind: 9},
				{Kind: 0, Key: (k0 + 1) % len(c08Keys), Val: 0},
				{Kind: 9},
				endR,
				{Kind: 12, Slot: 0},
				{Kind: 12, Slot: 0},
				{Kind: 9},
			}
			actions = append(pre, actions...)
		}
		if rapid.IntRange(0, 5).Draw(rt, "directedOwnDeleteThenList") == 0 {
			// One case in six opens with a transaction that deletes a key lying in a folder and then lists a prefix
			// above it: whether the folder is still in its result depends on the OTHER keys of that folder, which a
			// plain write removes (or, for a folder emptied by the transaction, adds to) before the commit.
			del := []int{0, 1, 2}[rapid.IntRange(0, 2).Draw(rt, "dDeleted")]  // a/k1, a/k2, a/s/k3
			oth := []int{0, 1, 2}[rapid.IntRange(0, 2).Draw(rt, "dOtherKey")] // the other key of the folder
			if oth == del {
				oth = (del + 1) % 3
			}
			otherExists := rapid.Bool().Draw(rt, "dOtherKeyExists")
			pre := []c08Action{{Kind: 0, Key: del, Val: 0}}
			if otherExists {
				pre = append(pre, c08Action{Kind: 0, Key: oth, Val: 1})
			}
			pre = append(pre, c08Action{Kind: 9},
				c08Action{Kind: 2, Slot: 0, Script: []c08Action{{Kind: 5, Key: del}, {Kind: 6, Pfx: rapid.IntRange(0, 1).Draw(rt, "dListPrefix"), After: 0, Limit: 0}}},
				c08Action{Kind: 12, Slot: 0}, c08Action{Kind: 12, Slot: 0})
			if otherExists {
				pre = append(pre, c08Action{Kind: 1, Key: oth}) // the folder loses its last other key
			} else {
				pre = append(pre, c08Action{Kind: 0, Key: oth, Val: 2}) // the folder the transaction emptied gets a key
			}
			if rapid.Bool().Draw(rt, "dQuiesceBeforeCommit") {
				pre = append(pre, c08Action{Kind: 9})
			}
			pre = append(pre, c08Action{Kind: 12, Slot: 0}, c08Action{Kind: 9})
			actions = append(pre, actions...)
		}
		if rapid.IntRange(0, 5).Draw(rt, "directedRepeatedListing") == 0 {
			// One case in six opens with a transaction that lists the SAME range two or three times with different
			// page limits (a full listing and a "first page again" look-up, in either order) and writes a key; a plain
			// write then adds or removes one entry of that range before the commit. Whatever the transaction records
			// for the later listing must not replace what it has to verify for the earlier, wider one.
			pfx := rapid.IntRange(0, 1).Draw(rt, "dRLPrefix") // "" or "a/"
			aft := []int{0, 2}[rapid.IntRange(0, 1).Draw(rt, "dRLAfter")]
			pre := []c08Action{}
			for k := range c08Keys {
				if rapid.IntRange(0, 3).Draw(rt, "dRLPresent") > 0 {
					pre = append(pre, c08Action{Kind: 0, Key: k, Val: 0})
				}
			}
			pre = append(pre, c08Action{Kind: 9})
			script := []c08Action{}
			nl := rapid.IntRange(2, 3).Draw(rt, "dRLListings")
			for i := 0; i < nl; i++ {
				script = append(script, c08Action{Kind: 6, Pfx: pfx, After: aft, Limit: rapid.IntRange(0, len(c08Limits)-1).Draw(rt, "dRLLimit")})
			}
			script = append(script, c08Action{Kind: 4, Key: rapid.IntRange(0, len(c08Keys)-1).Draw(rt, "dRLOut"), Val: 1})
			pre = append(pre, c08Action{Kind: 2, Slot: 0, Script: script})
			for range script {
				pre = append(pre, c08Action{Kind: 12, Slot: 0})
			}
			wk := rapid.IntRange(0, len(c08Keys)-1).Draw(rt, "dRLWritten")
			if rapid.Bool().Draw(rt, "dRLDelete") {
				pre = append(pre, c08Action{Kind: 1, Key: wk})
			} else {
				pre = append(pre, c08Action{Kind: 0, Key: wk, Val: 2})
			}
			if rapid.Bool().Draw(rt, "dRLQuiesceBeforeCommit") {
				pre = append(pre, c08Action{Kind: 9})
			}
			pre = append(pre, c08Action{Kind: 12, Slot: 0}, c08Action{Kind: 9})
			actions = append(pre, actions...)
		}
		env.caseNo++
		r := &c08Run{rt: rt, env: env, b: env.b, prefix: fmt.Sprintf("c%d/", env.caseNo), caughtUpOnly: caughtUpOnly}
		b := env.b
		// the previous case joined all its goroutines; the FSM index may trail raft's by barrier entries only
		if !c08Until(func() bool { return env.gate.parked.Load() == 0 && env.store.waiting.Load() == 0 }) {
			rt.Fatalf("harness: backend not quiescent at case start")
		}
		if b.AppliedIndex() != b.raft.LastIndex() {
			// a barrier entry of the previous case is the last log entry: level the indexes with a write outside
			// every case prefix, so that reported index offsets do not depend on the process history
			if err := b.Put(ctx, &physical.Entry{Key: "level", Value: []byte("x")}); err != nil {
				rt.Fatalf("harness: levelling put: %v", err)
			}
			if !c08Until(func() bool { return b.AppliedIndex() == b.raft.LastIndex() }) {
				rt.Fatalf("harness: FSM index does not reach raft's last index")
			}
		}
		caseStart := b.raft.LastIndex()
		r.base = caseStart
		env.gate.open.Store(false)
		defer r.cleanup()

		maxLagAtBegin := uint64(0)
		var exec func(ai int, a c08Action, forced *c08Txn) bool
		exec = func(ai int, a c08Action, forced *c08Txn) bool { // true: the case is over (a listed known finding was met)
			if r.failed != "" {
				return false
			}
			// the slot number picks among the transactions the action applies to (open ones; finished ones for kind 11)
			t := forced
			if t == nil && a.Kind >= 3 && a.Kind != 8 && a.Kind != 9 {
				var cands []*c08Txn
				for _, x := range r.slots {
					if x != nil && ((a.Kind == 11 && x.State == 2) || (a.Kind != 11 && x.State == 0 && (a.Kind != 12 || x.Script != nil))) {
						cands = append(cands, x)
					}
				}
				if len(cands) > 0 {
					t = cands[a.Slot%len(cands)]
				}
			}
			if a.Kind == 12 {
				// next step of the transaction's own script, then its commit (or rollback)
				if t == nil {
					return false
				}
				var next c08Action
				switch {
				case t.pc < len(t.Script):
					next = t.Script[t.pc]
				case t.EndRollback:
					next = c08Action{Kind: 10}
				default:
					next = c08Action{Kind: 7}
				}
				t.pc++
				return exec(ai, next, t)
			}
			if a.Kind == 13 {
				r.burst(ai, a.Items)
				return false
			}
			switch a.Kind {
			case 0, 1:
				op := &c08Op{Kind: "put", Key: r.prefix + c08Keys[a.Key], Val: []byte(c08Values[a.Val])}
				if a.Kind == 1 {
					op.Kind, op.Val = "delete", nil
				}
				ok := r.startLogged(op, func() error {
					if op.Kind == "put" {
						return b.Put(ctx, &physical.Entry{Key: op.Key, Value: op.Val})
					}
					return b.Delete(ctx, op.Key)
				})
				if ok {
					r.tracef("%d: start %s %s=%q -> @%d (fsm@%d)", ai, op.Kind, op.Key, op.Val, op.Index, b.AppliedIndex())
				}
			case 2:
				slot := -1
				for i := range r.slots {
					if j := (a.Slot + i) % len(r.slots); r.slots[j] == nil || r.slots[j].State == 2 {
						slot = j
						break
					}
				}
				if slot < 0 {
					return false
				}
				if caughtUpOnly && !r.drain() {
					return false
				}
				nt := &c08Txn{ID: len(r.txns), RO: a.RO, overlay: map[string]*string{}, Script: a.Script, EndRollback: a.EndRollback}
				nt.RaftApplied = b.raft.AppliedIndex()
				var err error
				begin := func() {
					if a.RO {
						nt.tx, err = b.BeginReadOnlyTx(ctx)
					} else {
						nt.tx, err = b.BeginTx(ctx)
					}
				}
				if a.BehindWriter && len(r.pending) > 0 && !caughtUpOnly {
					// A writer of the backend's RW lock (in production: SetupCluster, TeardownCluster, a suffrage change)
					// queues up behind the in-flight writes, whose callers hold the lock for reading until the FSM has
					// applied them; BeginTx starts meanwhile and stalls wherever it needs that lock; then the FSM applies the
					// write, its caller returns, the writer gets and drops the lock, BeginTx goes on. Whatever BeginTx had
					// done before it stalled is now one applied entry old.
					lockDone, beginDone := make(chan struct{}), make(chan struct{})
					go func() { b.l.Lock(); b.l.Unlock(); close(lockDone) }() //nolint:staticcheck
					c08Spin(1500 * time.Microsecond)
					go func() { begin(); close(beginDone) }()
					c08Spin(1500 * time.Microsecond)
					// the writer waits for every in-flight write (each caller holds the lock for reading): let the FSM
					// apply batch after batch until the writer and BeginTx have both come back
					isDone := func(ch chan struct{}) bool {
						select {
						case <-ch:
							return true
						default:
							return false
						}
					}
					deadline := time.Now().Add(c08Wait)
					for released := false; !released || !isDone(beginDone) || !isDone(lockDone); released = true {
						if len(r.pending) > 0 {
							if !r.releaseOne() {
								return false
							}
							continue
						}
						if time.Now().After(deadline) {
							n := runtime.Stack(c08StackBuf, true)
							r.failed = "timeout: BeginTx behind a pending lock writer did not return\n" + string(c08StackBuf[:n])
							return false
						}
						c08Spin(200 * time.Microsecond)
					}
					r.behindWriter++
				} else {
					begin()
				}
				if err != nil {
					rt.Fatalf("harness: BeginTx: %v", err)
				}
				nt.Start = nt.tx.(*RaftTransaction).index
				nt.Lag = uint64(len(r.pending)) // entries raft has committed and queued which the FSM has not applied
				if nt.Lag > maxLagAtBegin {
					maxLagAtBegin = nt.Lag
				}
				r.txns = append(r.txns, nt)
				r.slots[slot] = nt
				r.tracef("%d: begin T%d ro=%v start=@%d raftApplied=@%d lag=%d", ai, nt.ID, nt.RO, nt.Start, nt.RaftApplied, nt.Lag)
			case 3:
				if t == nil || t.State != 0 {
					return false
				}
				key := r.prefix + c08Keys[a.Key]
				e, err := t.tx.Get(ctx, key)
				if err != nil {
					rec.Violation(rt, "txn-get-error", r.detail(nil), "%s", r.norm(fmt.Sprintf("T%d get(%s): %v", t.ID, key, err)))
					return true
				}
				o := &c08Obs{Kind: "get", Key: key, Overlay: c08CopyOverlay(t.overlay), GotNil: e == nil}
				if e != nil {
					o.GotVal = string(e.Value)
				}
				t.Obs = append(t.Obs, o)
				r.tracef("%d: T%d %s", ai, t.ID, o)
			case 4, 5:
				if t == nil || t.State != 0 {
					return false
				}
				key := r.prefix + c08Keys[a.Key]
				var err error
				val := c08Values[a.Val]
				if a.Kind == 4 {
					err = t.tx.Put(ctx, &physical.Entry{Key: key, Value: []byte(val)})
				} else {
					err = t.tx.Delete(ctx, key)
				}
				if t.RO {
					if !errors.Is(err, physical.ErrTransactionReadOnly) {
						rec.Violation(rt, "read-only-txn-accepts-write", r.detail(nil), "%s", r.norm(fmt.Sprintf("read-only T%d write(%s) returned %v", t.ID, key, err)))
						return true
					}
					return false
				}
				if err != nil {
					rec.Violation(rt, "txn-write-error", r.detail(nil), "%s", r.norm(fmt.Sprintf("T%d write(%s): %v", t.ID, key, err)))
					return true
				}
				t.Wrote = true
				if a.Kind == 4 {
					t.overlay[key] = &val
					r.tracef("%d: T%d put %s=%q", ai, t.ID, key, val)
				} else {
					t.overlay[key] = nil
					r.tracef("%d: T%d delete %s", ai, t.ID, key)
				}
			case 6:
				if t == nil || t.State != 0 {
					return false
				}
				o := &c08Obs{Kind: "list", Prefix: r.prefix + c08Prefixes[a.Pfx], After: c08Afters[a.After], Limit: c08Limits[a.Limit], Overlay: c08CopyOverlay(t.overlay)}
				keys, err := t.tx.ListPage(ctx, o.Prefix, o.After, o.Limit)
				if err != nil {
					rec.Violation(rt, "txn-list-error", r.detail(nil), "%s", r.norm(fmt.Sprintf("T%d list(%s): %v", t.ID, o.Prefix, err)))
					return true
				}
				o.GotList = keys
				t.Obs = append(t.Obs, o)
				r.tracef("%d: T%d %s", ai, t.ID, o)
			case 7:
				if t == nil || t.State != 0 {
					return false
				}
				t.Committed = true
				t.Finish = "commit"
				if t.RO || !t.Wrote {
					// no log entry; returns at once
					errc := make(chan error, 1)
					go func() { errc <- t.tx.Commit(ctx) }()
					select {
					case t.CommitErr = <-errc:
					case <-time.After(c08Wait):
						rt.Fatalf("harness: write-free Commit blocked")
					}
					t.State = 2
					r.tracef("%d: T%d commit (no writes) -> %v", ai, t.ID, t.CommitErr)
					return false
				}
				op := &c08Op{Kind: "commit", Txn: t, Key: fmt.Sprintf("T%d", t.ID)}
				t.State = 1
				t.commit = op
				if r.startLogged(op, func() error { return t.tx.Commit(ctx) }) {
					if op.Index == 0 {
						t.State = 2
						t.CommitErr = op.err
					}
					r.tracef("%d: start commit T%d -> @%d (fsm@%d)", ai, t.ID, op.Index, b.AppliedIndex())
				}
			case 8:
				if len(r.pending) > 0 {
					r.tracef("%d: release @%d", ai, r.pending[0].Index)
				}
				r.releaseOne()
			case 9:
				r.tracef("%d: quiesce (%d pending)", ai, len(r.pending))
				r.drain()
			case 10:
				if t == nil || t.State != 0 {
					return false
				}
				if err := t.tx.Rollback(ctx); err != nil {
					rec.Violation(rt, "rollback-error", r.detail(nil), "%s", r.norm(fmt.Sprintf("T%d rollback: %v", t.ID, err)))
					return true
				}
				t.State = 2
				t.Finish = "rollback"
				r.tracef("%d: T%d rollback", ai, t.ID)
			case 11:
				if t == nil || t.State != 2 {
					return false
				}
				_, err := t.tx.Get(ctx, r.prefix+c08Keys[0])
				err2 := t.tx.Put(ctx, &physical.Entry{Key: r.prefix + c08Keys[0], Value: []byte("late")})
				err3 := t.tx.Commit(ctx)
				for i, e := range []error{err, err2, err3} {
					// a finished read-only transaction may refuse the write with either error
					if !errors.Is(e, physical.ErrTransactionAlreadyCommitted) && !(i == 1 && t.RO && errors.Is(e, physical.ErrTransactionReadOnly)) {
						rec.Violation(rt, "finished-txn-usable", r.detail(nil), "%s", r.norm(fmt.Sprintf("T%d after %s: get/put/commit returned %v / %v / %v", t.ID, t.Finish, err, err2, err3)))
						return true
					}
				}
			}
			return false
		}
		for ai, a := range actions {
			if r.failed != "" {
				break
			}
			if exec(ai, a, nil) {
				return
			}
		}
		if r.failed == "" {
			r.drain()
		}
		if r.failed != "" {
			rt.Fatalf("harness: %s\ntrace:\n%s", r.norm(r.failed), r.norm(strings.Join(r.trace, "\n")))
		}
		for _, t := range r.txns {
			if t.State == 0 {
				if err := t.tx.Rollback(ctx); err != nil {
					rt.Fatalf("harness: final rollback: %v", err)
				}
				t.State = 2
				t.Finish = "rollback(end)"
			}
		}
		judge(r, caseStart, caughtUpOnly, maxLagAtBegin, verifx.Digest("c08b", caughtUpOnly, fmt.Sprint(actions)))
	}
}

var c08IndexRe = regexp.MustCompile(`@(\d+)`)

// norm makes a text independent of the process history (rapid only shrinks a failure whose message is
// reproduced literally): the case's key prefix becomes "P/", raft indexes become offsets from the case's first index.
func (r *c08Run) norm(s string) string {
	s = strings.ReplaceAll(s, r.prefix, "P/")
	return c08IndexRe.ReplaceAllStringFunc(s, func(m string) string {
		n, err := strconv.ParseUint(m[1:], 10, 64)
		if err != nil {
			return m
		}
		return fmt.Sprintf("@%+d", int64(n)-int64(r.base))
	})
}

func (r *c08Run) normAny(v any) any {
	switch x := v.(type) {
	case string:
		return r.norm(x)
	case []string:
		out := make([]string, len(x))
		for i := range x {
			out[i] = r.norm(x[i])
		}
		return out
	}
	return v
}

func (r *c08Run) detail(extra map[string]any) map[string]any {
	m := map[string]any{"trace": r.normAny(r.trace), "beginOnlyWhenFSMCaughtUp": r.caughtUpOnly}
	for k, v := range extra {
		m[k] = r.normAny(v)
	}
	return m
}

type c08LogEntry struct {
	Index uint64
	Data  *LogData
	Raw   []byte
}

func c08ReadLog(rt *rapid.T, b *RaftBackend, from uint64) []c08LogEntry {
	last, err := b.logStore.LastIndex()
	if err != nil {
		rt.Fatalf("harness: log store: %v", err)
	}
	var out []c08LogEntry
	for i := from + 1; i <= last; i++ {
		var l raft.Log
		if err := b.logStore.GetLog(i, &l); err != nil {
			rt.Fatalf("harness: GetLog(%d): %v", i, err)
		}
		if l.Type != raft.LogCommand {
			continue
		}
		if len(l.Extensions) > 0 {
			rt.Fatalf("harness: chunked entry at %d not expected", i)
		}
		ld := &LogData{}
		if err := proto.Unmarshal(l.Data, ld); err != nil {
			rt.Fatalf("harness: decode log %d: %v", i, err)
		}
		out = append(out, c08LogEntry{Index: i, Data: ld, Raw: l.Data})
	}
	return out
}

func c08DescribeEntry(e c08LogEntry) string {
	var sb strings.Builder
	fmt.Fprintf(&sb, "@%d", e.Index)
	if e.Data.LowestActiveIndex != nil {
		fmt.Fprintf(&sb, " lai=@%d", *e.Data.LowestActiveIndex)
	}
	for _, op := range e.Data.Operations {
		switch op.OpType {
		case putOp:
			fmt.Fprintf(&sb, " put %s=%q", op.Key, op.Value)
		case deleteOp:
			fmt.Fprintf(&sb, " del %s", op.Key)
		case beginTxOp:
			if bp, err := parseBeginTxOpValue(op.Value); err == nil {
				fmt.Fprintf(&sb, " begin(start=@%d)", bp.Index)
			} else {
				fmt.Fprintf(&sb, " begin%s", op.Value)
			}
		case commitTxOp:
			sb.WriteString(" commit")
		case verifyReadOp:
			fmt.Fprintf(&sb, " vread(%s)", op.Key)
		case verifyListOp:
			fmt.Fprintf(&sb, " vlist(%s)", op.Key)
		default:
			fmt.Fprintf(&sb, " op%d", op.OpType)
		}
	}
	return sb.String()
}

// c08Judge is the log-replay oracle.
//
//	(i)   every commit's client-visible verdict is consistent with the replay: if every verification hash of
//	      the entry matches the replay map at its log position the commit must have succeeded; if something the
//	      transaction observed (values and listings it was given) differs at its log position the commit must have
//	      failed with ErrTransactionCommitFailure; a failure is always ErrTransactionCommitFailure.
//	(ii)  the FSM data under the case prefix equals the replay map (committed writes all visible, failed none).
//	(iii) every value and listing a transaction was given equals the replay map at its start index overlaid
//	      with its own earlier writes.
func c08Judge(rt *rapid.T, rec *verifx.Recorder, r *c08Run, caseStart uint64, caughtUpOnly bool, maxLag uint64, digest uint64) {
	b := r.b
	entries := c08ReadLog(rt, b, caseStart)
	if len(entries) != len(r.ops) {
		rt.Fatalf("harness: %d logged operations but %d command entries in the log store\ntrace:\n%s", len(r.ops), len(entries), strings.Join(r.trace, "\n"))
	}
	// replay
	states := map[uint64]c08State{caseStart: {}}
	cur := c08State{}
	stateAt := func(idx uint64) c08State {
		// state after the last entry with index <= idx
		best := caseStart
		for i := range states {
			if i <= idx && i > best {
				best = i
			}
		}
		if idx < caseStart {
			return c08State{}
		}
		return states[best]
	}
	var logLines []string
	type pendingViolation struct {
		sig, msg string
		extra    map[string]any
	}
	var first *pendingViolation
	flag := func(sig string, extra map[string]any, format string, a ...any) {
		if first == nil {
			first = &pendingViolation{sig: sig, msg: fmt.Sprintf(format, a...), extra: extra}
		}
	}
	nontrivial := false
	conflictsSeen, commitsSeen, unsat := 0, 0, 0
	sameBatchCases, sameBatchAtStart := 0, 0
	for k, e := range entries {
		op := r.ops[k]
		line := c08DescribeEntry(e)
		ops := e.Data.Operations
		isTx := len(ops) > 0 && ops[0].OpType == beginTxOp
		if !isTx {
			if op.Kind == "commit" || len(ops) != 1 || ops[0].Key != op.Key {
				rt.Fatalf("harness: log entry %s does not belong to operation %s %s", line, op.Kind, op.Key)
			}
			if op.err != nil {
				flag("plain-write-error", nil, "%s %s returned %v", op.Kind, op.Key, op.err)
			}
			if ops[0].OpType == putOp {
				cur[ops[0].Key] = string(ops[0].Value)
			} else {
				delete(cur, ops[0].Key)
			}
			states[e.Index] = cur.clone()
			logLines = append(logLines, line)
			continue
		}
		if op.Kind != "commit" {
			rt.Fatalf("harness: transaction entry %s matched to %s %s", line, op.Kind, op.Key)
		}
		t := op.Txn
		bp, err := parseBeginTxOpValue(ops[0].Value)
		if err != nil || bp.Index != t.Start {
			rt.Fatalf("harness: entry %s start index does not belong to T%d (start %d)", line, t.ID, t.Start)
		}
		av, why := c08AlwaysVerify(e.Data, cur)
		var changed []string
		for _, o := range t.Obs {
			if now := c08Expect(o, cur); now != o.got() {
				changed = append(changed, fmt.Sprintf("%s, at its log position %s", o, now))
			}
		}
		actualCommit := op.err == nil
		if op.err != nil && !errors.Is(op.err, physical.ErrTransactionCommitFailure) {
			flag("commit-unexpected-error", nil, "T%d commit returned %v", t.ID, op.err)
		}
		line += fmt.Sprintf("  [T%d client=%s always-verify=%s observations-changed=%d lag-at-begin=%d]", t.ID, c08VerdictOf(actualCommit), c08VerdictOf(av), len(changed), t.Lag)
		logLines = append(logLines, line)
		if len(changed) > 0 && t.Lag >= 1 {
			nontrivial = true
		}
		// Did the FSM receive this commit entry in one batch together with an earlier write to something the
		// transaction observed (observation intact when the batch began, changed at the entry's position)?
		sameBatch, batchFollowsStart := false, false
		for _, bt := range r.batches {
			if bt.N < 2 || e.Index <= bt.Lo || e.Index > bt.Hi {
				continue
			}
			atBatch := stateAt(bt.Lo)
			for _, o := range t.Obs {
				if c08Expect(o, atBatch) == o.got() && c08Expect(o, cur) != o.got() {
					sameBatch = true
					batchFollowsStart = bt.Lo == t.Start
				}
			}
		}
		if sameBatch {
			nontrivial = true
			sameBatchCases++
			line += " [behind a conflicting write in the same FSM batch]"
			logLines[len(logLines)-1] = line
			if batchFollowsStart {
				sameBatchAtStart++
			}
		}
		extra := map[string]any{"txn": t.ID, "entry": line, "start_index": fmt.Sprintf("@%d", t.Start), "raft_applied_at_begin": fmt.Sprintf("@%d", t.RaftApplied), "lag_at_begin": t.Lag,
			"changed_observations": changed, "always_verify": av, "always_verify_mismatch": why}
		switch {
		case actualCommit && len(changed) > 0 && !av:
			if sameBatch {
				flag("commit-behind-conflicting-write-in-same-batch-not-verified", extra,
					"T%d (start @%d) observed %v; the conflicting write and its commit entry @%d reached the FSM in one batch, the entry was applied without verification and Commit returned nil",
					t.ID, t.Start, changed, e.Index)
			} else if t.Lag >= 1 {
				flag("txn-start-behind-applied-index-not-verified", extra,
					"T%d began at FSM index @%d while raft's applied index was @%d (%d entries queued for the FSM), observed %v; its commit entry @%d was applied without verification and Commit returned nil",
					t.ID, t.Start, t.RaftApplied, t.Lag, changed, e.Index)
			} else {
				flag("stale-observation-committed", extra, "T%d (begun with the FSM caught up at @%d) observed %v; Commit @%d returned nil", t.ID, t.Start, changed, e.Index)
			}
		case actualCommit && len(changed) > 0 && av:
			sig := "verification-does-not-cover-observation"
			// Is every changed observation a listing whose shipped verification covers exactly the stored entries that
			// existed at the start index (the iteration ran out of stored entries, so the backend shipped limit =
			// number of entries seen), while more stored entries exist now? Then entries that appeared behind the
			// ones seen are invisible to the verification.
			phantom := true
			atStart := stateAt(t.Start)
			for _, o := range t.Obs {
				if c08Expect(o, cur) == o.got() {
					continue
				}
				if o.Kind != "list" {
					phantom = false
					continue
				}
				covered := false
				for _, vop := range ops {
					if vop.OpType != verifyListOp {
						continue
					}
					params, err := parseListVerifyParams(vop.Key)
					if err != nil || params.Prefix != o.Prefix || params.After != o.After || params.Limit <= 0 {
						continue
					}
					if len(c08ModelList(atStart, o.Prefix, o.After, -1)) == params.Limit && len(c08ModelList(cur, o.Prefix, o.After, -1)) > params.Limit {
						covered = true
					}
				}
				if !covered {
					phantom = false
				}
			}
			if phantom {
				sig = "list-verification-truncated-to-entries-seen"
			}
			flag(sig, extra, "T%d observed %v, every shipped verification hash still matches at @%d, Commit returned nil", t.ID, changed, e.Index)
		case !actualCommit && av:
			flag("conflict-although-every-verification-matches", extra, "T%d: every verification hash of entry @%d matches the replay state, Commit returned %v", t.ID, e.Index, op.err)
		case actualCommit && !av:
			unsat++ // a blind write's conservative hash, or a hash always-verify cannot satisfy; nothing observed changed
			rec.Class("unsatisfied-verification-in-committed-entry:"+strings.SplitN(why, " ", 2)[0], 1)
		}
		if actualCommit {
			commitsSeen++
			for _, o := range ops {
				switch o.OpType {
				case putOp:
					cur[o.Key] = string(o.Value)
				case deleteOp:
					delete(cur, o.Key)
				}
			}
			// the entry must carry exactly the transaction's own writes
			want := c08Overlay(c08State{}, t.overlay)
			got := c08State{}
			for _, o := range ops {
				if o.OpType == putOp {
					got[o.Key] = string(o.Value)
				}
			}
			if fmt.Sprint(want.dump()) != fmt.Sprint(got.dump()) {
				flag("commit-entry-differs-from-writes", extra, "T%d wrote %v, its entry carries %v", t.ID, want.dump(), got.dump())
			}
		} else {
			conflictsSeen++
		}
		states[e.Index] = cur.clone()
	}
	// (iii)
	for _, t := range r.txns {
		at := stateAt(t.Start)
		for _, o := range t.Obs {
			if want := c08Expect(o, at); want != o.got() {
				flag("txn-read-differs-from-start-snapshot", map[string]any{"txn": t.ID, "start_index": fmt.Sprintf("@%d", t.Start), "state_at_start": at.dump()},
					"T%d (start @%d): %s, but the replay map at its start index (with its own writes) gives %s", t.ID, t.Start, o, want)
			}
		}
		if t.Committed && (t.RO || !t.Wrote) && t.CommitErr != nil {
			flag("write-free-commit-error", nil, "T%d commit without writes returned %v", t.ID, t.CommitErr)
		}
	}
	// (ii)
	var fsmDump []string
	err := b.fsm.db.View(func(tx *bolt.Tx) error {
		c := tx.Bucket(dataBucketName).Cursor()
		p := []byte(r.prefix)
		for k, v := c.Seek(p); k != nil && bytes.HasPrefix(k, p); k, v = c.Next() {
			fsmDump = append(fsmDump, fmt.Sprintf("%s=%q", k, v))
		}
		return nil
	})
	if err != nil {
		rt.Fatalf("harness: fsm dump: %v", err)
	}
	if want := cur.dump(); strings.Join(want, "\n") != strings.Join(fsmDump, "\n") {
		// takes precedence: the replay followed the verdicts the clients were given, so the FSM did something else
		// than it reported (a verdict disagreement flagged above is then a consequence, not the finding)
		prev := ""
		if first != nil {
			prev = " (first verdict disagreement: " + first.sig + ": " + first.msg + ")"
		}
		first = nil
		flag("fsm-data-differs-from-replay", nil, "FSM holds %v, replay of the log with the client-visible verdicts gives %v%s", fsmDump, want, prev)
	}

	lagClass := "lag0"
	switch {
	case maxLag >= 3:
		lagClass = "lag3+"
	case maxLag >= 1:
		lagClass = fmt.Sprintf("lag%d", maxLag)
	}
	if len(r.txns) == 0 {
		lagClass = "no-txn"
	}
	if caughtUpOnly && maxLag > 0 {
		rt.Fatalf("harness: transaction began with lag %d in the caught-up class", maxLag)
	}
	render := func() map[string]any {
		return r.detail(map[string]any{"log": logLines, "fsm": fsmDump})
	}
	rec.Case(fmt.Sprintf("caughtUpOnly=%v %s", caughtUpOnly, lagClass), nontrivial, digest, func() any { return render() })
	if commitsSeen > 0 {
		rec.Class("cases-with-commit", 1)
	}
	if r.behindWriter > 0 {
		rec.Class("begin-behind-pending-lock-writer", int64(r.behindWriter))
	}
	multi := false
	for _, bt := range r.batches {
		switch {
		case bt.N >= 3:
			rec.Class("fsm-batches-of-3+", 1)
			multi = true
		case bt.N == 2:
			rec.Class("fsm-batches-of-2", 1)
			multi = true
		default:
			rec.Class("fsm-batches-of-1", 1)
		}
	}
	if multi {
		rec.Class("cases-with-multi-entry-batch", 1)
	}
	if sameBatchCases > 0 {
		rec.Class("cases-with-txn-behind-conflicting-write-in-same-batch", 1)
	}
	if sameBatchAtStart > 0 {
		rec.Class("cases-with-txn-behind-conflicting-write-in-the-batch-right-after-its-start", 1)
	}
	if conflictsSeen > 0 {
		rec.Class("cases-with-conflict", 1)
	}
	if unsat > 0 {
		rec.Class("cases-with-unverified-commit-of-unchanged-observations", 1)
	}
	if first != nil {
		d := render()
		for k, v := range first.extra {
			d[k] = r.normAny(v)
		}
		rec.Violation(rt, first.sig, d, "%s", r.norm(first.msg))
	}
}

func c08VerdictOf(commit bool) string {
	if commit {
		return "commit"
	}
	return "conflict"
}
