//go:build verif

package raft

// C09, unit leader-log - "a verdict reported to a client by the leader is the verdict every replica reaches".
//
// A generated workload (the schedule generator of c08_live_test.go: plain writes, up to three concurrent
// transactions - often begun at the same applied index -, bursts that raft group-commits, a gated FSM) runs on the
// live single-node RaftBackend. Then the log entries the leader wrote are read back from its log store and fed,
// byte for byte, to fresh replica FSMs (c09RunReplicas: one log per batch, random batches, reopen at a generated
// position, snapshot install at a generated position). Reference = what the leader told its clients: every
// replica must reach, for every transaction entry, the verdict the leader reported for it, the data the replay
// with those verdicts gives, and in the end the data the leader's own FSM holds.

import (
	"bytes"
	"errors"
	"fmt"
	"strings"
	"testing"

	"github.com/openbao/openbao/sdk/v2/helper/verifx"
	"github.com/openbao/openbao/sdk/v2/physical"
	bolt "go.etcd.io/bbolt"
	"google.golang.org/protobuf/proto"
	"pgregory.net/rapid"
)

const c09LevelKey = "level" // written outside every case prefix: gives the replicas the leader's index at case start

func TestVerif_C09_LeaderLog(t *testing.T) {
	rec := verifx.NewRecorder("C09", "leader-log",
		"live single-node RaftBackend, schedule generator of C08's raft-live unit (<= 30 actions: async puts/deletes, up to 3 concurrent transactions with scripts, bursts group-committed into one FSM batch, gated FSM); the command entries the leader logged for the case are read back from its log store and applied unchanged to fresh FSMs R0 (1 log per batch), R1 (random batches), R2 (reopened at a generated position), R3 (snapshot of R0 installed at a generated position); reference = the verdict the leader returned to the committing client and the leader's own FSM data; non-trivial = as for the replicas unit (a reopen / snapshot install strictly inside the window of a transaction whose read set was written in that window)")
	defer rec.Flush()
	env := c08NewEnv(t)
	rapid.Check(t, func(rt *rapid.T) {
		c08RunCase(rt, rec, env, func(r *c08Run, caseStart uint64, caughtUpOnly bool, maxLagAtBegin uint64, digest uint64) {
			c := c09CaseFromLeader(rt, rec, r, caseStart)
			if c == nil {
				return
			}
			c09RunReplicas(rt, rec, c, "the leader")
		})
	})
}

// c09CaseFromLeader turns the part of the leader's log written by the case into a c09Case whose reference verdicts
// are the ones the leader reported. Slot 1 is a synthetic put at the leader's index at case start.
func c09CaseFromLeader(rt *rapid.T, rec *verifx.Recorder, r *c08Run, caseStart uint64) *c09Case {
	b := r.b
	entries := c08ReadLog(rt, b, caseStart)
	if len(entries) != len(r.ops) {
		rt.Fatalf("harness: %d logged operations but %d command entries in the log store\ntrace:\n%s", len(r.ops), len(entries), r.norm(strings.Join(r.trace, "\n")))
	}
	n := len(entries) + 1
	c := &c09Case{N: n, Entries: make([]*c09Entry, n+1), States: make([]c09State, n+1), Idx: make([]uint64, n+1),
		Data: make([][]byte, n+1), Ext: make([][]byte, n+1), Scrub: r.norm, Origin: r.normAny(r.trace)}
	c.States[0] = c09State{}
	level := &c09Entry{Pos: 1, Index: caseStart, Kind: "put", Key: c09LevelKey, Value: []byte("x"), NumChunks: 1, FirstPos: 1}
	raw, err := proto.Marshal(&LogData{Operations: []*LogOperation{{OpType: putOp, Key: level.Key, Value: level.Value}}})
	if err != nil {
		rt.Fatalf("harness: %v", err)
	}
	c.Entries[1], c.Idx[1], c.Data[1] = level, caseStart, raw
	c.States[1] = c09State{c09LevelKey: level.Value}
	posOfIndex := map[uint64]int{caseStart: 1}
	sameStart := map[uint64][]*c09Entry{}
	for k, le := range entries {
		p := k + 2
		op := r.ops[k]
		ops := le.Data.Operations
		e := &c09Entry{Pos: p, Index: le.Index, NumChunks: 1, FirstPos: p, LAI: le.Data.LowestActiveIndex}
		c.Idx[p], c.Data[p] = le.Index, le.Raw
		posOfIndex[le.Index] = p
		cur := c.States[p-1]
		next := cur.clone()
		isTx := len(ops) > 0 && ops[0].OpType == beginTxOp
		switch {
		case !isTx:
			if op.Kind == "commit" || len(ops) != 1 || ops[0].Key != op.Key {
				rt.Fatalf("harness: log entry %s does not belong to operation %s %s", r.norm(c08DescribeEntry(le)), op.Kind, op.Key)
			}
			if op.err != nil {
				rec.Violation(rt, "plain-write-error", r.detail(nil), "%s", r.norm(fmt.Sprintf("%s %s returned %v", op.Kind, op.Key, op.err)))
				return nil
			}
			e.Key = ops[0].Key
			if ops[0].OpType == putOp {
				e.Kind, e.Value = "put", ops[0].Value
				next[e.Key] = e.Value
			} else {
				e.Kind = "del"
				delete(next, e.Key)
			}
		default:
			if op.Kind != "commit" {
				rt.Fatalf("harness: transaction entry %s matched to %s %s", r.norm(c08DescribeEntry(le)), op.Kind, op.Key)
			}
			e.Kind = "txn"
			bp, err := parseBeginTxOpValue(ops[0].Value)
			if err != nil || bp.Index != op.Txn.Start {
				rt.Fatalf("harness: entry %s does not carry the start index of T%d", r.norm(c08DescribeEntry(le)), op.Txn.ID)
			}
			e.StartIndex = bp.Index
			sp, ok := posOfIndex[bp.Index]
			if !ok {
				rt.Fatalf("harness: start index @%d of T%d is not the index of a command entry of the case", bp.Index, op.Txn.ID)
			}
			e.StartPos = sp
			for _, o := range ops[1:] {
				switch o.OpType {
				case verifyReadOp:
					e.Verifies = append(e.Verifies, c09Verify{Key: o.Key, Hash: o.Value})
				case verifyListOp:
					params, err := parseListVerifyParams(o.Key)
					if err != nil {
						rt.Fatalf("harness: list parameters %q: %v", o.Key, err)
					}
					e.Verifies = append(e.Verifies, c09Verify{IsList: true, Key: o.Key, Prefix: params.Prefix, After: params.After, Limit: params.Limit, Hash: o.Value})
				case putOp:
					e.Writes = append(e.Writes, c09Write{Key: o.Key, Value: o.Value})
				case deleteOp:
					e.Writes = append(e.Writes, c09Write{Key: o.Key, Del: true})
				}
			}
			for i := range e.Verifies {
				for q := e.StartPos + 1; q < p; q++ {
					for _, key := range c.writesAt(q) {
						if c09Touches(&e.Verifies[i], key) {
							e.Stale = true
						}
					}
				}
			}
			// the reference verdict: what the leader told the client
			if op.err != nil && !errors.Is(op.err, physical.ErrTransactionCommitFailure) {
				rec.Violation(rt, "commit-unexpected-error", r.detail(nil), "%s", r.norm(fmt.Sprintf("T%d commit returned %v", op.Txn.ID, op.err)))
				return nil
			}
			e.ModelCommit = op.err == nil
			if e.ModelCommit {
				// A listing verification describes stored entries: if the listing it names was the same in every state
				// from the transaction's start up to this entry, the shipped hash must be the hash of that listing. A
				// hash that matches no state the transaction can have seen is accepted only by replicas that skip the
				// verification (fast path) and rejected by every replica that performs it (after a restart or a snapshot
				// installation inside the transaction's window): same log, different verdicts.
				for _, v := range e.Verifies {
					if len(v.Hash) < 1 {
						continue
					}
					// what the verification names, in one state: the listing, or the value of the key ("\x00absent" when missing)
					view := func(st c09State) string {
						if v.IsList {
							return strings.Join(c09ModelList(st, v.Prefix, v.After, v.Limit), "\n")
						}
						if val, ok := st[v.Key]; ok {
							return "=" + string(val)
						}
						return "\x00absent"
					}
					want := view(c.States[e.StartPos])
					same := true
					for q := e.StartPos + 1; q < p; q++ {
						if view(c.States[q]) != want {
							same = false
						}
					}
					if !same {
						continue
					}
					var h []byte
					var herr error
					what := "value of " + v.Key
					if v.IsList {
						h, herr = createVerificationEntryOfType(v.Hash[0], v.Key, []byte(want))
						what = "listing " + v.Key
					} else {
						var val []byte
						if sv, ok := c.States[e.StartPos][v.Key]; ok {
							val = sv
						}
						h, herr = createVerificationEntryOfType(v.Hash[0], v.Key, val)
					}
					if herr == nil && !bytes.Equal(h, v.Hash) {
						kind := "read"
						if v.IsList {
							kind = "list"
						}
						rec.Violation(rt, "leader-commits-what-verifying-replicas-reject:"+kind+"-hash-matches-no-state", r.detail(nil), "%s",
							r.norm(fmt.Sprintf("T%d: the %s was %q in every state from its start @%d to its commit entry @%d, but the verification hash shipped in the entry is not the hash of that; the leader committed it without verifying (fast path), a replica that verifies it (restart or snapshot installation inside the transaction's window) rejects it", op.Txn.ID, what, want, e.StartIndex, le.Index)))
						return nil
					}
				}
				for _, w := range e.Writes {
					if w.Del {
						delete(next, w.Key)
					} else {
						next[w.Key] = w.Value
					}
				}
			}
			sameStart[e.StartIndex] = append(sameStart[e.StartIndex], e)
		}
		c.Entries[p] = e
		c.States[p] = next
	}
	// the leader's own FSM must hold what its reported verdicts imply
	var leader []string
	err = b.fsm.db.View(func(tx *bolt.Tx) error {
		cu := tx.Bucket(dataBucketName).Cursor()
		pfx := []byte(r.prefix)
		for k, v := cu.Seek(pfx); k != nil && bytes.HasPrefix(k, pfx); k, v = cu.Next() {
			leader = append(leader, string(k)+"="+c09ShowVal(v))
		}
		return nil
	})
	if err != nil {
		rt.Fatalf("harness: leader dump: %v", err)
	}
	final := c.States[n].clone()
	delete(final, c09LevelKey)
	if want := final.dump(); strings.Join(want, "\n") != strings.Join(leader, "\n") {
		rec.Violation(rt, "leader-fsm-differs-from-reported-verdicts", r.detail(map[string]any{"leader_fsm": leader, "replay": want}), "%s",
			r.norm(fmt.Sprintf("the leader's FSM holds %v, the replay of its log with the verdicts it reported gives %v", leader, want)))
		return nil
	}
	// shape classes
	siblings, shape := false, false
	for _, group := range sameStart {
		if len(group) < 2 {
			continue
		}
		siblings = true
		// a later sibling whose read set was written, at least two entries before an earlier sibling's commit entry
		for i, a := range group {
			for _, bb := range group[i+1:] {
				if !bb.Stale {
					continue
				}
				for w := bb.StartPos + 1; w+1 < a.Pos; w++ {
					for vi := range bb.Verifies {
						for _, key := range c.writesAt(w) {
							if c09Touches(&bb.Verifies[vi], key) {
								shape = true
							}
						}
					}
				}
			}
		}
	}
	if siblings {
		rec.Class("logs-with-sibling-txns-same-start-index", 1)
	}
	if shape {
		rec.Class("logs-with-stale-txn-committing-after-a-sibling-with-the-same-start-index", 1)
	}
	return c
}
