//go:build verif

package kv

// C14 - sequential histories with a single injected storage failure inside a delete / undelete / destroy /
// metadata operation: an acknowledged operation is durable and exact, a failed one (transactional storage)
// changes nothing.

import (
	"fmt"
	"testing"

	"github.com/openbao/openbao/sdk/v2/helper/verifx"
	"pgregory.net/rapid"
)

func TestVerif_C14_FailedMutation(t *testing.T) {
	rec := verifx.NewRecorder("C14", "failed-mutation", "sequential history of 2-8 set-up operations on one path checked response by response against the model, then one delete (latest or named versions), undelete, destroy, metadata write or metadata delete during which the k-th storage operation (begin, get, put, delete, commit; k generated, every k in the thorough tier) fails once; oracle: an acknowledged operation has exactly the effect the model states (reads of every version + latest + key metadata), i.e. a storage failure is never swallowed; an operation that reports failure on transactional storage leaves every observation unchanged, and repeated without fault it behaves as the model says; on non-transactional storage a failed operation may leave either state (counted); non-trivial = the fault fired inside an operation that changes the state when it succeeds")
	defer rec.Flush()
	rapid.Check(t, func(rt *rapid.T) {
		c := &c14FaultCase{transactional: rapid.Bool().Draw(rt, "transactionalStorage")}
		// ---- set-up: generated against the model so that the target write is interesting
		st := c14State{}
		n := rapid.IntRange(2, 8).Draw(rt, "setupOps")
		for i := 0; i < n; i++ {
			var base [2]int
			base[0] = st.paths[0].cur
			var o *c14Op
			if rapid.IntRange(0, 9).Draw(rt, "setupShape") == 0 {
				o = &c14Op{kind: "config", maxV: -1, casReq: rapid.IntRange(0, 1).Draw(rt, "cas_required"), dva: rapid.IntRange(0, 3).Draw(rt, "deleteVersionAfter") == 0}
			} else {
				o = c14GenOp(rt, 1, base, fmt.Sprintf("s%d", i), true)
				if o.kind == "deletev" && rapid.Bool().Draw(rt, "undeleteInstead") {
					o.kind = "undelete"
				}
				// let set-up writes pass a cas requirement most of the time
				if o.isWrite() && (st.cfgCas || st.paths[0].casReq) && rapid.IntRange(0, 3).Draw(rt, "withCas") > 0 {
					o.hasCas, o.cas = true, st.paths[0].cur
				}
			}
			c.setup = append(c.setup, o)
			ocs := c14Outcomes(st, o)
			st = ocs[len(ocs)-1].next // deterministic: no config race in a sequential history
		}
		// ---- the mutation under fault
		cur := st.paths[0].cur
		tg := &c14Op{maxV: -1, casReq: -1}
		tg.kind = []string{"delete", "deletev", "undelete", "destroy", "metawrite", "metadelete", "deletev", "destroy"}[rapid.IntRange(0, 7).Draw(rt, "targetKind")]
		switch tg.kind {
		case "deletev", "undelete", "destroy":
			hi := cur + 1
			if hi < 1 {
				hi = 1
			}
			tg.versions = []int{rapid.IntRange(1, hi).Draw(rt, "tv0")}
			if rapid.IntRange(0, 2).Draw(rt, "tTwo") == 0 {
				tg.versions = append(tg.versions, rapid.IntRange(1, hi).Draw(rt, "tv1"))
			}
		case "metawrite":
			if rapid.Bool().Draw(rt, "tMax") {
				tg.maxV = rapid.IntRange(1, 3).Draw(rt, "tmax_versions")
			} else {
				tg.casReq = rapid.IntRange(0, 1).Draw(rt, "tcas_required")
			}
		}
		c.target = tg
		upTo := cur + 2

		// ---- dry run without fault: number of storage operations of the write, and the model check of its answer
		env, st0 := c.replay(t, rt, rec)
		before0 := env.observe(0, upTo)
		if want := c14ModelObserve(st0, 0, upTo); !c14Equal(before0, want) {
			env.close()
			rec.Violation(rt, "sequential-model-mismatch", map[string]any{"setup": c14Strings(c.setup), "observed": before0, "model": want, "transactional": c.transactional},
				"after the sequential set-up the API shows a state different from the documented model")
			return
		}
		seq := env.rec.Seq()
		dry := c.clone(tg)
		env.exec(dry)
		nOps := 0
		var opKinds []string
		for _, op := range env.rec.OpsSince(seq) {
			if op.Kind != "rollback" {
				nOps++
				opKinds = append(opKinds, op.Kind)
			}
		}
		okDry, stAfter := c14Step(st0, dry, dry.out)
		after0 := env.observe(0, upTo)
		env.close()
		if !okDry || dry.out == "err:internal" {
			rec.Violation(rt, "sequential-model-mismatch", map[string]any{"setup": c14Strings(c.setup), "target": tg.String(), "transactional": c.transactional},
				"write %q answered %q (%s); the documented model allows %v", tg.String(), dry.out, dry.detail, c14OutStrings(c14Outcomes(st0, tg)))
			return
		}
		if want := c14ModelObserve(stAfter, 0, upTo); !c14Equal(after0, want) {
			rec.Violation(rt, "sequential-model-mismatch", map[string]any{"setup": c14Strings(c.setup), "target": tg.String() + " -> " + dry.out, "observed": after0, "model": want, "transactional": c.transactional},
				"after write %q (%s) the API shows a state different from the documented model", tg.String(), dry.out)
			return
		}
		wouldSucceed := len(dry.out) >= 2 && dry.out[:2] == "ok" && !c14Equal(before0, after0)
		if nOps == 0 {
			rt.Skip("the operation performs no storage operation")
		}

		// ---- faulted runs
		var ks []int
		if verifx.Thorough() {
			for k := 1; k <= nOps; k++ {
				ks = append(ks, k)
			}
		} else {
			ks = []int{rapid.IntRange(1, nOps).Draw(rt, "k")}
		}
		for _, k := range ks {
			env, stK := c.replay(t, rt, rec)
			if stK != st0 {
				env.close()
				t.Fatalf("harness: set-up replay is not deterministic")
			}
			before := env.observe(0, upTo)
			fault, fired := verifx.FailNth(func(o *verifx.Op) bool { return o.Kind != "rollback" }, k)
			env.rec.SetFault(fault)
			w := c.clone(tg)
			env.exec(w)
			env.rec.SetFault(nil)
			hit := fired()
			after := env.observe(0, upTo)
			detail := func() map[string]any {
				d := map[string]any{"transactional": c.transactional, "setup": c14Strings(c.setup), "write": tg.String(), "answer": w.out + " " + verifx.Trunc(w.detail, 200),
					"k": k, "storage_ops_of_write": opKinds, "before": before, "after": after}
				if hit != nil {
					d["failed_op"] = hit.String()
				}
				return d
			}
			if hit == nil {
				env.close()
				t.Fatalf("harness: fault %d of %d did not fire (%v)", k, nOps, opKinds)
			}
			failed := w.out != "" && w.out[:2] != "ok"
			class := "fault@" + hit.Kind
			if w.out == "panic" {
				env.close()
				rec.Violation(rt, "panic", detail(), "operation panicked when storage operation %d (%s) failed: %s", k, hit.Kind, w.detail)
				continue
			}
			if failed && !c.transactional && !c14Equal(before, after) {
				// without transactions a multi-record operation cannot be undone; not claimed by the statement
				env.close()
				if c14Equal(after, c14ModelObserve(stAfter, 0, upTo)) {
					rec.Class(class+":failed-but-applied:non-transactional", 1)
				} else {
					rec.Class(class+":failed-and-torn:non-transactional", 1)
				}
				continue
			}
			if failed {
				if !c14Equal(before, after) {
					env.close()
					rec.Violation(rt, "failed-mutation-changed-state", detail(), "%q failed (%s) at storage operation %d (%s) on transactional storage and data/metadata changed", tg.String(), w.out, k, hit.String())
					continue
				}
				// unchanged state => the same write, repeated, behaves as on the unchanged state
				retry := c.clone(tg)
				env.exec(retry)
				okR, stR := c14Step(st0, retry, retry.out)
				afterRetry := env.observe(0, upTo)
				if !okR || retry.out != dry.out || !c14Equal(afterRetry, c14ModelObserve(stR, 0, upTo)) {
					d := detail()
					d["retry_answer"] = retry.out + " " + verifx.Trunc(retry.detail, 200)
					d["after_retry"] = afterRetry
					d["model_after_retry"] = c14ModelObserve(stR, 0, upTo)
					env.close()
					rec.Violation(rt, "retry-after-failed-mutation-differs", d, "write %q failed at storage operation %d (%s); repeated without fault it answered %q (without the fault: %q) or left a state the model does not predict", tg.String(), k, hit.String(), retry.out, dry.out)
					continue
				}
				class += ":write-failed"
			} else {
				// the write reported success although an operation failed (documented for version clean-up: a warning):
				// then it must be a successful write in every observable respect
				if w.out != dry.out || !c14Equal(after, c14ModelObserve(stAfter, 0, upTo)) {
					d := detail()
					d["model_after"] = c14ModelObserve(stAfter, 0, upTo)
					env.close()
					rec.Violation(rt, "acknowledged-mutation-not-applied", d, "%q was acknowledged (%s) although storage operation %d (%s) failed, and the visible state is not the one the operation promises", tg.String(), w.out, k, hit.String())
					continue
				}
				class += ":write-succeeded"
			}
			env.close()
			rec.Class(class, 1)
		}
		cls := "non-transactional"
		if c.transactional {
			cls = "transactional"
		}
		cls += "/" + tg.kind
		rec.Class(fmt.Sprintf("write-storage-ops=%02d", nOps), 1)
		rec.Case(cls, wouldSucceed, verifx.Digest(c.transactional, c14Strings(c.setup), tg.String(), ks), func() any {
			return map[string]any{"transactional": c.transactional, "setup": c14Strings(c.setup), "write": tg.String(), "without_fault": dry.out, "storage_ops_of_write": opKinds, "faulted_k": ks}
		})
	})
}

