//go:build verif

package kv

// C14 - shared part: the environment (KV v2 backend over a recording, gateable physical backend), the
// operation vocabulary, the canonical rendering of responses (timestamps dropped) and the sequential
// reference model written from website/content/docs/api/secret/kv/kv-v2.mdx and docs/secrets/kv/kv-v2.mdx.

import (
	"context"
	"encoding/json"
	"errors"
	"fmt"
	"sort"
	"strconv"
	"strings"
	"testing"
	"time"

	log "github.com/hashicorp/go-hclog"
	"github.com/openbao/openbao/sdk/v2/helper/verifx"
	"github.com/openbao/openbao/sdk/v2/logical"
	"github.com/openbao/openbao/sdk/v2/physical"
)

// ---------------------------------------------------------------- environment

type c14Env struct {
	phys    physical.Backend
	rec     *verifx.Rec
	storage logical.Storage
	lb      logical.Backend
	b       *versionedKVBackend
	txn     bool
}

var c14Paths = []string{"app/alpha", "app/beta"}

func newC14Env(t *testing.T, transactional bool) *c14Env {
	phys := verifx.NewRec(verifx.NewInmem(transactional))
	e := &c14Env{phys: phys, rec: verifx.RecOf(phys), storage: logical.NewLogicalStorage(phys), txn: transactional}
	if _, ok := e.storage.(logical.TransactionalStorage); ok != transactional {
		t.Fatalf("harness: logical storage transactional=%v, wanted %v", ok, transactional)
	}
	conf := &logical.BackendConfig{
		Logger:      log.NewNullLogger(),
		System:      &logical.StaticSystemView{},
		StorageView: e.storage,
		BackendUUID: "c14",
		Config:      map[string]string{"version": "2"},
	}
	lb, err := Factory(context.Background(), conf)
	if err != nil {
		t.Fatalf("harness: kv factory: %v", err)
	}
	e.lb = lb
	e.b = lb.(*versionedKVBackend)
	// the factory starts the (empty) upgrade in a goroutine; requests are refused until it is done
	deadline := time.Now().Add(20 * time.Second)
	for e.b.upgrading.Load() {
		if time.Now().After(deadline) {
			t.Fatalf("harness: kv upgrade did not finish")
		}
		time.Sleep(20 * time.Microsecond)
	}
	// warm the salt / key-policy / config caches so that scheduled requests consist of their own storage operations only
	w := &c14Op{kind: "write", pathName: "zz-warm", data: map[string]any{"w": "1"}}
	e.exec(w)
	if !strings.HasPrefix(w.out, "ok v=1") {
		t.Fatalf("harness: warm-up write: %s %s", w.out, w.detail)
	}
	d := &c14Op{kind: "metadelete", pathName: "zz-warm"}
	e.exec(d)
	if d.out != "ok" {
		t.Fatalf("harness: warm-up metadata delete: %s %s", d.out, d.detail)
	}
	return e
}

func (e *c14Env) close() {
	e.rec.Gate = nil
	e.rec.TaskOf = nil
	e.rec.SetFault(nil)
	e.lb.Cleanup(context.Background())
}

// ---------------------------------------------------------------- operations

type c14Op struct {
	kind     string // write patch read delete deletev undelete destroy metawrite metadelete metaread config configread remount
	path     int
	pathName string // overrides c14Paths[path] (warm-up only)
	hasCas   bool
	cas      int
	optShape int            // write/patch: 0 an "options" member only when a cas is given; 1 always an options object (empty without cas, as the CLI sends); 2 options with an unrelated entry besides the cas, if any
	data     map[string]any // write: the data; patch: the merge patch (flat, nil = remove key)
	version  int            // read: 0 = latest
	versions []int          // deletev undelete destroy
	maxV     int            // metawrite: -1 absent, else max_versions
	casReq   int            // metawrite/config: -1 absent, 0 false, 1 true
	dva      bool           // metawrite/config: also set delete_version_after to ten years
	cfgRace  bool           // an engine-config write overlaps this write in the schedule (set after the run)

	client    int
	call, ret int64
	out       string // canonical response
	detail    string // free text (error message) - never compared
}

func (o *c14Op) name() string {
	if o.pathName != "" {
		return o.pathName
	}
	return c14Paths[o.path]
}

func (o *c14Op) isWrite() bool { return o.kind == "write" || o.kind == "patch" }

func (o *c14Op) String() string {
	s := o.kind
	if o.kind != "config" && o.kind != "configread" && o.kind != "remount" {
		s += " " + o.name()
	}
	switch o.kind {
	case "write", "patch":
		if o.hasCas {
			s += fmt.Sprintf(" cas=%d", o.cas)
		}
		switch {
		case o.optShape == 1 && !o.hasCas:
			s += " options={}"
		case o.optShape == 2:
			s += " options+=unrelated"
		}
		b, _ := json.Marshal(o.data)
		s += " " + string(b)
	case "read":
		if o.version > 0 {
			s += fmt.Sprintf(" version=%d", o.version)
		}
	case "deletev", "undelete", "destroy":
		s += fmt.Sprintf(" versions=%v", o.versions)
	case "metawrite", "config":
		if o.maxV >= 0 {
			s += fmt.Sprintf(" max_versions=%d", o.maxV)
		}
		if o.casReq >= 0 {
			s += fmt.Sprintf(" cas_required=%v", o.casReq == 1)
		}
		if o.dva {
			s += " delete_version_after=87600h"
		}
	}
	return s
}

func (o *c14Op) request(st logical.Storage) *logical.Request {
	req := &logical.Request{Storage: st, Data: map[string]any{}}
	p := o.name()
	switch o.kind {
	case "write", "patch":
		req.Operation = logical.UpdateOperation
		if o.kind == "patch" {
			req.Operation = logical.PatchOperation
		}
		req.Path = "data/" + p
		d := map[string]any{}
		for k, v := range o.data {
			d[k] = v
		}
		req.Data["data"] = d
		// the options object: absent, {} , {"cas": n}, or either of them with an entry the engine does not know
		if o.hasCas || o.optShape > 0 {
			opts := map[string]any{}
			if o.hasCas {
				opts["cas"] = o.cas
			}
			if o.optShape == 2 {
				opts["verif_unrelated"] = "x"
			}
			req.Data["options"] = opts
		}
	case "read":
		req.Operation = logical.ReadOperation
		req.Path = "data/" + p
		if o.version > 0 {
			req.Data["version"] = o.version
		}
	case "delete":
		req.Operation = logical.DeleteOperation
		req.Path = "data/" + p
	case "deletev", "undelete", "destroy":
		req.Operation = logical.UpdateOperation
		req.Path = map[string]string{"deletev": "delete/", "undelete": "undelete/", "destroy": "destroy/"}[o.kind] + p
		req.Data["versions"] = append([]int(nil), o.versions...)
	case "metawrite":
		req.Operation = logical.UpdateOperation
		req.Path = "metadata/" + p
		if o.maxV >= 0 {
			req.Data["max_versions"] = o.maxV
		}
		if o.casReq >= 0 {
			req.Data["cas_required"] = o.casReq == 1
		}
		if o.dva {
			// versions written from now on are scheduled for deletion far in the future; until then they behave like any other
			req.Data["delete_version_after"] = "87600h"
		}
	case "metadelete":
		req.Operation = logical.DeleteOperation
		req.Path = "metadata/" + p
	case "metaread":
		req.Operation = logical.ReadOperation
		req.Path = "metadata/" + p
	case "config":
		req.Operation = logical.UpdateOperation
		req.Path = "config"
		if o.casReq >= 0 {
			req.Data["cas_required"] = o.casReq == 1
		}
		if o.maxV >= 0 {
			req.Data["max_versions"] = o.maxV
		}
		if o.dva {
			req.Data["delete_version_after"] = "87600h"
		}
	case "configread":
		req.Operation = logical.ReadOperation
		req.Path = "config"
	default:
		panic("harness: unknown op kind " + o.kind)
	}
	return req
}

// exec performs the operation and stores the canonical response.
// remount sets the backend up again on the same storage, as a restart, seal/unseal or leadership change does; no
// warm-up: the first request finds every cache of the new backend object cold.
func (e *c14Env) remount() error {
	conf := &logical.BackendConfig{
		Logger:      log.NewNullLogger(),
		System:      &logical.StaticSystemView{},
		StorageView: e.storage,
		BackendUUID: "c14",
		Config:      map[string]string{"version": "2"},
	}
	lb, err := Factory(context.Background(), conf)
	if err != nil {
		return err
	}
	e.lb.Cleanup(context.Background())
	e.lb = lb
	e.b = lb.(*versionedKVBackend)
	deadline := time.Now().Add(20 * time.Second)
	for e.b.upgrading.Load() {
		if time.Now().After(deadline) {
			return fmt.Errorf("kv upgrade did not finish after remount")
		}
		time.Sleep(20 * time.Microsecond)
	}
	return nil
}

func (e *c14Env) exec(o *c14Op) {
	if o.kind == "remount" {
		if err := e.remount(); err != nil {
			o.out, o.detail = "err:internal", err.Error()
			return
		}
		o.out = "ok"
		return
	}
	var resp *logical.Response
	var err error
	if p := verifx.Try(func() { resp, err = e.lb.HandleRequest(context.Background(), o.request(e.storage)) }); p != nil {
		o.out, o.detail = "panic", fmt.Sprint(p)
		return
	}
	o.out, o.detail = c14Canon(o, resp, err)
}

// c14Deleted: a version is deleted when its deletion time has passed; a deletion time in the future (scheduled by
// delete_version_after) does not make it deleted yet.
func c14Deleted(dt string) bool {
	if dt == "" {
		return false
	}
	at, err := time.Parse(time.RFC3339Nano, dt)
	if err != nil {
		return true
	}
	return !at.After(time.Now())
}

func c14VerFlags(deleted, destroyed bool) string {
	switch {
	case deleted && destroyed:
		return "del+destroyed"
	case deleted:
		return "del"
	case destroyed:
		return "destroyed"
	}
	return "ok"
}

func c14AsInt(v any) (int, bool) {
	switch n := v.(type) {
	case int:
		return n, true
	case int64:
		return int(n), true
	case uint64:
		return int(n), true
	case uint32:
		return int(n), true
	case float64:
		return int(n), true
	case json.Number:
		i, err := n.Int64()
		return int(i), err == nil
	}
	return 0, false
}

// c14Canon renders a response without timestamps. Outputs:
//
//	err:internal            a Go error that is not an invalid-request answer (storage failure, commit conflict)
//	fail:cas-mismatch / fail:cas-required / fail:invalid   the 400 answers of write and patch
//	notfound                patch answered 404
//	ok v=N                  write / patch created version N
//	nil                     read / metadata read: nothing there (HTTP 404 without body)
//	ok v=N data={...}       read returned data
//	404 v=N del|destroyed|del+destroyed   read answered 404 with the version's metadata
//	meta cur=N max=M cas=B vers=[v:flags ...]   metadata read
//	config max=M cas=B      engine configuration read
//	ok                      the other mutations
func c14Canon(o *c14Op, resp *logical.Response, err error) (string, string) {
	if err != nil && !(errors.Is(err, logical.ErrInvalidRequest) && resp != nil && resp.IsError()) {
		return "err:internal", err.Error()
	}
	if resp != nil && resp.IsError() {
		msg := resp.Error().Error()
		switch {
		case strings.Contains(msg, "check-and-set parameter did not match the current version"):
			return "fail:cas-mismatch", msg
		case strings.Contains(msg, "check-and-set parameter required for this call"):
			return "fail:cas-required", msg
		}
		return "fail:invalid", msg
	}
	status := 0
	var body map[string]any
	if resp != nil {
		if sc, ok := resp.Data[logical.HTTPStatusCode]; ok {
			status, _ = c14AsInt(sc)
			if raw, ok := resp.Data[logical.HTTPRawBody].(string); ok && raw != "" {
				_ = json.Unmarshal([]byte(raw), &body)
			}
		}
	}
	switch o.kind {
	case "write", "patch":
		if status == 404 {
			return "notfound", ""
		}
		if resp == nil || status != 0 {
			return fmt.Sprintf("unexpected:status=%d nilresp=%v", status, resp == nil), ""
		}
		v, ok := c14AsInt(resp.Data["version"])
		if !ok {
			return "unexpected:no-version", fmt.Sprint(resp.Data)
		}
		return fmt.Sprintf("ok v=%d", v), strings.Join(resp.Warnings, "; ")
	case "read":
		if resp == nil {
			return "nil", ""
		}
		if status == 404 {
			d, _ := body["data"].(map[string]any)
			md, _ := d["metadata"].(map[string]any)
			if md == nil {
				return "unexpected:404-without-metadata", fmt.Sprint(resp.Data)
			}
			if d["data"] != nil {
				return "unexpected:404-with-data", fmt.Sprint(resp.Data)
			}
			v, _ := c14AsInt(md["version"])
			dt, _ := md["deletion_time"].(string)
			ds, _ := md["destroyed"].(bool)
			return fmt.Sprintf("404 v=%d %s", v, c14VerFlags(c14Deleted(dt), ds)), ""
		}
		if status != 0 {
			return fmt.Sprintf("unexpected:status=%d", status), ""
		}
		md, _ := resp.Data["metadata"].(map[string]any)
		v, _ := c14AsInt(md["version"])
		dt, _ := md["deletion_time"].(string)
		ds, _ := md["destroyed"].(bool)
		data, isMap := resp.Data["data"].(map[string]any)
		if !isMap {
			return "unexpected:read-without-data", fmt.Sprint(resp.Data)
		}
		jb, _ := json.Marshal(data)
		s := fmt.Sprintf("ok v=%d data=%s", v, jb)
		if c14Deleted(dt) || ds {
			s += " flags=" + c14VerFlags(c14Deleted(dt), ds)
		}
		return s, ""
	case "metaread":
		if resp == nil {
			return "nil", ""
		}
		if status != 0 {
			return fmt.Sprintf("unexpected:status=%d", status), ""
		}
		cur, _ := c14AsInt(resp.Data["current_version"])
		mx, _ := c14AsInt(resp.Data["max_versions"])
		cr, _ := resp.Data["cas_required"].(bool)
		vers, _ := resp.Data["versions"].(map[string]any)
		type vf struct {
			n int
			f string
		}
		var vs []vf
		for k, raw := range vers {
			n, _ := strconv.Atoi(k)
			m, _ := raw.(map[string]any)
			dt, _ := m["deletion_time"].(string)
			ds, _ := m["destroyed"].(bool)
			vs = append(vs, vf{n, c14VerFlags(c14Deleted(dt), ds)})
		}
		sort.Slice(vs, func(i, j int) bool { return vs[i].n < vs[j].n })
		parts := make([]string, len(vs))
		for i, v := range vs {
			parts[i] = fmt.Sprintf("%d:%s", v.n, v.f)
		}
		return fmt.Sprintf("meta cur=%d max=%d cas=%v vers=[%s]", cur, mx, cr, strings.Join(parts, " ")), ""
	case "configread":
		if resp == nil || status != 0 {
			return fmt.Sprintf("unexpected:status=%d nilresp=%v", status, resp == nil), ""
		}
		mx, okM := c14AsInt(resp.Data["max_versions"])
		cr, okC := resp.Data["cas_required"].(bool)
		if !okM || !okC {
			return "unexpected:config-read-shape", fmt.Sprint(resp.Data)
		}
		return fmt.Sprintf("config max=%d cas=%v", mx, cr), ""
	default:
		if status != 0 {
			return fmt.Sprintf("unexpected:status=%d", status), ""
		}
		if resp != nil {
			return "ok", strings.Join(resp.Warnings, "; ")
		}
		return "ok", ""
	}
}

// ---------------------------------------------------------------- sequential reference model

const c14MaxV = 30

type c14Ver struct {
	exists    bool
	data      string // canonical JSON of the data map
	deleted   bool
	destroyed bool
}

type c14PathState struct {
	exists bool // key metadata exists
	cur    int  // current version (0: no version yet)
	maxV   int  // max_versions of the key (0: unset -> the engine-level value, and when that is unset too the default 10)
	casReq bool
	vers   [c14MaxV + 1]c14Ver
}

// c14State is comparable (==), as porcupine's default state equality needs.
type c14State struct {
	cfgCas bool
	// engine-level max_versions (0: unset). "This value applies to all keys, but a key's metadata setting can overwrite
	// this value": which of the two wins when BOTH are set is left open here - generators never set both in one history
	cfgMax int
	paths  [2]c14PathState
}

type c14Outcome struct {
	out  string
	next c14State
}

func c14JSON(m map[string]string) string {
	b, _ := json.Marshal(m)
	return string(b)
}

func c14DataString(d map[string]any) string {
	m := map[string]string{}
	for k, v := range d {
		m[k] = v.(string)
	}
	return c14JSON(m)
}

// c14Merge applies a flat JSON merge patch (RFC 7396 restricted to string / null members).
func c14Merge(base string, patch map[string]any) string {
	m := map[string]string{}
	_ = json.Unmarshal([]byte(base), &m)
	for k, v := range patch {
		if v == nil {
			delete(m, k)
		} else {
			m[k] = v.(string)
		}
	}
	return c14JSON(m)
}

func (ps *c14PathState) effMax(cfgMax int) int {
	if ps.maxV > 0 {
		if cfgMax > 0 && cfgMax != ps.maxV {
			panic("harness: key-level and engine-level max_versions are both set; the model does not say which one wins")
		}
		return ps.maxV
	}
	if cfgMax > 0 {
		return cfgMax
	}
	return 10
}

// addVersion: a successful write stores the data as version cur+1; afterwards exactly the versions
// <= cur - max_versions are gone.
func (ps *c14PathState) addVersion(data string, cfgMax int) int {
	n := ps.cur + 1
	if n > c14MaxV {
		panic("harness: model version table too small")
	}
	ps.exists = true
	ps.cur = n
	ps.vers[n] = c14Ver{exists: true, data: data}
	for v := 1; v <= n-ps.effMax(cfgMax); v++ {
		ps.vers[v] = c14Ver{}
	}
	return n
}

func (ps *c14PathState) metaString() string {
	var parts []string
	for v := 1; v <= c14MaxV; v++ {
		if ps.vers[v].exists {
			parts = append(parts, fmt.Sprintf("%d:%s", v, c14VerFlags(ps.vers[v].deleted, ps.vers[v].destroyed)))
		}
	}
	return fmt.Sprintf("meta cur=%d max=%d cas=%v vers=[%s]", ps.cur, ps.maxV, ps.casReq, strings.Join(parts, " "))
}

// c14Outcomes lists every (response, next state) the documentation allows for op in state st.
// Not listed here: err:internal, which c14Step accepts for every operation as "no effect".
func c14Outcomes(st c14State, o *c14Op) []c14Outcome {
	same := func(out string) []c14Outcome { return []c14Outcome{{out, st}} }
	if o.kind == "config" {
		n := st
		if o.casReq >= 0 {
			n.cfgCas = o.casReq == 1
		}
		if o.maxV >= 0 {
			n.cfgMax = o.maxV
		}
		return []c14Outcome{{"ok", n}}
	}
	if o.kind == "configread" {
		return same(fmt.Sprintf("config max=%d cas=%v", st.cfgMax, st.cfgCas))
	}
	if o.kind == "remount" {
		return same("ok") // everything acknowledged is durable
	}
	ps := st.paths[o.path] // copy
	commit := func(out string) c14Outcome {
		n := st
		n.paths[o.path] = ps
		return c14Outcome{out, n}
	}
	valid := func(v int) bool { return v >= 1 && v <= c14MaxV && ps.vers[v].exists }
	switch o.kind {
	case "write", "patch":
		// is the cas parameter demanded? key setting or engine setting; the engine setting is read by the
		// request at an unspecified moment, so while a config write overlaps the request either value may be seen
		var required []bool
		switch {
		case ps.casReq:
			required = []bool{true}
		case o.cfgRace:
			required = []bool{false, true}
		default:
			required = []bool{st.cfgCas}
		}
		var casFail []string // possible cas refusals
		casPass := false
		if o.hasCas {
			if o.cas == ps.cur {
				casPass = true
			} else {
				casFail = append(casFail, "fail:cas-mismatch")
			}
		} else {
			for _, r := range required {
				if r {
					casFail = append(casFail, "fail:cas-required")
				} else {
					casPass = true
				}
			}
		}
		var outs []c14Outcome
		for _, f := range casFail {
			outs = append(outs, c14Outcome{f, st})
		}
		if o.kind == "patch" {
			// "must be performed on an existing secret; the secret must neither be deleted nor destroyed";
			// which refusal wins when both apply is not documented: either is accepted
			cv := ps.vers[ps.cur]
			unavailable := !ps.exists || ps.cur == 0 || !cv.exists || cv.deleted || cv.destroyed
			if unavailable {
				outs = append(outs, c14Outcome{"notfound", st})
				return outs
			}
			if casPass {
				n := ps.addVersion(c14Merge(cv.data, o.data), st.cfgMax)
				outs = append(outs, commit(fmt.Sprintf("ok v=%d", n)))
			}
			return outs
		}
		if casPass {
			n := ps.addVersion(c14DataString(o.data), st.cfgMax)
			outs = append(outs, commit(fmt.Sprintf("ok v=%d", n)))
		}
		return outs
	case "read":
		if !ps.exists {
			return same("nil")
		}
		n := o.version
		if n == 0 {
			n = ps.cur
		}
		if !valid(n) {
			return same("nil")
		}
		v := ps.vers[n]
		if v.deleted || v.destroyed {
			return same(fmt.Sprintf("404 v=%d %s", n, c14VerFlags(v.deleted, v.destroyed)))
		}
		return same(fmt.Sprintf("ok v=%d data=%s", n, v.data))
	case "metaread":
		if !ps.exists {
			return same("nil")
		}
		return same(ps.metaString())
	case "delete":
		if ps.exists && valid(ps.cur) && !ps.vers[ps.cur].destroyed {
			ps.vers[ps.cur].deleted = true
		}
		return []c14Outcome{commit("ok")}
	case "deletev":
		if ps.exists {
			for _, v := range o.versions {
				if valid(v) && !ps.vers[v].destroyed {
					ps.vers[v].deleted = true
				}
			}
		}
		return []c14Outcome{commit("ok")}
	case "undelete":
		if ps.exists {
			for _, v := range o.versions {
				if valid(v) && !ps.vers[v].destroyed {
					ps.vers[v].deleted = false
				}
			}
		}
		return []c14Outcome{commit("ok")}
	case "destroy":
		if ps.exists {
			for _, v := range o.versions {
				if valid(v) {
					ps.vers[v].destroyed = true
					ps.vers[v].data = ""
				}
			}
		}
		return []c14Outcome{commit("ok")}
	case "metawrite":
		ps.exists = true
		if o.maxV >= 0 {
			ps.maxV = o.maxV
		}
		if o.casReq >= 0 {
			ps.casReq = o.casReq == 1
		}
		return []c14Outcome{commit("ok")}
	case "metadelete":
		ps = c14PathState{}
		return []c14Outcome{commit("ok")}
	}
	panic("harness: model: unknown kind " + o.kind)
}

// c14Step is porcupine's step function: is response out legal for op in state st, and what is the state then.
func c14Step(st c14State, o *c14Op, out string) (bool, c14State) {
	if out == "err:internal" {
		// an operation that failed for an internal reason must have had no effect
		return true, st
	}
	for _, oc := range c14Outcomes(st, o) {
		if oc.out == out {
			return true, oc.next
		}
	}
	return false, st
}

// c14Observe reads everything the API shows about a path: latest, every version 1..upTo, key metadata.
func (e *c14Env) observe(path int, upTo int) []string {
	var out []string
	r := &c14Op{kind: "read", path: path}
	e.exec(r)
	out = append(out, "latest: "+r.out)
	for v := 1; v <= upTo; v++ {
		r := &c14Op{kind: "read", path: path, version: v}
		e.exec(r)
		out = append(out, fmt.Sprintf("v%d: %s", v, r.out))
	}
	m := &c14Op{kind: "metaread", path: path}
	e.exec(m)
	out = append(out, "metadata: "+m.out)
	return out
}

// c14ModelObserve is what observe must show for model state st.
func c14ModelObserve(st c14State, path int, upTo int) []string {
	var out []string
	one := func(o *c14Op) string {
		ocs := c14Outcomes(st, o)
		if len(ocs) != 1 {
			panic("harness: observation is not deterministic in the model")
		}
		return ocs[0].out
	}
	out = append(out, "latest: "+one(&c14Op{kind: "read", path: path}))
	for v := 1; v <= upTo; v++ {
		out = append(out, fmt.Sprintf("v%d: %s", v, one(&c14Op{kind: "read", path: path, version: v})))
	}
	out = append(out, "metadata: "+one(&c14Op{kind: "metaread", path: path}))
	return out
}

func c14Equal(a, b []string) bool {
	if len(a) != len(b) {
		return false
	}
	for i := range a {
		if a[i] != b[i] {
			return false
		}
	}
	return true
}
