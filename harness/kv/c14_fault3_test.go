//go:build verif

package kv

// C14 - sequential histories in which the storage failure falls into a write of the ENGINE configuration
// (max_versions / cas_required of the mount) instead of a write of the secret: the requests that follow are
// ordinary data writes, patches and reads, and they must behave as the model says for the configuration that is
// in force - the old one when the configuration write reported failure, the new one when it was acknowledged.
// "max-versions pruning affects only the versions it names", "a write that fails leaves data and metadata unchanged".

import (
	"fmt"
	"strings"
	"testing"

	"github.com/openbao/openbao/sdk/v2/helper/verifx"
	"pgregory.net/rapid"
)

// c14Deferred is a violation kept until the search is over (reporting only; it never influences a draw).
type c14Deferred struct {
	size   int
	detail map[string]any
	msg    string
}

func TestVerif_C14_FailedConfig(t *testing.T) {
	rec := verifx.NewRecorder("C14", "failed-config", "sequential history of 2-7 set-up operations on one path (writes, patches, deletes, key metadata cas_required or max_versions, engine configuration writes and reads, remounts) checked response by response against the model, then one write of the engine configuration (max_versions 0-3 and/or cas_required) during which the k-th storage operation (begin, get, put, commit; every k) fails once, then an aftermath of 1-3 ordinary requests (write without cas - with and without an options object -, write with the cas a client would have read, patch, read of a version, engine-config read); oracle: every answer of the aftermath and the closing observation of every version + latest + key metadata are the ones the documented model gives for the state in force: unchanged when the configuration write reported failure, changed when it was acknowledged; non-trivial = the failure hit the put or the commit of a configuration write that would have changed the configuration, and the aftermath contains a write or patch")
	defer rec.Flush()
	var coldViol *c14Deferred
	defer func() {
		if coldViol != nil && !t.Failed() {
			rec.Violation(t, "failed-config-write-took-effect:first-config-load", coldViol.detail, "%s", coldViol.msg)
		}
	}()
	rapid.Check(t, func(rt *rapid.T) {
		c := &c14FaultCase{transactional: rapid.Bool().Draw(rt, "transactionalStorage")}
		// max_versions is set either at the engine or at the key in one history (see c14State.cfgMax)
		engineMax := rapid.IntRange(0, 3).Draw(rt, "maxVersionsAtEngine") > 0
		genConfig := func(label string) *c14Op {
			o := &c14Op{kind: "config", maxV: -1, casReq: -1}
			shape := rapid.IntRange(0, 4).Draw(rt, label+"Shape")
			if !engineMax {
				shape = 3
			}
			if shape <= 2 || shape == 4 {
				o.maxV = rapid.IntRange(0, 3).Draw(rt, label+"max_versions")
			}
			if shape >= 3 {
				o.casReq = rapid.IntRange(0, 1).Draw(rt, label+"cas_required")
			}
			o.dva = rapid.IntRange(0, 5).Draw(rt, label+"deleteVersionAfter") == 0
			return o
		}
		// ---- set-up, generated against the model
		st := c14State{}
		n := rapid.IntRange(2, 7).Draw(rt, "setupOps")
		for i := 0; i < n; i++ {
			var base [2]int
			base[0] = st.paths[0].cur
			var o *c14Op
			switch sh := rapid.IntRange(0, 11).Draw(rt, "setupShape"); {
			case sh == 0:
				o = genConfig("setup")
			case sh == 1:
				o = &c14Op{kind: "configread", maxV: -1, casReq: -1}
			case sh <= 5:
				o = &c14Op{kind: "write", maxV: -1, casReq: -1, data: map[string]any{"k": fmt.Sprintf("s%d", i) + c14GenValue(rt, "w")}, optShape: c14GenOptShape(rt)}
			default:
				o = c14GenOp(rt, 1, base, fmt.Sprintf("s%d", i), true)
				if o.kind == "metawrite" && engineMax {
					o.maxV = -1
					if o.casReq < 0 {
						o.casReq = rapid.IntRange(0, 1).Draw(rt, "cas_required")
					}
				}
			}
			if o.isWrite() && (st.cfgCas || st.paths[0].casReq) && rapid.IntRange(0, 3).Draw(rt, "withCas") > 0 {
				o.hasCas, o.cas = true, st.paths[0].cur
			}
			c.setup = append(c.setup, o)
			ocs := c14Outcomes(st, o)
			st = ocs[len(ocs)-1].next
		}
		// ---- the configuration write under fault
		tg := genConfig("target")
		c.target = tg
		stCfg := c14Outcomes(st, tg)[0].next
		changes := stCfg != st
		// ---- the aftermath: aimed with the version numbers of the state before it
		cur := st.paths[0].cur
		nAfter := rapid.IntRange(1, 3).Draw(rt, "aftermathOps")
		var aftermath []*c14Op
		writesAfter := 0
		for i := 0; i < nAfter; i++ {
			o := &c14Op{maxV: -1, casReq: -1}
			switch sh := rapid.IntRange(0, 9).Draw(rt, "aftermathShape"); {
			case sh <= 3:
				o.kind, o.data, o.optShape = "write", map[string]any{"k": fmt.Sprintf("a%d", i) + c14GenValue(rt, "w")}, c14GenOptShape(rt)
			case sh <= 5:
				// the cas of a client that read the secret before (right if every write so far succeeded)
				o.kind, o.data, o.optShape = "write", map[string]any{"k": fmt.Sprintf("a%d", i) + c14GenValue(rt, "w")}, c14GenOptShape(rt)
				o.hasCas, o.cas = true, cur+writesAfter
			case sh == 6:
				o.kind, o.data, o.optShape = "patch", map[string]any{"p": c14GenValue(rt, "p")}, c14GenOptShape(rt)
			case sh == 7:
				o.kind, o.version = "read", rapid.IntRange(1, cur+1).Draw(rt, "version")
			default:
				o.kind = "configread"
			}
			if o.isWrite() {
				writesAfter++
			}
			aftermath = append(aftermath, o)
		}
		upTo := cur + writesAfter + 1

		// runAftermath performs the aftermath on env and compares every answer, and the closing observation, with the model
		// started in state from. It returns "" when everything agrees.
		runAftermath := func(env *c14Env, from c14State) (string, []string, []string, []string) {
			stM := from
			var hist []string
			for _, o0 := range aftermath {
				o := c.clone(o0)
				env.exec(o)
				hist = append(hist, o.String()+" -> "+o.out)
				ok, nx := c14Step(stM, o, o.out)
				if !ok || o.out == "err:internal" || o.out == "panic" {
					return fmt.Sprintf("%q answered %q (%s); the model allows %v", o.String(), o.out, verifx.Trunc(o.detail, 160), c14OutStrings(c14Outcomes(stM, o))), hist, nil, nil
				}
				stM = nx
			}
			obs, want := env.observe(0, upTo), c14ModelObserve(stM, 0, upTo)
			if !c14Equal(obs, want) {
				return "the versions / key metadata shown afterwards differ from the model", hist, obs, want
			}
			return "", hist, obs, want
		}

		// ---- dry run without fault: the storage operations of the configuration write, model check of the whole history
		env, st0 := c.replay(t, rt, rec)
		if st0 != st {
			env.close()
			return // a listed known finding changed the set-up; nothing to aim at
		}
		seq := env.rec.Seq()
		dry := c.clone(tg)
		env.exec(dry)
		nOps := 0
		var opKinds []string
		coldCache := false // the configuration write itself loads the configuration: no request since the (re)mount needed it
		for _, op := range env.rec.OpsSince(seq) {
			if op.Kind != "rollback" {
				nOps++
				opKinds = append(opKinds, op.Kind)
				if op.Kind == "get" && strings.HasSuffix(op.Key, "/"+configPath) {
					coldCache = true
				}
			}
		}
		if dry.out != "ok" {
			env.close()
			rec.Violation(rt, "sequential-model-mismatch", map[string]any{"setup": c14Strings(c.setup), "target": tg.String(), "transactional": c.transactional},
				"engine configuration write %q answered %q (%s)", tg.String(), dry.out, dry.detail)
			return
		}
		why, hist, obs, want := runAftermath(env, stCfg)
		env.close()
		if why != "" {
			rec.Violation(rt, "sequential-model-mismatch", map[string]any{"setup": c14Strings(c.setup), "config_write": tg.String(), "aftermath": hist, "observed": obs, "model": want, "transactional": c.transactional},
				"after the acknowledged engine configuration write %q: %s", tg.String(), why)
			return
		}

		// ---- faulted runs: every storage operation of the configuration write
		sharp := false
		for k := 1; k <= nOps; k++ {
			env, stK := c.replay(t, rt, rec)
			if stK != st0 {
				env.close()
				t.Fatalf("harness: set-up replay is not deterministic")
			}
			fault, fired := verifx.FailNth(func(o *verifx.Op) bool { return o.Kind != "rollback" }, k)
			env.rec.SetFault(fault)
			w := c.clone(tg)
			env.exec(w)
			env.rec.SetFault(nil)
			hit := fired()
			if hit == nil {
				env.close()
				t.Fatalf("harness: fault %d of %d did not fire (%v)", k, nOps, opKinds)
			}
			failed := w.out != "ok"
			from := stCfg
			if failed {
				from = st0
			}
			why, hist, obs, want := runAftermath(env, from)
			env.close()
			class := "fault@" + hit.Kind
			if failed {
				class += ":config-write-failed"
			} else {
				class += ":config-write-acknowledged"
			}
			if coldCache {
				class += ":first-config-load"
			}
			rec.Class(class, 1)
			if (hit.Kind == "put" || hit.Kind == "commit") && changes && writesAfter > 0 {
				sharp = true
			}
			if w.out == "panic" || why != "" {
				d := map[string]any{"transactional": c.transactional, "setup": c14Strings(c.setup), "config_write": tg.String(), "answer": w.out + " " + verifx.Trunc(w.detail, 200),
					"k": k, "storage_ops_of_config_write": opKinds, "failed_op": hit.String(), "aftermath": hist, "observed": obs, "model": want,
					"config_loaded_by_this_write": coldCache}
				switch {
				case w.out == "panic":
					rec.Violation(rt, "panic", d, "engine configuration write panicked when storage operation %d (%s) failed: %s", k, hit.Kind, w.detail)
				case failed && coldCache:
					// the write that failed was also the first request since the (re)mount that needed the configuration: a
					// situation of its own (the configuration object that was just loaded is the one being edited). It is
					// reported under its own signature once the search is over, so that it does not end the search for the
					// general case; the smallest history seen is kept
					rec.Class("first-config-load:failed-config-write-took-effect", 1)
					size := len(c.setup)*8 + len(aftermath)*2 + k
					if strings.HasPrefix(why, `"configread"`) {
						size += 100 // prefer a history in which a data request shows the effect
					}
					if coldViol == nil || size < coldViol.size {
						coldViol = &c14Deferred{size: size, detail: d, msg: fmt.Sprintf("engine configuration write %q failed (%s) at storage operation %d (%s), being the request that loaded the configuration after the (re)mount; afterwards %s", tg.String(), w.out, k, hit.String(), why)}
					}
				case failed:
					rec.Violation(rt, "failed-config-write-took-effect", d, "engine configuration write %q failed (%s) at storage operation %d (%s); afterwards %s", tg.String(), w.out, k, hit.String(), why)
				default:
					rec.Violation(rt, "acknowledged-config-write-not-in-force", d, "engine configuration write %q was acknowledged although storage operation %d (%s) failed; afterwards %s", tg.String(), k, hit.String(), why)
				}
			}
		}
		cls := "non-transactional"
		if c.transactional {
			cls = "transactional"
		}
		if coldCache {
			rec.Class("config-loaded-by-the-faulted-write", 1)
		}
		if changes {
			rec.Class("config-write-changes-configuration", 1)
		}
		if engineMax {
			rec.Class("max_versions-at-engine", 1)
		}
		rec.Case(cls, sharp, verifx.Digest(c.transactional, c14Strings(c.setup), tg.String(), c14Strings(aftermath)), func() any {
			return map[string]any{"transactional": c.transactional, "setup": c14Strings(c.setup), "config_write": tg.String(), "aftermath": c14Strings(aftermath), "storage_ops_of_config_write": opKinds}
		})
	})
}
