//go:build verif

package kv

// C14 - concurrent histories of the KV v2 API, interleaved at storage-operation granularity by the
// storage-step scheduler, checked for linearizability against the sequential model (porcupine).

import (
	"context"
	"fmt"
	"runtime"
	"sort"
	"sync/atomic"
	"testing"
	"time"

	"github.com/anishathalye/porcupine"
	"github.com/openbao/openbao/sdk/v2/helper/verifx"
	"pgregory.net/rapid"
)

var c14Model = porcupine.Model{
	Init: func() interface{} { return c14State{} },
	Step: func(state, input, output interface{}) (bool, interface{}) {
		ok, n := c14Step(state.(c14State), input.(*c14Op), output.(string))
		return ok, n
	},
	DescribeOperation: func(input, output interface{}) string {
		return input.(*c14Op).String() + " -> " + output.(string)
	},
}

func c14GenValue(rt *rapid.T, label string) string {
	return fmt.Sprintf("%s%d", label, rapid.IntRange(0, 2).Draw(rt, "val"))
}

// c14GenOptShape draws the shape of the "options" member of a write / patch request: half of the requests carry it
// only when they present a cas; the others always carry an options object (empty when no cas is presented - what
// `bao kv put` / `bao kv patch` send without -cas), a sixth of all with an entry the engine does not know.
func c14GenOptShape(rt *rapid.T) int {
	return []int{0, 0, 0, 1, 1, 2}[rapid.IntRange(0, 5).Draw(rt, "optionsShape")]
}

// c14GenOp draws one API operation. base[p] is the current version of path p when the concurrent
// part starts: cas values and version numbers are drawn around it so that they hit and miss.
func c14GenOp(rt *rapid.T, nPaths int, base [2]int, id string, prefix bool) *c14Op {
	o := &c14Op{maxV: -1, casReq: -1}
	if nPaths > 1 {
		o.path = rapid.IntRange(0, nPaths-1).Draw(rt, "path")
	}
	b := base[o.path]
	var kinds []string
	if prefix {
		kinds = []string{"write", "write", "write", "write", "write", "patch", "delete", "deletev", "destroy", "metawrite", "metawrite", "remount",
			"read", "read", "metadelete", "write", "write", "metadelete", "read"}
	} else {
		kinds = []string{
			"write", "write", "write", "write", "write", "write", "write", "write", "write", "write",
			"patch", "patch", "patch", "patch",
			"read", "read", "read", "read", "read", "read",
			"delete", "delete", "delete", "deletev", "deletev", "undelete", "undelete", "destroy", "destroy", "destroy",
			"metawrite", "metawrite", "metawrite", "metadelete", "metaread", "metaread", "config", "config",
		}
	}
	o.kind = rapid.SampledFrom(kinds).Draw(rt, "kind")
	verNum := func(label string) int { return rapid.IntRange(1, b+2).Draw(rt, label) }
	switch o.kind {
	case "write", "patch":
		if o.kind == "write" {
			o.data = map[string]any{"k": id + c14GenValue(rt, "w")}
		} else {
			switch rapid.IntRange(0, 3).Draw(rt, "patchShape") {
			case 0:
				o.data = map[string]any{"k": nil}
			case 1:
				o.data = map[string]any{"k": id + c14GenValue(rt, "p")}
			default:
				o.data = map[string]any{"p" + id: c14GenValue(rt, "p")}
			}
		}
		o.optShape = c14GenOptShape(rt)
		c := 0
		if !prefix {
			c = rapid.IntRange(0, 19).Draw(rt, "casChoice")
		}
		switch {
		case c < 5: // absent
		case c < 12: // the version that is current when the concurrent part starts
			o.hasCas, o.cas = true, b
		case c < 15: // the version after one more write
			o.hasCas, o.cas = true, b+1
		case c < 17: // stale
			o.hasCas, o.cas = true, b-1
			if o.cas < 0 {
				o.cas = b + 2
			}
		default: // "only if the key does not exist"
			o.hasCas, o.cas = true, 0
		}
	case "read":
		if rapid.IntRange(0, 9).Draw(rt, "readLatest") >= 4 {
			o.version = verNum("version")
		}
	case "deletev", "undelete", "destroy":
		o.versions = []int{verNum("v0")}
		if rapid.IntRange(0, 2).Draw(rt, "two") == 0 {
			o.versions = append(o.versions, verNum("v1"))
		}
	case "metawrite":
		o.dva = rapid.IntRange(0, 3).Draw(rt, "deleteVersionAfter") == 0
		switch rapid.IntRange(0, 4).Draw(rt, "metaShape") {
		case 0, 1, 2:
			o.maxV = rapid.IntRange(1, 3).Draw(rt, "max_versions")
		case 3:
			o.casReq = rapid.IntRange(0, 1).Draw(rt, "cas_required")
		default:
			o.maxV = rapid.IntRange(1, 3).Draw(rt, "max_versions")
			o.casReq = rapid.IntRange(0, 1).Draw(rt, "cas_required")
		}
	case "config":
		o.casReq = rapid.IntRange(0, 1).Draw(rt, "cas_required")
		o.dva = rapid.IntRange(0, 3).Draw(rt, "deleteVersionAfter") == 0
	}
	return o
}

func c14Overlap(a, b *c14Op) bool { return a.call < b.ret && b.call < a.ret }

func c14History(ops []*c14Op) []map[string]any {
	sorted := append([]*c14Op(nil), ops...)
	sort.SliceStable(sorted, func(i, j int) bool { return sorted[i].call < sorted[j].call })
	out := make([]map[string]any, len(sorted))
	for i, o := range sorted {
		m := map[string]any{"client": o.client, "call": o.call, "return": o.ret, "op": o.String(), "response": o.out}
		if o.detail != "" {
			m["detail"] = verifx.Trunc(o.detail, 300)
		}
		if o.cfgRace {
			m["engine_config_write_overlaps"] = true
		}
		out[i] = m
	}
	return out
}

func TestVerif_C14_Linearizable(t *testing.T) {
	rec := verifx.NewRecorder("C14", "linearizable", "KV v2 backend over a gated recording physical backend (transactional or not): 0-8 sequential set-up operations (writes, patches, reads of the latest or a numbered version, deletes, destroys, metadata writes and deletes - so that a path's history is removed and re-created - and remounts), then 2-4 concurrent clients x 1-3 operations (write with cas = current/next/stale/0/absent, patch, read latest/version, delete latest/versions, undelete, destroy, metadata write max_versions 1-3 / cas_required, metadata delete, metadata read, config cas_required) on 1-2 secret paths, interleaved at storage-operation granularity by a stay-or-switch random walk; oracle: porcupine against the documented sequential model (partitioned by path when no engine-config write is present) with call/return stamped by a logical clock, plus consecutive version numbers and at-most/at-least-one success per presented cas; non-trivial = two writes/patches with the same explicit cas on one path overlap in the schedule, or a delete/destroy/metadata-delete overlaps a write on its path")
	defer rec.Flush()
	g0 := runtime.NumGoroutine()
	defer func() {
		// every case joins its tasks: nothing may stay parked
		time.Sleep(50 * time.Millisecond)
		rec.Set("goroutines_before", g0)
		rec.Set("goroutines_after", runtime.NumGoroutine())
		if g := runtime.NumGoroutine(); g > g0+8 {
			t.Errorf("harness: %d goroutines at the end, %d at the start: tasks were left behind", g, g0)
		}
	}()
	rapid.Check(t, func(rt *rapid.T) {
		transactional := rapid.Bool().Draw(rt, "transactionalStorage")
		nPaths := rapid.IntRange(1, 2).Draw(rt, "paths")
		env := newC14Env(t, transactional)
		defer env.close()

		var clock atomic.Int64
		var all []*c14Op
		run := func(o *c14Op) {
			o.call = clock.Add(1)
			env.exec(o)
			o.ret = clock.Add(1)
		}

		// ---- sequential set-up, tracked by the model so that cas values can be aimed
		st := c14State{}
		nPre := rapid.IntRange(0, 8).Draw(rt, "setupOps")
		for i := 0; i < nPre; i++ {
			var base [2]int
			for p := range base {
				base[p] = st.paths[p].cur
			}
			o := c14GenOp(rt, nPaths, base, fmt.Sprintf("s%d", i), true)
			o.client = 0
			run(o)
			all = append(all, o)
			ok, n := c14Step(st, o, o.out)
			if !ok || o.out == "err:internal" {
				rec.Violation(rt, "sequential-model-mismatch", map[string]any{"history": c14History(all), "transactional": transactional},
					"sequential set-up operation %q answered %q (%s); the documented model allows %v", o.String(), o.out, o.detail, c14OutStrings(c14Outcomes(st, o)))
			}
			st = n
		}
		// One case in eight opens the concurrent part with 2-3 clients that each only mark versions of ONE path
		// (soft delete / undelete / destroy of different version numbers): they all rewrite the same key metadata,
		// so whichever way they interleave every acknowledged mark must be there afterwards.
		directed := rapid.IntRange(0, 7).Draw(rt, "directedMarkRace") == 0
		if directed {
			setup := func(o *c14Op) {
				o.client, o.maxV, o.casReq = 0, -1, -1
				run(o)
				all = append(all, o)
				if ok, n := c14Step(st, o, o.out); ok {
					st = n
				}
			}
			for i := 0; i < 4 && st.paths[0].cur < 3; i++ {
				setup(&c14Op{kind: "write", data: map[string]any{"k": fmt.Sprintf("d%d", i)}})
			}
			if rapid.Bool().Draw(rt, "directedPreDelete") {
				setup(&c14Op{kind: "deletev", versions: []int{rapid.IntRange(1, max(1, st.paths[0].cur)).Draw(rt, "directedPreDeleted")}})
			}
		}
		var base [2]int
		for p := range base {
			base[p] = st.paths[p].cur
		}

		// ---- concurrent clients
		nClients := rapid.IntRange(2, 4).Draw(rt, "clients")
		if directed {
			nClients = rapid.IntRange(2, 3).Draw(rt, "directedClients")
		}
		clients := make([][]*c14Op, nClients)
		for c := range clients {
			n := rapid.IntRange(1, 3).Draw(rt, "opsOfClient")
			if directed {
				n = 1
			}
			for i := 0; i < n; i++ {
				var o *c14Op
				if directed {
					o = &c14Op{maxV: -1, casReq: -1, kind: []string{"deletev", "undelete", "deletev", "undelete", "destroy"}[rapid.IntRange(0, 4).Draw(rt, "directedKind")],
						versions: []int{rapid.IntRange(1, max(1, base[0])).Draw(rt, "directedVersion")}}
				} else {
					o = c14GenOp(rt, nPaths, base, fmt.Sprintf("c%d%c", c, 'a'+i), false)
				}
				o.client = c + 1
				clients[c] = append(clients[c], o)
				all = append(all, o)
			}
		}
		if directed {
			rec.Class("directed-mark-race", 1)
		}
		sched := verifx.NewSched(env.rec)
		// in a third of the cases a client also parks when a storage operation has come back: what the backend does
		// with a value it has just read (e.g. caching the engine configuration) becomes a step of its own
		sched.AfterOps = rapid.IntRange(0, 2).Draw(rt, "parkAfterOperations") == 0
		defer func() {
			// rapid may abort the property from inside a draw: never leave a task parked
			sched.RunToEnd(20 * time.Second)
			env.rec.Gate = nil
			env.rec.GateAfter = nil
			env.rec.TaskOf = nil
		}()
		for c := range clients {
			ops := clients[c]
			sched.Spawn(fmt.Sprintf("C%d", c+1), func() {
				for i, o := range ops {
					if i > 0 {
						// park between two requests of a client: the next request is invoked when the scheduler says so
						_, _ = env.phys.Get(context.Background(), "verif-c14-park")
					}
					run(o)
				}
			})
		}
		cur, switches := -1, 0
		err := sched.Run(func(parked []int) int {
			stay := false
			for _, p := range parked {
				if p == cur {
					stay = true
				}
			}
			c := rapid.IntRange(0, 9).Draw(rt, "step")
			if stay && c < 5 {
				return cur
			}
			pick := parked[rapid.IntRange(0, len(parked)-1).Draw(rt, "pick")]
			if cur >= 0 && pick != cur && !sched.Tasks()[cur].Done {
				switches++
			}
			cur = pick
			return pick
		})
		trace := sched.Trace
		if err != nil {
			sched.RunToEnd(10 * time.Second)
			t.Fatalf("harness: %v", err)
		}
		env.rec.Gate = nil

		// ---- closing observations, part of the history: once every client has returned, the key metadata and every
		// version number the history can have reached are read back, so that an acknowledged effect that was lost
		// among concurrent mutations (and that no client happened to read) still contradicts the model
		for p := 0; p < nPaths; p++ {
			writes := 0
			for _, o := range all {
				if o.path == p && o.isWrite() {
					writes++
				}
			}
			closing := []*c14Op{{kind: "metaread", path: p, maxV: -1, casReq: -1}}
			for v := 1; v <= base[p]+writes && v <= 7; v++ {
				closing = append(closing, &c14Op{kind: "read", path: p, version: v, maxV: -1, casReq: -1})
			}
			for _, o := range closing {
				o.client = 0
				run(o)
				all = append(all, o)
			}
		}

		// ---- the history
		for _, o := range all {
			if o.ret == 0 {
				t.Fatalf("harness: operation %q did not complete", o.String())
			}
		}
		hasConfig := false
		for _, o := range all {
			if o.kind == "config" {
				hasConfig = true
			}
		}
		for _, o := range all {
			if o.isWrite() && !o.hasCas {
				for _, c := range all {
					if c.kind == "config" && c14Overlap(o, c) {
						o.cfgRace = true
					}
				}
			}
		}
		describe := func() map[string]any {
			tr := trace
			if len(tr) > 120 {
				tr = tr[:120]
			}
			return map[string]any{"transactional": transactional, "paths": nPaths, "history": c14History(all), "schedule": tr, "preemptions": switches}
		}

		// ---- oracle 1: linearizability against the sequential model
		var parts [][]*c14Op
		if hasConfig || nPaths == 1 {
			parts = [][]*c14Op{all}
		} else {
			parts = make([][]*c14Op, 2)
			for _, o := range all {
				parts[o.path] = append(parts[o.path], o)
			}
		}
		for _, part := range parts {
			if len(part) == 0 {
				continue
			}
			h := make([]porcupine.Operation, len(part))
			for i, o := range part {
				h[i] = porcupine.Operation{ClientId: o.client, Input: o, Output: o.out, Call: o.call, Return: o.ret}
			}
			switch porcupine.CheckOperationsTimeout(c14Model, h, 20*time.Second) {
			case porcupine.Illegal:
				d := describe()
				d["partition"] = c14History(part)
				rec.Violation(rt, "not-linearizable", d, "the history of %d operations on %s has no linearization that the documented sequential model of KV v2 accepts", len(part), c14PartName(part, hasConfig))
			case porcupine.Unknown:
				rec.Class("porcupine-timeout", 1)
				rec.Note("porcupine timed out on a history of %d operations", len(part))
			}
		}

		// ---- oracle 2: direct invariants (paths whose metadata is not deleted in this history: version numbers only grow)
		for p := 0; p < nPaths; p++ {
			metaDeleted, panicked := false, false
			var okVersions []int
			casOK := map[int]int{}
			presentedBase := false
			for _, o := range all {
				if o.out == "panic" {
					panicked = true
				}
				if o.path != p || o.kind == "config" {
					continue
				}
				if o.kind == "metadelete" {
					metaDeleted = true
				}
				if o.isWrite() && o.client > 0 {
					var v int
					if n, _ := fmt.Sscanf(o.out, "ok v=%d", &v); n == 1 {
						okVersions = append(okVersions, v)
						if o.hasCas {
							casOK[o.cas]++
						}
					}
					if o.kind == "write" && o.hasCas && o.cas == base[p] {
						presentedBase = true
					}
				}
			}
			if panicked {
				rec.Violation(rt, "panic", describe(), "a request panicked")
			}
			if metaDeleted {
				continue
			}
			sort.Ints(okVersions)
			for i, v := range okVersions {
				if v != base[p]+1+i {
					rec.Violation(rt, "versions-not-consecutive", describe(), "successful writes on %s returned versions %v; the current version before them was %d", c14Paths[p], okVersions, base[p])
				}
			}
			for c, n := range casOK {
				if n > 1 {
					rec.Violation(rt, "cas-double-success", describe(), "%d writes presenting cas=%d on %s succeeded", n, c, c14Paths[p])
				}
			}
			if presentedBase && len(okVersions) == 0 {
				rec.Violation(rt, "cas-none-succeeded", describe(), "writes presented cas=%d = the current version of %s and no write at all succeeded on it", base[p], c14Paths[p])
			}
		}

		// ---- coverage
		sameCas, delVsWrite, nocasPair, internal := false, false, false, 0
		for i, a := range all {
			if a.out == "err:internal" {
				internal++
				rec.Class("internal-error:"+a.kind, 1)
				if a.kind != "config" {
					// seen so far only for two overlapping engine-config writes on transactional storage (commit conflict)
					rec.Note("internal error without fault injection (transactional=%v): %s -> %s", transactional, a.String(), verifx.Trunc(a.detail, 400))
				}
			}
			if a.client == 0 {
				continue
			}
			for _, b := range all[i+1:] {
				if b.client == 0 || a.client == b.client || a.kind == "config" || b.kind == "config" || a.path != b.path || !c14Overlap(a, b) {
					continue
				}
				if a.isWrite() && b.isWrite() {
					if a.hasCas && b.hasCas && a.cas == b.cas {
						sameCas = true
					}
					if !a.hasCas && !b.hasCas {
						nocasPair = true
					}
				}
				isDel := func(o *c14Op) bool {
					return o.kind == "delete" || o.kind == "deletev" || o.kind == "destroy" || o.kind == "metadelete"
				}
				if (isDel(a) && b.isWrite()) || (isDel(b) && a.isWrite()) {
					delVsWrite = true
				}
			}
		}
		cls := "non-transactional"
		if transactional {
			cls = "transactional"
		}
		kinds := make([]string, 0, len(all))
		for _, o := range all {
			kinds = append(kinds, fmt.Sprintf("%d:%s", o.client, o.String()))
		}
		rec.Case(cls, sameCas || delVsWrite, verifx.Digest(transactional, kinds, trace), func() any { return describe() })
		if sameCas {
			rec.Class("overlapping-writes-same-cas", 1)
		}
		if delVsWrite {
			rec.Class("delete-or-destroy-overlaps-write", 1)
		}
		if nocasPair {
			rec.Class("overlapping-writes-without-cas", 1)
		}
		if hasConfig {
			rec.Class("with-engine-config-write", 1)
		}
		if switches > 0 {
			rec.Class("with-preemption", 1)
		}
		if internal > 0 {
			rec.Class("internal-error-answers", int64(internal))
		}
		blocked := 0
		for _, tk := range sched.Tasks() {
			blocked += tk.Blocked
		}
		if blocked > 0 {
			rec.Class("lock-blocked-seen", 1)
		}
		for _, o := range all {
			if o.client > 0 {
				rec.Class("op:"+o.kind, 1)
				if o.isWrite() {
					switch {
					case o.out == "err:internal":
						rec.Class("write:internal-error", 1)
					case len(o.out) > 2 && o.out[:2] == "ok":
						rec.Class("write:ok", 1)
					default:
						rec.Class("write:"+o.out, 1)
					}
				}
			}
		}
	})
}

func c14OutStrings(ocs []c14Outcome) []string {
	out := make([]string, len(ocs))
	for i, oc := range ocs {
		out[i] = oc.out
	}
	return out
}

func c14PartName(part []*c14Op, hasConfig bool) string {
	if hasConfig {
		return "all paths (an engine-config write is present)"
	}
	for _, o := range part {
		if o.kind != "config" {
			return c14Paths[o.path]
		}
	}
	return "?"
}
