//go:build verif

package kv

// C14 - sequential histories with a single injected storage failure inside a write:
// "a write that fails leaves data and metadata unchanged".

import (
	"fmt"
	"testing"

	"github.com/openbao/openbao/sdk/v2/helper/verifx"
	"pgregory.net/rapid"
)

type c14FaultCase struct {
	transactional bool
	setup         []*c14Op
	target        *c14Op
}

func (c *c14FaultCase) clone(o *c14Op) *c14Op {
	n := *o
	n.out, n.detail = "", ""
	return &n
}

// replay builds a fresh backend and runs the set-up on it; every answer is compared with the model.
func (c *c14FaultCase) replay(t *testing.T, rt *rapid.T, rec *verifx.Recorder) (*c14Env, c14State) {
	env := newC14Env(t, c.transactional)
	st := c14State{}
	var hist []string
	for _, o0 := range c.setup {
		o := c.clone(o0)
		env.exec(o)
		hist = append(hist, o.String()+" -> "+o.out)
		ok, n := c14Step(st, o, o.out)
		if !ok || o.out == "err:internal" {
			env.close()
			rec.Violation(rt, "sequential-model-mismatch", map[string]any{"history": hist, "transactional": c.transactional},
				"sequential operation %q answered %q (%s); the documented model allows %v", o.String(), o.out, o.detail, c14OutStrings(c14Outcomes(st, o)))
			// a listed known finding: carry on with the state unchanged
			continue
		}
		st = n
	}
	return env, st
}

func TestVerif_C14_FailedWrite(t *testing.T) {
	rec := verifx.NewRecorder("C14", "failed-write", "sequential history of 1-7 set-up operations on one path (writes, patch, delete, destroy, undelete, metadata max_versions 1-3 / cas_required, engine cas_required) checked response by response against the model, then one write or patch during which the k-th storage operation (begin, get, put, delete, commit; k generated, every k in the thorough tier) fails once; oracle: if the write reports failure, reads of every version + latest + key metadata are identical before and after and the same write repeated without fault behaves as the model says for the unchanged state; if it reports success the observations equal the model's state after a successful write; non-trivial = the fault fired inside a write that would otherwise have succeeded")
	defer rec.Flush()
	rapid.Check(t, func(rt *rapid.T) {
		c := &c14FaultCase{transactional: rapid.Bool().Draw(rt, "transactionalStorage")}
		// ---- set-up: generated against the model so that the target write is interesting
		st := c14State{}
		n := rapid.IntRange(1, 7).Draw(rt, "setupOps")
		for i := 0; i < n; i++ {
			var base [2]int
			base[0] = st.paths[0].cur
			var o *c14Op
			if rapid.IntRange(0, 9).Draw(rt, "setupShape") == 0 {
				o = &c14Op{kind: "config", maxV: -1, casReq: rapid.IntRange(0, 1).Draw(rt, "cas_required"), dva: rapid.IntRange(0, 3).Draw(rt, "deleteVersionAfter") == 0}
			} else {
				o = c14GenOp(rt, 1, base, fmt.Sprintf("s%d", i), true)
				if o.kind == "deletev" && rapid.Bool().Draw(rt, "undeleteInstead") {
					o.kind = "undelete"
				}
				// let set-up writes pass a cas requirement most of the time
				if o.isWrite() && (st.cfgCas || st.paths[0].casReq) && rapid.IntRange(0, 3).Draw(rt, "withCas") > 0 {
					o.hasCas, o.cas = true, st.paths[0].cur
				}
			}
			c.setup = append(c.setup, o)
			ocs := c14Outcomes(st, o)
			st = ocs[len(ocs)-1].next // deterministic: no config race in a sequential history
		}
		if rapid.IntRange(0, 4).Draw(rt, "configAsFirstRequestThenRemount") == 0 {
			// the mount is configured by the very first request after the backend came up, and the backend is set up
			// again later (restart): the configuration that was acknowledged must still be in force
			pre := []*c14Op{{kind: "remount", maxV: -1, casReq: -1}, {kind: "config", maxV: -1, casReq: 1}}
			st2 := c14State{}
			for _, o := range pre {
				ocs := c14Outcomes(st2, o)
				st2 = ocs[len(ocs)-1].next
			}
			// replay the generated set-up on top of the new configuration to get the model state
			var kept []*c14Op
			for _, o := range c.setup {
				if o.kind == "config" {
					continue // keep the directed configuration in force
				}
				ocs := c14Outcomes(st2, o)
				st2 = ocs[len(ocs)-1].next
				kept = append(kept, o)
			}
			c.setup = append(append(pre, kept...), &c14Op{kind: "remount", maxV: -1, casReq: -1})
			st = st2
		}
		// ---- the write under fault
		tg := &c14Op{kind: "write", maxV: -1, casReq: -1, data: map[string]any{"k": "target", "t": c14GenValue(rt, "t")}}
		if rapid.IntRange(0, 3).Draw(rt, "targetPatch") == 0 {
			tg.kind = "patch"
			tg.data = map[string]any{"pt": c14GenValue(rt, "t")}
		}
		cur := st.paths[0].cur
		switch cc := rapid.IntRange(0, 9).Draw(rt, "targetCas"); {
		case cc < 5:
			tg.hasCas, tg.cas = true, cur
		case cc < 9:
			if st.cfgCas || st.paths[0].casReq {
				tg.hasCas, tg.cas = true, cur
			}
		default:
			tg.hasCas, tg.cas = true, cur+1 // refused
		}
		tg.optShape = c14GenOptShape(rt)
		c.target = tg
		upTo := cur + 2

		// ---- dry run without fault: number of storage operations of the write, and the model check of its answer
		env, st0 := c.replay(t, rt, rec)
		before0 := env.observe(0, upTo)
		if want := c14ModelObserve(st0, 0, upTo); !c14Equal(before0, want) {
			env.close()
			rec.Violation(rt, "sequential-model-mismatch", map[string]any{"setup": c14Strings(c.setup), "observed": before0, "model": want, "transactional": c.transactional},
				"after the sequential set-up the API shows a state different from the documented model")
			return
		}
		seq := env.rec.Seq()
		dry := c.clone(tg)
		env.exec(dry)
		nOps := 0
		var opKinds []string
		for _, op := range env.rec.OpsSince(seq) {
			if op.Kind != "rollback" {
				nOps++
				opKinds = append(opKinds, op.Kind)
			}
		}
		okDry, stAfter := c14Step(st0, dry, dry.out)
		after0 := env.observe(0, upTo)
		env.close()
		if !okDry || dry.out == "err:internal" {
			rec.Violation(rt, "sequential-model-mismatch", map[string]any{"setup": c14Strings(c.setup), "target": tg.String(), "transactional": c.transactional},
				"write %q answered %q (%s); the documented model allows %v", tg.String(), dry.out, dry.detail, c14OutStrings(c14Outcomes(st0, tg)))
			return
		}
		if want := c14ModelObserve(stAfter, 0, upTo); !c14Equal(after0, want) {
			rec.Violation(rt, "sequential-model-mismatch", map[string]any{"setup": c14Strings(c.setup), "target": tg.String() + " -> " + dry.out, "observed": after0, "model": want, "transactional": c.transactional},
				"after write %q (%s) the API shows a state different from the documented model", tg.String(), dry.out)
			return
		}
		wouldSucceed := len(dry.out) > 2 && dry.out[:2] == "ok"
		if nOps == 0 {
			t.Fatalf("harness: the write performed no storage operation")
		}

		// ---- faulted runs
		var ks []int
		if verifx.Thorough() {
			for k := 1; k <= nOps; k++ {
				ks = append(ks, k)
			}
		} else {
			ks = []int{rapid.IntRange(1, nOps).Draw(rt, "k")}
		}
		for _, k := range ks {
			env, stK := c.replay(t, rt, rec)
			if stK != st0 {
				env.close()
				t.Fatalf("harness: set-up replay is not deterministic")
			}
			before := env.observe(0, upTo)
			fault, fired := verifx.FailNth(func(o *verifx.Op) bool { return o.Kind != "rollback" }, k)
			env.rec.SetFault(fault)
			w := c.clone(tg)
			env.exec(w)
			env.rec.SetFault(nil)
			hit := fired()
			after := env.observe(0, upTo)
			detail := func() map[string]any {
				d := map[string]any{"transactional": c.transactional, "setup": c14Strings(c.setup), "write": tg.String(), "answer": w.out + " " + verifx.Trunc(w.detail, 200),
					"k": k, "storage_ops_of_write": opKinds, "before": before, "after": after}
				if hit != nil {
					d["failed_op"] = hit.String()
				}
				return d
			}
			if hit == nil {
				env.close()
				t.Fatalf("harness: fault %d of %d did not fire (%v)", k, nOps, opKinds)
			}
			failed := w.out != "" && w.out[:2] != "ok"
			class := "fault@" + hit.Kind
			if w.out == "panic" {
				env.close()
				rec.Violation(rt, "panic", detail(), "write panicked when storage operation %d (%s) failed: %s", k, hit.Kind, w.detail)
				continue
			}
			if failed {
				if !c14Equal(before, after) {
					env.close()
					rec.Violation(rt, "failed-write-changed-state", detail(), "write %q failed (%s) at storage operation %d (%s) and data/metadata changed", tg.String(), w.out, k, hit.String())
					continue
				}
				// unchanged state => the same write, repeated, behaves as on the unchanged state
				retry := c.clone(tg)
				env.exec(retry)
				okR, stR := c14Step(st0, retry, retry.out)
				afterRetry := env.observe(0, upTo)
				if !okR || retry.out != dry.out || !c14Equal(afterRetry, c14ModelObserve(stR, 0, upTo)) {
					d := detail()
					d["retry_answer"] = retry.out + " " + verifx.Trunc(retry.detail, 200)
					d["after_retry"] = afterRetry
					d["model_after_retry"] = c14ModelObserve(stR, 0, upTo)
					env.close()
					rec.Violation(rt, "retry-after-failed-write-differs", d, "write %q failed at storage operation %d (%s); repeated without fault it answered %q (without the fault: %q) or left a state the model does not predict", tg.String(), k, hit.String(), retry.out, dry.out)
					continue
				}
				class += ":write-failed"
			} else {
				// the write reported success although an operation failed (documented for version clean-up: a warning):
				// then it must be a successful write in every observable respect
				if w.out != dry.out || !c14Equal(after, c14ModelObserve(stAfter, 0, upTo)) {
					d := detail()
					d["model_after"] = c14ModelObserve(stAfter, 0, upTo)
					env.close()
					rec.Violation(rt, "successful-write-state-mismatch", d, "write %q reported success (%s) although storage operation %d (%s) failed, and the visible state is not that of a successful write", tg.String(), w.out, k, hit.String())
					continue
				}
				class += ":write-succeeded"
			}
			env.close()
			rec.Class(class, 1)
		}
		cls := "non-transactional"
		if c.transactional {
			cls = "transactional"
		}
		if tg.kind == "patch" {
			cls += "/patch"
		} else {
			cls += "/write"
		}
		rec.Class(fmt.Sprintf("write-storage-ops=%02d", nOps), 1)
		if stAfter.paths[0].cur > 0 && stAfter.paths[0].cur-stAfter.paths[0].effMax(stAfter.cfgMax) >= 1 && wouldSucceed {
			rec.Class("write-prunes-versions", 1)
		}
		rec.Case(cls, wouldSucceed, verifx.Digest(c.transactional, c14Strings(c.setup), tg.String(), ks), func() any {
			return map[string]any{"transactional": c.transactional, "setup": c14Strings(c.setup), "write": tg.String(), "without_fault": dry.out, "storage_ops_of_write": opKinds, "faulted_k": ks}
		})
	})
}

func c14Strings(ops []*c14Op) []string {
	out := make([]string, len(ops))
	for i, o := range ops {
		out[i] = o.String()
	}
	return out
}
