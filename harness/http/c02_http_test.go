//go:build verif

package http

// C02, unit "http": the authorisation property checked through the real HTTP front end (path cleaning and
// percent-decoding, method -> operation mapping, X-Vault-Namespace combined with namespace prefixes in the path,
// token extraction from X-Vault-Token / Authorization: Bearer, error -> status mapping). Requests are parsed with
// net/http's own request parser from a hand-built request line, then served in-process by the package's handler.

import (
	"bufio"
	"context"
	"encoding/json"
	"fmt"
	"net/http"
	"net/http/httptest"
	"strings"
	"sync"
	"testing"
	"time"

	log "github.com/hashicorp/go-hclog"
	"github.com/openbao/openbao/sdk/v2/helper/verifx"
	"github.com/openbao/openbao/sdk/v2/logical"
	"github.com/openbao/openbao/v2/internal/helper/configutil"
	"github.com/openbao/openbao/v2/internal/helper/namespace"
	"github.com/openbao/openbao/v2/internal/vault"
	"pgregory.net/rapid"
)

// ---------------------------------------------------------------------------------------------------------------
// reference authoriser (documented semantics restricted to exact paths and trailing-'*' globs): an exact pattern
// beats a glob, the longest glob prefix wins, stanzas with the winning pattern are merged (union), deny wins inside
// that union, default deny. Independent of OpenBao's ACL code.

type h02Stanza struct {
	pattern string // relative to the policy's namespace
	caps    []string
}

type h02Policy struct {
	ns      string // "", "ns1/", "ns1/ns1/"
	stanzas []h02Stanza
}

func (p h02Policy) hcl() string {
	var sb strings.Builder
	for _, s := range p.stanzas {
		q := make([]string, len(s.caps))
		for i, c := range s.caps {
			q[i] = `"` + c + `"`
		}
		fmt.Fprintf(&sb, "path %q { capabilities = [%s] }\n", s.pattern, strings.Join(q, ","))
	}
	if len(p.stanzas) == 0 {
		sb.WriteString("# empty\n")
	}
	return sb.String()
}

func h02Decide(pols []h02Policy, qpath string) map[string]bool {
	type cand struct {
		pat   string
		exact bool
		caps  []string
	}
	var cands []cand
	for _, p := range pols {
		for _, s := range p.stanzas {
			pat := p.ns + s.pattern
			if strings.HasSuffix(pat, "*") {
				if strings.HasPrefix(qpath, strings.TrimSuffix(pat, "*")) {
					cands = append(cands, cand{pat, false, s.caps})
				}
			} else if pat == qpath {
				cands = append(cands, cand{pat, true, s.caps})
			}
		}
	}
	if len(cands) == 0 {
		return nil
	}
	best := cands[0]
	for _, c := range cands[1:] {
		switch {
		case c.exact && !best.exact:
			best = c
		case c.exact == best.exact && len(c.pat) > len(best.pat):
			best = c
		}
	}
	out := map[string]bool{}
	for _, c := range cands {
		if c.pat == best.pat && c.exact == best.exact {
			for _, k := range c.caps {
				out[k] = true
			}
		}
	}
	if out["deny"] {
		return map[string]bool{"deny": true}
	}
	return out
}

var h02CapOf = map[logical.Operation]string{
	logical.ReadOperation: "read", logical.UpdateOperation: "update", logical.CreateOperation: "create",
	logical.DeleteOperation: "delete", logical.ListOperation: "list", logical.ScanOperation: "scan",
	logical.PatchOperation: "patch",
}

// ---------------------------------------------------------------------------------------------------------------
// recording secrets backend (not framework based)

const h02Canary = "CANARY"

type h02Call struct {
	NS    string // namespace path from the request context
	Mount string // namespace-qualified mount point as routed
	Path  string // mount-relative path
	Op    logical.Operation
	Wrote bool // the handler changed the mount's storage view
}

func (c h02Call) String() string {
	return fmt.Sprintf("%s ns=%q mount=%q path=%q wrote=%v", c.Op, c.NS, c.Mount, c.Path, c.Wrote)
}

type h02Hub struct {
	mu     sync.Mutex
	calls  []h02Call
	exists int                        // existence checks seen
	keys   map[string]map[string]bool // qualified mount -> keys present (the backend is the only writer)
}

func (h *h02Hub) factory(ctx context.Context, conf *logical.BackendConfig) (logical.Backend, error) {
	return &h02BE{hub: h, sys: conf.System}, nil
}

func (h *h02Hub) nCalls() int {
	h.mu.Lock()
	defer h.mu.Unlock()
	return len(h.calls)
}

func (h *h02Hub) since(n int) []h02Call {
	h.mu.Lock()
	defer h.mu.Unlock()
	return append([]h02Call(nil), h.calls[n:]...)
}

func (h *h02Hub) has(mount, key string) bool {
	h.mu.Lock()
	defer h.mu.Unlock()
	return h.keys[mount][key]
}

func (h *h02Hub) setKey(mount, key string, present bool) {
	h.mu.Lock()
	defer h.mu.Unlock()
	if h.keys[mount] == nil {
		h.keys[mount] = map[string]bool{}
	}
	if present {
		h.keys[mount][key] = true
	} else {
		delete(h.keys[mount], key)
	}
}

type h02BE struct {
	hub *h02Hub
	sys logical.SystemView
}

func (b *h02BE) Initialize(ctx context.Context, r *logical.InitializationRequest) error { return nil }
func (b *h02BE) SpecialPaths() *logical.Paths {
	return &logical.Paths{Unauthenticated: []string{"unauth/*"}, Root: []string{"root/*"}}
}
func (b *h02BE) System() logical.SystemView                                    { return b.sys }
func (b *h02BE) Logger() log.Logger                                            { return log.NewNullLogger() }
func (b *h02BE) Cleanup(ctx context.Context)                                   {}
func (b *h02BE) InvalidateKey(ctx context.Context, key string)                 {}
func (b *h02BE) Setup(ctx context.Context, config *logical.BackendConfig) error { return nil }
func (b *h02BE) Type() logical.BackendType                                     { return logical.TypeLogical }

func h02GoodKey(k string) bool { return k != "" && !strings.HasSuffix(k, "/") && !strings.HasPrefix(k, "/") }

func (b *h02BE) HandleExistenceCheck(ctx context.Context, req *logical.Request) (bool, bool, error) {
	b.hub.mu.Lock()
	b.hub.exists++
	b.hub.mu.Unlock()
	if strings.HasPrefix(req.Path, "kv/") {
		key := strings.TrimPrefix(req.Path, "kv/")
		if !h02GoodKey(key) {
			return true, false, nil
		}
		e, err := req.Storage.Get(ctx, key)
		if err != nil {
			return true, false, nil
		}
		return true, e != nil, nil
	}
	return false, false, nil
}

func (b *h02BE) HandleRequest(ctx context.Context, req *logical.Request) (*logical.Response, error) {
	switch req.Operation {
	case logical.RollbackOperation, logical.RevokeOperation, logical.RenewOperation:
		return nil, nil
	}
	nsPath := "?"
	if ns, err := namespace.FromContext(ctx); err == nil && ns != nil {
		nsPath = ns.Path
	}
	call := h02Call{NS: nsPath, Mount: req.MountPoint, Path: req.Path, Op: req.Operation}
	resp, wrote, err := b.serve(ctx, req)
	call.Wrote = wrote
	b.hub.mu.Lock()
	b.hub.calls = append(b.hub.calls, call)
	b.hub.mu.Unlock()
	return resp, err
}

func (b *h02BE) serve(ctx context.Context, req *logical.Request) (*logical.Response, bool, error) {
	if req.Operation == logical.HelpOperation {
		return logical.HelpResponse("recbe help", nil, nil), false, nil
	}
	p := req.Path
	switch {
	case strings.HasPrefix(p, "kv/"):
		key := strings.TrimPrefix(p, "kv/")
		switch req.Operation {
		case logical.ReadOperation:
			if !h02GoodKey(key) {
				return logical.ErrorResponse("bad key"), false, nil
			}
			e, err := req.Storage.Get(ctx, key)
			if err != nil || e == nil {
				return nil, false, err
			}
			var d map[string]any
			if err := json.Unmarshal(e.Value, &d); err != nil {
				return nil, false, err
			}
			return &logical.Response{Data: d}, false, nil
		case logical.CreateOperation, logical.UpdateOperation, logical.PatchOperation:
			if !h02GoodKey(key) {
				return logical.ErrorResponse("bad key"), false, nil
			}
			buf, _ := json.Marshal(req.Data)
			if err := req.Storage.Put(ctx, &logical.StorageEntry{Key: key, Value: buf}); err != nil {
				return nil, false, err
			}
			b.hub.setKey(req.MountPoint, key, true)
			return nil, true, nil
		case logical.DeleteOperation:
			if !h02GoodKey(key) {
				return logical.ErrorResponse("bad key"), false, nil
			}
			if err := req.Storage.Delete(ctx, key); err != nil {
				return nil, false, err
			}
			b.hub.setKey(req.MountPoint, key, false)
			return nil, true, nil
		case logical.ListOperation, logical.ScanOperation:
			if strings.HasPrefix(key, "/") {
				return logical.ErrorResponse("bad prefix"), false, nil
			}
			ks, err := req.Storage.List(ctx, key)
			if err != nil {
				return nil, false, err
			}
			return logical.ListResponse(ks), false, nil
		}
		return nil, false, logical.ErrUnsupportedOperation
	case strings.HasPrefix(p, "echo/"), strings.HasPrefix(p, "root/"), strings.HasPrefix(p, "unauth/"):
		switch req.Operation {
		case logical.ReadOperation, logical.CreateOperation, logical.UpdateOperation, logical.PatchOperation, logical.DeleteOperation:
			return &logical.Response{Data: map[string]any{"path": p, "op": string(req.Operation)}}, false, nil
		case logical.ListOperation, logical.ScanOperation:
			return logical.ListResponse([]string{"e"}), false, nil
		}
		return nil, false, logical.ErrUnsupportedOperation
	}
	return nil, false, logical.ErrUnsupportedPath
}

// ---------------------------------------------------------------------------------------------------------------
// fair draws (rapid's integer and SampledFrom generators favour boundary values)

func h02Fair(rt *rapid.T, label string, n int) int {
	if n <= 1 {
		return 0
	}
	v := 0
	for bits := 0; (1 << bits) < n*4; bits++ {
		v <<= 1
		if rapid.Bool().Draw(rt, label) {
			v |= 1
		}
	}
	return v % n
}

func h02Pick(rt *rapid.T, label string, xs []string) string { return xs[h02Fair(rt, label, len(xs))] }

// ---------------------------------------------------------------------------------------------------------------
// world

type h02Tok struct {
	name     string
	id       string
	acc      string
	ns       string
	policies []string
	revoked  bool
	limited  bool
	usesLo   int // remaining uses: certainly at least
	usesHi   int // remaining uses: at most
	cidr     bool
	batch    bool
	root     bool
}

func (tk *h02Tok) certainlyDead() bool { return tk.revoked || tk.limited && tk.usesHi <= 0 }
func (tk *h02Tok) certainlyLive() bool { return !tk.revoked && (!tk.limited || tk.usesLo > 0) }

type h02World struct {
	t       *testing.T
	core    *vault.Core
	h       http.Handler
	hub     *h02Hub
	rec     *verifx.Rec
	root    string
	mountID map[string]string // qualified mount -> "logical/<uuid>/"
	pols    map[string]h02Policy
	toks    []*h02Tok
	log     []string
	nwrite  int
}

func (w *h02World) logf(f string, a ...any) { w.log = append(w.log, fmt.Sprintf(f, a...)) }

var h02Namespaces = []string{"", "ns1/", "ns1/ns1/"}

type h02Resp struct {
	status int
	body   string
	loc    string
	perr   error // the request line was not accepted by net/http's parser
}

// send parses a hand-written HTTP/1.1 request with the standard library's server-side parser and serves it in-process.
func (w *h02World) send(method, rawTarget string, hdr [][2]string, body, remote string) (out h02Resp) {
	var sb strings.Builder
	fmt.Fprintf(&sb, "%s %s HTTP/1.1\r\nHost: bao.test\r\n", method, rawTarget)
	for _, kv := range hdr {
		fmt.Fprintf(&sb, "%s: %s\r\n", kv[0], kv[1])
	}
	if body != "" {
		fmt.Fprintf(&sb, "Content-Length: %d\r\n", len(body))
	}
	sb.WriteString("\r\n")
	sb.WriteString(body)
	req, err := http.ReadRequest(bufio.NewReader(strings.NewReader(sb.String())))
	if err != nil {
		return h02Resp{status: 400, perr: err}
	}
	req.RemoteAddr = remote + ":4242"
	rw := httptest.NewRecorder()
	if p := verifx.Try(func() { w.h.ServeHTTP(rw, req) }); p != nil {
		return h02Resp{status: 599, body: fmt.Sprintf("PANIC: %v", p)}
	}
	return h02Resp{status: rw.Code, body: rw.Body.String(), loc: rw.Header().Get("Location")}
}

// api performs an administrative call with the root token; it must succeed.
func (w *h02World) api(method, ns, path string, body any) map[string]any {
	hdr := [][2]string{{"X-Vault-Token", w.root}}
	if ns != "" {
		hdr = append(hdr, [2]string{"X-Vault-Namespace", ns})
	}
	b := ""
	if body != nil {
		buf, _ := json.Marshal(body)
		b = string(buf)
		hdr = append(hdr, [2]string{"Content-Type", "application/json"})
	}
	r := w.send(method, "/v1/"+path, hdr, b, "10.1.1.1")
	if r.status != 200 && r.status != 204 {
		w.t.Fatalf("harness: %s %s (ns %q) -> %d %s", method, path, ns, r.status, verifx.Trunc(r.body, 300))
	}
	var m map[string]any
	if r.body != "" {
		_ = json.Unmarshal([]byte(r.body), &m)
	}
	return m
}

func h02Boot(t *testing.T) *h02World {
	hub := &h02Hub{keys: map[string]map[string]bool{}}
	phys := verifx.NewRec(verifx.NewInmem(false))
	core := vault.TestCoreWithSealAndUINoCleanup(t, &vault.CoreConfig{
		Physical:        phys,
		Logger:          log.NewNullLogger(),
		LogicalBackends: map[string]logical.Factory{"recbe": hub.factory},
	})
	w := &h02World{t: t, core: core, hub: hub, rec: verifx.RecOf(phys), mountID: map[string]string{}, pols: map[string]h02Policy{}}
	w.root, _ = vault.TestInitUnsealCore(t, core)
	no := false
	w.h = Handler.Handler(&vault.HandlerProperties{Core: core, ListenerConfig: &configutil.Listener{Address: "127.0.0.1", DisableUnauthedGenerateRootEndpoints: &no}})
	w.api("POST", "", "sys/namespaces/ns1", nil)
	w.api("POST", "ns1", "sys/namespaces/ns1", nil)
	for _, ns := range h02Namespaces {
		w.api("POST", ns, "sys/mounts/rb", map[string]any{"type": "recbe"})
		m := w.api("GET", ns, "sys/mounts", nil)
		d, _ := m["data"].(map[string]any)
		e, _ := d["rb/"].(map[string]any)
		id, _ := e["uuid"].(string)
		if id == "" {
			t.Fatalf("harness: no uuid for mount rb/ in namespace %q: %v", ns, m)
		}
		w.mountID[ns+"rb/"] = "logical/" + id + "/"
		w.api("PUT", ns, "rb/kv/x", map[string]any{"v": h02Canary + "-x-" + ns})
		w.api("PUT", ns, "rb/kv/sub/z", map[string]any{"v": h02Canary + "-z-" + ns})
	}
	w.api("POST", "", "auth/token/roles/cidr", map[string]any{"token_bound_cidrs": "10.0.0.0/8", "allowed_policies": "p1,p2,p3", "orphan": true, "token_no_default_policy": true})
	w.toks = append(w.toks, &h02Tok{name: "root", id: w.root, root: true})
	return w
}

func (w *h02World) shutdown() {
	done := make(chan struct{})
	go func() {
		defer close(done)
		defer func() { _ = recover() }()
		_ = w.core.ShutdownWait()
	}()
	select {
	case <-done:
	case <-time.After(30 * time.Second):
		w.t.Logf("harness: core shutdown did not finish within 30s; abandoning it")
	}
}

// rbWrites lists the physical mutations below any rb mount since seq.
func (w *h02World) rbWrites(seq int64) []string {
	var out []string
	for _, o := range w.rec.OpsSince(seq) {
		if o.Kind != "put" && o.Kind != "delete" {
			continue
		}
		for _, pfx := range w.mountID {
			if strings.Contains(o.Key, pfx) {
				out = append(out, o.Kind+" "+o.Key)
			}
		}
	}
	return out
}

// ---- policies

var h02Patterns = []string{"rb/kv/x", "rb/kv/*", "rb/kv/*", "rb/kv/", "rb/*", "rb/*", "rb/echo/e", "rb/echo/*", "rb/root/r", "rb/root/*", "*", "rb/kv/sub/*", "rb/kv/sub/z", "rb/kv/sub/", "zz/*", "rbx/*"}
var h02Caps = []string{"create", "read", "update", "delete", "list", "patch", "scan", "sudo", "deny"}
var h02AllCaps = []string{"create", "read", "update", "delete", "list", "patch", "scan", "sudo"}

func h02GenPolicy(rt *rapid.T, ns string) h02Policy {
	n := 1 + h02Fair(rt, "stanzas", 3)
	p := h02Policy{ns: ns}
	seen := map[string]bool{}
	for i := 0; i < n; i++ {
		pat := h02Pick(rt, "pattern", h02Patterns)
		if ns != "ns1/ns1/" && h02Fair(rt, "intoChild", 5) == 0 {
			pat = "ns1/" + pat
			if ns == "" && h02Fair(rt, "intoGrandChild", 2) == 0 {
				pat = "ns1/" + pat
			}
		}
		if seen[pat] {
			continue
		}
		seen[pat] = true
		var caps []string
		for _, c := range h02Caps {
			wgt := 2
			switch c {
			case "deny":
				wgt = 10
			case "sudo", "patch", "scan":
				wgt = 3
			}
			if h02Fair(rt, "cap-"+c, wgt) == 0 {
				caps = append(caps, c)
			}
		}
		if len(caps) == 0 {
			caps = []string{"read"}
		}
		p.stanzas = append(p.stanzas, h02Stanza{pattern: pat, caps: caps})
	}
	return p
}

func (w *h02World) writePolicy(ns, name string, p h02Policy) {
	p.ns = ns
	w.api("PUT", ns, "sys/policy/"+name, map[string]any{"policy": p.hcl()})
	w.pols[ns+"|"+name] = p
	w.logf("policy %s%s = %s", ns, name, strings.ReplaceAll(p.hcl(), "\n", " "))
}

func (w *h02World) livePolicies(tk *h02Tok) []h02Policy {
	var out []h02Policy
	for _, n := range tk.policies {
		if p, ok := w.pols[tk.ns+"|"+n]; ok {
			out = append(out, p)
		}
	}
	return out
}

// grantsUnderRB: some stanza of the token's policies with a capability other than deny could match a path below an rb
// mount of some namespace.
func (w *h02World) grantsUnderRB(tk *h02Tok) bool {
	for _, p := range w.livePolicies(tk) {
		for _, s := range p.stanzas {
			grant := false
			for _, c := range s.caps {
				if c != "deny" {
					grant = true
				}
			}
			if !grant {
				continue
			}
			pat := p.ns + s.pattern
			for _, ns := range h02Namespaces {
				m := ns + "rb/"
				if strings.HasSuffix(pat, "*") {
					pre := strings.TrimSuffix(pat, "*")
					if strings.HasPrefix(m, pre) || strings.HasPrefix(pre, m) {
						return true
					}
				} else if strings.HasPrefix(pat, m) {
					return true
				}
			}
		}
	}
	return false
}

// ---- tokens

func (w *h02World) createToken(rt *rapid.T) {
	ns := h02Pick(rt, "tokNS", []string{"", "", "", "ns1/", "ns1/", "ns1/ns1/"})
	names := map[string][]string{"": {"p1", "p2", "p3"}, "ns1/": {"p1", "p2"}, "ns1/ns1/": {"p1"}}[ns]
	var pols []string
	for _, n := range names {
		if h02Fair(rt, "has-"+n, 2) == 0 {
			pols = append(pols, n)
		}
	}
	if len(pols) == 0 {
		pols = []string{"p1"}
	}
	if h02Fair(rt, "noPolicy", 8) == 0 {
		pols = []string{"pnone"} // a name no policy is ever stored under
	}
	tk := &h02Tok{name: fmt.Sprintf("t%d", len(w.toks)), ns: ns, policies: pols}
	data := map[string]any{"policies": pols, "no_default_policy": true, "ttl": "1h"}
	path := "auth/token/create"
	switch h02Fair(rt, "flavour", 7) {
	case 0, 1:
		tk.limited = true
		tk.usesLo = 1 + h02Fair(rt, "uses", 3)
		tk.usesHi = tk.usesLo
		data["num_uses"] = tk.usesLo
	case 2:
		if ns == "" && pols[0] != "pnone" {
			tk.cidr = true
			path = "auth/token/create/cidr"
		}
	case 3:
		tk.batch = true
		data["type"] = "batch"
	}
	m := w.api("POST", ns, path, data)
	a, _ := m["auth"].(map[string]any)
	tk.id, _ = a["client_token"].(string)
	tk.acc, _ = a["accessor"].(string)
	if tk.id == "" {
		w.t.Fatalf("harness: token create returned no token: %v", m)
	}
	w.toks = append(w.toks, tk)
	w.logf("token %s ns=%q policies=%v uses=%d cidr=%v batch=%v", tk.name, ns, pols, tk.usesHi, tk.cidr, tk.batch)
}

func (w *h02World) revoke(tk *h02Tok) {
	w.api("POST", tk.ns, "auth/token/revoke", map[string]any{"token": tk.id})
	tk.revoked = true
	w.logf("revoke %s", tk.name)
}

// ---------------------------------------------------------------------------------------------------------------
// requests

type h02Target struct {
	mount string
	rel   string
	dir   bool
}

var h02Targets = []h02Target{
	{"rb/", "kv/x", false}, {"rb/", "kv/x", false}, {"rb/", "kv/sub/z", false}, {"rb/", "kv/new", false},
	{"rb/", "kv/", true}, {"rb/", "kv/sub/", true},
	{"rb/", "echo/e", false}, {"rb/", "root/r", false}, {"rb/", "unauth/u", false},
	{"rb/", "kv/x", false}, {"rb/", "echo/e", false},
	{"sys/", "mounts", false}, {"auth/token/", "lookup-self", false},
}

type h02Method struct {
	verb  string
	query string
	op    logical.Operation
	list  bool // the front end appends a trailing slash
	canon bool // method form with an asserted canonical mapping
}

var h02LeafMethods = []h02Method{
	{"GET", "", logical.ReadOperation, false, true}, {"GET", "", logical.ReadOperation, false, true}, {"GET", "", logical.ReadOperation, false, true},
	{"PUT", "", logical.UpdateOperation, false, true}, {"POST", "", logical.UpdateOperation, false, true}, {"PUT", "", logical.UpdateOperation, false, true},
	{"DELETE", "", logical.DeleteOperation, false, true}, {"DELETE", "", logical.DeleteOperation, false, true},
	{"PATCH", "", logical.PatchOperation, false, false}, {"HEAD", "", logical.HeaderOperation, false, false},
	{"GET", "help=1", logical.HelpOperation, false, false}, {"HELP", "", logical.HelpOperation, false, false},
	{"GET", "list=false", logical.ReadOperation, false, false},
}

var h02DirMethods = []h02Method{
	{"LIST", "", logical.ListOperation, true, true}, {"LIST", "", logical.ListOperation, true, true},
	{"GET", "list=true", logical.ListOperation, true, true}, {"GET", "list=true", logical.ListOperation, true, true},
	{"GET", "list=1", logical.ListOperation, true, false}, {"GET", "list=T", logical.ListOperation, true, false},
	{"SCAN", "", logical.ScanOperation, true, false}, {"GET", "scan=true", logical.ScanOperation, true, false},
}

type h02Req struct {
	nsTarget string // namespace the canonical target lives in
	hdrNS    string // X-Vault-Namespace value ("" = header absent)
	pfxNS    string // namespace prefix in the path
	nsForm   string
	nsCombo  bool // namespace given by header and path prefix together, or by a non-plain header spelling
	tgt      h02Target
	m        h02Method
	path     string // decorated raw path below /v1/ (before v1-level decoration)
	raw      string // full raw request target path
	decos    []string
	unauthy  bool // the raw path mentions the unauthenticated area
	canon    bool // undecorated canonical form with an unambiguous expected routing
	tok      int  // index into toks; -1 absent, -2 garbage, -3 mutated, -4 accessor presented as token
	tokOf    int  // for -3/-4: the token mutated / whose accessor is used
	garbage  string
	tokForm  string // xvt, bearer, bearer-sp
	remote   string
	body     string
}

var h02Hex = "0123456789abcdef"

func h02Pct(c byte, upper bool) string {
	s := "%" + string(h02Hex[c>>4]) + string(h02Hex[c&15])
	if upper {
		return strings.ToUpper(s)
	}
	return s
}

// slashes returns the indices of '/' in p.
func h02Slashes(p string) []int {
	var out []int
	for i := 0; i < len(p); i++ {
		if p[i] == '/' {
			out = append(out, i)
		}
	}
	return out
}

var h02DecoKinds = []string{"dslash", "dot", "dotdot-rt", "pct-dotdot-rt", "pct-dot", "pct-slash", "pct-dslash", "pct-char", "trail-toggle",
	"unauth-escape", "ns-escape", "pct-space-tail", "pct-nul", "pct-qmark", "dbl-pct", "dslash", "pct-dotdot-rt", "pct-slash", "pct-char", "trail-toggle", "dotdot-up"}

var h02V1Kinds = []string{"", "", "", "", "", "", "", "", "", "", "", "", "v1-pct", "v1-pct-slash", "v1-dslash", "v1-lead-dslash", "v1-dot"}

func (q *h02Req) decorate(rt *rapid.T, kind string) {
	p := q.path
	sl := h02Slashes(p)
	at := func() int { // a slash position
		if len(sl) == 0 {
			return -1
		}
		return sl[h02Fair(rt, "slashAt", len(sl))]
	}
	ins := func(mid string) {
		i := at()
		if i < 0 {
			return
		}
		p = p[:i] + mid + p[i+1:]
	}
	dd := h02Pick(rt, "ddForm", []string{"%2e%2e", "%2E%2E", ".%2e", "%2e.", "%2E%2e"})
	switch kind {
	case "dslash":
		ins("//")
	case "dot":
		ins("/./")
	case "dotdot-rt":
		ins("/zz/../")
	case "pct-dotdot-rt":
		ins("/zz/" + dd + "/")
	case "pct-dot":
		ins("/%2e/")
	case "pct-slash":
		ins(h02Pick(rt, "slForm", []string{"%2F", "%2f"}))
	case "pct-dslash":
		ins(h02Pick(rt, "dslForm", []string{"%2F%2F", "/%2F", "%2f/"}))
	case "pct-char":
		var idx []int
		for i := 0; i < len(p); i++ {
			if p[i] >= 'a' && p[i] <= 'z' && (i < 2 || p[i-2] != '%') && (i < 1 || p[i-1] != '%') {
				idx = append(idx, i)
			}
		}
		if len(idx) > 0 {
			i := idx[h02Fair(rt, "charAt", len(idx))]
			p = p[:i] + h02Pct(p[i], h02Fair(rt, "upperHex", 2) == 0) + p[i+1:]
		}
	case "trail-toggle":
		if strings.HasSuffix(p, "/") {
			p = strings.TrimSuffix(p, "/")
		} else {
			p += "/"
		}
	case "unauth-escape":
		up := h02Pick(rt, "upForm", []string{"..", dd})
		p = q.pfxNS + q.tgt.mount + "unauth/" + up + "/" + q.tgt.rel
		q.unauthy = true
	case "ns-escape":
		up := h02Pick(rt, "upForm", []string{"..", dd})
		p = "ns1/" + up + "/" + p
	case "dotdot-up":
		// climbs out of a sibling area of the same mount: rb/echo/../kv/x
		up := h02Pick(rt, "upForm", []string{"..", dd})
		p = q.pfxNS + q.tgt.mount + "echo/" + up + "/" + q.tgt.rel
	case "pct-space-tail":
		p += "%20"
	case "pct-nul":
		p += "%00"
	case "pct-qmark":
		p += "%3Flist=true"
	case "dbl-pct":
		ins("/zz/%252e%252e/")
	}
	q.path = p
	q.decos = append(q.decos, kind)
}

func h02GenReq(rt *rapid.T, w *h02World) *h02Req {
	q := &h02Req{}
	q.tgt = h02Targets[h02Fair(rt, "target", len(h02Targets))]
	q.nsTarget = h02Pick(rt, "reqNS", []string{"", "", "", "ns1/", "ns1/", "ns1/ns1/"})
	odd := h02Fair(rt, "oddMethod", 6) == 0
	if q.tgt.dir != odd {
		q.m = h02DirMethods[h02Fair(rt, "dirMethod", len(h02DirMethods))]
	} else {
		q.m = h02LeafMethods[h02Fair(rt, "leafMethod", len(h02LeafMethods))]
	}
	// how the namespace is conveyed
	segs := strings.Count(q.nsTarget, "/")
	inHdr := h02Fair(rt, "nsInHeader", segs+1) // number of leading namespace segments carried by the header
	parts := strings.SplitAfter(q.nsTarget, "/")
	hdr := strings.Join(parts[:inHdr], "")
	q.pfxNS = strings.Join(parts[inHdr:], "")
	q.nsForm = fmt.Sprintf("ns%d:hdr%d+pfx%d", segs, inHdr, segs-inHdr)
	plainHdr := true
	if hdr != "" {
		switch h02Fair(rt, "hdrForm", 8) {
		case 0, 1, 2:
			hdr = strings.TrimSuffix(hdr, "/")
		case 3, 4:
		case 5:
			hdr = "/" + hdr
			plainHdr = false
			q.nsForm += ":lead-slash"
		case 6:
			hdr = hdr + "zz/.."
			plainHdr = false
			q.nsForm += ":dotdot"
		case 7:
			hdr = strings.Replace(hdr, "/", "//", 1)
			plainHdr = false
			q.nsForm += ":dslash"
		}
	} else if q.nsTarget == "" && h02Fair(rt, "rootHdr", 10) == 0 {
		hdr = "root"
		plainHdr = false
		q.nsForm += ":root-literal"
	}
	q.hdrNS = hdr
	q.nsCombo = !plainHdr || inHdr > 0 && segs-inHdr > 0
	q.path = q.pfxNS + q.tgt.mount + q.tgt.rel
	dropSlash := q.tgt.dir && q.m.list && h02Fair(rt, "dropListSlash", 2) == 0
	if dropSlash {
		q.path = strings.TrimSuffix(q.path, "/")
	}
	nd := []int{0, 0, 0, 0, 1, 1, 1, 1, 2, 2}[h02Fair(rt, "nDecos", 10)]
	for i := 0; i < nd; i++ {
		q.decorate(rt, h02Pick(rt, "deco", h02DecoKinds))
	}
	q.raw = "/v1/" + q.path
	switch v1 := h02Pick(rt, "v1", h02V1Kinds); v1 {
	case "":
	case "v1-pct":
		q.raw = "/%761/" + q.path
		q.decos = append(q.decos, v1)
	case "v1-pct-slash":
		q.raw = "/v1%2F" + q.path
		q.decos = append(q.decos, v1)
	case "v1-dslash":
		q.raw = "/v1//" + q.path
		q.decos = append(q.decos, v1)
	case "v1-lead-dslash":
		q.raw = "//v1/" + q.path
		q.decos = append(q.decos, v1)
	case "v1-dot":
		q.raw = "/./v1/" + q.path
		q.decos = append(q.decos, v1)
	}
	if q.tgt.rel == "unauth/u" {
		q.unauthy = true
	}
	q.canon = len(q.decos) == 0 && plainHdr && q.m.canon && q.tgt.dir == q.m.list && q.tgt.mount == "rb/"
	// token
	switch k := h02Fair(rt, "tokKind", 12); {
	case k == 0:
		q.tok = -1
	case k == 1:
		q.tok = -2
		q.garbage = h02Pick(rt, "garbage", []string{"hvs.garbagegarbagegarbagegarbage", "s.oldstyletoken0000000000", "root", "hvb.AAAAAQJgarbage", "null", "hvs.CAESIgarbage.ns1"})
	case k == 2:
		q.tok = -3
		q.tokOf = h02Fair(rt, "mutOf", len(w.toks))
	case k == 3 && len(w.toks) > 1:
		q.tok = -4
		q.tokOf = 1 + h02Fair(rt, "accOf", len(w.toks)-1)
	default:
		q.tok = h02Fair(rt, "tok", len(w.toks))
		if q.tok == 0 && len(w.toks) > 1 && h02Fair(rt, "notRoot", 4) > 0 {
			q.tok = 1 + h02Fair(rt, "tok2", len(w.toks)-1)
		}
		if k >= 8 {
			// prefer a token that can act in the target namespace and has not been revoked
			var c []int
			for i, tk := range w.toks {
				if i > 0 && !tk.revoked && strings.HasPrefix(q.nsTarget, tk.ns) {
					c = append(c, i)
				}
			}
			if len(c) > 0 {
				q.tok = c[h02Fair(rt, "tokCompatible", len(c))]
			}
		}
	}
	q.tokForm = h02Pick(rt, "tokForm", []string{"xvt", "xvt", "bearer", "bearer", "bearer-sp"})
	q.remote = h02Pick(rt, "remote", []string{"10.1.1.1", "10.1.1.1", "10.1.1.1", "192.168.0.9"})
	return q
}

// h02CanonReq builds an undecorated canonical request on an rb target for the given token, in a namespace the token
// can act in.
func h02CanonReq(rt *rapid.T, w *h02World, tok int) *h02Req {
	tk := w.toks[tok]
	q := &h02Req{tok: tok}
	var nss []string
	for _, ns := range h02Namespaces {
		if strings.HasPrefix(ns, tk.ns) {
			nss = append(nss, ns)
		}
	}
	q.nsTarget = h02Pick(rt, "canonNS", nss)
	for {
		q.tgt = h02Targets[h02Fair(rt, "canonTarget", len(h02Targets))]
		if q.tgt.mount == "rb/" && q.tgt.rel != "unauth/u" {
			break
		}
	}
	for {
		if q.tgt.dir {
			q.m = h02DirMethods[h02Fair(rt, "canonDirMethod", len(h02DirMethods))]
		} else {
			q.m = h02LeafMethods[h02Fair(rt, "canonLeafMethod", len(h02LeafMethods))]
		}
		if q.m.canon {
			break
		}
	}
	segs := strings.Count(q.nsTarget, "/")
	inHdr := h02Fair(rt, "nsInHeader", segs+1)
	parts := strings.SplitAfter(q.nsTarget, "/")
	q.hdrNS = strings.TrimSuffix(strings.Join(parts[:inHdr], ""), "/")
	q.pfxNS = strings.Join(parts[inHdr:], "")
	q.nsForm = fmt.Sprintf("ns%d:hdr%d+pfx%d", segs, inHdr, segs-inHdr)
	q.nsCombo = inHdr > 0 && segs-inHdr > 0
	q.path = q.pfxNS + q.tgt.mount + q.tgt.rel
	if q.tgt.dir && h02Fair(rt, "dropListSlash", 2) == 0 {
		q.path = strings.TrimSuffix(q.path, "/")
	}
	q.raw = "/v1/" + q.path
	q.canon = true
	q.tokForm = h02Pick(rt, "tokForm", []string{"xvt", "bearer"})
	q.remote = "10.1.1.1"
	return q
}

// h02Variant returns a decorated form of a canonical request: same target, token and method, reached through one or two
// path decorations (the classic way around an exact-path rule).
func h02Variant(rt *rapid.T, q *h02Req) *h02Req {
	v := *q
	v.decos = nil
	v.canon = false
	v.path = v.pfxNS + v.tgt.mount + v.tgt.rel
	n := 1 + h02Fair(rt, "variantDecos", 2)
	for i := 0; i < n; i++ {
		v.decorate(rt, h02Pick(rt, "variantDeco", []string{"pct-dslash", "pct-slash", "pct-char", "pct-space-tail", "trail-toggle", "pct-dotdot-rt", "dslash", "dot", "dotdot-up", "unauth-escape", "pct-dot", "dbl-pct", "pct-qmark", "pct-dslash", "pct-char"}))
	}
	v.raw = "/v1/" + v.path
	return &v
}

type h02Tally struct {
	decorated, nonlive, allowed, denied, mustRefuse, changed, requests int
	last                                                                map[string]bool
}

// authorised: may the backend see (ns, mount+path, op) from a request presenting tk (nil = no valid token)?
func (w *h02World) authorised(tk *h02Tok, remote string, c h02Call) (bool, string) {
	if strings.HasPrefix(c.Path, "unauth/") {
		return true, "unauthenticated path"
	}
	if tk == nil {
		return false, "no valid token"
	}
	if tk.certainlyDead() {
		return false, "token revoked or exhausted"
	}
	if tk.cidr && !strings.HasPrefix(remote, "10.") {
		return false, "token bound to 10.0.0.0/8"
	}
	if tk.root {
		return true, "root token"
	}
	if c.Op == logical.HelpOperation {
		// help is not a policy capability: it is served to every live token, whatever its namespace and policies
		// (only the token-state half of the property applies to it)
		if !strings.HasPrefix(c.NS, tk.ns) {
			return true, "help with a live token of another namespace"
		}
		return true, "help with a live token"
	}
	if !strings.HasPrefix(c.NS, tk.ns) {
		return false, "token of namespace " + tk.ns + " used in " + c.NS
	}
	capName := h02CapOf[c.Op]
	if capName == "" {
		return false, "operation " + string(c.Op) + " has no capability"
	}
	abs := c.Mount + c.Path
	if !strings.HasPrefix(c.Mount, c.NS) {
		return false, "mount " + c.Mount + " outside the request namespace " + c.NS
	}
	sudo := strings.HasPrefix(c.Path, "root/")
	ok := func(caps map[string]bool) bool { return caps[capName] && !caps["deny"] && (!sudo || caps["sudo"]) }
	pols := w.livePolicies(tk)
	if ok(h02Decide(pols, abs)) {
		return true, "policy"
	}
	// list and scan: a pattern naming the directory without its trailing slash is honoured too (the front end adds
	// the slash to whatever the client asked for)
	if (c.Op == logical.ListOperation || c.Op == logical.ScanOperation) && strings.HasSuffix(abs, "/") && ok(h02Decide(pols, strings.TrimSuffix(abs, "/"))) {
		return true, "policy (directory named without trailing slash)"
	}
	return false, "policies do not grant " + capName + " on " + abs
}

func (w *h02World) doRequest(rt *rapid.T, rec *verifx.Recorder, q *h02Req, ty *h02Tally, fail func(sig, msg string)) {
	// ---- token presented
	tokStr, state := "", "absent"
	var tk *h02Tok
	switch q.tok {
	case -1:
	case -2:
		tokStr, state = q.garbage, "garbage"
	case -3:
		src := w.toks[q.tokOf%len(w.toks)]
		b := []byte(src.id)
		body := len(b)
		if j := strings.LastIndex(src.id, "."); j > 8 {
			body = j // a trailing ".<namespace id>" is a routing hint, not part of what authenticates the token
		}
		i := 4 + (body-4)/2
		if b[i] == 'A' {
			b[i] = 'B'
		} else {
			b[i] = 'A'
		}
		tokStr, state = string(b), "mutated"
	case -4:
		src := w.toks[1+(q.tokOf-1)%(len(w.toks)-1)]
		tokStr, state = src.acc, "accessor-as-token"
		if tokStr == "" {
			state = "absent"
		}
	default:
		tk = w.toks[q.tok]
		tokStr = tk.id
		switch {
		case tk.revoked:
			state = "revoked"
		case tk.certainlyDead():
			state = "exhausted"
		case tk.cidr && !strings.HasPrefix(q.remote, "10."):
			state = "cidr-mismatch"
		case !tk.certainlyLive():
			state = "uses-uncertain"
		case tk.root:
			state = "root"
		case !strings.HasPrefix(q.nsTarget, tk.ns):
			state = "foreign-namespace"
		case !w.grantsUnderRB(tk):
			state = "live-no-grant"
		case tk.limited:
			state = "live-use-limited"
		case tk.batch:
			state = "live-batch"
		default:
			state = "live"
		}
	}
	tokName, tokKey := state, state
	if tk != nil {
		tokName, tokKey = tk.name+":"+state, tk.name
	}
	nonlive := tk == nil || tk.certainlyDead() || state == "cidr-mismatch"
	if nonlive {
		ty.nonlive++
	}
	if len(q.decos) > 0 || q.nsCombo {
		ty.decorated++
	}

	// ---- canonical expectation
	op := q.m.op
	qmount := q.nsTarget + q.tgt.mount
	if q.canon && op == logical.UpdateOperation && strings.HasPrefix(q.tgt.rel, "kv/") && !w.hub.has(qmount, strings.TrimPrefix(q.tgt.rel, "kv/")) {
		op = logical.CreateOperation
	}
	want := h02Call{NS: q.nsTarget, Mount: qmount, Path: q.tgt.rel, Op: op}
	expect := "unasserted"
	if q.canon {
		switch {
		case q.tgt.rel == "unauth/u" && q.tok == -1:
			expect = "allowed"
		case q.tgt.rel == "unauth/u":
		case tk == nil:
			expect = "denied"
		case tk.certainlyDead() || state == "cidr-mismatch":
			expect = "denied"
		case !tk.certainlyLive():
		default:
			// strict form (no trailing-slash leniency): generated patterns never name a listed directory without its slash
			expect = "denied"
			if tk.root {
				expect = "allowed"
			} else if strings.HasPrefix(q.nsTarget, tk.ns) {
				caps := h02Decide(w.livePolicies(tk), want.Mount+want.Path)
				if caps[h02CapOf[op]] && !caps["deny"] && (!strings.HasPrefix(want.Path, "root/") || caps["sudo"]) {
					expect = "allowed"
				}
			}
		}
	}
	// requests that must be refused however the path is understood
	mustRefuse := false
	if !q.unauthy {
		switch {
		case nonlive:
			mustRefuse = true
		case state == "live-no-grant" && q.m.op != logical.HelpOperation && q.tgt.mount == "rb/":
			mustRefuse = true
		}
	}
	if mustRefuse {
		ty.mustRefuse++
	}

	// ---- perform (following at most one redirect the way a method-preserving client would)
	hdr := [][2]string{}
	if q.hdrNS != "" {
		hdr = append(hdr, [2]string{"X-Vault-Namespace", q.hdrNS})
	}
	if tokStr != "" {
		switch q.tokForm {
		case "xvt":
			hdr = append(hdr, [2]string{"X-Vault-Token", tokStr})
		case "bearer":
			hdr = append(hdr, [2]string{"Authorization", "Bearer " + tokStr})
		default:
			hdr = append(hdr, [2]string{"Authorization", "Bearer  " + tokStr + " "})
		}
	}
	body := ""
	switch q.m.verb {
	case "PUT", "POST":
		w.nwrite++
		body = fmt.Sprintf(`{"v":"%s-w%d"}`, h02Canary, w.nwrite)
		hdr = append(hdr, [2]string{"Content-Type", "application/json"})
	case "PATCH":
		w.nwrite++
		body = fmt.Sprintf(`{"v":"%s-w%d"}`, h02Canary, w.nwrite)
		hdr = append(hdr, [2]string{"Content-Type", "application/merge-patch+json"})
	}
	target := q.raw
	if q.m.query != "" {
		target += "?" + q.m.query
	}
	ty.requests++
	for _, d := range q.decos {
		rec.Class("deco:"+d, 1)
	}
	if len(q.decos) == 0 {
		rec.Class("deco:none", 1)
	}
	rec.Class("ns-form:"+q.nsForm, 1)
	rec.Class("token:"+state, 1)
	rec.Class("token-form:"+q.tokForm, 1)
	rec.Class("method:"+q.m.verb+"?"+q.m.query, 1)
	rec.Class("expect:"+expect, 1)
	if mustRefuse {
		rec.Class("must-refuse-regardless", 1)
	}

	for hop := 0; hop < 2; hop++ {
		n0 := w.hub.nCalls()
		seq0 := w.rec.Seq()
		r := w.send(q.m.verb, target, hdr, body, q.remote)
		calls := w.hub.since(n0)
		writes := w.rbWrites(seq0)
		desc := fmt.Sprintf("%s %s ns-header=%q token=%s via %s remote=%s (target %s%s%s op=%s, decorations=%v, canonical=%v, expect=%s, mustRefuse=%v) -> %d calls=%v writes=%d",
			q.m.verb, target, q.hdrNS, tokName, q.tokForm, q.remote, q.nsTarget, q.tgt.mount, q.tgt.rel, q.m.op, q.decos, q.canon && hop == 0, expect, mustRefuse, r.status, calls, len(writes))
		w.logf("%s", desc)
		rec.Class(fmt.Sprintf("status:%dxx", r.status/100), 1)
		rec.Class(fmt.Sprintf("status:%d", r.status), 1)
		if len(calls) > 0 {
			rec.Class("handler-invoked:yes", 1)
		} else {
			rec.Class("handler-invoked:no", 1)
		}
		if r.perr != nil {
			rec.Class("unparseable-request-line", 1)
		}
		if r.status == 599 {
			fail("panic", "the handler panicked: "+verifx.Trunc(r.body, 300)+": "+desc)
		}
		served := r.status >= 200 && r.status < 300

		// use counts: a clean canonical request that presents a live use-limited token spends exactly one use; for
		// any other request presenting it (non-canonical path, redirect, unauthenticated area, help) whether a use is
		// spent is not part of this property, so the model keeps an interval. Applied after the oracles of this hop.
		spend := func() {}
		if tk != nil && tk.limited && !tk.revoked {
			sure := q.canon && hop == 0 && !q.unauthy && strings.HasPrefix(q.nsTarget, tk.ns) && r.status/100 != 3
			spend = func() {
				if tk.usesLo > 0 {
					tk.usesLo--
				}
				if sure && tk.usesHi > 0 {
					tk.usesHi--
				}
			}
		}

		// ---- (1) judge what the backend saw
		authorisedWrite := false
		for _, c := range calls {
			// relative segments are refused by the core before routing (as in the authz unit: relative => denied)
			for _, seg := range strings.Split(c.Path, "/") {
				if seg == "." || seg == ".." {
					fail("backend-saw-relative-path", fmt.Sprintf("the backend handler was invoked with a path containing a relative segment (%s): %s", c, desc))
				}
			}
			ok, why := w.authorised(tk, q.remote, c)
			if !ok {
				sig := "backend-saw-unauthorised-request"
				if tk == nil || nonlive {
					sig = "backend-saw-request-without-live-token"
				}
				fail(sig, fmt.Sprintf("the backend handler was invoked with %s although %s: %s", c, why, desc))
			}
			if c.Wrote {
				authorisedWrite = true
			}
			if why == "help with a live token of another namespace" {
				rec.Class("observation:help-served-to-token-of-other-namespace", 1)
			}
		}
		if len(writes) > 0 && !authorisedWrite {
			fail("storage-changed-without-authorised-write", fmt.Sprintf("backend storage changed %v without an authorised writing handler invocation: %s", writes, desc))
		}
		// ---- (2) refusal regardless of canonicalisation
		if mustRefuse {
			if served {
				fail("refusable-request-served", "a request that must be refused was answered with a success status: "+desc)
			}
			if len(calls) > 0 {
				fail("refusable-request-reached-backend", "a request that must be refused invoked the backend handler: "+desc)
			}
			if len(writes) > 0 {
				fail("refusable-request-wrote-storage", fmt.Sprintf("a request that must be refused changed backend storage %v: %s", writes, desc))
			}
			if strings.Contains(r.body, h02Canary) {
				fail("refusable-request-leaked-data", "the response to a request that must be refused contains a stored value: "+verifx.Trunc(r.body, 200)+": "+desc)
			}
		}
		// ---- (3) canonical forms: both directions
		if hop == 0 {
			key := fmt.Sprintf("%s|%s|%s|%s", tokKey, q.nsTarget, q.tgt.rel, q.m.op)
			switch expect {
			case "allowed":
				ty.allowed++
				// 404 with a handler invocation = the backend had nothing at that key / an empty directory
				if !served && !(r.status == 404 && len(calls) == 1) {
					fail("authorised-request-refused", "an authorised canonical request was not served: "+verifx.Trunc(r.body, 160)+": "+desc)
				}
				if len(calls) != 1 {
					fail("authorised-request-not-routed-once", fmt.Sprintf("an authorised canonical request led to %d handler invocations (want exactly 1): %s", len(calls), desc))
				} else if c := calls[0]; c.NS != want.NS || c.Mount != want.Mount || c.Path != want.Path || c.Op != want.Op {
					fail("authorised-request-routed-wrongly", fmt.Sprintf("handler saw %s, want %s: %s", c, want, desc))
				}
				if prev, ok := ty.last[key]; ok && !prev {
					ty.changed++
				}
				ty.last[key] = true
			case "denied":
				ty.denied++
				if r.status < 400 {
					fail("denied-request-not-refused", "a canonical request that must be refused got a non-error status: "+desc)
				}
				if len(calls) > 0 {
					fail("denied-request-reached-backend", "a canonical request that must be refused invoked the backend handler: "+desc)
				}
				if len(writes) > 0 {
					fail("denied-request-wrote-storage", fmt.Sprintf("a canonical request that must be refused changed backend storage %v: %s", writes, desc))
				}
				if strings.Contains(r.body, h02Canary) {
					fail("denied-request-leaked-data", "the response to a refused canonical request contains a stored value: "+desc)
				}
				if prev, ok := ty.last[key]; ok && prev {
					ty.changed++
				}
				ty.last[key] = false
			}
		}
		spend()
		if r.status/100 != 3 || !strings.HasPrefix(r.loc, "/") || hop == 1 {
			break
		}
		rec.Class("redirect-followed", 1)
		target = r.loc
	}
}

func TestVerif_C02_HTTP(t *testing.T) {
	rec := verifx.NewRecorder("C02", "http", "per case a fresh in-memory core behind the real HTTP handler (served in-process; request lines parsed by net/http), a recording secrets backend at rb/ in namespaces root, ns1/ and ns1/ns1/ (unauthenticated unauth/*, root-protected root/*), generated policies (exact and trailing-glob patterns, capability subsets incl. deny and sudo, parent policies reaching into child namespaces) and tokens (policy subsets, use-limited, CIDR-bound, batch, per namespace; later revoked); requests = method (GET/PUT/POST/DELETE/LIST/SCAN/PATCH/HEAD/HELP, ?list= ?scan= ?help=) x raw path (doubled slashes, /./, /../ round trips, percent-encoded dots, slashes and letters, trailing slash toggles, escapes out of the unauthenticated area or a namespace prefix, /v1 spellings) x namespace by header, by path prefix or both x token by X-Vault-Token or Authorization: Bearer (live, absent, garbage, accessor, mutated, revoked, exhausted, CIDR mismatch, foreign namespace, no grant, root); policy rewrites/deletes, token revocations and grant toggles are each followed by a repeat of the previous request. Oracle: every handler invocation the backend records must be authorised by an independent reference authoriser for the token presented; requests that must be refused however the path is read get an error or redirect status, no invocation, no physical write below an rb mount, no stored value in the body; undecorated canonical requests are checked in both directions (served and routed exactly once / refused). Non-trivial = the case contains a decorated request (non-canonical path or header+prefix namespace combination) or a request with a non-live token")
	defer rec.Flush()
	minSteps, maxSteps := 12, 40
	rapid.Check(t, func(rt *rapid.T) {
		w := h02Boot(t)
		defer w.shutdown()
		ty := &h02Tally{last: map[string]bool{}}
		fail := func(sig, msg string) {
			rec.Violation(rt, sig, map[string]any{"history": w.log}, "%s; history=%v", msg, w.log)
		}
		// initial configuration
		for _, pn := range [][2]string{{"", "p1"}, {"", "p2"}, {"", "p3"}, {"ns1/", "p1"}, {"ns1/", "p2"}, {"ns1/ns1/", "p1"}} {
			p := h02GenPolicy(rt, pn[0])
			if pn[1] == "p1" && h02Fair(rt, "broadP1", 3) > 0 {
				// make served requests frequent
				var st []h02Stanza
				for _, s := range p.stanzas {
					if s.pattern != "rb/*" {
						st = append(st, s)
					}
				}
				p.stanzas = append([]h02Stanza{{pattern: "rb/*", caps: []string{"create", "read", "update", "delete", "list"}}}, st...)
			}
			w.writePolicy(pn[0], pn[1], p)
		}
		nt := 3 + h02Fair(rt, "nTokens", 3)
		for i := 0; i < nt; i++ {
			w.createToken(rt)
		}
		var lastReq *h02Req
		repeat := func() {
			if lastReq != nil {
				rec.Class("repeat-after-mutation", 1)
				w.doRequest(rt, rec, lastReq, ty, fail)
			}
		}
		slots := []string{"request", "request", "request", "request", "request", "request", "request", "request", "toggle", "toggle", "revoke", "policy", "policy-delete", "token", "request", "request"}
		steps := minSteps + h02Fair(rt, "steps", maxSteps-minSteps+1)
		for s := 0; s < steps; s++ {
			switch a := slots[h02Fair(rt, "action", len(slots))]; a {
			case "request":
				lastReq = h02GenReq(rt, w)
				w.doRequest(rt, rec, lastReq, ty, fail)
			case "toggle":
				// a canonical request, then grant or deny exactly what it asks for through one of its token's policies,
				// then the same request again
				var c []int
				for i, tk := range w.toks {
					if i > 0 && !tk.revoked && tk.policies[0] != "pnone" {
						c = append(c, i)
					}
				}
				if len(c) == 0 {
					continue
				}
				ti := c[h02Fair(rt, "toggleTok", len(c))]
				tk := w.toks[ti]
				lastReq = h02CanonReq(rt, w, ti)
				w.doRequest(rt, rec, lastReq, ty, fail)
				name := tk.policies[h02Fair(rt, "which", len(tk.policies))]
				pat := strings.TrimPrefix(lastReq.nsTarget, tk.ns) + lastReq.tgt.mount + lastReq.tgt.rel
				caps := h02AllCaps
				if h02Fair(rt, "denyIt", 2) == 0 {
					caps = []string{"deny"}
				}
				p := w.pols[tk.ns+"|"+name]
				st := append([]h02Stanza(nil), p.stanzas...)
				found := false
				for i := range st {
					if st[i].pattern == pat {
						st[i].caps = caps
						found = true
					}
				}
				if !found {
					st = append(st, h02Stanza{pattern: pat, caps: caps})
				}
				p.stanzas = st
				w.writePolicy(tk.ns, name, p)
				rec.Class("mutation:toggle", 1)
				repeat()
				// the same request again through decorated spellings of its path
				for i := 0; i < 2; i++ {
					rec.Class("variant-after-toggle", 1)
					w.doRequest(rt, rec, h02Variant(rt, lastReq), ty, fail)
				}
			case "revoke":
				var c []int
				for i, tk := range w.toks {
					if i > 0 && !tk.revoked && !tk.batch { // batch tokens cannot be revoked
						c = append(c, i)
					}
				}
				if len(c) == 0 {
					continue
				}
				ti := c[h02Fair(rt, "revokeTok", len(c))]
				if lastReq == nil || lastReq.tok != ti || h02Fair(rt, "revokeCanon", 2) == 0 {
					lastReq = h02CanonReq(rt, w, ti)
					w.doRequest(rt, rec, lastReq, ty, fail)
				}
				w.revoke(w.toks[ti])
				rec.Class("mutation:revoke", 1)
				repeat()
			case "policy":
				ns := h02Pick(rt, "polNS", []string{"", "", "ns1/", "ns1/", "ns1/ns1/"})
				names := map[string][]string{"": {"p1", "p2", "p3"}, "ns1/": {"p1", "p2"}, "ns1/ns1/": {"p1"}}[ns]
				w.writePolicy(ns, h02Pick(rt, "polName", names), h02GenPolicy(rt, ns))
				rec.Class("mutation:policy", 1)
				repeat()
			case "policy-delete":
				ns := h02Pick(rt, "polNS", []string{"", "", "ns1/", "ns1/", "ns1/ns1/"})
				names := map[string][]string{"": {"p1", "p2", "p3"}, "ns1/": {"p1", "p2"}, "ns1/ns1/": {"p1"}}[ns]
				name := h02Pick(rt, "polName", names)
				w.api("DELETE", ns, "sys/policy/"+name, nil)
				delete(w.pols, ns+"|"+name)
				w.logf("policy-delete %s%s", ns, name)
				rec.Class("mutation:policy-delete", 1)
				repeat()
			case "token":
				if len(w.toks) < 9 {
					w.createToken(rt)
				}
			}
		}
		class := fmt.Sprintf("decorated=%v,nonlive=%v", ty.decorated > 0, ty.nonlive > 0)
		rec.Case(class, ty.decorated > 0 || ty.nonlive > 0, verifx.Digest(w.log), func() any { return map[string]any{"history": w.log} })
		rec.Class("requests", int64(ty.requests))
		rec.Class("requests-decorated", int64(ty.decorated))
		rec.Class("requests-nonlive-token", int64(ty.nonlive))
		rec.Class("canonical-allowed", int64(ty.allowed))
		rec.Class("canonical-denied", int64(ty.denied))
		rec.Class("canonical-outcome-changed-by-mutation", int64(ty.changed))
	})
}
