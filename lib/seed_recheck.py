#!/usr/bin/env python3
"""Re-runs the checks against the seeded changes kept under /verif/seeded (regression of the detection table).

  lib/seed_recheck.py [--tier quick|thorough] [--jobs N] [NAME[:ID2,ID3] ...]     NAME like C13-A; default: all

For every seeded change: scratch worktree of /repo HEAD under /var/tmp, apply patch.diff, run ./check <ID> (and the
extra IDs recorded in meta.json as catching it) with VERIF_REPO pointing at the worktree, record the outcome under
confirmed_by_lead.recheck in meta.json, remove the worktree and the binaries built for it. /repo is never touched."""
import json, os, re, shutil, subprocess, sys, time, hashlib
from concurrent.futures import ThreadPoolExecutor

VERIF = os.path.dirname(os.path.dirname(os.path.abspath(__file__)))
GOENV = dict(os.environ, PATH="/opt/veriftools/go1.27.0/bin:" + os.environ["PATH"], GOFLAGS="-mod=mod", GOPROXY="off", GOSUMDB="off", GOTOOLCHAIN="local")


def sh(cmd, cwd=None, timeout=3600):
    p = subprocess.run(cmd, shell=True, cwd=cwd, env=GOENV, stdout=subprocess.PIPE, stderr=subprocess.STDOUT, text=True, timeout=timeout)
    return p.returncode, p.stdout


def one(name, extra, tier):
    dst = os.path.join(VERIF, "seeded", name)
    pid = name.split("-")[0]
    mp = os.path.join(dst, "meta.json")
    meta = json.load(open(mp))
    ids = [pid] + [e for e in extra if e != pid]
    if not extra:
        for k, v in meta.get("confirmed_by_lead", {}).get("checks", {}).items():
            cid = k.split(":")[0]
            if v.get("caught") and cid not in ids:
                ids.append(cid)
    wt = "/var/tmp/seedre-%s" % name
    sh("git -C /repo worktree remove --force %s" % wt)
    shutil.rmtree(wt, ignore_errors=True)
    rc, out = sh("git -C /repo worktree add -q --detach %s HEAD" % wt)
    if rc != 0:
        return name, {"error": out[-500:]}
    res = {"repo_head": sh("git -C /repo rev-parse --short HEAD")[1].strip(), "verif_head": sh("git -C %s rev-parse --short HEAD" % VERIF)[1].strip(), "at": time.strftime("%Y-%m-%d %H:%M:%S"), "tier": tier, "checks": {}}
    try:
        rc, out = sh("git apply --whitespace=nowarn %s" % os.path.join(dst, "patch.diff"), cwd=wt)
        if rc != 0:
            rc, out = sh("git apply --3way --whitespace=nowarn %s" % os.path.join(dst, "patch.diff"), cwd=wt)
        if rc != 0:
            res["error"] = "patch does not apply: " + out[-800:]
            return name, res
        for cid in ids:
            env = dict(os.environ, VERIF_REPO=wt, VERIF_SEED=os.environ.get("VERIF_SEED", "0"))
            t0 = time.time()
            p = subprocess.run([os.path.join(VERIF, "check"), cid, "--tier", tier, "--no-evidence"], cwd=VERIF, env=env, stdout=subprocess.PIPE, stderr=subprocess.STDOUT, text=True, timeout=10800)
            sig = None
            rp = re.search(r"VIOLATION property=\S+ replay=(\S+)", p.stdout)
            if rp and os.path.exists(rp.group(1)):
                try:
                    sig = json.load(open(rp.group(1))).get("signature")
                except Exception:
                    pass
            vio = [l for l in p.stdout.splitlines() if l.startswith("violation detail")]
            res["checks"][cid] = {"exit": p.returncode, "caught": p.returncode == 1, "signature": sig, "wall_s": round(time.time() - t0, 1), "violation": vio[0][:400] if vio else None}
            if p.returncode not in (0, 1):
                res["checks"][cid]["tail"] = p.stdout[-1500:]
            print(name, cid, tier, "exit", p.returncode, "sig", sig, "%.0fs" % (time.time() - t0), flush=True)
            if p.returncode == 1 and cid == pid:
                break
    finally:
        sh("git -C /repo worktree remove --force %s" % wt)
        shutil.rmtree(wt, ignore_errors=True)
        tag = hashlib.sha1(wt.encode()).hexdigest()[:6]
        for d in ("build/bin", "build"):
            dd = os.path.join(VERIF, d)
            for f in os.listdir(dd) if os.path.isdir(dd) else []:
                if tag in f and os.path.isfile(os.path.join(dd, f)):
                    os.remove(os.path.join(dd, f))
    meta.setdefault("confirmed_by_lead", {})["recheck"] = res
    json.dump(meta, open(mp, "w"), indent=1)
    return name, res


def main():
    tier, jobs, names = "quick", 2, []
    a = sys.argv[1:]
    i = 0
    while i < len(a):
        if a[i] == "--tier":
            tier = a[i + 1]; i += 2
        elif a[i] == "--jobs":
            jobs = int(a[i + 1]); i += 2
        else:
            names.append(a[i]); i += 1
    if not names:
        names = sorted(d for d in os.listdir(os.path.join(VERIF, "seeded")) if os.path.exists(os.path.join(VERIF, "seeded", d, "patch.diff")))
    work = []
    for n in names:
        nm, _, ex = n.partition(":")
        work.append((nm, [e for e in ex.split(",") if e], tier))
    missed = []
    with ThreadPoolExecutor(max_workers=jobs) as ex:
        for name, res in ex.map(lambda w: one(*w), work):
            caught = [c for c, v in res.get("checks", {}).items() if v.get("caught")]
            print("RESULT", name, "caught_by=" + (",".join(caught) or "NONE"), res.get("error", ""), flush=True)
            if not caught:
                missed.append(name)
    print("MISSED:", " ".join(missed) or "none")
    return 1 if missed else 0


if __name__ == "__main__":
    sys.exit(main())
