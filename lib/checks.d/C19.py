CHECK = {
    "level": "exploration",
    "assumptions": ["goroutines the request handler spawns itself and the expiration workers are not gated (they run freely, as in production)",
                    "histories unit: sequential requests only; an injected storage fault is a single failed read seen by a goroutine other than the requester's"],
    "units": [
        unit("uselimit", "vault", ["vault/c19_test.go"], "^TestVerif_C19_UseLimit$",
             quick={"checks": 180, "shards": 1, "cap": 900},
             thorough={"checks": 1500, "shards": 16, "cap": 3000},
             # lock hand-over between two blocked request goroutines is decided by the Go runtime, so a failing schedule
             # need not fail again when rapid re-runs it; the verdict is a fact about the history that did happen
             flaky_is_violation=True),
        # sequential histories: entity-bound login tokens whose entity is disabled / enabled / deleted between uses, and a
        # single failing read met by the background revocation of the spent token (runs beside the schedule unit)
        unit("histories", "vault", ["vault/c19_test.go", "vault/c19hist_test.go"], "^TestVerif_C19_Histories$",
             quick={"checks": 200, "shards": 1, "cap": 900},
             thorough={"checks": 1500, "shards": 16, "cap": 3000},
             # which read of the background revocation is the j-th depends on the expiration workers' timing
             flaky_is_violation=True),
    ],
}
