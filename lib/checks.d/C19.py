CHECK = {
    "level": "exploration",
    "assumptions": ["goroutines the request handler spawns itself and the expiration workers are not gated (they run freely, as in production)"],
    "units": [
        unit("uselimit", "vault", ["vault/c19_test.go"], "^TestVerif_C19_",
             quick={"checks": 250, "shards": 1, "cap": 900},
             thorough={"checks": 1500, "shards": 16, "cap": 3000},
             # lock hand-over between two blocked request goroutines is decided by the Go runtime, so a failing schedule
             # need not fail again when rapid re-runs it; the verdict is a fact about the history that did happen
             flaky_is_violation=True),
    ],
}
