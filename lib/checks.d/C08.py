CHECK = {
    "level": "exploration",
    "assumptions": [
        "C08a: the OCC reference model in harness/storagex/c08_txn_test.go; a conflict reported for a blind write or after an ABA rewrite, and an ABA transaction committing, are allowed by the statement",
        "PostgreSQL backend: no database server in the sandbox",
    ],
    "units": [
        unit("storagex-txn", "storagex", ["storagex/model_test.go", "storagex/c08_txn_test.go"], "^TestVerif_C08_Txn$",
             quick={"checks": 2000, "shards": 1, "cap": 600},
             thorough={"checks": 10000, "shards": 16, "cap": 2400}, no_ulimit=True),
    ],
}
