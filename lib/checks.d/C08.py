CHECK = {
    "level": "exploration",
    "assumptions": [
        "C08a: the OCC reference model in harness/storagex/c08_txn_test.go; a conflict reported for a blind write or after an ABA rewrite, and an ABA transaction committing, are allowed by the statement",
        "C08a: Commit of a transaction without writes (read-only or write-less) is not required to verify its reads (documented: equivalent to Rollback)",
        "PostgreSQL backend: no database server in the sandbox",
        "raft-live: single-node cluster; a single started write is waited for until raft has committed it (one entry per FSM batch, log order = action order); a burst starts 2-4 writes/commits behind a test-only gate on the raft log store (a slow disk) and a raft barrier entry, so raft group-commits them into one multi-entry FSM batch; their order is read back from the log store",
        "raft-live: observations are the values and listings handed to the caller; blind writes (conservatively verified by the backend) are not observations, so a false conflict on them is allowed",
        "raft-live: no chunked (> raftchunking.ChunkSize = 512 KiB) entries - chunking is covered by C09's replicas unit -, no empty values (an empty value hashes like an absent key)",
    ],
    "units": [
        unit("storagex-txn", "storagex", ["storagex/model_test.go", "storagex/c08_txn_test.go"], "^TestVerif_C08_Txn$",
             quick={"checks": 8000, "shards": 1, "cap": 600},
             thorough={"checks": 20000, "shards": 16, "cap": 2400}, no_ulimit=True,
             floors={"txn-inmem": {"nontrivial": 0.06}, "txn-inmem+cache": {"nontrivial": 0.06}, "txn-inmem+barrier": {"nontrivial": 0.06},
                     "txn-inmem+cache+encoding+barrier+barrierview": {"nontrivial": 0.06}}),
        unit("raft-live", "raft", ["raft/c08_live_test.go"], "^TestVerif_C08_RaftLive$",
             quick={"checks": 12000, "shards": 1, "cap": 600},
             thorough={"checks": 60000, "shards": 16, "cap": 2400},
             no_ulimit=True,
             # goroutine timing can in principle change how raft groups a burst when rapid re-runs a case; every
             # verdict is a fact about the log and the answers actually observed, so an unreproduced failure still counts
             flaky_is_violation=True,
             # MAP_POPULATE of the 16 MB initial bolt mapping only costs kernel time
             env={"BAO_RAFT_DISABLE_MAP_POPULATE": "1"},
             floors={"raft-live": {"nontrivial": 0.04}}),
        unit("raft-large", "raft", ["raft/c08_live_test.go", "raft/c08_large_test.go"], "^TestVerif_C08_RaftLarge$",
             quick={"checks": 1000, "shards": 1, "cap": 600},
             thorough={"checks": 4000, "shards": 16, "cap": 2400},
             no_ulimit=True, flaky_is_violation=True,
             # a bolt file that outgrows its mapping is remapped under a lock every open read transaction holds: with
             # the driver's small default mapping (16 MB) the FSM's next write then waits for the harness's own open
             # transaction for ever (seen in the thorough tier); production maps 100 GB up front, the unit maps 2 GB
             env={"BAO_RAFT_DISABLE_MAP_POPULATE": "1", "BAO_RAFT_INITIAL_MMAP_SIZE": str(2 << 30)}),
    ],
}
