CHECK = {
    "level": "exploration",
    "assumptions": [
        "C08a: the OCC reference model in harness/storagex/c08_txn_test.go; a conflict reported for a blind write or after an ABA rewrite, and an ABA transaction committing, are allowed by the statement",
        "C08a: Commit of a transaction without writes (read-only or write-less) is not required to verify its reads (documented: equivalent to Rollback)",
        "PostgreSQL backend: no database server in the sandbox",
    ],
    "units": [
        unit("storagex-txn", "storagex", ["storagex/model_test.go", "storagex/c08_txn_test.go"], "^TestVerif_C08_Txn$",
             quick={"checks": 8000, "shards": 1, "cap": 600},
             thorough={"checks": 20000, "shards": 16, "cap": 2400}, no_ulimit=True,
             floors={"txn-inmem": {"nontrivial": 0.06}, "txn-inmem+cache": {"nontrivial": 0.06}, "txn-inmem+barrier": {"nontrivial": 0.06},
                     "txn-inmem+cache+encoding+barrier+barrierview": {"nontrivial": 0.06}}),
    ],
}
