CHECK = {
    "level": "exploration",
    "assumptions": [
        "replicas: FSM.chunker.ApplyBatch (the chunking wrapper hashicorp/raft is given) is driven directly; no hashicorp/raft runtime, elections or network; all logs carry term 1 (a term change between the chunks of an entry legitimately drops it and is not generated)",
        "replicas: entries larger than raftchunking.ChunkSize (1-2 per log in ~8% of the logs, 2-3 chunks, optionally with small entries logged between the chunks) are cut by raftchunking.ChunkingApply itself; its random op number (crypto/rand) only names the stored chunks and is the one thing that is not a function of VERIF_SEED; two chunked entries never overlap",
        "replicas: a reopen at position p continues either with log p+1 (a raft snapshot was taken at p before the restart) or with the first log after the index the FSM persisted (plain restart: raft replays the trailing chunk logs); logs that already reached the FSM are never fed twice (raft does not do that with this snapshot store)",
        "verification hashes are those a leader computes from the state at the transaction's start index; wrong ('forged') hashes are generated only for keys/listings written inside the transaction's window, where every replica must verify them (a wrong hash on untouched data is trusted by design of the fast path); the simulated leader's listings never contain the chunk storage prefix",
        "LowestActiveIndex is shipped as a correct leader computes it when it proposes the entry (min start of the transactions open then, capped by the index its FSM has applied)",
        "snapshots of an empty data bucket are not generated (the sink creates no file for them)",
        "snapshot-busy-sender: plain puts and deletes only (replaying an entry the snapshot already contains is harmless for them, which is what the design of the snapshot's index relies on); the window is reached by goroutine timing and measured per case",
        "leader-log: single-node live backend and schedule generator of C08's raft-live unit (no chunked entries there); the replicas start from an empty store plus one synthetic put at the leader's index at case start, which is sound because every case works under its own key prefix and never lists the root",
    ],
    "units": [
        unit("replicas", "raft", ["raft/c09_replicas_test.go"], "^TestVerif_C09_Replicas$",
             quick={"checks": 4000, "shards": 1, "cap": 600},
             thorough={"checks": 40000, "shards": 16, "cap": 2400},
             no_ulimit=True,
             # MAP_POPULATE of the 16 MB initial mapping costs 2 ms of kernel time per bolt open (6 opens per case)
             env={"BAO_RAFT_DISABLE_MAP_POPULATE": "1"},
             floors={"replicas": {"nontrivial": 0.20}}),
        unit("leader-log", "raft", ["raft/c08_live_test.go", "raft/c09_replicas_test.go", "raft/c09_leaderlog_test.go"], "^TestVerif_C09_LeaderLog$",
             quick={"checks": 4000, "shards": 1, "cap": 600},
             thorough={"checks": 30000, "shards": 16, "cap": 2400},
             no_ulimit=True,
             env={"BAO_RAFT_DISABLE_MAP_POPULATE": "1"},
             # goroutine timing can in principle change how raft groups a burst when rapid re-runs a case; every
             # verdict is a fact about the log actually written, so an unreproduced failure still counts
             flaky_is_violation=True),
        unit("snapshot-large", "raft", ["raft/c09_replicas_test.go", "raft/c09_snaplarge_test.go"], "^TestVerif_C09_SnapshotLarge$",
             quick={"checks": 4, "shards": 1, "cap": 600},
             thorough={"checks": 6, "shards": 8, "cap": 2400},
             no_ulimit=True),
        unit("long-window", "raft", ["raft/c09_replicas_test.go", "raft/c09_busysender_test.go", "raft/c09_longwindow_test.go"], "^TestVerif_C09_LongWindow$",
             quick={"checks": 250, "shards": 1, "cap": 600},
             thorough={"checks": 2500, "shards": 16, "cap": 2400},
             no_ulimit=True,
             env={"BAO_RAFT_DISABLE_MAP_POPULATE": "1"},
             floors={"long-window": {"nontrivial": 0.08}}),
        unit("snapshot-busy-sender", "raft", ["raft/c09_replicas_test.go", "raft/c09_busysender_test.go"], "^TestVerif_C09_BusySender$",
             quick={"checks": 150, "shards": 1, "cap": 600, "gomaxprocs": 4},
             thorough={"checks": 1500, "shards": 8, "cap": 2400, "gomaxprocs": 2},
             no_ulimit=True,
             env={"BAO_RAFT_DISABLE_MAP_POPULATE": "1"},
             # whether the concurrent entries land inside the window of Open is a matter of goroutine timing; the
             # verdict is a fact about the states actually reached, so an unreproduced failure still counts
             flaky_is_violation=True,
             floors={"snapshot-busy-sender": {"nontrivial": 0.10}}),
    ],
}
