CHECK = {
    "level": "exploration",
    "assumptions": [
        "FSM.ApplyBatch is driven directly (no hashicorp/raft runtime, no chunked entries); the log store, elections and the network are not part of this check",
        "verification hashes are those a leader computes from the state at the transaction's start index; wrong ('forged') hashes are generated only for keys/listings written inside the transaction's window, where every replica must verify them (a wrong hash on untouched data is trusted by design of the fast path)",
        "LowestActiveIndex is shipped as a correct leader computes it (min start of the transactions open at proposal time, capped by the applied index); the lagging-FSM leader of finding F7 is C08's subject",
        "snapshots of an empty data bucket are not generated (the sink creates no file for them)",
    ],
    "units": [
        unit("replicas", "raft", ["raft/c09_replicas_test.go"], "^TestVerif_C09_",
             quick={"checks": 8000, "shards": 1, "cap": 600},
             thorough={"checks": 60000, "shards": 16, "cap": 1800},
             no_ulimit=True,
             # MAP_POPULATE of the 16 MB initial mapping costs 2 ms of kernel time per bolt open (6 opens per case)
             env=dict({"BAO_RAFT_DISABLE_MAP_POPULATE": "1"}, **({"VERIF_KNOWN": __import__("os").environ["C09_DEV_KNOWN"]} if "C09_DEV_KNOWN" in __import__("os").environ else {})),  # DEVHOOK
             floors={"replicas": {"nontrivial": 0.20}}),
    ],
}
