CHECK = {
    "level": "exploration",
    "assumptions": [
        "AES-GCM itself (crypto/cipher) is sound; the check decides how the barrier uses it (header, AAD, length checks, both storage paths)",
        "the physical layout term(4)|version(1)|nonce(12)|ciphertext|tag(16) is used to label tamper positions and in one verdict only: two records written by different Put calls never share their first 17 bytes (a repeated term+nonce is a repeated keystream; with the documented random 96-bit nonces a collision has probability < 2^-64 per run)",
    ],
    "units": [
        unit("barrier-record", "barrier", ["barrier/c01_record_test.go"], "^TestVerif_C01_",
             quick={"checks": 3000, "shards": 1, "cap": 600},
             thorough={"checks": 20000, "shards": 16, "cap": 2400},
             fuzz=[dict(name='FuzzVerif_C01_Record', seconds=240)]),
        unit("server-canaries", "vault", ["vault/c01_test.go"], "^TestVerif_C01_",
             quick={"checks": 80, "shards": 1, "cap": 900, "steps": 25},
             thorough={"checks": 500, "shards": 16, "cap": 3000, "steps": 60}),
    ],
}
