CHECK = {
    "level": "exploration",
    "assumptions": [
        "the system view reports a positive max and default lease TTL (core always does; non-positive values are generated as a small class where only the upper bounds are asserted)",
        "the wall clock does not jump backwards between the two clock readings that bracket a call",
    ],
    "units": [
        unit("calculate-ttl", "framework", ["framework/c05_ttl_test.go"], "^TestVerif_C05_",
             quick={"checks": 50000, "shards": 1, "cap": 300},
             thorough={"checks": 400000, "shards": 8, "cap": 1200}),
        unit("leases", "vault", ["vault/c05_test.go"], "^TestVerif_C05_Leases$",
             quick={"checks": 100, "shards": 1, "cap": 900, "steps": 25},
             thorough={"checks": 500, "shards": 16, "cap": 3000, "steps": 50}),
        unit("leases-namespaces", "vault", ["vault/c05ns_test.go"], "^TestVerif_C05_LeasesNamespaces$",
             quick={"checks": 60, "shards": 1, "cap": 900, "steps": 25},
             thorough={"checks": 300, "shards": 16, "cap": 3000, "steps": 40}),
        unit("schedules", "vault", ["vault/c05_test.go", "vault/c05sched_test.go"], "^TestVerif_C05_Schedules$",
             quick={"checks": 150, "shards": 1, "cap": 900},
             thorough={"checks": 1000, "shards": 16, "cap": 3000},
             flaky_is_violation=True),
    ],
}
