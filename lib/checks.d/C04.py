CHECK = {
    "level": "exploration",
    "assumptions": ["expiration workers and goroutines spawned by request handlers run ungated",
                    "lease revocation at the backend is asynchronous: the oracle accepts 'lease entry absent or expiry not in the future or revoked at the recording backend'"],
    "units": [
        unit("histories", "vault", ["vault/c04_test.go"], "^TestVerif_C04_Histories$",
             quick={"checks": 120, "shards": 1, "cap": 900, "steps": 25},
             thorough={"checks": 600, "shards": 16, "cap": 3000, "steps": 40}),
        unit("namespaces", "vault", ["vault/c04ns_test.go", "vault/c04_test.go"], "^TestVerif_C04_Namespaces$",
             quick={"checks": 80, "shards": 1, "cap": 900, "steps": 25},
             thorough={"checks": 500, "shards": 16, "cap": 3000, "steps": 40}),
        unit("faults", "vault", ["vault/c04_test.go"], "^TestVerif_C04_Faults$",
             quick={"checks": 10, "shards": 1, "cap": 900},
             thorough={"checks": 20, "shards": 16, "cap": 3000}),
        unit("schedules", "vault", ["vault/c04_test.go"], "^TestVerif_C04_Schedules$",
             quick={"checks": 250, "shards": 1, "cap": 900},
             thorough={"checks": 1500, "shards": 16, "cap": 3000},
             # lock hand-over between two blocked request goroutines is decided by the Go runtime, so a failing schedule
             # need not fail again when rapid re-runs it; the verdict is a fact about the history that did happen
             flaky_is_violation=True),
    ],
}
