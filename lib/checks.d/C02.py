CHECK = {
    "level": "exploration",
    "assumptions": ["policy patterns are exact paths and trailing-'*' globs (the full pattern language is decided by C03)",
                    "unit authz: requests enter at Core.HandleRequest; percent-decoding and header handling of the HTTP layer are covered by unit http",
                    "unit http: the help operation is not a policy capability - it is served to every live token whatever its policies and namespace, so only the token-state half of the statement is applied to it (counted as observation:help-served-to-token-of-other-namespace)",
                    "unit http: for list/scan a policy pattern naming the directory without its trailing slash also authorises the listing (the front end appends the slash); the strict form is asserted only for canonical requests, whose generated patterns never name a listed directory without the slash",
                    "unit http: whether a request refused before the policy check (non-canonical path, redirect, unauthenticated area, help) spends a use of a use-limited token is not asserted; the model keeps an interval of remaining uses",
                    "unit http: the backend must never be handed a path containing '.' or '..' segments (relative paths are refused, as in unit authz); expiry, disabled entities and a wall clock are not driven through HTTP (covered by unit authz)"],
    "units": [
        unit("authz", "vault", ["vault/c02_test.go"], "^TestVerif_C02_Authz$",
             quick={"checks": 150, "shards": 1, "cap": 900, "steps": 30},
             thorough={"checks": 800, "shards": 16, "cap": 3000, "steps": 60}),
        unit("sys", "vault", ["vault/c02_test.go", "vault/c02sys_test.go"], "^TestVerif_C02_Sys$",
             quick={"checks": 80, "shards": 1, "cap": 900, "steps": 30},
             thorough={"checks": 400, "shards": 16, "cap": 3000, "steps": 60}),
        unit("policy-race", "vault", ["vault/c02race_test.go"], "^TestVerif_C02_PolicyRace$",
             quick={"checks": 120, "shards": 1, "cap": 900},
             thorough={"checks": 800, "shards": 16, "cap": 3000},
             # which of two tasks gets a lock that has just been released is the Go runtime's choice, so a failing
             # schedule need not fail again on re-run; the verdict is a fact about the history that did happen
             flaky_is_violation=True),
        unit("http", "http", ["http/c02_http_test.go"], "^TestVerif_C02_HTTP$",
             quick={"checks": 500, "shards": 1, "cap": 900},
             thorough={"checks": 2000, "shards": 16, "cap": 3000}),
    ],
}
