CHECK = {
    "level": "exploration",
    "assumptions": ["policy patterns are exact paths and trailing-'*' globs (the full pattern language is decided by C03)",
                    "requests enter at Core.HandleRequest; percent-decoding and header handling of the HTTP layer are outside this unit"],
    "units": [
        unit("authz", "vault", ["vault/c02_test.go"], "^TestVerif_C02_",
             quick={"checks": 150, "shards": 1, "cap": 900, "steps": 30},
             thorough={"checks": 800, "shards": 16, "cap": 3000, "steps": 60}),
        unit("http", "http", ["http/c02_http_test.go"], "^TestVerif_C02_HTTP$",
             quick={"checks": 500, "shards": 1, "cap": 900},
             thorough={"checks": 2000, "shards": 16, "cap": 3000}),
    ],
}
