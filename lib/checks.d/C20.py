CHECK = {
    "level": "exploration",
    "assumptions": ["crypto/rand is uniform (only spread, not uniformity, is tested)",
                    "the reference GF(2^8) (carry-less product mod 0x11b) and reference Lagrange interpolation in the harness are correct"],
    "units": [
        unit("shamir", "shamir", ["shamir/c20_test.go"], "^TestVerif_C20_(Field|SplitCombine|CombineRejects|Independence|CoefficientsPerByte)$",
             quick={"checks": 4000, "shards": 1, "cap": 600},
             thorough={"checks": 40000, "shards": 8, "cap": 2400},
             # Split draws from crypto/rand, so a failing case need not fail again when rapid re-runs it;
             # every oracle is a deterministic fact about the shares actually returned, so it still counts.
             flaky_is_violation=True),
        unit("concurrent-splits", "shamir", ["shamir/c20_test.go"], "^TestVerif_C20_ConcurrentSplits$",
             quick={"checks": 600, "shards": 1, "cap": 600},
             thorough={"checks": 5000, "shards": 8, "cap": 2400},
             flaky_is_violation=True),
        unit("unseal-threshold", "vault", ["vault/c20_test.go", "vault/c10_test.go"], "^TestVerif_C20_",
             quick={"checks": 150, "shards": 1, "cap": 900},
             thorough={"checks": 1000, "shards": 16, "cap": 3000}),
    ],
}
