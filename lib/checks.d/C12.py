CHECK = {
    "level": "exploration",
    "assumptions": ["default group-policy application mode", "the backend under test is the recording backend, whose storage keys are dictated by the client"],
    "units": [
        unit("confinement", "vault", ["vault/c12_test.go"], "^TestVerif_C12_",
             quick={"checks": 120, "shards": 1, "cap": 900, "steps": 30},
             thorough={"checks": 600, "shards": 16, "cap": 3000, "steps": 60}),
    ],
}
