CHECK = {
    "level": "exploration",
    "assumptions": [
        "storage faults are injected at the logical.Storage interface of the mount (the k-th operation of the calling goroutine fails once, or everything fails from the k-th on and the backend is re-created): models an error/crash of the storage layer, not torn writes",
        "wall clock: obligations on a serial end 3 s before the certificate's notAfter; CRL thisUpdate may be up to 2 s ahead",
        "golang.org/x/crypto/ocsp and crypto/x509 CRL parsing are trusted",
    ],
    "units": [
        unit("history", "pki", ["pki/cx_common_test.go", "pki/c16_revoke_test.go"], "^TestVerif_C16_History$",
             quick={"checks": 150, "steps": 25, "shards": 1, "cap": 600},
             thorough={"checks": 500, "steps": 40, "shards": 16, "cap": 1500},
             # serial numbers, issuer ids and the code's own map iteration order are random, so the k-th storage
             # operation of a call is not the same operation when rapid re-runs a case; every verdict is a fact
             # about responses actually served, so an unreproduced failure still counts.
             flaky_is_violation=True),
        unit("fault-all-k", "pki", ["pki/cx_common_test.go", "pki/c16_revoke_test.go"], "^TestVerif_C16_FaultAllK$",
             quick={"checks": 8, "shards": 1, "cap": 600},
             thorough={"checks": 40, "shards": 16, "cap": 1500},
             flaky_is_violation=True),
    ],
}
