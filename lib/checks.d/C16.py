CHECK = {
    "level": "exploration",
    "assumptions": [
        "storage faults are injected at the logical.Storage interface of the mount (the k-th operation of the calling goroutine fails once, or everything fails from the k-th on and the backend is re-created): models an error/crash of the storage layer, not torn writes",
        "wall clock: obligations on a serial end 3 s before the certificate's notAfter; CRL thisUpdate may be up to 2 s ahead",
        "golang.org/x/crypto/ocsp and crypto/x509 CRL parsing are trusted",
        "elapsed intervals are simulated, not waited for: the CRL builder's last delta-rebuild check time and the backend's last-tidy time are moved back (in-package) before a periodic tick; already-expired certificates are obtained by issuing with not_after in the past (role with not_before_duration 3h) and revoked through allow_expired_cert_revocation",
        "schedules unit: requests are interleaved at the granularity of physical storage operations (verifx.Sched); the tidy request is represented by its body (doTidyRevocationStore + doTidyRebuildCRL) run in the task's goroutine, because the real one runs in a goroutine of its own that cannot be gated",
        "while the issuers of a CRL lack crl-signing nothing new is demanded of that CRL (it must still be served and keep its entries); revocations of that period are owed by the first complete CRL built after the usage is back, not by a delta CRL (a complete rebuild clears the delta WAL also for the issuers it skipped)",
    ],
    "units": [
        unit("history", "pki", ["pki/cx_common_test.go", "pki/c16_revoke_test.go", "pki/c16_ext_test.go"], "^TestVerif_C16_History$",
             quick={"checks": 150, "steps": 25, "shards": 1, "cap": 600},
             thorough={"checks": 500, "steps": 40, "shards": 16, "cap": 1500},
             # serial numbers, issuer ids and the code's own map iteration order are random, so the k-th storage
             # operation of a call is not the same operation when rapid re-runs a case; every verdict is a fact
             # about responses actually served, so an unreproduced failure still counts.
             flaky_is_violation=True),
        unit("fault-all-k", "pki", ["pki/cx_common_test.go", "pki/c16_revoke_test.go", "pki/c16_ext_test.go"], "^TestVerif_C16_FaultAllK$",
             quick={"checks": 8, "shards": 1, "cap": 600},
             thorough={"checks": 40, "shards": 16, "cap": 1500},
             flaky_is_violation=True),
        unit("schedules", "pki", ["pki/cx_common_test.go", "pki/c16_revoke_test.go", "pki/c16_ext_test.go"], "^TestVerif_C16_Schedules$",
             quick={"checks": 14, "shards": 1, "cap": 600},
             thorough={"checks": 40, "shards": 16, "cap": 1500},
             flaky_is_violation=True),
        unit("delta-tidy", "pki", ["pki/cx_common_test.go", "pki/c16_revoke_test.go", "pki/c16_ext_test.go"], "^TestVerif_C16_DeltaTidy$",
             quick={"checks": 25, "shards": 1, "cap": 600},
             thorough={"checks": 150, "shards": 8, "cap": 1500},
             flaky_is_violation=True),
    ],
}
