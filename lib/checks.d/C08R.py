# development wrapper for the C08b unit (live single-node RaftBackend); to be merged into C08.py as unit "raft-live"
CHECK = {
    "level": "exploration",
    "assumptions": [
        "single-node cluster: every started write is waited for until raft has committed it, so each FSM batch holds one entry and the log order equals the action order",
        "observations are the values and listings handed to the caller; blind writes (conservatively verified by the backend) are not observations, so a false conflict on them is allowed",
        "no chunked (> 256 KiB) entries, no empty values",
    ],
    "units": [
        unit("raft-live", "raft", ["raft/c08_live_test.go"], "^TestVerif_C08_RaftLive$",
             quick={"checks": 20000, "shards": 1, "cap": 600},
             thorough={"checks": 60000, "shards": 16, "cap": 1800},
             no_ulimit=True,
             env=dict({"BAO_RAFT_DISABLE_MAP_POPULATE": "1"}, **({"VERIF_KNOWN": __import__("os").environ["C08_DEV_KNOWN"]} if "C08_DEV_KNOWN" in __import__("os").environ else {})),  # DEVHOOK
             floors={"raft-live": {"nontrivial": 0.04}}),
    ],
}
