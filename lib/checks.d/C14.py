_FILES = ["kv/c14_model_test.go", "kv/c14_lin_test.go", "kv/c14_fault_test.go", "kv/c14_fault2_test.go", "kv/c14_fault3_test.go"]

CHECK = {
    "level": "exploration",
    "assumptions": [
        "the KV v2 backend is driven in-package through HandleRequest over logical.NewLogicalStorage(recording in-memory physical backend); "
        "the core's request routing, ACL and existence check are not in the loop",
        "schedules are interleavings of whole storage operations of registered request goroutines (the storage-step scheduler); "
        "instructions between two storage operations are not interleaved",
        "the engine-level cas_required is read by a write at an unspecified moment of the request: while an engine-config write "
        "overlaps a write without cas either value is accepted; delete_version_after stays unset; engine-level max_versions is set only in the failedconfig unit",
        "key-level and engine-level max_versions are never both set in one history (the docs say the key setting can overwrite the engine value, the code takes the larger of the two: left open)",
        "the in-memory transactional backend (snapshot at begin, validation at commit) stands for transactional storage",
    ],
    "units": [
        unit("linearizable", "kv", _FILES, "^TestVerif_C14_Linearizable$",
             quick={"checks": 400, "shards": 1, "cap": 600},
             thorough={"checks": 3000, "shards": 16, "cap": 2400},
             floors={"linearizable": {"nontrivial": 0.2, "overlapping-writes-same-cas": 0.06,
                                      "delete-or-destroy-overlaps-write": 0.12, "transactional": 0.3, "non-transactional": 0.3}},
             # lock hand-over between two blocked request goroutines is decided by the Go runtime, so a failing schedule
             # need not fail again when rapid re-runs it; the verdict is a fact about the history that did happen
             flaky_is_violation=True),
        unit("failedwrite", "kv", _FILES, "^TestVerif_C14_FailedWrite$",
             quick={"checks": 300, "shards": 1, "cap": 600},
             thorough={"checks": 2000, "shards": 16, "cap": 2400},
             floors={"failed-write": {"nontrivial": 0.5}}),
        unit("failedmutation", "kv", _FILES, "^TestVerif_C14_FailedMutation$",
             quick={"checks": 300, "shards": 1, "cap": 600},
             thorough={"checks": 2000, "shards": 16, "cap": 2400},
             floors={"failed-mutation": {"nontrivial": 0.2}}),
        unit("failedconfig", "kv", _FILES, "^TestVerif_C14_FailedConfig$",
             quick={"checks": 250, "shards": 1, "cap": 600},
             thorough={"checks": 1500, "shards": 16, "cap": 2400},
             floors={"failed-config": {"nontrivial": 0.2}}),
    ],
}
