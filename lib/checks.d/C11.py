CHECK = {
    "level": "exploration",
    "assumptions": [
        "request/response data values are JSON-encodable and strings are valid UTF-8 (json.Marshal coerces anything else before the audit code sees it)",
        "secret strings do not parse as RFC 3339 timestamps (those are left in clear by design)",
    ],
    "units": [
        unit("audit-format", "audit", ["audit/c11_format_test.go"], "^TestVerif_C11_",
             quick={"checks": 20000, "shards": 1, "cap": 600},
             thorough={"checks": 150000, "shards": 8, "cap": 1800}),
        unit("broker-order", "vault", ["vault/c11_test.go"], "^TestVerif_C11_BrokerOrder$",
             quick={"checks": 1500, "shards": 1, "cap": 900},
             thorough={"checks": 8000, "shards": 16, "cap": 3000}),
        unit("audit-config", "vault", ["vault/c11x_test.go"], "^TestVerif_C11_AuditConfig$",
             quick={"checks": 400, "shards": 1, "cap": 900},
             thorough={"checks": 1500, "shards": 16, "cap": 3000}),
    ],
}
