CHECK = {
    "level": "exploration",
    "assumptions": ["expiration workers and goroutines spawned by request handlers run ungated",
                    "TTL lapse is checked with a 1 s wrap TTL and a 2.5 s wait (only 'dead after', never 'alive near expiry')"],
    "units": [
        unit("unwrap", "vault", ["vault/c18_test.go"], "^TestVerif_C18_",
             quick={"checks": 200, "shards": 1, "cap": 900},
             thorough={"checks": 1500, "shards": 16, "cap": 3000},
             # lock hand-over between two blocked request goroutines is decided by the Go runtime, so a failing schedule
             # need not fail again when rapid re-runs it; the verdict is a fact about the history that did happen
             flaky_is_violation=True),
    ],
}
