CHECK = {
    "level": "exploration",
    "assumptions": ["expiration workers and goroutines spawned by request handlers run ungated",
                    "TTL lapse is checked with a 1 s wrap TTL and a 2.5 s wait (only 'dead after', never 'alive near expiry')",
                    "namespaces unit: sequential histories only; namespace deletion is not exercised; a departed client is a cancelled request context"],
    "units": [
        unit("unwrap", "vault", ["vault/c18_test.go"], "^TestVerif_C18_UnwrapOnce$",
             quick={"checks": 200, "shards": 1, "cap": 900, "shrinktime": "10s"},
             thorough={"checks": 1500, "shards": 16, "cap": 3000, "shrinktime": "10s"},
             # lock hand-over between two blocked request goroutines is decided by the Go runtime, so a failing schedule
             # need not fail again when rapid re-runs it; the verdict is a fact about the history that did happen
             flaky_is_violation=True),
        # c04_test.go only for keyClass (used by c18_test.go) when the driver falls back to building the unit's files alone
        unit("namespaces", "vault", ["vault/c18_test.go", "vault/c18ns_test.go", "vault/c04_test.go"], "^TestVerif_C18_Namespaces$",
             quick={"checks": 400, "shards": 1, "cap": 900},
             thorough={"checks": 1500, "shards": 16, "cap": 3000},
             # where the cancellation of a client-gone attempt lands inside the server is decided by the Go runtime
             # (context.AfterFunc runs in a goroutine of its own); the verdict is a fact about the history that did happen
             flaky_is_violation=True),
    ],
}
