CHECK = {
    "level": "exploration",
    "assumptions": ["crypto/rand does not repeat (random nonces, keys and OAEP seeds are taken to be distinct)",
                    "the standard library primitives (AES-GCM, ChaCha20-Poly1305, ECDSA, Ed25519, RSA, HMAC) are correct; the check is about which key, context, associated data and version the policy feeds them"],
    "units": [
        unit("keysutil", "keysutil", ["keysutil/c17_policy_test.go"], "^TestVerif_C17_Policy$",
             quick={"checks": 1200, "shards": 1, "cap": 600, "steps": 30},
             thorough={"checks": 2500, "shards": 16, "cap": 1800, "steps": 40}),
        unit("concurrent-cold-cache", "keysutil", ["keysutil/c17_policy_test.go", "keysutil/c17_conc_test.go"], "^TestVerif_C17_ConcurrentColdCache$",
             quick={"checks": 600, "shards": 1, "cap": 600},
             thorough={"checks": 4000, "shards": 16, "cap": 1800},
             # which of two tasks wins a lock that has just been released is decided by the Go runtime, so a failing
             # schedule need not fail again when rapid re-runs it; the verdict is a fact about the history that did happen
             flaky_is_violation=True),
        unit("concurrent-first-use", "keysutil", ["keysutil/c17_policy_test.go", "keysutil/c17_conc_test.go"], "^TestVerif_C17_ConcurrentFirstUse$",
             quick={"checks": 600, "shards": 1, "cap": 600},
             thorough={"checks": 4000, "shards": 16, "cap": 1800},
             flaky_is_violation=True),
        unit("transit-api", "transit", ["transit/c17_api_test.go"], "^TestVerif_C17_API$",
             quick={"checks": 800, "shards": 1, "cap": 600, "steps": 25},
             thorough={"checks": 1500, "shards": 16, "cap": 1800, "steps": 35}),
    ],
}
