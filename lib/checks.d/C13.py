_C13_COMMON = ["storagex/model_test.go", "storagex/c13_kv_test.go"]
_C13_LAYERS = ["", "+cache", "+encoding", "+physview", "+logical+storageview", "+barrier", "+barrier+barrierview",
               "+cache+encoding+barrier+barrierview"]


def _c13_floors(bases, extra=()):
    # one fifth of the non-trivial rate measured on the unchanged tree (0.45-0.7 per stack)
    names = [b + l for b in bases for l in _C13_LAYERS] + list(extra)
    return {"kv-" + n: {"nontrivial": 0.10} for n in names}


CHECK = {
    "level": "exploration",
    "assumptions": [
        "the sorted-map reference model in harness/storagex/model_test.go is the contract (immediate children, trailing '/' for sub-prefixes, sorted, no duplicates; ListPage = entries > after, cut at limit when limit > 0)",
        "file backend: names it cannot store are not generated (segments starting with '_', '.' segments, NUL, segments over 249 bytes, trailing-slash keys)",
        "live raft backend: keys are valid UTF-8 (they travel as protobuf strings; the encoding layer above raft enforces this in production)",
        "a Put/Delete that returns an error (context already cancelled at that call, value above the configured max_value_size) is not 'the last value put': it changes nothing at once, inside a transaction, or when that transaction is committed afterwards; one that returns nil with a cancelled context took effect (layers that ignore the context)",
        "scan helpers: page size / limit 1 is not combined with trailing-slash keys (ListPage(dir, \"\", 1) = [\"\"] repeats for ever; the helper documents that it needs a larger page then)",
    ],
    "units": [
        unit("storagex-mem", "storagex", _C13_COMMON, "^TestVerif_C13_Mem$",
             quick={"checks": 1200, "shards": 1, "cap": 600},
             thorough={"checks": 6000, "shards": 16, "cap": 2400}, no_ulimit=True,
             floors=_c13_floors(["inmem", "inmem-notx"], ["inmemstorage", "inmem+cache+physview", "inmem+barrier+storageview"])),
        unit("storagex-file", "storagex", _C13_COMMON, "^TestVerif_C13_File$",
             quick={"checks": 240, "shards": 1, "cap": 600},
             thorough={"checks": 1500, "shards": 16, "cap": 2400}, no_ulimit=True,
             floors=_c13_floors(["file"])),
        unit("storagex-fsm", "storagex", _C13_COMMON, "^TestVerif_C13_FSM$",
             quick={"checks": 160, "shards": 1, "cap": 600, "shrinktime": "15s"},
             thorough={"checks": 1000, "shards": 16, "cap": 2400, "shrinktime": "15s"}, no_ulimit=True,
             floors=_c13_floors(["fsm"])),
        unit("cache-concurrent", "storagex", _C13_COMMON + ["storagex/c13_conc_test.go"], "^TestVerif_C13_CacheConcurrent$",
             quick={"checks": 1500, "shards": 1, "cap": 600},
             thorough={"checks": 10000, "shards": 16, "cap": 2400}, no_ulimit=True,
             floors={"cache-concurrent": {"nontrivial": 0.08}}),
        unit("raft-listing", "raft", ["raft/c13_raft_test.go"], "^TestVerif_C13_RaftListing$",
             quick={"checks": 300, "shards": 1, "cap": 600, "shrinktime": "15s"},
             thorough={"checks": 2000, "shards": 16, "cap": 2400, "shrinktime": "15s"}, no_ulimit=True,
             floors={"raft-listing": {"nontrivial": 0.07}}),
    ],
}
