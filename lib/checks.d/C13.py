_C13_COMMON = ["storagex/model_test.go", "storagex/c13_kv_test.go"]
CHECK = {
    "level": "exploration",
    "assumptions": [
        "the sorted-map reference model in harness/storagex/model_test.go is the contract (immediate children, trailing '/' for sub-prefixes, sorted, ListPage = filtered slice)",
        "file backend: names it cannot store (segments starting with '_', '.', NUL, >254 bytes, '.temp' suffix) are not generated",
    ],
    "units": [
        unit("storagex-mem", "storagex", _C13_COMMON, "^TestVerif_C13_Mem$",
             quick={"checks": 2500, "shards": 1, "cap": 600},
             thorough={"checks": 6000, "shards": 16, "cap": 2400}, no_ulimit=True),
        unit("storagex-file", "storagex", _C13_COMMON, "^TestVerif_C13_File$",
             quick={"checks": 400, "shards": 1, "cap": 600},
             thorough={"checks": 2000, "shards": 16, "cap": 2400}, no_ulimit=True),
        unit("storagex-fsm", "storagex", _C13_COMMON, "^TestVerif_C13_FSM$",
             quick={"checks": 250, "shards": 1, "cap": 600, "shrinktime": "15s"},
             thorough={"checks": 1200, "shards": 16, "cap": 2400, "shrinktime": "15s"}, no_ulimit=True),
        unit("raft-listing", "raft", ["raft/c13_raft_test.go"], "^TestVerif_C13_RaftListing$",
             quick={"checks": 600, "shards": 1, "cap": 600, "shrinktime": "15s"},
             thorough={"checks": 2500, "shards": 16, "cap": 2400, "shrinktime": "15s"}, no_ulimit=True),
    ],
}
