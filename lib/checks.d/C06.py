CHECK = {
    "level": "fault_enumeration",
    "assumptions": ["single failure per request (a second fault during the rollback is outside the statement)",
                    "faults are injected into the storage operations of the request goroutine only; background workers run undisturbed"],
    "units": [
        unit("leasefaults", "vault", ["vault/c06_test.go", "vault/c04_test.go"], "^TestVerif_C06_LeaseFaults$",
             quick={"checks": 3, "shards": 1, "cap": 900},
             thorough={"checks": 2, "shards": 16, "cap": 3000}),
        unit("schedules", "vault", ["vault/c06_test.go", "vault/c06sched_test.go", "vault/c04_test.go"], "^TestVerif_C06_Schedules$",
             quick={"checks": 150, "shards": 1, "cap": 900},
             thorough={"checks": 1000, "shards": 16, "cap": 3000},
             flaky_is_violation=True),
    ],
}
