CHECK = {
    "level": "fault_enumeration",
    "assumptions": ["single failure per request (a second fault during the rollback is outside the statement)",
                    "faults and latency spikes are injected into the storage operations of the request: those that start inside the request's time window on the request goroutine or on a goroutine it started (directly or transitively); long-lived background workers (expiration, rollback manager) run undisturbed",
                    "a storage write that is delayed by a latency spike has been accepted by the store: it completes even if the request context is cancelled meanwhile (as with a remote store); all writes of one goroutine stay in program order"],
    "units": [
        unit("leasefaults", "vault", ["vault/c06_test.go", "vault/c06x_test.go", "vault/c04_test.go"], "^TestVerif_C06_LeaseFaults$",
             quick={"checks": 3, "shards": 1, "cap": 900},
             thorough={"checks": 2, "shards": 16, "cap": 3000},
             flaky_is_violation=True),
        unit("schedules", "vault", ["vault/c06_test.go", "vault/c06x_test.go", "vault/c06sched_test.go", "vault/c04_test.go"], "^TestVerif_C06_Schedules$",
             quick={"checks": 150, "shards": 1, "cap": 900},
             thorough={"checks": 1000, "shards": 16, "cap": 3000},
             flaky_is_violation=True),
    ],
}
