CHECK = {
    "level": "exploration",
    "assumptions": ["bound CIDRs are not generated",
                    "mount maximum TTL of the token and credential mounts is tuned to 4h (root namespace); system maximum is the default 32 days",
                    "create-namespaces: namespaces root, n1/ and n1/n2/; the parent's update/sudo capability on the namespace-qualified "
                    "create path is computed by a table model from the policies as defined in the parent's namespace (the model may "
                    "over-estimate, e.g. it grants sudo below its namespace to a namespace-root token, never under-estimate)"],
    "units": [
        unit("create", "vault", ["vault/c07_test.go"], "^TestVerif_C07_(TokenCreate|Login)$",
             quick={"checks": 2500, "shards": 1, "cap": 900},
             thorough={"checks": 10000, "shards": 16, "cap": 3000}),
        unit("create-namespaces", "vault", ["vault/c07ns_test.go", "vault/c07_test.go"], "^TestVerif_C07_CreateNamespaces$",
             quick={"checks": 4000, "shards": 1, "cap": 900},
             thorough={"checks": 20000, "shards": 16, "cap": 3000}),
    ],
}
