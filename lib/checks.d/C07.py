CHECK = {
    "level": "exploration",
    "assumptions": ["root namespace only; bound CIDRs are not generated",
                    "mount maximum TTL of the token and credential mounts is tuned to 4h; system maximum is the default 32 days"],
    "units": [
        unit("create", "vault", ["vault/c07_test.go"], "^TestVerif_C07_",
             quick={"checks": 2500, "shards": 1, "cap": 900},
             thorough={"checks": 10000, "shards": 16, "cap": 3000}),
    ],
}
