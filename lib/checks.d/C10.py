CHECK = {
    "level": "exploration",
    "assumptions": [
        "barrier level only: one process, two barrier instances sharing one in-memory transactional store; crash points and Shamir/stored-key seals are decided by the whole-server unit",
        "ReloadKeyring/SetRotationConfig on a sealed barrier are not generated (not part of the statement; they dereference the dropped keyring)",
    ],
    "units": [
        unit("barrier-state", "barrier", ["barrier/c10_state_test.go"], "^TestVerif_C10_State$",
             quick={"checks": 10000, "shards": 1, "cap": 600, "steps": 30},
             thorough={"checks": 20000, "shards": 16, "cap": 2400, "steps": 50}),
        unit("barrier-concurrent", "barrier", ["barrier/c10_state_test.go", "barrier/c10_conc_test.go"], "^TestVerif_C10_BarrierConcurrent$",
             quick={"checks": 1500, "shards": 1, "cap": 600},
             thorough={"checks": 10000, "shards": 16, "cap": 2400},
             flaky_is_violation=True),
        unit("crash-rotation", "vault", ["vault/c10_test.go"], "^TestVerif_C10_CrashInRotation$",
             quick={"checks": 25, "shards": 1, "cap": 900},
             thorough={"checks": 150, "shards": 16, "cap": 3000}),
        unit("namespace-barrier", "vault", ["vault/c10ns_test.go", "vault/c10_test.go"], "^TestVerif_C10_NamespaceBarrier$",
             quick={"checks": 200, "shards": 1, "cap": 900, "steps": 25, "shrinktime": "120s"},
             thorough={"checks": 400, "shards": 16, "cap": 3000, "steps": 50, "shrinktime": "120s"}),
    ],
}
