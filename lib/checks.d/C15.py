CHECK = {
    "level": "exploration",
    "assumptions": [
        "the reference name authoriser (harness/pki/c15_model_test.go) is the most permissive reading of the role documentation (docs/api/secret/pki.mdx, Create/Update role): a name it rejects is authorised by no documented switch",
        "wall-clock tolerance: 2 s around each request plus the documented 30 s default backdate",
        "golang.org/x/net/idna and crypto/x509 parsing are trusted",
    ],
    "units": [
        unit("issue", "pki", ["pki/cx_common_test.go", "pki/c15_model_test.go", "pki/c15_issue_test.go"], "^TestVerif_C15_",
             quick={"checks": 600, "shards": 1, "cap": 600},
             thorough={"checks": 3000, "shards": 16, "cap": 1500},
             floors={"issue": {"issued": 0.05, "refused": 0.05, "nontrivial": 0.05}}),
    ],
}
