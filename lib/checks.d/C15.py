CHECK = {
    "level": "exploration",
    "assumptions": [
        "the reference name authoriser (harness/pki/c15_model_test.go) is the most permissive reading of the role documentation (docs/api/secret/pki.mdx, Create/Update role): a name it rejects is authorised by no documented switch",
        "wall-clock tolerance: 2 s around each request plus the documented 30 s default backdate",
        "golang.org/x/net/idna and crypto/x509 parsing are trusted",
        "issuer-schedules unit: requests are interleaved at the granularity of physical storage operations (verifx.Sched, scheduling points before and after each operation); the issuer configuration in force after concurrent acknowledged updates is any value reachable by some linearisation of them (PATCH changes only the fields it names)",
    ],
    "units": [
        unit("issue", "pki", ["pki/cx_common_test.go", "pki/c15_model_test.go", "pki/c15_issue_test.go", "pki/c15_schedules_test.go"], "^TestVerif_C15_Issue$",
             quick={"checks": 1500, "shards": 1, "cap": 600},
             thorough={"checks": 25000, "shards": 16, "cap": 1500},
             floors={"issue": {"issued": 0.05, "refused": 0.05, "nontrivial": 0.05, "role-patches": 0.05,
                               "role-patches-on-cidr-role-not-naming-the-cidrs": 0.02, "request-ip-san-outside-role-cidrs": 0.005,
                               "ttl-limited:in-clamp-window:refused": 0.003,
                               "request-other-san-outside-role-among-admitted-ones": 0.01, "request-with-several-other-sans": 0.03}},
             # serial numbers and generated keys come from crypto/rand and the seen-serial set lives as long as the
             # memoised mount, so a serial collision need not recur when rapid re-runs the case; every verdict is a
             # deterministic fact about the certificate actually returned, so it still counts.
             flaky_is_violation=True),
        unit("issuer-schedules", "pki", ["pki/cx_common_test.go", "pki/c15_model_test.go", "pki/c15_issue_test.go", "pki/c15_schedules_test.go"], "^TestVerif_C15_IssuerSchedules$",
             quick={"checks": 100, "shards": 1, "cap": 600},
             thorough={"checks": 300, "shards": 16, "cap": 1500},
             floors={"issuer-schedules": {"interleaved-updates-one-naming-the-behaviour-one-not": 0.15}},
             # issuer ids are random and the code lists issuers in map order, so the k-th storage operation of a request
             # need not be the same operation when rapid re-runs a case; every verdict is a fact about a certificate
             # actually returned after acknowledged requests, so an unreproduced failure still counts.
             flaky_is_violation=True),
    ],
}
