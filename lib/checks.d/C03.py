CHECK = {
    "level": "exploration",
    "assumptions": [
        "the reference evaluator in harness/policy/c03_ref_test.go is a faithful reading of website/content/docs/concepts/policies.mdx (plus community/rfcs/acl-paginated-lists.mdx and release notes 2.6.0 for pagination)",
        "literal path segments contain neither '+' nor '*' (documented input domain); no leading '/', no legacy `policy = \"...\"` form, no control groups / MFA / templating",
        "details the documentation does not fix (merging of parameter constraints and pagination limits across stanzas, parameter constraints on delete/list/scan, max_wrapping_ttl without wrapping, non-numeric limit) are not asserted against the reference, only against order independence / monotonicity / isolation",
        "pinned reading (coordinator decision): for list/scan on a path with trailing slash the lookup order exact(path) > exact(path without slash) > non-exact(path) > non-exact(path without slash) is asserted for decisions and Capabilities(), i.e. 'an exact match wins over any glob/wildcard match' also holds in the fallback (policies.mdx priority note + comment in acl.go)",
        "a policy of namespace ns1/ with path P governs requests to ns1/P; the root policy covers its namespace and the descendants (DESIGN.md; the docs do not spell this out)",
    ],
    "units": [
        unit("acl", "policy", ["policy/c03_ref_test.go", "policy/c03_prop_test.go", "policy/c03_small_test.go"],
             "^TestVerif_C03_(ACL|SmallScope|Root)$",
             quick={"checks": 20000, "shards": 1, "cap": 600},
             thorough={"checks": 200000, "shards": 16, "cap": 2400},
             # the reference decision is a pure function of the recorded policies and request; a recorded disagreement
             # that rapid cannot re-trigger means the implementation's decision is not a function of its inputs (e.g.
             # it follows map iteration order), which is a violation in itself
             flaky_is_violation=True,
             fuzz=[dict(name="FuzzVerif_C03_ACL", seconds=240)]),
        # ACLs built from the same cached *Policy objects must not influence each other
        unit("isolation", "policy", ["policy/c03_ref_test.go", "policy/c03_prop_test.go", "policy/c03_isolation_test.go"],
             "^TestVerif_C03_Isolation$",
             quick={"checks": 3000, "shards": 1, "cap": 300},
             thorough={"checks": 30000, "shards": 2, "cap": 600}),
        # the capability report of the running server (sys/capabilities*) agrees with the reference and with what is permitted
        unit("capabilities-api", "vault", ["vault/c03api_test.go", "vault/c02_test.go"], "^TestVerif_C03_CapabilitiesAPI$",
             quick={"checks": 120, "shards": 1, "cap": 600},
             thorough={"checks": 600, "shards": 16, "cap": 2400}),
    ],
}
