CHECK = {
    "level": "exploration",
    "assumptions": [
        "the reference evaluator in harness/policy/c03_ref_test.go is a faithful reading of website/content/docs/concepts/policies.mdx (plus community/rfcs/acl-paginated-lists.mdx for pagination)",
        "literal path segments contain neither '+' nor '*' (documented input domain)",
        "details the documentation does not fix (list/scan fallback consultation order, merging of parameter constraints and pagination limits across stanzas, parameter constraints on delete/list/scan, max_wrapping_ttl without wrapping) are not asserted against the reference, only against order independence / monotonicity",
    ],
    "units": [
        unit("acl", "policy", ["policy/c03_ref_test.go", "policy/c03_prop_test.go", "policy/c03_scratch_test.go"], "^TestVerif_C03_",
             quick={"checks": 20000, "shards": 1, "cap": 600},
             thorough={"checks": 200000, "shards": 16, "cap": 2400},
             fuzz=[dict(name="FuzzVerif_C03_ACL", seconds=240)]),
    ],
}
