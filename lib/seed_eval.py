#!/usr/bin/env python3
"""Confirms a seeded change (from /tmp/seed/<ID>-out/<variant>) and runs the property's check against it.

  lib/seed_eval.py <ID> <variant> [--tier quick|thorough] [--skip-demo] [--also ID2,ID3]

1. copies patch.diff / demo / meta into /verif/seeded/<ID>-<variant>/
2. scratch worktree of /repo HEAD: demo must PASS without the patch and FAIL with it
3. the check(s) run against the patched worktree (VERIF_REPO); result recorded in meta.json
The scratch worktree and its build output are removed afterwards."""
import json, os, re, shutil, subprocess, sys, time, hashlib

VERIF = os.path.dirname(os.path.dirname(os.path.abspath(__file__)))
GOENV = dict(os.environ, PATH="/opt/veriftools/go1.27.0/bin:" + os.environ["PATH"], GOFLAGS="-mod=mod", GOPROXY="off", GOSUMDB="off", GOTOOLCHAIN="local")


def sh(cmd, cwd=None, env=None, timeout=3600):
    p = subprocess.run(cmd, shell=True, cwd=cwd, env=env or GOENV, stdout=subprocess.PIPE, stderr=subprocess.STDOUT, text=True, timeout=timeout)
    return p.returncode, p.stdout


def main():
    pid, variant = sys.argv[1], sys.argv[2]
    tier = "quick"
    skip_demo = "--skip-demo" in sys.argv
    also = []
    for i, a in enumerate(sys.argv):
        if a == "--tier":
            tier = sys.argv[i + 1]
        if a == "--also":
            also = sys.argv[i + 1].split(",")
    src = "/tmp/seed/%s-out/%s" % (pid, variant)
    name = "%s-%s" % (pid, variant)
    dst = os.path.join(VERIF, "seeded", name)
    os.makedirs(dst, exist_ok=True)
    for f in os.listdir(src):
        if f.endswith(".log"):
            continue
        if f == "meta.json":
            # the sub-agent's own description is kept separately; meta.json is ours and accumulates results
            shutil.copy(os.path.join(src, f), os.path.join(dst, "agent_meta.json"))
            continue
        if os.path.isdir(os.path.join(src, f)):
            shutil.copytree(os.path.join(src, f), os.path.join(dst, f), dirs_exist_ok=True)
        else:
            shutil.copy(os.path.join(src, f), os.path.join(dst, f))
    agent_meta = {}
    try:
        agent_meta = json.load(open(os.path.join(src, "meta.json")))
    except Exception as e:
        agent_meta = {"meta_error": str(e)}
    wt = "/tmp/seedchk-%s" % name
    sh("git -C /repo worktree remove --force %s" % wt)
    shutil.rmtree(wt, ignore_errors=True)
    rc, out = sh("git -C /repo worktree add -q --detach %s HEAD" % wt)
    if rc != 0:
        print(out)
        return 2
    result = {"property": pid, "variant": variant, "repo_head": sh("git -C /repo rev-parse --short HEAD")[1].strip(), "confirmed_at": time.strftime("%Y-%m-%d %H:%M:%S")}
    try:
        demo = None
        for f in sorted(os.listdir(dst)):
            if f.endswith("_test.go"):
                demo = os.path.join(dst, f)
        dest_rel, cmd, cwd_rel = None, None, ""
        if demo:
            head = open(demo).read()[:6000]
            m = re.search(r"(go test [^\n]*)", head)
            if m:
                cmd = m.group(1).strip().rstrip("`").strip()
            m = re.search(r"[Cc]opy (?:this file )?(?:in)?to:?\s+`?([\w./-]+_test\.go)", head)
            if m:
                dest_rel = m.group(1)
            if cmd:
                pm = re.search(r"(\./[\w./-]+)", cmd)
                pkg = pm.group(1) if pm else None
                if pkg:
                    if not os.path.isdir(os.path.join(wt, pkg)) and os.path.isdir(os.path.join(wt, "sdk", pkg)):
                        cwd_rel = "sdk"
                    if not dest_rel:
                        dest_rel = os.path.normpath(os.path.join(cwd_rel, pkg, "zz_seed_demo_%s_test.go" % name.lower().replace("-", "")))
        result["demo_dest"], result["demo_cmd"], result["demo_cwd"] = dest_rel, cmd, cwd_rel or "."
        if not skip_demo and demo and dest_rel and cmd:
            dpath = os.path.join(wt, dest_rel)
            shutil.copy(demo, dpath)
            rc0, out0 = sh(cmd, cwd=os.path.join(wt, cwd_rel))
            result["demo_without_change"] = "PASS" if rc0 == 0 else "FAIL(rc=%d)" % rc0
            if rc0 != 0:
                result["demo_without_change_tail"] = out0[-1500:]
        rc, out = sh("git apply --whitespace=nowarn %s" % os.path.join(dst, "patch.diff"), cwd=wt)
        if rc != 0:
            rc, out = sh("git apply --3way --whitespace=nowarn %s" % os.path.join(dst, "patch.diff"), cwd=wt)
        result["patch_applies"] = rc == 0
        if rc != 0:
            result["patch_error"] = out[-1500:]
            return 2
        rc, out = sh("go build ./... 2>&1 | tail -5", cwd=wt)
        if not skip_demo and demo and dest_rel and cmd:
            rc1, out1 = sh(cmd, cwd=os.path.join(wt, cwd_rel))
            builderr = "build failed" in out1 or "[build failed]" in out1
            result["demo_with_change"] = ("FAIL" if rc1 != 0 and not builderr else ("BUILD-ERROR" if builderr else "PASS"))
            result["demo_with_change_tail"] = out1[-1200:]
            os.remove(os.path.join(wt, dest_rel))
        # run the checks against the patched tree
        result["checks"] = {}
        for cid in ([] if "--demo-only" in sys.argv else [pid] + also):
            env = dict(os.environ, VERIF_REPO=wt, VERIF_SEED=os.environ.get("VERIF_SEED", "0"))
            t0 = time.time()
            p = subprocess.run([os.path.join(VERIF, "check"), cid, "--tier", tier, "--no-evidence"], cwd=VERIF, env=env, stdout=subprocess.PIPE, stderr=subprocess.STDOUT, text=True, timeout=7200)
            lines = [l for l in p.stdout.splitlines() if l.startswith(("VIOLATION", "violation detail", "OK ", "CHECK-ERROR", "KNOWN-FINDING"))]
            vio = [l for l in lines if l.startswith("violation detail")]
            sig = None
            rp = re.search(r"VIOLATION property=\S+ replay=(\S+)", p.stdout)
            if rp and os.path.exists(rp.group(1)):
                try:
                    sig = json.load(open(rp.group(1))).get("signature")
                    shutil.copy(rp.group(1), os.path.join(dst, "found_by_%s_%s.json" % (cid, tier)))
                except Exception:
                    pass
            result["checks"][cid + ":" + tier] = {"exit": p.returncode, "caught": p.returncode == 1, "signature": sig, "wall_s": round(time.time() - t0, 1),
                                                   "violation": (vio[0][:600] if vio else None), "summary": [l[:300] for l in lines if not l.startswith("KNOWN")][:6]}
            print(name, cid, tier, "exit", p.returncode, "sig", sig, "%.0fs" % (time.time() - t0), flush=True)
    finally:
        sh("git -C /repo worktree remove --force %s" % wt)
        shutil.rmtree(wt, ignore_errors=True)
        # remove binaries built for this worktree
        tag = hashlib.sha1(wt.encode()).hexdigest()[:6]
        for f in os.listdir(os.path.join(VERIF, "build", "bin")) if os.path.isdir(os.path.join(VERIF, "build", "bin")) else []:
            if tag in f:
                os.remove(os.path.join(VERIF, "build", "bin", f))
        for f in os.listdir(os.path.join(VERIF, "build")):
            if f.startswith("overlay-") and tag in f:
                os.remove(os.path.join(VERIF, "build", f))
    meta = {"property": pid, "variant": variant, "breaks": agent_meta.get("summary"), "needs_to_manifest": agent_meta.get("needs_to_manifest"),
            "files_changed": agent_meta.get("files_changed"), "agent_reported": {k: agent_meta.get(k) for k in ("existing_tests_cmd", "existing_tests_result_with_change", "existing_tests_result_without_change", "demo_cmd", "demo_with_change", "demo_without_change")},
            "confirmed_by_lead": result}
    old = {}
    mp = os.path.join(dst, "meta.json")
    try:
        old = json.load(open(mp))
        if "confirmed_by_lead" in old and "checks" in old["confirmed_by_lead"]:
            prev = old["confirmed_by_lead"]["checks"]
            prev.update(result.get("checks", {}))
            result["checks"] = prev
        if "confirmed_by_lead" in old and skip_demo:
            for k in ("demo_dest", "demo_cmd", "demo_cwd", "demo_without_change", "demo_with_change", "demo_with_change_tail"):
                if old["confirmed_by_lead"].get(k) is not None:
                    result[k] = old["confirmed_by_lead"][k]
    except Exception:
        pass
    json.dump(meta, open(mp, "w"), indent=1)
    print(json.dumps({k: v for k, v in result.items() if k != "demo_with_change_tail"}, indent=1)[:3000])
    return 0


if __name__ == "__main__":
    sys.exit(main())
