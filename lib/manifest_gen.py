#!/usr/bin/env python3
"""Regenerates /verif/MANIFEST.json from lib/manifest_table.py (one place to edit)."""
import json, os, sys
HERE = os.path.dirname(os.path.abspath(__file__))
sys.path.insert(0, HERE)
from manifest_table import CLAIMS, NOT_APPLICABLE  # noqa
VERIF = os.path.dirname(HERE)
props = [json.loads(l) for l in open(os.path.join(VERIF, "properties.jsonl"))]
ids = [p["id"] for p in props]
checks = []
for pid in ids:
    if pid not in CLAIMS:
        continue
    c = CLAIMS[pid]
    checks.append({
        "property_id": pid,
        "quick_cmd": "./check %s --tier quick" % pid,
        "thorough_cmd": "./check %s --tier thorough" % pid,
        "evidence_file": "evidence/%s.json" % pid,
        "replay_cmd_template": "./check %s --replay {path}" % pid,
        "engine": "check",
        "level_claimed": {"category": c["category"], "text": c["text"], "design_ref": "DESIGN.md §2 " + pid},
        "level_note": c["note"],
        "technique": c["technique"],
    })
na = [{"property_id": pid, "reason": NOT_APPLICABLE.get(pid, "check not built yet (build in progress; planned per DESIGN.md §2)")} for pid in ids if pid not in CLAIMS]
m = {
    "version": 1,
    "setup_cmd": "./check --build-all",
    "hooks": {
        "guard": "verif",
        "enable": "no source hooks in /repo: harness files under /verif/harness carry '//go:build verif' and are compiled into the packages of /repo's working tree with 'go test -c -tags verif -overlay build/overlay-*.json -modfile build/go.mod'",
        "baseline_off_cmd": "for m in $(cat /w/out/gomods.txt); do MF=$(cd /repo/$m && . /w/out/goenv.sh && gomodflag); (cd /repo/$m && go test $MF -json -vet=off -count=1 -timeout 25m ./...); done",
        "source_commits": [],
        "add_only": True,
    },
    "engines": [{"name": "check", "path": "/verif/check", "serves_properties": sorted(CLAIMS), "kind_free_text": "python driver: overlay build of rapid / native-fuzz harnesses into the packages of /repo's working tree, sharding by PRNG value, evidence merge, known-findings handling"}],
    "checks": checks,
    "not_applicable": na,
    "notes": "All checks are property-based tests (pgregory.net/rapid v1.3.0, stateless and state-machine mode) or native Go fuzz targets compiled into /repo's packages by overlay; see DESIGN.md.",
}
json.dump(m, open(os.path.join(VERIF, "MANIFEST.json"), "w"), indent=1)
print("claimed:", len(checks), "not applicable:", len(na))
