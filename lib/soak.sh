#!/bin/bash
# usage: lib/soak.sh <outfile> <seed>...   runs every check's quick tier at the given VERIF_SEED values (no evidence rewrite)
out=$1; shift
cd "$(dirname "$0")/.."
for seed in "$@"; do
  for c in $(python3 -c "import json;print(' '.join(x['property_id'] for x in json.load(open('MANIFEST.json'))['checks']))"); do
    s=$(date +%s)
    VERIF_SEED=$seed ./check $c --tier quick --no-evidence > /tmp/soak_${c}_${seed}.txt 2>&1
    rc=$?
    e=$(( $(date +%s) - s ))
    echo "seed=$seed $c rc=$rc ${e}s $(grep -E '^(OK|VIOLATION|CHECK-ERROR)' /tmp/soak_${c}_${seed}.txt | head -2 | cut -c1-200 | tr '\n' ' ')" >> $out
  done
done
echo "SOAK-DONE $*" >> $out
