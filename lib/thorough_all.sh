#!/bin/bash
# runs every check's thorough tier once (no evidence rewrite) and logs exit code and wall time
out=${1:-/tmp/thorough_all.log}
cd "$(dirname "$0")/.."
for c in $(python3 -c "import json;print(' '.join(x['property_id'] for x in json.load(open('MANIFEST.json'))['checks']))"); do
  s=$(date +%s)
  ./check $c --tier thorough --no-evidence > /tmp/thorough_${c}.txt 2>&1
  rc=$?
  e=$(( $(date +%s) - s ))
  echo "$c rc=$rc ${e}s $(grep -E '^(OK|VIOLATION|CHECK-ERROR)' /tmp/thorough_${c}.txt | head -2 | cut -c1-220 | tr '\n' ' ')" >> $out
done
echo THOROUGH-DONE >> $out
