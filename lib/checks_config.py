"""Static description of the checks: which harness files are compiled into which package of /repo,
which test functions decide which property, and the budgets per tier."""

MAIN = "github.com/openbao/openbao/v2/"
SDK = "github.com/openbao/openbao/sdk/v2/"

# package key -> directory below /repo, import path, harness files always compiled in
PACKAGES = {
    "shamir": {"dir": "sdk/helper/shamir", "import": SDK + "helper/shamir"},
    "policy": {"dir": "internal/vault/policy", "import": MAIN + "internal/vault/policy"},
    "barrier": {"dir": "internal/vault/barrier", "import": MAIN + "internal/vault/barrier"},
    "vault": {"dir": "internal/vault", "import": MAIN + "internal/vault", "common": ["vault/common_test.go"]},
    "raft": {"dir": "internal/physical/raft", "import": MAIN + "internal/physical/raft"},
    "storagex": {"dir": "internal/verif_storagex", "import": MAIN + "internal/verif_storagex"},
    "framework": {"dir": "sdk/framework", "import": SDK + "framework"},
    "audit": {"dir": "internal/audit", "import": MAIN + "internal/audit"},
    "kv": {"dir": "internal/builtin/logical/kv", "import": MAIN + "internal/builtin/logical/kv"},
    "pki": {"dir": "internal/builtin/logical/pki", "import": MAIN + "internal/builtin/logical/pki"},
    "keysutil": {"dir": "sdk/helper/keysutil", "import": SDK + "helper/keysutil"},
    "transit": {"dir": "internal/builtin/logical/transit", "import": MAIN + "internal/builtin/logical/transit"},
}


def unit(name, pkg, files, run, quick, thorough=None, **kw):
    d = {"name": name, "pkg": pkg, "files": files, "run": run, "quick": quick, "thorough": thorough or quick}
    d.update(kw)
    return d


CHECKS = {
    "C20": {
        "level": "exploration",
        "assumptions": ["crypto/rand is uniform (only spread, not uniformity, is tested)",
                        "the reference GF(2^8) (carry-less product mod 0x11b) and reference Lagrange interpolation in the harness are correct"],
        "units": [
            unit("shamir", "shamir", ["shamir/c20_test.go"], "^TestVerif_C20_",
                 quick={"checks": 4000, "shards": 1, "cap": 600},
                 thorough={"checks": 40000, "shards": 8, "cap": 2400},
                 # Split draws from crypto/rand, so a failing case need not fail again when rapid re-runs it;
                 # every oracle is a deterministic fact about the shares actually returned, so it still counts.
                 flaky_is_violation=True),
        ],
    },
    "C19": {
        "level": "exploration",
        "assumptions": ["goroutines the request handler spawns itself and the expiration workers are not gated (they run freely, as in production)"],
        "units": [
            unit("uselimit", "vault", ["vault/c19_test.go"], "^TestVerif_C19_",
                 quick={"checks": 250, "shards": 1, "cap": 900},
                 thorough={"checks": 1500, "shards": 16, "cap": 3000}),
        ],
    },
}
