"""Static description of the checks: which harness files are compiled into which package of /repo,
which test functions decide which property, and the budgets per tier. One file per property in
lib/checks.d/<ID>.py, each defining CHECK (a dict) using the helpers below."""
import glob, os

MAIN = "github.com/openbao/openbao/v2/"
SDK = "github.com/openbao/openbao/sdk/v2/"

# package key -> directory below /repo, import path, harness files always compiled in
PACKAGES = {
    "shamir": {"dir": "sdk/helper/shamir", "import": SDK + "helper/shamir"},
    "policy": {"dir": "internal/vault/policy", "import": MAIN + "internal/vault/policy"},
    "barrier": {"dir": "internal/vault/barrier", "import": MAIN + "internal/vault/barrier"},
    "vault": {"dir": "internal/vault", "import": MAIN + "internal/vault", "common": ["vault/common_test.go"]},
    "raft": {"dir": "internal/physical/raft", "import": MAIN + "internal/physical/raft"},
    "storagex": {"dir": "internal/verif_storagex", "import": MAIN + "internal/verif_storagex"},
    "framework": {"dir": "sdk/framework", "import": SDK + "framework"},
    "audit": {"dir": "internal/audit", "import": MAIN + "internal/audit"},
    "kv": {"dir": "internal/builtin/logical/kv", "import": MAIN + "internal/builtin/logical/kv"},
    "pki": {"dir": "internal/builtin/logical/pki", "import": MAIN + "internal/builtin/logical/pki"},
    "keysutil": {"dir": "sdk/helper/keysutil", "import": SDK + "helper/keysutil"},
    "transit": {"dir": "internal/builtin/logical/transit", "import": MAIN + "internal/builtin/logical/transit"},
    "http": {"dir": "internal/http", "import": MAIN + "internal/http"},
}


def unit(name, pkg, files, run, quick, thorough=None, **kw):
    """name: unit name; pkg: key of PACKAGES; files: harness files relative to /verif/harness;
    run: -test.run regexp; quick/thorough: dict(checks=<rapid checks>, shards=<processes>, cap=<seconds>,
    optional steps=<rapid.steps>, gomaxprocs=N). Extra keywords: fuzz=[dict(name='FuzzX', seconds=N)] (thorough
    tier only), flaky_is_violation=True, no_ulimit=True (bolt/raft map 100 GB), env={...}, thorough_only=True,
    floors={recorder_unit: {class: min_fraction}}."""
    d = {"name": name, "pkg": pkg, "files": files, "run": run, "quick": quick, "thorough": thorough or quick}
    d.update(kw)
    return d


CHECKS = {}
for _f in sorted(glob.glob(os.path.join(os.path.dirname(os.path.abspath(__file__)), "checks.d", "C*.py"))):
    _g = {"unit": unit, "MAIN": MAIN, "SDK": SDK}
    exec(compile(open(_f).read(), _f, "exec"), _g)
    CHECKS[os.path.basename(_f)[:-3]] = _g["CHECK"]
