PBT = "property-based testing (rapid)"
CLAIMS = {
    "C20": dict(category="exploration",
                text="rapid-generated Split/Combine cases against an independent GF(2^8) and Lagrange reference; exhaustive field tables (65536 pairs, all triples in thorough); exhaustive bijection argument for sub-threshold independence (t=2 all x/intercepts, t=3 sampled x pairs x all 65536 coefficient pairs)",
                note="assumes crypto/rand is uniform (only spread is tested); the reference field and interpolation in the harness are trusted; unseal/rekey share counting is exercised in C10",
                technique=PBT + ": round-trip + reference-model differential + exhaustive small-scope enumeration"),
    "C19": dict(category="exploration",
                text="rapid-generated schedules of m>n concurrent requests with one use-limited token on a real in-memory core; the harness owns the interleaving at storage-operation granularity (every registered request goroutine parks before each physical operation); oracle counts handler invocations and token-store successes, checks token death, lease revocation and absence of child tokens; sequential histories check the exact count",
                note="expiration workers and goroutines spawned by the handler run ungated; revocation of the exhausted token is awaited with a bounded wait (timeouts are recorded as inconclusive, never as violations)",
                technique=PBT + ": schedule exploration with a harness-owned storage-step scheduler, invariant over the history"),
}
NOT_APPLICABLE = {}
