PBT = "property-based testing (rapid)"
CLAIMS = {
    "C20": dict(category="exploration",
                text="rapid-generated Split/Combine cases against an independent GF(2^8) and Lagrange reference; exhaustive field tables (65536 pairs, all triples in thorough); exhaustive bijection argument for sub-threshold independence (t=2 all x/intercepts, t=3 sampled x pairs x all 65536 coefficient pairs)",
                note="assumes crypto/rand is uniform (only spread is tested); the reference field and interpolation in the harness are trusted; unseal/rekey share counting is exercised in C10",
                technique=PBT + ": round-trip + reference-model differential + exhaustive small-scope enumeration"),
    "C19": dict(category="exploration",
                text="rapid-generated schedules of m>n concurrent requests with one use-limited token on a real in-memory core; the harness owns the interleaving at storage-operation granularity (every registered request goroutine parks before each physical operation); oracle counts handler invocations and token-store successes, checks token death, lease revocation and absence of child tokens; sequential histories check the exact count",
                note="expiration workers and goroutines spawned by the handler run ungated; revocation of the exhausted token is awaited with a bounded wait (timeouts are recorded as inconclusive, never as violations)",
                technique=PBT + ": schedule exploration with a harness-owned storage-step scheduler, invariant over the history"),
}
CLAIMS.update({
    "C04": dict(category="exploration",
                text="three generated searches on a real in-memory core with a recording backend: (a) rapid state-machine histories over a token-forest model (create/orphan, cubbyhole, leases, five revocation routes, restart) probing every token after every step; (b) for generated trees, every storage operation of the revocation request fails once (quick: a spread sample of positions) then retry, and every crash prefix of its writes followed by restart and retry; (c) harness-owned storage-step schedules of tree revocation || child creation || lease issue. Found and fixed two defects (see known_findings.json 'fixed'), records two known findings (create/lease racing a tree revocation)",
                note="leases are judged 'revoked or queued': entry absent, expiry not in the future, irrevocable, or revoked at the recording backend; root namespace only; TTL-lapse revocation is not exercised here (C05); schedules gate only the request goroutines",
                technique=PBT + ": model-based state machine + fault/crash-point enumeration + schedule exploration with a harness-owned scheduler"),
    "C06": dict(category="fault_enumeration",
                text="for nine request shapes (leased secret plain/wrapped/with use-limited token, login plain/wrapped through a recording credential backend, token create plain/role/orphan/wrapped) every storage operation of the request fails once (quick: <=16 spread positions per shape, thorough: all), and every crash prefix of its writes is restarted; oracle over storage and the recording backend: handed-out secret => lease + token index, handed-out token => usable and leased; after an error no usable token without lease, no index without lease / lease without index, every generated secret revoked at the backend or covered by a lease",
                note="single fault per request; after a crash only 'no usable token without a lease' is asserted (nothing was handed out); batch tokens carry no lease and are not judged",
                technique=PBT + ": fault-injection and crash-point enumeration over storage operations with an invariant oracle"),
    "C05": dict(category="exploration",
                text="framework level: CalculateTTL over the full lattice of increment/backend TTL/period/backend max/explicit max/system max/elapsed time, bracketed by clock readings so 'now+ttl <= issue+effMax' is exact; renew sequences (direct and through LeaseExtend) never push the absolute expiry past issue+effMax; whole-server level (unit added separately): lease tracking invariant across restarts",
                note="warning texts and lower bounds are not asserted; the server-level unit covers tracking of stored leases",
                technique=PBT + ": bound oracle over generated inputs and renew sequences"),
    "C11": dict(category="exploration",
                text="audit formatter: generated LogInputs with a fresh canary at every string/[]byte leaf and every token/accessor field, formatted by the real AuditFormatter + JSON writer + salt under all hmac_accessor / non-HMAC-key / elide settings; no canary may appear outside exempted keys, every leaf must equal the documented transform, inputs must be unmodified; broker ordering unit added separately",
                note="integer precision beyond 2^53, warnings/error text/headers are not asserted",
                technique=PBT + ": canary search + exact reference transform + input immutability"),
})
NOT_APPLICABLE = {}
