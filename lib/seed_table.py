#!/usr/bin/env python3
"""Prints the detection table of DESIGN.md §10.7 from /verif/seeded/*/meta.json (latest result per check wins)."""
import json, os, sys, glob
V = os.path.dirname(os.path.dirname(os.path.abspath(__file__)))
rows = []
for d in sorted(glob.glob(os.path.join(V, "seeded", "C*-*"))):
    name = os.path.basename(d)
    try:
        m = json.load(open(os.path.join(d, "meta.json")))
    except Exception:
        rows.append((name, "(not evaluated)", "", ""))
        continue
    res = {}
    first = {}
    cl = m.get("confirmed_by_lead", {})
    for k, v in cl.get("checks", {}).items():
        cid = k.split(":")[0]
        first[cid] = v
        res[cid] = v
    for k, v in cl.get("recheck", {}).get("checks", {}).items():
        res[k.split(":")[0]] = v
    caught = ["%s `%s`" % (c, v.get("signature")) for c, v in res.items() if v.get("caught")]
    missed = [c for c, v in res.items() if not v.get("caught")]
    late = [c for c, v in res.items() if v.get("caught") and c in first and not first[c].get("caught")]
    summ = (m.get("breaks") or "").replace("|", "/").replace("\n", " ")[:230]
    rows.append((name, summ, ", ".join(caught) + (" (after strengthening)" if late else ""), ", ".join(missed) or "-"))
only = sys.argv[1:]
print("| seed | change (sub-agent's summary, abridged) | caught by (quick tier, signature) | missed by |\n|---|---|---|---|")
for r in rows:
    if only and not any(r[0].endswith(s) or r[0].startswith(s) for s in only):
        continue
    print("| %s | %s | %s | %s |" % r)
